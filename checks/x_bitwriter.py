"""Extra stage (beyond the listed properties): json::BitWriter, the incremental bit-vector
builder underneath every JSON/DSV index builder (part of C05's anchored files).
MC_BitWriter: exhaustive refinement of the <<words, cur, pos>> machine at W=4;
Trace_BitWriter: the real writer (W=64) against the abstract append machine."""
import json
import vlib


def stage(ctx, writers=None):
    vlib.model_check(ctx, "MC_BitWriter.tla", "MC_BitWriter.cfg", workers=6, timeout=900)
    b = vlib.harness_bin("xbw")
    tp = ctx.path("trace-bitwriter.ndjson")
    n = writers or (300 if ctx.quick else 5000)
    rc, out, wall = vlib.sh([b, "record", tp, "seed=%d" % ctx.seed, "writers=%d" % n], timeout=600)
    ctx.stage("record bitwriter", wall, **json.loads(out.strip().splitlines()[-1]))
    return vlib.check_trace(ctx, "Trace_BitWriter.tla", "Trace.cfg", tp,
                            lambda e, evs, k: {"component": "BitWriter", "event": e.get("e"), "op": e.get("op", "")},
                            group_key=lambda e: e.get("e") == "new", result_field="len", selftest=True)
