"""C19 — malformed input never crashes the library or the CLI (DESIGN.md §4 C19).

model stage : MC_CallProtocol (every Invoke is followed by exactly one Return(value|error);
              there is no action for panic / abort / exit 101), and the GENERATOR state
              spaces: Mutation.tla (mutation machine over piece lists of valid JSON / YAML /
              DSV documents and a jq program: Truncate, DeletePiece, DuplicatePiece,
              SwapPieces, InsertIndicator, FlipBreak — exhaustive in a small scope, -simulate
              with ctx.seed beyond) and TokenSoup.tla (all strings <= 4 (quick) / 5 over the
              YAML indicator alphabet and the JSON structural alphabet, jq token soups).
replay      : every generated input through every byte-string entry point of the library in
              a supervised worker process (c19 replay): JsonIndex build + traversal in five
              accessor passes + offsets/locate + printing through both evaluators, strict
              JSON validation, SimpleJsonIndex, YamlIndex build + traversal passes + offsets +
              to_json / stream_json / stream_yaml in all layouts + yq evaluation + strict YAML
              validation, DSV in six configurations, four UTF-8 validators, and (valid UTF-8
              only) the four jq parser entry points.  One inv/ret event pair per call.
cli         : a seeded sample of the same inputs through `succinctly jq/yq/json validate/
              yaml validate/text validate utf8/jq-locate/yq-locate` and program strings
              through `jq -n` / `yq -n`, observing exit status / signal.
trace       : Trace_CallProtocol.tla validates the recorded events (all anomalous calls + a
              1-in-k sample of the rest): a panic (-2), exit status 101 or a signal (-3) is
              not a behaviour of CallProtocol.

Interpretation decisions (weaker reading where the statement is silent):
 * "every byte string" is explored as: exhaustive short strings over the indicator alphabets,
   mutation sequences of valid documents (with hostile bytes: NUL, 0xFF, truncated UTF-8, BOM,
   NEL) — not uniformly random bytes.
 * only ARGUMENTS a traversal of the input would use are passed (offsets 0..=len, row / column
   numbers up to count+1): out-of-range arguments are not "malformed input".
 * the jq parser takes &str, so only valid UTF-8 program strings are in its domain.
 * the documented deliberate depth-limit panics ("nesting depth exceeds limit of N":
   MAX_NESTING_DEPTH / MAX_VALUE_TREE_DEPTH / MAX_ALIAS_CHAIN_DEPTH, docs/compliance/yaml/
   limitations.md) are counted as `documented_limit`, never reported; generated inputs nest
   < 100 levels anyway.
 * a wall-clock overrun (worker 30 s per batch, CLI 10 s per run) is inconclusive: counted,
   never a violation.  An allocation failure for a size < 2^47 bytes under the worker's
   8 GiB address-space limit is inconclusive as well (could be a legitimate request).
 * error positions: only 0 <= offset <= len, line/column >= 1, line <= breaks-before-offset+1,
   column <= offset+1 are demanded (what the Position types document); exact positions are
   C08/C13.
 * out-of-bounds accesses inside `unsafe` code that do not trap are invisible here (Miri/ASan
   would be a different technique): not claimed.
"""
import json
import os
import re
import vlib

LEVEL = "exploration"

TRACE_TLA = "Trace_CallProtocol.tla"


def decode_replay(res):
    pre = len('<<"REPLAY", ')
    return [json.loads(json.loads(ln[pre:-2])) for ln in res.printed("REPLAY")]


def generate(ctx, tla, cfg, simulate=None, depth=None, timeout=3000, workers=4):
    """Run a generator spec; returns the list of behaviours (deduplicated for -simulate)."""
    # -simulate: one worker, so the walk (RandomElement, seeded by -seed) is reproducible
    res = vlib.tlc(ctx, tla, cfg, workers=1 if simulate else workers, timeout=timeout, simulate=simulate, depth=depth,
                   seed=(ctx.seed % 2000000000) if simulate else None)
    if res.violated or "Error:" in res.out:
        raise vlib.ToolError("generator %s/%s failed:\n%s" % (tla, cfg, res.out[-3000:]))
    if not simulate and not res.completed:
        raise vlib.ToolError("generator %s/%s did not complete:\n%s" % (tla, cfg, res.out[-3000:]))
    beh = decode_replay(res)
    if simulate:
        seen, out = set(), []
        for b in beh:
            k = json.dumps(b, sort_keys=True)
            if k not in seen:
                seen.add(k)
                out.append(b)
        beh = out
    else:
        ctx.cov["states"] = ctx.cov.get("states", 0) + res.distinct
        ctx.cov["transitions"] = ctx.cov.get("transitions", 0) + res.generated
    if not beh:
        raise vlib.ToolError("generator %s/%s printed no behaviour:\n%s" % (tla, cfg, res.out[-2000:]))
    ctx.stage("generate %s/%s%s" % (tla, cfg, " -simulate " + simulate if simulate else ""), res.wall,
              behaviours=len(beh), states=res.distinct)
    return beh


def generic_loc(loc):
    """A location that does not identify the call site in /repo: a panic raised inside the
    standard library (`library/alloc/...: capacity overflow`) or a process death."""
    return not loc.startswith("src/")


def msg_class(m):
    """Panic message with the data taken out: digits are already '#'; quoted / back-quoted
    fragments (they echo the input) are blanked; cut at 70 chars."""
    m = re.sub(r"`[^`]*`?", "_", m or "")
    m = re.sub(r"'[^']*'", "'_'", m)
    return m.strip()[:70]


def make_sig_of(by_key, shape_of):
    """Signature of a rejected event: entry-point group + outcome + source FILE of the panic +
    class of the panic message (line numbers shift with every unrelated commit, so the line
    is reported in the text, not matched); when the location is generic (inside the standard
    library, or a process death), the shape of the input too."""
    def sig_of(e, events=None, k=None):
        api = e.get("api", "")
        group = "cli" if api.startswith("cli:") else api.split(".")[0]
        if e.get("e") == "ret":
            r = e.get("r")
            if r in (-2, -3):
                loc = e.get("loc", "")
                sig = {"group": group, "api": api, "outcome": "panic" if r == -2 else "abort",
                       "file": loc.rsplit(":", 1)[0] if ":" in loc else loc}
                if r == -2:
                    sig["msg"] = msg_class(e.get("msg", ""))
                if generic_loc(loc):
                    sig["shape"] = shape_of(api, by_key.get((e.get("id"), api), {}))
                return sig
            return {"group": group, "api": api, "outcome": "protocol_or_position", "r": r}
        return {"group": group, "api": api, "outcome": "unanswered_invoke"}
    return sig_of


def shape_c19(api, anomaly):
    return api


def triage_and_validate(ctx, trace_path, anomalies_path, label, selftest, shape_of=shape_c19):
    """Known findings are suppressed (inv/ret pair removed, KNOWN-FINDING printed); everything
    else goes to TLC: an unlisted crash is rejected by Trace_CallProtocol -> VIOLATION."""
    events = vlib.read_ndjson(trace_path)
    anomalies = vlib.read_ndjson(anomalies_path) if os.path.exists(anomalies_path) else []
    by_key = {}
    for a in anomalies:
        if a.get("kind") in ("panic", "abort"):
            by_key.setdefault((a["id"], a["api"]), a)
    sig_of = make_sig_of(by_key, shape_of)
    drop = set()
    for i, e in enumerate(events):
        if e.get("e") == "ret" and e.get("r", 0) < 0:
            sig = sig_of(e)
            if vlib.known_match(ctx.prop, sig) is not None:
                ctx.report(sig, "")
                drop.add(i)
                drop.add(i - 1)
    kept = [e for i, e in enumerate(events) if i not in drop]
    p = ctx.path("trace-%s-validated.ndjson" % label)
    vlib.write_ndjson(p, kept)
    n = vlib.check_trace(ctx, TRACE_TLA, "Trace.cfg", p, sig_of, group_key=lambda e: e.get("e") == "inv",
                         timeout=3000, selftest=selftest)
    # list every other distinct unlisted crash as well (TLC stops at the first)
    seen = set(json.dumps(v["sig"], sort_keys=True) for v in ctx.violations)
    for e in kept:
        if e.get("e") == "ret" and e.get("r", 0) < 0:
            sig = sig_of(e)
            key = json.dumps(sig, sort_keys=True)
            if key in seen:
                continue
            seen.add(key)
            a = by_key.get((e["id"], e["api"]), {})
            ctx.report(sig, "%s crashed at %s: %s  input=%r" % (e["api"], e.get("loc"), str(a.get("msg", e.get("msg")))[:300],
                                                          (a.get("text") or a.get("prog") or "")[:200]),
                       replay_events=[e, a])
    # the first violation's replay file only has the events: add the input
    for v in ctx.violations:
        if v["replay"].endswith(".ndjson"):
            evs = vlib.read_ndjson(v["replay"])
            extra = [by_key[(x["id"], x["api"])] for x in evs if x.get("e") == "ret" and (x.get("id"), x.get("api")) in by_key]
            if extra and not any("hex" in x or "prog" in x for x in evs):
                vlib.write_ndjson(v["replay"], evs + extra)
    return n, len(drop) // 2


def run(ctx):
    q = ctx.quick
    # ---------------- model stage: the protocol itself
    vlib.model_check(ctx, "MC_CallProtocol.tla", "MC_CallProtocol.cfg", workers=2, timeout=600)

    # ---------------- generator state spaces
    inputs = []
    inputs += generate(ctx, "TokenSoup.tla", "TokenSoup_yaml4.cfg" if q else "TokenSoup_yaml5.cfg")
    inputs += generate(ctx, "TokenSoup.tla", "TokenSoup_json4.cfg" if q else "TokenSoup_json5.cfg")
    inputs += generate(ctx, "TokenSoup.tla", "TokenSoup_jq2.cfg" if q else "TokenSoup_jq3.cfg")
    inputs += generate(ctx, "Mutation.tla", "Mutation_d1.cfg")
    inputs += generate(ctx, "Mutation.tla", "Mutation_d2tiny.cfg" if q else "Mutation_d2small.cfg")
    if not q:
        inputs += generate(ctx, "Mutation.tla", "Mutation_d2mid.cfg")
    nsim = 500 if q else 8000
    inputs += generate(ctx, "Mutation.tla", "Mutation_sim.cfg", simulate="num=%d" % nsim, depth=7)
    inputs += generate(ctx, "TokenSoup.tla", "TokenSoup_jq_sim.cfg", simulate="num=%d" % (nsim * 2), depth=10)
    inputs += generate(ctx, "TokenSoup.tla", "TokenSoup_yaml_sim.cfg", simulate="num=%d" % nsim, depth=13)
    inputs += generate(ctx, "TokenSoup.tla", "TokenSoup_json_sim.cfg", simulate="num=%d" % nsim, depth=13)
    ip = ctx.path("inputs.ndjson")
    vlib.write_ndjson(ip, inputs)
    fams = {}
    for b in inputs:
        fams[b["fam"]] = fams.get(b["fam"], 0) + 1
    ctx.cov["inputs_by_family"] = fams

    # ---------------- spec -> impl: replay in a supervised worker
    b = vlib.harness_bin("c19")
    tp, ap = ctx.path("trace-lib.ndjson"), ctx.path("anomalies-lib.ndjson")
    rc, out, wall = vlib.sh([b, "replay", ip, tp, "anomalies=" + ap, "cap=%d" % (50000 if q else 300000),
                             "threads=4", "seed=%d" % ctx.seed], timeout=6000)
    st = json.loads(out.strip().splitlines()[-1])
    per_api = st.pop("per_api")
    ctx.stage("replay (library, supervised worker)", wall, **st)
    ctx.cov["library_calls_by_api"] = per_api
    for k in ("yaml_built", "json_valid", "yaml_valid", "jq_parsed"):
        if st[k] < 2:
            raise vlib.ToolError("generators are vacuous: %s = %d" % (k, st[k]))
    n_lib, known_lib = triage_and_validate(ctx, tp, ap, "lib", selftest=True)

    if ctx.violations:
        return          # already decided; the CLI stage (a second, long build) adds nothing

    # ---------------- the CLI
    cli = vlib.cli_bin()
    tc, ac = ctx.path("trace-cli.ndjson"), ctx.path("anomalies-cli.ndjson")
    rc, out, wall = vlib.sh([b, "cli", ip, tc, "cli=" + cli, "anomalies=" + ac, "max=%d" % (100 if q else 600), "cmds=%d" % (5 if q else 8), "threads=4",
                             "seed=%d" % ctx.seed, "tmp=" + ctx.work], timeout=6000)
    sc = json.loads(out.strip().splitlines()[-1])
    per_cmd = sc.pop("per_cmd")
    ctx.stage("replay (CLI)", wall, **sc)
    ctx.cov["cli_runs_by_command"] = per_cmd
    n_cli, known_cli = triage_and_validate(ctx, tc, ac, "cli", selftest=False)

    # ---------------- evidence
    ctx.cov["evaluations"] = st["calls"] + sc["runs"]
    ctx.cov["rule"] = ("one evaluation = one guarded library call (api x input) in the supervised worker, or one CLI run; "
                       "distinct_nontrivial = distinct generated inputs; TLC validates all anomalous calls and a 1-in-%d "
                       "sample of the others (%d library + %d CLI events)" % (st["sample_every"], n_lib, n_cli))
    ctx.cov["distinct_nontrivial"] = len(set(json.dumps(b["p"]) + b["fam"] for b in inputs))
    ctx.cov["inconclusive"] = st["inconclusive"] + sc["inconclusive"]
    ctx.cov["documented_limit_panics"] = st["documented_limit"]
    ctx.cov["known_finding_calls"] = known_lib + known_cli
    for b_ in inputs[1000:1003] + inputs[-2:]:
        ctx.sample(b_)
    ctx.assumptions += [
        "inputs: exhaustive short token soups, mutation sequences of seed documents (depth <= 2 exhaustive on small seeds, "
        "simulated to depth 6), not uniformly random bytes; nesting depth < 100",
        "a crash is observed as a caught unwind (-2), CLI exit status 101, or death of the worker/CLI process by signal; "
        "non-trapping out-of-bounds accesses in unsafe code are invisible (would need Miri/ASan)",
        "documented depth-limit panics ('nesting depth exceeds limit of N') are counted, not reported",
        "timeouts and refused allocations < 2^47 bytes are inconclusive (counted in coverage.inconclusive)",
    ]


# MUTANTS (scratch worktree /tmp/wt-c19 = HEAD + the four hooks/FIX-*.patch, then all mutants
# at once -- each has its own panic location / signature, so one `VERIF_REPO=/tmp/wt-c19 ./check C19`
# run shows each of them separately; quick tier, exit 1; with the fixes applied no KNOWN-FINDING
# signature of the unchanged tree fired any more, except where noted):
#  M1 src/yaml/light.rs decode_double_quoted: bounds check `if i + 4 >= bytes.len()` for a truncated
#     `\u` escape removed            -> CAUGHT  yaml.as_str panic at light.rs:5258 on `"\u"` (mutation d2tiny)
#  M2 src/dsv/cursor.rs current_field: `.unwrap_or(self.text.len())` -> `len + 1` when the text ends
#     with a quote (index without bounds check) -> CAUGHT  dsv.csv panic at cursor.rs:123 (TLC rejection, event 56)
#  M3 src/jq/parser.rs string literal: backslash at end of input `None => Err(unterminated)` ->
#     `self.peek().unwrap()`            -> CAUGHT  jq.parse panic at parser.rs:579 on the token soup `"\`
#  M4 src/json/light.rs decode_escapes: surrogate look-ahead guard `i + 6 < bytes.len()` removed
#                                        -> CAUGHT  json.as_str `index out of bounds` at light.rs:1431 on a document
#     truncated after `\ud83d` (mutation d1).  Lesson: its second symptom (`range end index`) had the
#     same file+message class as the known raw_bytes finding and was absorbed by it; signatures now carry
#     the api (json.raw_strings vs json.as_str) as well.
#  The three known findings of the unchanged tree (jq parser peek_str, JsonString::raw_bytes,
#  stream_yaml flow mapping) are themselves "natural mutants": found by the first run of the check.
