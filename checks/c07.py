"""C07 — JSON interest-bit rank/select and node positions are exact (DESIGN.md §4 C07).

model stage : MC_IbIndex — for every interest-bit vector of <= 4 (thorough 5) words of W=3 bits, every
              logical length in the last word, every k in 0..ones+1 and every hint in 0..words+3:
              the arm-by-arm transcription (IbIndexImpl) of ib_select1_from's galloping search equals
              Select(k), its [lo,hi] bracket holds the answer word, it terminates within a logarithmic
              number of probes; ib_select1 / ib_rank1 / the cursor_at_offset index computation and the
              position-list evaluation used by the traces equal the BitSeq definitions.
trace stage : real JsonIndex over generated valid documents and arbitrary byte strings (dense `[[[[`,
              sparse long strings, closes-before-opens, mutated documents), plus from_parts-rebuilt
              indexes (owned, borrowed, zero-padded, shortened ib_len = stray bits): ib_rank1,
              ib_select1, ib_select1_from with hints 0..=words+10 and far/huge hints, text_position
              of every node, cursor_at_offset for every offset of small inputs and boundary offsets
              of large ones, cursor_at_position through the harness's own line table.

Interpretation decisions (no false alarms):
 * ib_rank1 is not clamped to ib_len by the code and the statement only says "agree with the interest
   bits": ranks past the end are required to equal the total only when no stray bits exist; with
   stray bits (from_parts with a shortened ib_len) rank is queried at positions <= ib_len only.
 * cursor_at_offset / cursor_at_position are queried only on inputs where every node exists in the
   BP tree (bp.rank1(bp.len()) == #interest bits).  JsonIndex::build sets bp_len = 2 * opens, so byte
   strings with more closing than opening brackets lose trailing opens — such inputs are not JSON
   texts and the statement's node clause is read as applying to existing nodes (rank/select/hint
   clauses are still checked on them).
 * line/column: only pairs equivalent to an in-range offset, plus pairs the documented contract maps
   to None (line/column 0, line past the end, offset past the end).  Columns that overflow usize
   arithmetic are not probed (the statement speaks of "the equivalent line/column pair").
"""
import hashlib
import json
import os
import vlib

LEVEL = "model_checking"


def sig_of(e, events, k):
    if e.get("e") == "build":
        return {"event": "build", "variant": e.get("variant"), "panic": e.get("r") == -2}
    return {"event": "q", "op": e.get("op"), "k_ge_2p32": e.get("w32") == 1, "panic": e.get("r") == -2}


def run(ctx):
    q = ctx.quick
    if not os.environ.get("VERIF_DEV_SKIP_MODEL"):   # development only (mutation runs): the model stage does not depend on /repo
        vlib.model_check(ctx, "MC_IbIndex.tla", "MC_IbIndex_quick.cfg" if q else "MC_IbIndex_thorough.cfg",
                         workers=6 if q else 8, timeout=3000)
    b = vlib.harness_bin("c07")
    tp = ctx.path("trace.ndjson")
    docs, maxbytes, large = (120, 3000, 20000) if q else (900, 20000, 300000)
    rc, out, wall = vlib.sh([b, "record", tp, "seed=%d" % ctx.seed, "docs=%d" % docs, "maxbytes=%d" % maxbytes,
                             "large=%d" % large], timeout=900)
    stats = json.loads(out.strip().splitlines()[-1])
    ctx.stage("record", wall, **stats)
    n = vlib.check_trace(ctx, "Trace_IbIndex.tla", "Trace.cfg", tp, sig_of,
                         group_key=lambda e: e.get("e") == "build", timeout=3000, xmx="8g")
    variants = {}
    shown = 0
    with open(tp) as f:
        for ln in f:
            if ln.startswith('{"e":"build"'):
                e = json.loads(ln)
                key = e["kind"] + "/" + e["variant"]
                variants[key] = variants.get(key, 0) + 1
                ctx.note_distinct(("ib", hashlib.sha1(json.dumps([e["ones"], e["len"], e["words"], e["variant"]]).encode()).hexdigest()[:16]))
                if shown < 3 and 2 <= e["r"] <= 8 and "bytes" in e:
                    shown += 1
                    ctx.sample({"build": {k: e[k] for k in ("kind", "variant", "len", "words", "ones", "ls")},
                                "text": bytes(e["bytes"]).decode("latin-1")})
    ctx.cov["evaluations"] = n
    ctx.cov["inputs_by_kind_variant"] = variants
    ctx.cov["generator"] = stats
    ctx.cov["rule"] = ("one evaluation = one recorded rank/select/select_from/text_position/cursor_at_offset/"
                       "cursor_at_position call validated by TLC; distinct_nontrivial = number of distinct "
                       "(interest-bit vector, ib_len, word count, construction variant) inputs")
    ctx.assumptions += [
        "scaled word size W=3 stands for 64 in the model stage; the real constant is exercised by traces only",
        "returned cursors are identified by bp().rank1(bp_pos) with is_open(bp_pos) (BalancedParens rank is C04's subject)",
        "cursor_at_offset/position checked only where every node exists in the BP tree (see interpretation note); "
        "inputs skipped for that reason are counted in coverage.generator.inputs_with_cut_opens",
        "line starts come from the harness's own scan, validated by TLC against LineStarts(bytes) for inputs <= 300 bytes",
    ]

# MUTANTS (scratch worktree of /repo, VERIF_REPO=..., quick tier; "caught" = VIOLATION + exit 1):
#  1 light.rs ib_select1_from backward gallop: `next == 0 ||` removed       caught (select_from panics/over-runs: r = -2)
#  2 light.rs hint clamp `n.saturating_sub(1)` -> `n`                        caught (select_from with hint >= words: index panic)
#  3 light.rs cursor_at_offset inside-a-value arm `rank - 1` -> `rank`       caught (cao)
#  4 light.rs forward gallop stop `ib_rank[next+1] > k` -> `>=`              caught (select_from, wrong word)
#  5 light.rs forward bracket `lo = prev` -> `lo = prev + 1`                 not caught: EQUIVALENT (the answer word is always
#    > prev on the forward arm; the model stage's bracket invariant shows the code's bracket is loose by one)
#  6 light.rs backward bracket `hi = prev` -> `hi = prev - 1`                caught (select_from with hint after the answer)
#  7 light.rs ib_rank1 partial-word mask `1 << bit` -> `1 << (bit-1)`        caught (rank)
#  8 light.rs ib_select1_from `result < ib_len` -> `result <= ib_len + 64`   caught (select_from on stray bits / parts-short)
#  9 lines.rs to_offset `+ column - 1` -> `+ column`                         caught (cap: equivalent pair maps elsewhere)
# 10 light.rs cursor_at_offset exact-hit arm only when rank == 0            caught (cao at a node start)
