"""C03 — Elias-Fano exact under any access history (DESIGN.md §4 C03).

model stage : MC_EliasFano — implementation-shaped EliasFanoImpl (scaled W,R,T) refines the
              abstract EliasFano cursor machine for every sequence in scope and every order of
              cursor operations (state graph closed under all operations), plus static answers.
trace stage : real EliasFano/EliasFanoCursor (hooks build: concrete cursor tuple logged through
              EliasFanoCursor::verif_state) validated by Trace_EliasFano.tla with real W=64.

Interpretation: advance_by(k)/seek(j)/cursor_from(j) with huge arguments must behave like the
plain sequence (clamp to exhausted): "all finite operation sequences on cursors".
"""
import json
import vlib

LEVEL = "model_checking"


def sig_of(e, events, k):
    s = {"event": e.get("e"), "op": e.get("op", ""), "panic": e.get("idx") == -2 or e.get("n") == -2 or e.get("ri") == -2}
    if e.get("e") == "c":
        s["huge_arg"] = (e.get("a") == -1)
    return s


def run(ctx):
    q = ctx.quick
    vlib.model_check(ctx, "MC_EliasFano.tla", "MC_EliasFano_quick.cfg" if q else "MC_EliasFano_thorough.cfg",
                     workers=8, timeout=3000)
    b = vlib.harness_bin("c03", ("hooks",))
    tp = ctx.path("trace.ndjson")
    rc, out, wall = vlib.sh([b, "record", tp, "seed=%d" % ctx.seed, "seqs=%d" % (120 if q else 1500),
                             "ops=%d" % (200 if q else 400)], timeout=900)
    ctx.stage("record", wall, **json.loads(out.strip().splitlines()[-1]))
    n = vlib.check_trace(ctx, "Trace_EliasFano.tla", "Trace.cfg", tp, sig_of,
                         group_key=lambda e: e.get("e") == "build", timeout=3000, result_field="idx")
    evs = vlib.read_ndjson(tp)
    hist = 0
    for i, e in enumerate(evs):
        if e["e"] == "build":
            ctx.note_distinct(("seq", json.dumps(e["vals"][:50]), e["n"]))
            hist += 1
            if hist <= 3:
                s = dict(e); s["vals"] = s["vals"][:8]; s["high"] = s["high"][:8]
                ctx.sample({"build": s, "cursor_ops": [x for x in evs[i:i + 120] if x["e"] == "c"][:6]})
    ctx.cov["evaluations"] = n
    ctx.cov["operation_histories"] = hist
    ctx.cov["rule"] = ("one evaluation = one recorded API call validated by TLC against the abstract cursor machine and the "
                       "concrete-cursor invariant; distinct_nontrivial = distinct sequences, each with its own random operation history")
    ctx.assumptions += ["scaled constants (W=4,R=2,T=3) in the model stage; real constants (64,256,64) exercised by traces",
                        "low-bit packing (read_low_bits) is only covered by traces (values compared), not modelled bit by bit"]
