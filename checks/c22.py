"""C22 — CSV/DSV formatting reads back through DSV input (DESIGN.md §4 C22).

model stage : MC_DsvFormat — DsvFormat!RoundTrip (Read(Format(fs,d) o LF, d) = <<fs>>, Read built on
              Dsv!Rows) on every array of <=2 strings of length <=3 and <=3 strings of length <=2 over
              {d, ", CR, LF, space, a} (thorough: more delimiters, and <=3 x <=3 over {d, ", LF, a}).
replay stage: Gen_DsvFormat (TLC simulation mode, seeded) draws arrays of 1..20 strings (length 0..6
              over delimiter, quote, CR, LF, space, comma, tab, backslash, U+0001, non-ASCII incl. an
              astral character; empty strings included) and a delimiter from all printable ASCII
              except the quote; this driver runs the two REAL CLI commands
                  succinctly jq -r '@csv' (or '@dsv("d")')     <  the array as JSON
                  succinctly jq -c --input-dsv d .             <  the printed line
              and Trace_DsvFormat.tla validates  read_back = <<array>>  for every pair.

Interpretation: only the composition is checked — the intermediate text is not fixed by the
statement (how often it equals the spec's Format is recorded as information only).  The first
command's JSON input alternates raw UTF-8 and \\uXXXX escapes; for the comma both `@csv` and
`@dsv(",")` are used.  A non-zero exit status of either command counts as "does not yield the array".
"""
import json
import os
import concurrent.futures
import vlib

LEVEL = "model_checking"


def sig_of(e, events, k):
    fs = e.get("fs", [])
    flat = [c for s in fs for c in s]
    return {"event": "rt", "failed_cmd": e.get("r") == -2,
            "rows_back": e.get("r"),
            "last_string_empty": bool(fs) and fs[-1] == [],
            "has_quote": 34 in flat, "has_lf": 10 in flat, "has_cr": 13 in flat,
            "has_delim": e.get("d") in flat}


def _s(cps):
    return "".join(chr(c) for c in cps)


def run_pair(cli, k, case):
    d = chr(case["d"])
    strings = [_s(s) for s in case["fs"]]
    text = json.dumps(strings, ensure_ascii=(k % 2 == 0))
    if d == "," and k % 3 != 0:
        flt = "@csv"
    else:
        flt = '@dsv("%s")' % ("\\\\" if d == "\\" else d)
    p1 = vlib.subprocess.run([cli, "jq", "-r", flt], input=text.encode("utf-8"), stdout=vlib.subprocess.PIPE,
                             stderr=vlib.subprocess.PIPE, timeout=60)
    ev = {"e": "rt", "d": case["d"], "fmt": flt, "fs": case["fs"], "back": [], "r": -2, "line_as_spec": 0}
    if p1.returncode != 0:
        ev["err"] = "cmd1 rc=%d %s" % (p1.returncode, p1.stderr.decode("utf-8", "replace")[:300])
        return ev
    line = p1.stdout
    ev["line_as_spec"] = 1 if line == _s(case["line"]).encode("utf-8") else 0
    p2 = vlib.subprocess.run([cli, "jq", "-c", "--input-dsv", d, "."], input=line, stdout=vlib.subprocess.PIPE,
                             stderr=vlib.subprocess.PIPE, timeout=60)
    if p2.returncode != 0:
        ev["err"] = "cmd2 rc=%d %s" % (p2.returncode, p2.stderr.decode("utf-8", "replace")[:300])
        return ev
    back = []
    try:
        for ln in p2.stdout.decode("utf-8").splitlines():
            if ln.strip():
                v = json.loads(ln)
                if not (isinstance(v, list) and all(isinstance(x, str) for x in v)):
                    raise ValueError("not an array of strings: " + ln[:100])
                back.append([[ord(c) for c in x] for x in v])
    except Exception as ex:  # unreadable output = does not yield the array
        ev["err"] = "cmd2 output unreadable: %s" % ex
        return ev
    ev["back"] = back
    ev["r"] = len(back)
    return ev


def run(ctx):
    q = ctx.quick
    for cfg in (["quick", "quick2"] if q else ["quick", "quick2", "thorough", "thorough2", "thorough3"]):
        if os.environ.get("VERIF_DEV_SKIP_MODEL"):      # development only (mutation runs against the code)
            break
        vlib.model_check(ctx, "MC_DsvFormat.tla", "MC_DsvFormat_%s.cfg" % cfg, workers=6, timeout=3000)

    res = vlib.tlc(ctx, "Gen_DsvFormat.tla", "Gen_DsvFormat.cfg", workers=1, simulate="num=%d" % (160 if q else 1500),
                   depth=200, seed=ctx.seed, timeout=1800)
    seen, cases = set(), []
    for ln in res.printed("REPLAY"):
        if ln in seen:
            continue
        seen.add(ln)
        cases.append(json.loads(json.loads(ln[len('<<"REPLAY", '):-2])))
    if len(cases) < 50:
        raise vlib.ToolError("Gen_DsvFormat produced only %d behaviours:\n%s" % (len(cases), res.out[-3000:]))
    # the specification's own theorem on exactly these arrays (spec problem => tool error, not a violation)
    for c in cases:
        if c["back"] != [c["fs"]]:
            raise vlib.ToolError("DsvFormat!Read(Format(fs,d) o LF) # <<fs>> for d=%d fs=%s" % (c["d"], c["fs"]))
    # deterministic extra cases the statement names explicitly: empty strings in every position,
    # last string empty (the F1 shape one layer down), every printable delimiter at least once
    extra = []
    for i, dd in enumerate([c for c in range(32, 127) if c != 34]):
        fs = [[], [dd, 34, 10], []] if i % 3 == 0 else ([[97, dd], []] if i % 3 == 1 else [[]])
        extra.append({"d": dd, "fs": fs, "line": [], "back": [fs]})
    ctx.stage("generate Gen_DsvFormat", res.wall, behaviours=len(cases), extra=len(extra))
    cases += extra

    cli = vlib.cli_bin()
    t0 = vlib.time.time()
    with concurrent.futures.ThreadPoolExecutor(max_workers=6) as ex:
        evs = list(ex.map(lambda kc: run_pair(cli, kc[0], kc[1]), enumerate(cases)))
    tp = ctx.path("trace.ndjson")
    vlib.write_ndjson(tp, evs)
    ctx.stage("cli pairs", vlib.time.time() - t0, pairs=len(evs),
              failed_cmd=sum(1 for e in evs if e["r"] == -2),
              line_as_spec=sum(e["line_as_spec"] for e in evs))
    n = vlib.check_trace(ctx, "Trace_DsvFormat.tla", "Trace.cfg", tp, sig_of, timeout=1800)
    delims, counts = set(), {"empty_string": 0, "last_empty": 0, "non_ascii": 0, "quote": 0, "lf": 0, "cr": 0, "delim": 0}
    for e in evs:
        ctx.note_distinct(("c", e["d"], json.dumps(e["fs"])))
        delims.add(e["d"])
        flat = [c for s in e["fs"] for c in s]
        counts["empty_string"] += any(s == [] for s in e["fs"])
        counts["last_empty"] += e["fs"][-1] == []
        counts["non_ascii"] += any(c > 127 for c in flat)
        counts["quote"] += 34 in flat
        counts["lf"] += 10 in flat
        counts["cr"] += 13 in flat
        counts["delim"] += e["d"] in flat
    ctx.cov["delimiters_used"] = len(delims)
    ctx.cov["arrays_with"] = counts
    ctx.cov["array_sizes"] = sorted({len(e["fs"]) for e in evs})
    for e in evs[:3]:
        ctx.sample({k: e[k] for k in ("d", "fmt", "fs", "back", "r")})
    ctx.cov["evaluations"] = n
    ctx.cov["rule"] = ("one evaluation = one CLI pair (format, then read back) validated by TLC; "
                       "distinct_nontrivial = distinct (delimiter, array) pairs")
    ctx.assumptions += [
        "model stage bounded: <=2 strings x <=3 chars and <=3 strings x <=2 chars over a 6-symbol alphabet "
        "(the full <=3 x <=3 instance over 6 symbols has 17.4 M states at ~2 k states/s and is only run over the "
        "4-symbol alphabet {d, quote, LF, a} in the thorough tier)",
        "CLI replay is sampled (TLC simulation), not exhaustive",
    ]

# MUTANTS (scratch worktree, VERIF_REPO=..., quick tier, model stage skipped; all exit 1 at trace event 1):
#  M11 eval.rs quote_csv_field: inner quote not doubled                      -> caught
#  M12 jq_runner.rs strip_quotes_and_decode: no un-doubling                  -> caught
#  M13 eval.rs format_dsv joins with "," instead of the delimiter            -> caught
#  M14 jq_runner.rs streaming DSV path ignores --input-dsv's delimiter       -> caught
#  M15 jq_runner.rs strip_quotes_and_decode: `len() >= 2` -> `> 2` (`""` stays quoted) -> caught
#  spec-level sanity: DsvFormat!Doubled without doubling -> MC_DsvFormat Inv violated at the string <<34>>.
# F1 (C21) does not reach this round trip: a formatted line always ends `"` LF, never with a bare delimiter;
# arrays whose last string is empty are generated on purpose (coverage.arrays_with.last_empty) and read back.
