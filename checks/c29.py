"""C29 — yq-locate expressions evaluate to the located YAML node (DESIGN.md §4 C28/C29).

model stage : MC_Locate with Yaml = TRUE: the root is the virtual array of documents, collections
              may be virtual (block style, no token of their own), containers do not qualify;
              same lemmas as C28 (layout, uniqueness, innermost, ValueAtPath(PathOf(n)) = n / the
              value a key names) on every stream with <= 3 (quick) / 4 (thorough) value nodes;
              MC_Locate_dup.cfg is the duplicate-key negative control.
trace stage : generated YAML streams (block and flow collections, compact `- k: v` items,
              zero-indented sequences, implicit nulls, plain / single / double quoted keys and
              scalars, comments and blank lines, 1-3 documents with `---` / `...` markers) with the
              spans recorded by the renderer.  For EVERY offset inside a scalar or key token:
              yaml::locate_offset_detailed; the printed expression evaluated (yq parser mode and
              semantics) by the cursor evaluator on the stream root -- the array of documents --
              and, second route, by jq::eval on the documents collected into a JSON array;
              at_offset(off).  Trace_Locate.tla demands per event: value = ValueAtPath(tree,
              PathOf(NodeAt(off))) (for a key: the value it names), at_offset = the token's own
              value (the key string for a key); per stream: one event per qualifying offset.
CLI stage   : `succinctly yq-locate --offset --format json` on a sample; the expression evaluated
              by `succinctly yq -o json --slurp` (= against the array of documents); at_offset via
              `succinctly yq` for single-document streams; same events, same Trace_Locate.tla.

Interpretation decisions (weaker reading wherever the statement is silent):
 * the statement only constrains offsets inside a scalar or key: container brackets of flow
   collections, `-`, `:`, `---`, comments, indentation are never asserted on;
 * the reported byte range and at_position are not mentioned by C29: logged, not asserted;
 * the quote characters of a quoted scalar / key belong to the token;
 * generator restricted to constructs whose YAML 1.2 core-schema meaning is beyond doubt (see
   DESIGN.md C14 notes); a generated stream the real loader does not read back as the intended
   array of documents (second-reader self-check) is DROPPED and counted (coverage.generator.dropped),
   never reported: loading is C14's subject, not this property's.
"""
import vlib
from checks import c28

LEVEL = "model_checking"


def run(ctx):
    q = ctx.quick
    c28.model_stage(ctx, "yaml")
    n, sample_dir, sig_of = c28.trace_stage(ctx, "yaml", "c29", 150 if q else 1000)
    ncli = 0
    if not ctx.violations:
        ncli = c28.cli_stage(ctx, "yaml", sample_dir, sig_of)
    ctx.cov["evaluations"] = n + ncli
    ctx.cov["rule"] = ("one evaluation = one validated trace event (a qualifying offset of a generated stream: "
                       "locate + 2 evaluations of the printed expression + at_offset, or the same through the CLI); "
                       "distinct_nontrivial = number of distinct non-root expressions printed")
    ctx.assumptions += [
        "the YAML renderer's recorded spans are trusted; each stream is self-checked by loading it with the real "
        "loader and comparing its JSON rendering with the intended documents (dropped and counted on mismatch)",
        "numbers are plain integers; values are compared as JSON values (objects unordered)",
        "model stage: streams <= 3-4 value nodes, keys {a,b}; it checks the specification's own lemmas, the real "
        "code is bound by traces only",
    ]


# MUTANTS (scratch worktree /tmp/wt-c29, VERIF_REPO=/tmp/wt-c29 VERIF_SKIP_MODEL=1 ./check C29, quick tier, the known
# finding listed; every one printed VIOLATION and exited 1, rejected by Trace_Locate.tla at the event shown):
#  Y1 yaml/locate.rs count_siblings_before `<` -> `<=` (DESIGN Appendix A)  -> caught, event 2: `name: Alice` offset 0
#     printed `.[1].name` (evaluates to null)
#  Y2 yaml/locate.rs can_use_dot_notation allows `-` (DESIGN Appendix A)    -> first run NOT caught (exit 0): in yq parser
#     mode `.foo-bar` IS a field access, so for every key of the first palette the mutant was equivalent.  A hyphen is
#     only consumed when an identifier character follows, so keys ending in `-` or containing `--` still need brackets:
#     added the keys "a-" and "x--y" to both palettes -> caught, event 189: `.[0].a-` does not parse
#  Y3 yaml/locate.rs can_use_dot_notation allows `.`                         -> caught, event 171: `.[0].foo.bar`
#  Y4 yaml/locate.rs document index off by one (index under the root + 1)   -> caught, event 2: `.[1].name` for document 0
#  Y5 yaml/light.rs cursor_at_offset: inside a token -> the NEXT structural element -> caught, event 3: at_offset inside
#     the key `name` returns "Alice" (locate unaffected)
#  Y6 yaml/locate.rs sequence-item wrappers not skipped in path_to_bp       -> caught, event 28: offset inside a sequence
#     item not located
#  Y7 yaml/locate.rs escape_jq_string: double quote not escaped             -> caught, event 215: key `a"b`, expression
#     `.[0]["a"b"]` does not parse
#  Y8 yaml/locate.rs find_key_for_value: key token reported under the NEXT pair (key/value confusion) -> caught, event 2:
#     offset 0 (key `name`) printed `.[0].age`, evaluates to 30
#  model-level negative control run by every check: MC_Locate_dup.cfg must violate InvPath; it does.
#  binding self-tests run by every check: corrupted `found`, corrupted evaluated value, corrupted at_offset value are
#  each rejected exactly at the corrupted event.
