"""C29 — yq-locate expressions evaluate to the located YAML node (DESIGN.md §4 C28/C29).

model stage : MC_Locate with Yaml = TRUE: the root is the virtual array of documents, collections
              may be virtual (block style, no token of their own), containers do not qualify;
              same lemmas as C28 (layout, uniqueness, innermost, ValueAtPath(PathOf(n)) = n / the
              value a key names) on every stream with <= 3 (quick) / 4 (thorough) value nodes;
              MC_Locate_dup.cfg is the duplicate-key negative control.
trace stage : generated YAML streams (block and flow collections, compact `- k: v` items,
              zero-indented sequences, implicit nulls, plain / single / double quoted keys and
              scalars, comments and blank lines, 1-3 documents with `---` / `...` markers) with the
              spans recorded by the renderer.  For EVERY offset inside a scalar or key token:
              yaml::locate_offset_detailed; the printed expression evaluated (yq parser mode and
              semantics) by the cursor evaluator on the stream root -- the array of documents --
              and, second route, by jq::eval on the documents collected into a JSON array;
              at_offset(off).  Trace_Locate.tla demands per event: value = ValueAtPath(tree,
              PathOf(NodeAt(off))) (for a key: the value it names), at_offset = the token's own
              value (the key string for a key); per stream: one event per qualifying offset.
CLI stage   : `succinctly yq-locate --offset --format json` on a sample; the expression evaluated
              by `succinctly yq -o json --slurp` (= against the array of documents); at_offset via
              `succinctly yq` for single-document streams; same events, same Trace_Locate.tla.

Interpretation decisions (weaker reading wherever the statement is silent):
 * the statement only constrains offsets inside a scalar or key: container brackets of flow
   collections, `-`, `:`, `---`, comments, indentation are never asserted on;
 * the reported byte range and at_position are not mentioned by C29: logged, not asserted;
 * the quote characters of a quoted scalar / key belong to the token;
 * generator restricted to constructs whose YAML 1.2 core-schema meaning is beyond doubt (see
   DESIGN.md C14 notes); a generated stream the real loader does not read back as the intended
   array of documents (second-reader self-check) is DROPPED and counted (coverage.generator.dropped),
   never reported: loading is C14's subject, not this property's.
"""
import vlib
from checks import c28

LEVEL = "model_checking"


def run(ctx):
    q = ctx.quick
    c28.model_stage(ctx, "yaml")
    n, sample_dir, sig_of = c28.trace_stage(ctx, "yaml", "c29", 90 if q else 1500)
    ncli = 0
    if not ctx.violations:
        ncli = c28.cli_stage(ctx, "yaml", sample_dir, sig_of)
    ctx.cov["evaluations"] = n + ncli
    ctx.cov["rule"] = ("one evaluation = one validated trace event (a qualifying offset of a generated stream: "
                       "locate + 2 evaluations of the printed expression + at_offset, or the same through the CLI); "
                       "distinct_nontrivial = number of distinct non-root expressions printed")
    ctx.assumptions += [
        "the YAML renderer's recorded spans are trusted; each stream is self-checked by loading it with the real "
        "loader and comparing its JSON rendering with the intended documents (dropped and counted on mismatch)",
        "numbers are plain integers; values are compared as JSON values (objects unordered)",
        "model stage: streams <= 3-4 value nodes, keys {a,b}; it checks the specification's own lemmas, the real "
        "code is bound by traces only",
    ]


# MUTANTS: see the bottom of this file after the mutation runs.
