"""C16 — YAML index does not depend on the SIMD dispatch level (DESIGN.md §4 C16).

model stage : MC_YamlKernels — the one-line definitions of the public scanning kernels
              (spec/YamlKernels.tla: find_quote_or_escape, find_single_quote,
              count_leading_spaces, find_newline, find_block_scalar_end, parse_anchor_name,
              find_json_escape) are total and agree with step-by-step transcriptions of the
              scalar kernels on every class string <= 4 (quick) / 5 (thorough) over
              {space, LF, CR, ':', '"', '\\', ''', '[', 'a'}, every start, end and min_indent.
impl -> spec: the same deterministic driver (harness/src/bin/c16.rs) is recorded under three
              configurations - default build (AVX2 dispatch), the same binary in a separate
              process under SUCCINCTLY_SIMD=sse2 (the clamp is read once per process), and the
              `scalar-yaml` feature build - and the concatenation is validated by
              Trace_YamlKernels.tla, which never consults `cfg`:
              * kernel calls for start offsets 0..70 (quick: every 2nd, phase = seed) with the
                hit at every position relative to 16/32-byte chunks, distractors before the
                start and after the hit, the `:`-before-whitespace rule of parse_anchor_name
                and LF/CR/blank-line layouts for find_block_scalar_end, each against its
                definition; classify_yaml_chars masks (x86 builds) against ClassMask;
              * whole-index agreement: the hash of a canonical dump of every public table
                (ib, bp, ty, per-open start/end position, container/sequence flags, anchors,
                aliases, tags, line comments, container counts) + to_json + stream_yaml must
                be single-valued per input across the three recordings, for C14 documents
                stretched across chunk boundaries (scalars lengthened to 1..70 bytes, a
                leading comment line of 0..33 bytes shifting the alignment, CR/CRLF breaks)
                and for arbitrary bytes / indicator soups.

Interpretation decisions: find_newline is LF-only (its doc); classify widths may differ between
configurations (16 vs 32), each mask is compared with the definition over its own width;
find_json_escape is only called with start <= len (its contract).
"""
import json
import os
import vlib
from checks import c14

LEVEL = "model_checking"


def sig_of(e, events, k):
    if e.get("e") == "idx":
        return {"event": "idx", "cfg": e.get("cfg"), "doc": e.get("doc")}
    if e.get("e") == "c":
        return {"event": "classify", "cfg": e.get("cfg"), "s": e.get("s"), "n": e.get("n")}
    return {"event": "kernel", "k": e.get("k"), "cfg": e.get("cfg"), "s": e.get("s"), "marks": e.get("marks"), "x": e.get("x")}


def run(ctx):
    q = ctx.quick
    vlib.model_check(ctx, "MC_YamlKernels.tla", "MC_YamlKernels_quick.cfg" if q else "MC_YamlKernels_thorough.cfg",
                     workers=6, timeout=3000)
    # documents for the whole-index agreement: the C14 generation (simulation scopes only: large documents)
    path = ctx.path("behaviours.ndjson")
    if not (os.environ.get("VERIF_DEV_REUSE") and os.path.exists(path)):
        sim = c14.cfg_text(c14.FULL_PAL, 30, 3, decor=1000, indents="{1, 2, 3, 4}", breaks='{"LF", "CRLF", "CR"}',
                           flags=c14.ALL_FLAGS, avoid='{"K1", "K2"}', sim=True)
        cp = ctx.path("Gen_YamlPresentation_sim.cfg")
        open(cp, "w").write(sim)
        r = vlib.tlc(ctx, "Gen_YamlPresentation.tla", cp, workers=4, simulate="num=%d" % (150 if q else 1500), depth=400,
                     seed=ctx.seed, timeout=3000)
        lines = c14.replay_lines(r)
        if r.violated or "Error:" in r.out or not lines:
            raise vlib.ToolError("simulation failed:\n%s" % r.out[-3000:])
        with open(path, "w") as f:
            for ln in lines:
                f.write(ln + "\n")
        ctx.stage("generate documents", r.wall, behaviours=len(lines))
    cfgs = [("avx2", (), {}), ("sse2", (), {"SUCCINCTLY_SIMD": "sse2"}), ("scalar", ("scalar-yaml",), {})]
    merged = ctx.path("trace-all.ndjson")
    dumps = {}
    with open(merged, "w") as mf:
        for name, feats, env in cfgs:
            b = vlib.harness_bin("c16", feats)
            tp = ctx.path("trace-%s.ndjson" % name)
            dp = ctx.path("dumps-%s.ndjson" % name)
            rc, out, wall = vlib.sh([b, "record", path, tp, dp, "cfg=" + name, "seed=%d" % ctx.seed,
                                     "step=%d" % (2 if q else 1), "ndocs=%d" % (400 if q else 4000),
                                     "nsoup=%d" % (400 if q else 4000)], env=env, timeout=1200)
            summ = json.loads(out.strip().splitlines()[-1])
            ctx.stage("record " + name, wall, **summ)
            if summ["simd_env"] != env.get("SUCCINCTLY_SIMD", "") or summ["indexes_built"] < summ["index_events"] // 3:
                raise vlib.ToolError("recording %s is not what was asked for / vacuous: %s" % (name, summ))
            mf.write(open(tp).read())
            dumps[name] = dp
    n = vlib.check_trace(ctx, "Trace_YamlKernels.tla", "Trace.cfg", merged, sig_of, group_key=lambda e: True,
                         timeout=3000, result_field="r", selftest_filter=lambda e: e.get("e") == "k")
    if ctx.violations:
        # show the differing dump for an index disagreement
        v = ctx.violations[0]
        if v["sig"].get("event") == "idx":
            doc = v["sig"]["doc"]
            for name, dp in dumps.items():
                for d in vlib.read_ndjson(dp):
                    if d["doc"] == doc:
                        vlib.log("[C16] %s doc %d text=%r\n%s" % (name, doc, d["text"][:300], d["dump"][:1500]))
    evs = vlib.read_ndjson(merged)
    for e in evs:
        if e["e"] == "k":
            ctx.note_distinct(("k", e["k"], e["s"], json.dumps(e["marks"]), e["x"]))
        elif e["e"] == "idx":
            ctx.note_distinct(("idx", e["doc"]))
    ctx.cov["evaluations"] = n
    ctx.cov["rule"] = ("one evaluation = one recorded kernel call / classify call / whole-index dump validated by TLC; "
                       "distinct_nontrivial = distinct (kernel, start, buffer layout, end|min_indent) tuples + distinct index inputs")
    ctx.sample([e for e in evs if e["e"] == "k" and e["r"] > 20][:2])
    ctx.sample([e for e in evs if e["e"] == "idx"][:2])
    ctx.assumptions += [
        "the three configurations are distinguished by build feature / environment clamp as documented in src/yaml/simd/x86.rs; the harness asserts the clamp variable reached the process but cannot observe which kernel ran",
        "whole-index agreement compares 64-bit FNV hashes of the canonical dumps (full dumps kept in work/C16 for diagnosis)",
        "kernel model stage is exhaustive only for class strings <= 4/5",
    ]


# MUTANTS (scratch worktree, `VERIF_REPO=... VERIF_DEV_REUSE=1 ./check C16`) -- all three tried CAUGHT (exit 1); a fourth
# (find_block_scalar_end) was not tried for lack of time:
#   S1 simd/x86.rs find_quote_or_escape_sse2: remainder loop starts at offset + 1  -> CAUGHT: kernel event fqe cfg=sse2 (hit at start+64), and
#                                                                                  indexes_built differs between configurations
#   S2 simd/x86.rs count_leading_spaces_avx2: returns after the first full chunk   -> CAUGHT: kernel event cls cfg=avx2 r=32
#   S3 simd/scalar.rs parse_anchor_name_scalar: bare `:` terminates the name       -> CAUGHT: kernel event pan (`:a` at the start) cfg=sse2, r=0 where the definition says 20
