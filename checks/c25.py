"""C25 — jq value identities hold for every value (DESIGN.md §4 C25).

model stage : MC_JqCore — the identities are THEOREMS of the reference semantics (JqCore.tla) on every
              value of the bounded universe: setpath(p; getpath(p)) = ., getpath(p) for p in paths,
              to_entries|from_entries, [tostream]|fromstream(.[]), sort/unique = ordered permutation /
              deduplication under the (strict weak) total order, assignment changes exactly one path.
trace stage : generated values (nested, duplicate-free, all scalar kinds, non-ASCII strings, extreme /
              exponent number spellings as opaque atoms) through the real generic evaluator, and a
              sample through the CLI (`succinctly jq -c`); each identity is one event
              (law, value, program, outputs) validated by Trace_JqId.tla.

Interpretation decisions:
  * "reproduces its input" = the single output has the same shape, key order and strings as what the
    identity program `.` yields on the same route, numbers equal under jq's order (the statement does
    not fix the spelling of 1e1000 after a round trip; `.` itself canonicalises it).
  * @uri-then-decode uses the repo's own decoder `@urid`; @base64/@base64d and @uri round trips only
    compare the final string with the input string (no codec in TLA+).
  * "assignment changes exactly that path": getpath(p) of the result is the assigned value; every path
    of the old or new value that is not a prefix/extension of p has the same value in both; the number
    of paths changes exactly by the size difference at p.
"""
import json
import os
import vlib
from checks import jq_shared as J

LEVEL = "model_checking"


def sig_of(e, events=None, k=None):
    return {"law": e.get("law"), "via": e.get("via"), "prog_shape": J.re.sub(r'"[^"]*"|-?\d+(\.\d+)?', "_", e.get("prog", ""))[:80]}


def run(ctx):
    q = ctx.quick
    if not os.environ.get("VERIF_DEV_SKIP_MODEL"):   # development-only knob (mutation testing)
        vlib.model_check(ctx, "MC_JqCore.tla", "MC_JqCore_quick.cfg" if q else "MC_JqCore_thorough.cfg", workers=6, timeout=1500)
    b = vlib.harness_bin("c25")
    cli = vlib.cli_bin()
    tp = ctx.path("trace.ndjson")
    rc, out, wall = vlib.sh([b, "record", tp, "seed=%d" % ctx.seed, "values=%d" % (110 if q else 500), "cli=" + cli,
                             "clin=%d" % (6 if q else 30)], timeout=1500)
    summary = J.summary_of(out)
    ctx.stage("record", wall, **summary)
    n = vlib.check_trace(ctx, "Trace_JqId.tla", "Trace.cfg", tp, sig_of, group_key=lambda e: True, timeout=1500, selftest=True)
    events = vlib.read_ndjson(tp)
    ctx.cov["evaluations"] = n
    ctx.cov["events_per_law"] = summary["laws"]
    ctx.cov["cli_events"] = sum(1 for e in events if e["via"] == "cli")
    ctx.cov["rule"] = ("one evaluation = one (law, value[, path]) instance run through the generic evaluator or the CLI and "
                       "validated by TLC; distinct_nontrivial = distinct (law, value, path) triples")
    for e in events:
        ctx.note_distinct((e["law"], json.dumps(e["v"], sort_keys=True), json.dumps(e["p"])))
    for law in ("assign", "stream", "sort", "uri"):
        for e in events:
            if e["law"] == law:
                ctx.sample({"law": law, "via": e["via"], "prog": e["prog"], "value": J.dec(e["v"]), "out": [J.dec(x) for x in e["o"]["out"]]})
                break
    ctx.assumptions += [
        "values are duplicate-key free (the statement's quantifier); depth <= 3, <= ~25 nodes",
        "the CLI is exercised on a sample of the values only (one process per event)",
        "codecs (@base64, @uri, tojson/fromjson) are checked by round trip only, not against an independent codec",
    ]


# MUTANTS (scratch worktree /tmp/wt-jq, VERIF_REPO=...; quick tier, seed 20260921; model stage skipped with the
# development knob VERIF_DEV_SKIP_MODEL=1 because it does not depend on /repo).  M1 and M4 were run alone; M2,M3,M5,
# M6,M7,M8 were applied TOGETHER in one build (CPU budget: a from-scratch build took 15 min on the shared box) -- the
# check exits 1 on the combination, and detection is attributed per mutant from the list of ALL rejected events
# (pre-pass scan / per-law sub-traces), so "caught" below means: at least one rejected event is explained by that
# mutant alone.
#   M1 eval_generic.rs only: to_entries drops the last field of an object
#   M2 eval.rs compare_values: objects compared by values before keys
#   M3 eval.rs builtin_add: `add` on an empty array/object -> 0 instead of null
#   M4 eval.rs eval_limit: limit(0; f) emits one output
#   M5 error.rs cannot_iterate: "Cannot iterate over" -> "cannot iterate over"
#   M6 eval.rs set_value_at_path: setpath through an array index truncates the later siblings
#   M7 eval.rs compare_values: strings ordered by length first
#   M8 eval.rs builtin_unique: no deduplication
#   C25: M1 caught (VIOLATION, law entries via generic: `to_entries | from_entries` loses the last field).
#        Combined build: VIOLATION at event 6 (law sort).  Per-law sub-traces: sort on string arrays rejected (M7); sort on
#        [{"a":"","k":1},{},{},{"c":"a","a":"ab"}] rejected with the value-first order (M2; the obj_order_array value
#        family was added for this); unique on [-1, x, x] rejected (M8); `setpath(p; v)` and `setpath(p; getpath(p))`
#        rejected, `p = v` / `p |= v` (other code path) accepted (M6); entries/stream/getpath/paths accepted (unaffected).
#        M3, M4, M5 do not touch an identity of C25 (not expected to be caught here).
