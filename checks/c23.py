"""C23 — the library evaluator (`jq::eval`) and the generic evaluator used by the CLI
(`jq::eval_generic::eval_with_cursor`) agree on every program (DESIGN.md §4 C23).

model stage : MC_JqCore — algebraic laws of the reference semantics spec/JqCore.tla on every value of
              the bounded universe (total order is a strict weak order, sort/unique/group_by, paths/
              getpath/setpath/delpaths, to_entries/from_entries, tostream/fromstream ...): validates
              the oracle used by clause (ii).
trace stage : seeded program ASTs (depth <= 4) rendered fully parenthesised, parsed by the real
              `jq::parse`, run through BOTH real evaluators on generated inputs (duplicate keys, number
              spellings, nesting).  Trace_Jq.tla requires for every event
                (i)  outcome(jq::eval) = outcome(eval_generic)      -- the property itself, all tiers
                (ii) tier "core": both = JqCore!Eval(ast, Norm(input)) unless the spec is silent.

Interpretation decisions (weaker reading where the statement is silent):
  * "outcome" = sequence of output values (numbers by printed spelling + f64 order key), end kind,
    error VALUE (message), break label, halt code.  A panic on both sides counts as agreement here
    (panics are C30's business).
  * position/YAML-metadata extensions (at_offset, line, column, key, tag ...) and shuffle/now are not
    generated: their result depends on the cursor context / clock, not on (program, input).
  * clause (ii) is an addition of the design ("a bug shared by both evaluators"): a rejection there on
    an event where the evaluators agree is reported with signature clause="spec".
"""
import json
import os
import vlib
from checks import jq_shared as J

LEVEL = "exploration"


def sig_of(e, events=None, k=None):
    prog = e.get("prog", "")
    if e["oe"] != e["og"]:
        if e.get("dupsens"):
            return {"clause": "agree", "cause": "duplicate_keys_seen_by_library_evaluator"}
        f = J.features(prog)
        if f:
            return {"clause": "agree", "cause": f[0]}
        return {"clause": "agree", "cause": "other", "tpl": e.get("tpl", ""), "prog": prog}
    f = J.features(prog) + list(e.get("mo", []))
    if f:
        return {"clause": "spec", "cause": f[0]}
    if e.get("dup") and e.get("sens_g"):
        return {"clause": "spec", "cause": "duplicate_keys_seen_by_both_evaluators"}
    # `V as $x | ... try error($x) catch .` answers "undefined variable: $x" (binding lost inside try)
    try:
        outs = (e.get("oe") or {}).get("out") or []
        texts = ["".join(chr(c) for c in o.get("cp", [])) for o in outs if isinstance(o, dict) and o.get("t") == "str"]
        m = [t for t in texts if t.startswith("undefined variable: $")]
        if m and ("error(" + m[0][len("undefined variable: "):]) in prog.replace(" ", "") and "try" in prog:
            return {"clause": "spec", "cause": "variable_unbound_in_error_inside_try"}
    except Exception:
        pass
    return {"clause": "spec", "cause": "other", "prog": prog}


def describe(e):
    return "program %s on input %s: jq::eval -> %s ; eval_generic -> %s" % (
        e["prog"], json.dumps(J.dec(e["in"]), ensure_ascii=False)[:200],
        json.dumps(J.show_outcome(e["oe"]), ensure_ascii=False)[:300],
        json.dumps(J.show_outcome(e["og"]), ensure_ascii=False)[:300])


def run(ctx):
    q = ctx.quick
    if not os.environ.get("VERIF_DEV_SKIP_MODEL"):   # development-only knob (mutation testing)
        vlib.model_check(ctx, "MC_JqCore.tla", "MC_JqCore_quick.cfg" if q else "MC_JqCore_thorough.cfg", workers=6, timeout=1500)
    b = vlib.harness_bin("c23")
    tp = ctx.path("trace.ndjson")
    rc, out, wall = vlib.sh([b, "record", tp, "seed=%d" % ctx.seed, "progs=%d" % (260 if q else 1200), "inputs=3",
                             "opaque=%d" % (350 if q else 2000), "depth=4"], timeout=900)
    summary = J.summary_of(out)
    ops = summary.pop("ops_list")
    ctx.stage("record", wall, **summary)
    events = vlib.read_ndjson(tp)
    # ---- pass 1: list every event the trace spec would reject (one TLC run, no early stop) ----
    mis, skipped, total = J.scan(ctx, tp)
    bad = set(mis) | {i for i, e in enumerate(events) if e["oe"] != e["og"]}
    drop = set()
    for i in sorted(bad):
        sig = sig_of(events[i])
        if vlib.known_match(ctx.prop, sig) is not None:
            ctx.report(sig, "")
            drop.add(i)
    kept = [e for i, e in enumerate(events) if i not in drop]
    tp2 = ctx.path("trace-checked.ndjson")
    vlib.write_ndjson(tp2, kept)
    # ---- pass 2: the binding run (stops at the first rejected event => VIOLATION) + self-test ----
    n = vlib.check_trace(ctx, "Trace_Jq.tla", "Trace.cfg", tp2, sig_of, group_key=lambda e: True, timeout=1500,
                         selftest=True)
    for i in sorted(bad - drop)[:1]:
        vlib.log("[C23] first unexplained event: " + describe(events[i]))
    core = sum(1 for e in kept if e["tier"] == "core")
    ctx.cov["evaluations"] = n
    ctx.cov["core_tier_events"] = core
    ctx.cov["core_tier_spec_silent"] = len([i for i in skipped if i not in drop])
    ctx.cov["agree_only_events"] = len(kept) - core
    ctx.cov["constructs_and_builtins_in_core_tier"] = len(ops)
    ctx.cov["known_finding_events_dropped"] = len(drop)
    ctx.cov["rule"] = ("one evaluation = one (program, input) pair run through both evaluators and validated by TLC; "
                       "distinct_nontrivial = distinct program texts")
    for e in kept:
        ctx.note_distinct(e["prog"])
    for e in kept[:2] + [e for e in kept if e["tier"] == "agree"][:2]:
        ctx.sample({"prog": e["prog"], "tier": e["tier"], "in": J.dec(e["in"]), "outcome": J.show_outcome(e["oe"])})
    ctx.assumptions += [
        "clause (ii) covers only the fragment JqCore.tla specifies; outside it (tier agree, or spec result 'skip') only evaluator agreement is checked",
        "numbers are compared by printed spelling plus an f64-derived order key; arithmetic is specified on integers |n| < 2^30 only",
        "programs are rendered fully parenthesised, so operator precedence/associativity of the parser is not exercised",
    ]


# MUTANTS (scratch worktree /tmp/wt-jq, VERIF_REPO=...; quick tier, seed 20260921; model stage skipped with the
# development knob VERIF_DEV_SKIP_MODEL=1 because it does not depend on /repo).  M1 and M4 were run alone; M2,M3,M5,
# M6,M7,M8 were applied TOGETHER in one build (CPU budget: a from-scratch build took 15 min on the shared box) -- the
# check exits 1 on the combination, and detection is attributed per mutant from the list of ALL rejected events
# (pre-pass scan / per-law sub-traces), so "caught" below means: at least one rejected event is explained by that
# mutant alone.
#   M1 eval_generic.rs only: to_entries drops the last field of an object
#   M2 eval.rs compare_values: objects compared by values before keys
#   M3 eval.rs builtin_add: `add` on an empty array/object -> 0 instead of null
#   M4 eval.rs eval_limit: limit(0; f) emits one output
#   M5 error.rs cannot_iterate: "Cannot iterate over" -> "cannot iterate over"
#   M6 eval.rs set_value_at_path: setpath through an array index truncates the later siblings
#   M7 eval.rs compare_values: strings ordered by length first
#   M8 eval.rs builtin_unique: no deduplication
#   C23: M1 caught (VIOLATION, clause agree: `to_entries` on {"b":{}}: jq::eval [{"key":"b","value":{}}] vs eval_generic []).
#        M2 caught (clause spec: `min_by(.)` on an array of objects), M3 caught (`add` on {} -> 0), M5 caught (first
#        VIOLATION: `map(.)` on 3 -> "cannot iterate over number (3)"), M7 caught (`. < "abcdefghijklmno"` on "x\"y").
#        M4 MISSED at first (limit(0; ...) was generated only twice, both in the opaque tier) -> generator strengthened
#        (limit weight x2.5, count drawn from {0,0,1,2,3,-1}); rerun: see M4 line below.
#        M6, M8 not observed in the quick trace of this seed (setpath on a long array / unique with duplicates are rare in
#        random programs); they are C25's laws and are caught there.
#        M4 rerun: caught (VIOLATION, clause spec: `limit(0; ((reduce ... ) , [tostream]))` on {} -> both evaluators emit one output).
