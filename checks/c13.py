"""C13 — UTF-8 validation matches the Unicode definition on every engine (DESIGN.md §4 C13).

model stage : MC_Utf8 — every byte string of length <= 4 over the range edges of Unicode table
              3-7: table-3-7 DFA <=> "concatenation of encoded scalar values"; ValidUpTo;
              Err = none <=> well formed; ValidUpTo <= offset <= ValidUpTo+3 (= ValidUpTo unless
              InvalidContinuationByte); embedding lemma; Decode(Encode(cp)) = cp for ALL scalars.
              MC_Bytes — fold form of the LF-only / LF|CR|CRLF line-column = definitional form.
replay      : Gen_Utf8 enumerates all strings <= 4 (19 edge bytes) [thorough: also <= 5 over 14]
              with the predicted answers; harness embeds each behind 0..40 and 60..66 bytes of
              ASCII and before 6 tail lengths and runs validate_utf8, _scalar, _simd, _broadword
              (+ decode_code_point on the core); every answer must equal the spec's exactly.
trace       : random multi-byte text, >= 2 damaged values at every offset, every truncation,
              deletions/insertions, directed line/column cases around the 8-byte stride, long
              ASCII runs; decode/encode round trips (edges + 50k random / every scalar);
              sequence_length for all 256 bytes; validated event by event by Trace_Utf8.tla.

Interpretation (no false alarm, DESIGN.md C13 notes / §7 F4): the statement says the offset "is
the length of the longest valid prefix"; the library documents that an InvalidContinuationByte is
reported AT the offending byte and code-point-level errors at the sequence start.  The oracle is
the documented attribution (Utf8!Err), which all engines must produce identically, together with
ValidUpTo <= offset <= ValidUpTo + 3 (model-checked consequence).  The continuation-byte
convention itself is not reported.  Line/column count LF only, as the module documents.
"""
import json
import os
import vlib

LEVEL = "model_checking"


def sig_of(e, events, k):
    s = {"event": e.get("e")}
    if e.get("e") == "v":
        al = e.get("all", [])
        s["panic"] = any(a[0] == -2 for a in al)
        s["engines_agree"] = all(a == al[0] for a in al)
    return s


# development only (mutation testing): VERIF_DEV_FAST=1 skips the model stage and reuses the
# TLC-generated replay inputs of a previous run (both are independent of the code under test)
DEV_FAST = os.environ.get("VERIF_DEV_FAST") == "1"


def _gen_replay(ctx, cfg, name, workers=6):
    if DEV_FAST and os.path.exists(ctx.path("replay-in-%s.ndjson" % name)):
        return _replay(ctx, name)
    res = vlib.tlc(ctx, "Gen_Utf8.tla", cfg, workers=workers, timeout=3000, xmx="6g")
    if not res.completed:
        raise vlib.ToolError("Gen_Utf8 did not complete:\n" + res.out[-3000:])
    lines = res.printed("REPLAY")
    inp = ctx.path("replay-in-%s.ndjson" % name)
    with open(inp, "w") as f:
        for ln in lines:
            # <<"REPLAY", "....">>  -> the quoted part is a TLA+ string with JSON-compatible escapes
            q = ln[ln.index(",") + 2: ln.rindex(">>")]
            f.write(json.loads(q) + "\n")
    ctx.stage("gen %s" % cfg, res.wall, behaviours=len(lines), states=res.distinct)
    if len(lines) != res.distinct:
        raise vlib.ToolError("Gen_Utf8: %d behaviours printed for %d states" % (len(lines), res.distinct))
    return _replay(ctx, name)


def _replay(ctx, name):
    inp = ctx.path("replay-in-%s.ndjson" % name)
    b = vlib.harness_bin("c13")
    outp = ctx.path("replay-out-%s.ndjson" % name)
    rc, out, wall = vlib.sh([b, "replay", inp, outp], timeout=3000)
    st = json.loads(out.strip().splitlines()[-1])
    ctx.stage("replay %s" % name, wall, **st)
    ctx.add("replayed_behaviours", st["cores"])
    ctx.add("replay_calls", st["calls"])
    if st["mismatches"]:
        for m in vlib.read_ndjson(outp)[:3]:
            sig = {"stage": "replay", "api": m.get("api")}
            ctx.report(sig, "replay mismatch (spec -> impl): %s" % json.dumps(m)[:700], replay_events=[m])
    # distinct non-trivial = distinct predicted (offset, kind) answers with an error
    with open(inp) as f:
        for i, ln in enumerate(f):
            c = json.loads(ln)
            if c["r"][0][0] >= 0:
                ctx.note_distinct(("replay", len(c["b"]), c["r"][0][0], c["r"][0][1], c["r"][3][0], c["r"][3][1]))
            if i in (7, 1234, 40000):
                ctx.sample({"gen": c})
    return st


def run(ctx):
    q = ctx.quick
    if not DEV_FAST:
        vlib.model_check(ctx, "MC_Bytes.tla", "MC_Bytes.cfg", workers=6, timeout=600)
        vlib.model_check(ctx, "MC_Utf8.tla", "MC_Utf8_quick.cfg" if q else "MC_Utf8_thorough.cfg", workers=6, timeout=3000)

    # ---- spec -> impl
    _gen_replay(ctx, "Gen_Utf8_quick.cfg", "len4")
    if not q:
        _gen_replay(ctx, "Gen_Utf8_thorough.cfg", "len5")

    # ---- impl -> spec
    b = vlib.harness_bin("c13")
    tp = ctx.path("trace.ndjson")
    rc, out, wall = vlib.sh([b, "record", tp, "seed=%d" % ctx.seed, "texts=%d" % (60 if q else 400),
                             "damages=%d" % (2 if q else 5), "full=%d" % (0 if q else 1)], timeout=1200)
    ctx.stage("record", wall, **json.loads(out.strip().splitlines()[-1]))
    # every event is self-contained (carries its input), so a replay / self-test context is the event alone
    n = vlib.check_trace(ctx, "Trace_Utf8.tla", "Trace.cfg", tp, sig_of, group_key=lambda e: True,
                         selftest_filter=lambda e: e.get("e") in ("v", "dec", "seqlen", "enc"),  # "r" is a result there
                         timeout=3000, xmx="6g")
    evs = vlib.read_ndjson(tp)
    shown = 0
    for e in evs:
        if e["e"] == "v" and e["r"] >= 0:
            a = e["all"][0]
            ctx.note_distinct(("trace", a[1], a[0] % 8, a[2] > 1, len(e["b"]) // 16))
            if shown < 3 and len(e["b"]) < 30:
                ctx.sample({"trace": e})
                shown += 1
    ctx.cov["evaluations"] = n + ctx.cov.get("replay_calls", 0)
    ctx.cov["rule"] = ("one evaluation = one call of a real engine (validate_utf8/_scalar/_simd/_broadword, "
                       "decode/encode_code_point, sequence_length) compared with the answer Utf8.tla defines; "
                       "distinct_nontrivial = distinct (length, offset, kind) error answers predicted by TLC in the "
                       "replay plus distinct (kind, offset mod 8, multi-line, size class) errors in the trace")
    ctx.assumptions += [
        "offset attribution = the library's documented rule (offending byte for InvalidContinuationByte); the "
        "statement's 'longest valid prefix' is enforced as ValidUpTo <= offset <= ValidUpTo+3",
        "replay composes the spec's answer for the core with LF-free ASCII padding by Shift (embedding lemma "
        "model-checked for pads <= 2 / tails <= 4); line/column with line breaks is covered by the trace stage",
        "the raw AVX2 kernel is private: it is observed through validate_utf8_simd/validate_utf8 (a false reject of the "
        "kernel is masked by the scalar re-run by design; a false accept is visible)",
    ]


# MUTANTS (scratch worktree under /tmp, VERIF_REPO=<worktree> ./check C13, quick tier; all exit 1):
#  1 utf8/mod.rs code_point_bounds_violation: surrogate range 0xD800..=0xDFFF -> 0xD800..0xDFFF
#       CAUGHT replay (ED BF BF accepted by validate_utf8/_scalar; decode_code_point) and trace
#  2 utf8/mod.rs skip_ascii: trailing_zeros >> 3 -> >> 2
#       CAUGHT replay (core 80 behind 1 pad byte + 8-byte tail accepted by validate_utf8/_scalar)
#  3 utf8/simd_x86.rs validate_utf8_avx2: final zero-padded tail block not checked
#       CAUGHT replay (input [80] accepted by validate_utf8 and _simd only)
#  4 utf8/mod.rs line_and_column: exact zero-byte test replaced by the cheap (x - L8) & !x & H8
#       CAUGHT trace (directed "\n\x0B" pattern: line over-counted)
#  5 utf8/broadword.rs validate_sequence: E0 second byte A0..BF -> 80..BF (overlong accepted)
#       CAUGHT replay (validate_utf8_broadword only)
#  6 utf8/simd_x86.rs check_block: F4 bound uge(chunk, 0x90) -> 0x91 (F4 90 .. accepted)
#       CAUGHT replay (validate_utf8 / _simd)
#  7 utf8/mod.rs encode_code_point: cp < 0x800 -> cp <= 0x800
#       CAUGHT trace (rtblk edge block around U+0800)
#  8 utf8/mod.rs validate_utf8_scalar: truncation test pos + seq_len > len -> >=
#       CAUGHT replay (complete sequence at end of input reported as truncated)
#  9 utf8/simd_x86.rs check_block: must_cont uge(prev3, 0xF0) -> 0xF1
#       CAUGHT replay
