"""C27 -- query output does not depend on the evaluation route (DESIGN.md §4 C27).

DECISION on "the output is the same" (written first, see BUILDING.md "no false alarms"):
  The two routes are compared on the VALUE STREAM they print, not on bytes: stdout of both runs is read
  back by a reader that is independent of the library (JSON output: the strict reader of c11_json, numbers
  as doubles, strings as code points, key order and duplicates kept; YAML output: PyYAML's syntax layer +
  our own YAML 1.2 core-schema resolution of plain scalars) and the two value streams must be equal.
  Byte-level differences between value-equal outputs are COUNTED in evidence ("presentation_only_differences",
  with samples) and not reported: the fast paths deliberately keep the input's own spelling --
  `jq --preserve-input -c .` echoes the input's whitespace / escapes (docs/guides/cli.md: "--preserve-input
  governs how a value is *spelled* on output, not what the value is"; DESIGN.md F5) and yq's streaming
  printer keeps `~` or `12345678901234567890` as written where the DOM route prints `null` / 1.2345678901234567e+19.
  The docs promise no byte identity across routes, so the weaker reading (same values, same order, same
  number of results) is taken.  Only stdout is compared (diagnostics on stderr and the exit status are logged).
  The --preserve-input pair is run on inputs WITHOUT duplicate keys (the extension keeps duplicates on output
  by design, docs/compliance/jq/limitations.md); yq documents never repeat a mapping key (the DOM route is an
  IndexMap and the streaming route deliberately preserves duplicates, yq_runner.rs #442 -- and a repeated key
  is not valid YAML 1.2).  JSON inputs for the jq `# input` pair DO include duplicate keys.

Route forcing, verified in the runner source (all semantically neutral by the runners' OWN gates):
  jq  : filter suffix ` # input` (a comment) -> jq_runner.rs:889 `filter_str.contains("input")`, :1036
        `&& !uses_input_builtins` takes the materialised path; plain -> lazy cursor path.
  jq  : `--preserve-input -c .` -> raw-bytes identity fast path (jq_runner.rs:1052 expr.is_identity() &&
        can_use_raw_identity()); `.|.` is not Expr::Identity -> lazy PreserveFormatter.
  yq  : `--arg _verif x` -> context.named non-empty -> can_json_fast_path / can_yaml_fast_path false
        (yq_runner.rs:3194/3205) -> DOM path; plain -> M2/P9 streaming for programs accepted by
        can_use_m2_streaming (slices are NOT, so yq has no route pair for them and none is claimed).
Anti-vacuity: with hook H5 every run logs the route taken; the driver counts the pairs whose two runs took
DIFFERENT routes and declares the check inconclusive (exit 2) when fewer than half do.  Route names are not part of
the acceptance condition: a routing change that keeps the output equal is not a violation.

model  : MC_Routes -- the agreement register is a sound and complete oracle for route independence.
replay : Gen_Routes enumerates all navigation programs (<= 2 path steps x 7 wrappers) with the gate predictions.
trace  : Trace_Routes validates every observation pair.
"""
import concurrent.futures
import hashlib
import json
import os
import random
import re
import time

import vlib
from checks import c11_json as J
from checks.c11 import run_cli, hook_present

LEVEL = "exploration"

# ------------------------------------------------------------------------------------------
# documents
# ------------------------------------------------------------------------------------------
KEYS = [[97], [98], [99], [107, 32, 107], [100]]                      # a b c "k k" d
STRS = ["x", "x y", "q: r", "it's", "", " lead", "true", "null", "123", "1.0", "-", "~", "yes", "# no", "é😀", "tab\there",
        "multi\nline", "a,b", "[x]", "{y}", "&a", "*b", "!t", "|", ">", "%", "@", "`", "\"q\"", "back\\slash", " ", "ǅ"]
NUMS = ["0", "1", "-1", "1.0", "1e3", "2.50", "-0", "1E-2", "100", "0.1", "12345678901234567890", "9007199254740993",
        "1.5e300", "3", "42", "-7.25"]


def num(lit):
    n = J.node("num", a=J.atom(lit))
    n["lit"] = lit
    return n


def scalar(rng):
    r = rng.random()
    if r < 0.15:
        return J.node(rng.choice(("null", "true", "false")))
    if r < 0.55:
        return num(rng.choice(NUMS))
    return J.node("str", cp=[ord(c) for c in rng.choice(STRS)])


def doc(rng, budget, dup, depth=0):
    if budget <= 1 or (depth and rng.random() < 0.3):
        return scalar(rng)
    k = min(rng.choice((0, 1, 2, 3, 4)), budget - 1)
    share = max(1, (budget - 1) // max(1, k))
    ch = [doc(rng, share, dup, depth + 1) for _ in range(k)]
    if rng.random() < 0.4:
        return J.node("arr", ch=ch)
    if dup and k >= 2 and rng.random() < 0.5:
        ks = [list(rng.choice(KEYS[:2])) for _ in range(k)]
    else:
        ks = [list(x) for x in rng.sample(KEYS, k)] if k <= len(KEYS) else []
    return J.node("obj", ks=ks, ch=ch[:len(ks)])


FIXED = [
    '{"a":{"b":[1,{"c":null}],"a":1},"b":[1,2.50,1e3,"x y",null,{},[]],"c":[{"a":"q: r"},{"b":"é😀"}],"k k":{"a":false}}',
    '[{"a":1,"b":2},{"a":null,"b":[]},{"a":{"a":{"b":0}}},[1,2,3],"s",null,1.0]',
    '{"a":[],"b":{},"c":"","k k":0}', '[]', '{}', 'null', '"plain string"', '1.0', '1e3', 'false',
    '[[1,2],[3,[4,5]],[]]', '{"a":{"b":{"a":{"b":1}}}}', '[null,false,0,"",[],{}]', '{"a":[{"a":1},{"a":2},{"b":3}],"b":"x"}',
]


def json_pool(rng, n, dup):
    out = []
    for s in FIXED:
        out.append(with_lits(J.read_document(s), s))
    while len(out) < n:
        out.append(doc(rng, rng.choice((2, 4, 8, 16)), dup))
    return out


def with_lits(t, text):
    """give the num nodes of a parsed fixed document a literal (shortest repr of the double is fine here)"""
    def fix(n):
        if n["t"] == "num":
            f = float.fromhex(n["a"])
            n["lit"] = repr(int(f)) if f == int(f) and abs(f) < 1e15 else repr(f)
        for c in n["ch"]:
            fix(c)
    fix(t)
    return t


PLAIN_OK = re.compile(r'^[A-Za-z_][A-Za-z0-9_]*( [A-Za-z0-9_]+)*$')


def yaml_str(cp, rng):
    s = "".join(chr(c) for c in cp)
    if PLAIN_OK.match(s) and rng.random() < 0.8:
        return s                      # includes true / null / yes: plain spellings that resolve specially
    if rng.random() < 0.2 and "'" not in s and "\n" not in s and s == s.strip() and s and all(0x20 <= c < 0x7f or c > 0xa0 for c in cp):
        return "'" + s + "'"
    return J.spell_string(cp, rng, 0.0)


def yaml_scalar(n, rng):
    t = n["t"]
    if t == "null":
        return rng.choice(("null", "~", "null"))
    if t in ("true", "false"):
        return t
    if t == "num":
        return n["lit"]
    return yaml_str(n["cp"], rng)


def yaml_flow(n, rng):
    if n["t"] == "arr":
        return "[" + ", ".join(yaml_flow(c, rng) for c in n["ch"]) + "]"
    if n["t"] == "obj":
        return "{" + ", ".join(yaml_str(k, rng) + ": " + yaml_flow(c, rng) for k, c in zip(n["ks"], n["ch"])) + "}"
    return yaml_scalar(n, rng)


def yaml_block(n, ind, rng, out):
    pad = " " * ind
    if n["t"] == "obj" and n["ch"]:
        for k, c in zip(n["ks"], n["ch"]):
            key = yaml_str(k, rng)
            if c["t"] in ("arr", "obj") and c["ch"] and rng.random() < 0.8:
                out.append(pad + key + ":")
                yaml_block(c, ind + 2, rng, out)
            else:
                out.append(pad + key + ": " + yaml_flow(c, rng))
    elif n["t"] == "arr" and n["ch"]:
        for c in n["ch"]:
            if c["t"] in ("arr", "obj") and c["ch"] and rng.random() < 0.8:
                out.append(pad + "-")
                yaml_block(c, ind + 2, rng, out)
            else:
                out.append(pad + "- " + yaml_flow(c, rng))
    else:
        out.append(pad + yaml_flow(n, rng))


def yaml_doc(n, rng):
    r = rng.random()
    if r < 0.55:
        out = []
        yaml_block(n, 0, rng, out)
        return "\n".join(out) + "\n"
    if r < 0.8:
        return yaml_flow(n, rng) + "\n"
    return J.render(n, rng, "space", 0.0) + "\n"


# ------------------------------------------------------------------------------------------
# canonical value streams
# ------------------------------------------------------------------------------------------

def canon_json(out):
    frames, nok = J.read_frames(out)
    vals = []
    for f in frames:
        f.pop("span", None)
        if f["v"]["t"] == "bad" or f["pre"] or any(b not in (10,) for b in f["post"]):
            return None
        vals.append(J.flat(f["v"]))
    return vals


CORE_NULL = re.compile(r'^(~|null|Null|NULL|)$')
CORE_BOOL = re.compile(r'^(true|True|TRUE|false|False|FALSE)$')
CORE_INT = re.compile(r'^[-+]?[0-9]+$')
CORE_OCT = re.compile(r'^0o[0-7]+$')
CORE_HEX = re.compile(r'^0x[0-9a-fA-F]+$')
CORE_FLOAT = re.compile(r'^[-+]?(\.[0-9]+|[0-9]+(\.[0-9]*)?)([eE][-+]?[0-9]+)?$')
CORE_INF = re.compile(r'^[-+]?\.(inf|Inf|INF)$')
CORE_NAN = re.compile(r'^\.(nan|NaN|NAN)$')


def canon_yaml(out):
    """value stream of a YAML output holding at most one document: PyYAML syntax + own core schema"""
    import yaml
    try:
        text = out.decode("utf-8")
        docs = list(yaml.compose_all(text))
    except Exception:
        return None

    def conv(nd, depth=0):
        if depth > 300:
            raise ValueError("depth")
        if isinstance(nd, yaml.ScalarNode):
            v = nd.value
            explicit = not nd.tag.startswith("tag:yaml.org,2002:") or (nd.style is None and False)
            if nd.style is None and nd.tag in ("tag:yaml.org,2002:str", "tag:yaml.org,2002:null", "tag:yaml.org,2002:bool",
                                               "tag:yaml.org,2002:int", "tag:yaml.org,2002:float",
                                               "tag:yaml.org,2002:timestamp", "tag:yaml.org,2002:merge",
                                               "tag:yaml.org,2002:value", "tag:yaml.org,2002:binary"):
                if CORE_NULL.match(v):
                    return J.node("null")
                if CORE_BOOL.match(v):
                    return J.node(v.lower())
                if CORE_INT.match(v) or CORE_FLOAT.match(v):
                    return J.node("num", a=J.atom(v.lstrip("+") if not v.startswith("+.") else v[1:]))
                if CORE_OCT.match(v):
                    return J.node("num", a=J.atom(str(int(v[2:], 8))))
                if CORE_HEX.match(v):
                    return J.node("num", a=J.atom(str(int(v[2:], 16))))
                if CORE_INF.match(v):
                    return J.node("num", a=("-inf" if v.startswith("-") else "inf"))
                if CORE_NAN.match(v):
                    return J.node("num", a="nan")
                return J.node("str", cp=[ord(c) for c in v])
            if explicit:
                return J.node("str", a=nd.tag, cp=[ord(c) for c in v])
            return J.node("str", cp=[ord(c) for c in v])
        if isinstance(nd, yaml.SequenceNode):
            return J.node("arr", ch=[conv(c, depth + 1) for c in nd.value])
        if isinstance(nd, yaml.MappingNode):
            ks, ch = [], []
            for k, v in nd.value:
                kc = conv(k, depth + 1)
                ks.append(kc["cp"] if kc["t"] == "str" and not kc["a"] else [ord(c) for c in json.dumps(kc, sort_keys=True)])
                ch.append(conv(v, depth + 1))
            return J.node("obj", ks=ks, ch=ch)
        raise ValueError("node")

    try:
        return [J.flat(conv(d)) for d in docs if d is not None]
    except Exception:
        return None


def digest(vals):
    h = hashlib.sha1(json.dumps(vals, separators=(",", ":")).encode()).digest()
    return [int.from_bytes(h[i:i + 2], "big") for i in range(0, 20, 2)]


# ------------------------------------------------------------------------------------------

JQ_MODES = [[], ["-c"], ["--tab"], ["--indent", "1"], ["--indent", "7"], ["-c"]]
YQ_JSON_MODES = [["-o", "json"], ["-o", "json", "-I", "0"], ["-o", "json", "-I", "4"], ["-o", "json", "--tab"]]
YQ_YAML_MODES = [[], ["-I", "4"], ["-I", "3"], ["-I", "0"], ["--tab"]]


def sig_of(e, events=None, k=None):
    first = e
    if events is not None and k is not None:
        for j in range(k, -1, -1):
            if "n" in events[j]:
                first = events[j]
                break
    n1 = first.get("n", first.get("r"))
    n2 = e.get("r", e.get("n"))
    cls = "route" if (n1 == n2 and first.get("vh") == e.get("vh")) else ("count" if n1 != n2 else "value")
    return {"event": "obs", "tool": e["tool"], "kind": e["kind"], "cls": cls, "yamlout": e["yamlout"],
            "indent0": int(bool(e["yamlout"]) and "-I 0" in e.get("mode", ""))}


def run(ctx):
    q = ctx.quick
    rng = random.Random(ctx.seed)
    vlib.model_check(ctx, "MC_Routes.tla", "MC_Routes.cfg", workers=4, timeout=600)
    res = vlib.tlc(ctx, "Gen_Routes.tla", "Gen_Routes.cfg", workers=2, timeout=600)
    if not res.completed:
        raise vlib.ToolError("Gen_Routes did not complete:\n" + res.out[-3000:])
    progs = [json.loads(json.loads(ln[len('<<"REPLAY", '):-2])) for ln in res.printed("REPLAY")]
    progs.sort(key=lambda p: (p["steps"], p["prog"]))
    ctx.stage("generate Gen_Routes", res.wall, programs=len(progs))
    small = [p for p in progs if p["steps"] <= 1]
    big = [p for p in progs if p["steps"] > 1]
    rng.shuffle(big)
    chosen = small + big[:(45 if q else len(big))]

    cli = vlib.cli_bin()
    hook = hook_present(cli, ctx.work)
    ctx.cov["route_hook"] = "H5 present: route names logged; pairs with distinct routes counted (anti-vacuity, not part of acceptance)" if hook \
        else "route names unavailable (hook H5 not compiled in): only the output-equality clause is checked"

    # ---- document streams ------------------------------------------------------------------
    nstreams = 6 if q else 24
    jstreams, ystreams, ydocs, pstreams = [], [], [], []
    for s in range(nstreams):
        pool = json_pool(rng, 26, dup=(s % 2 == 0))
        rng.shuffle(pool)
        docs = pool[:14]
        jstreams.append(("\n".join(J.render(d, rng, rng.choice(("compact", "space", "wild")), 0.1) for d in docs) + "\n").encode())
        nodup = [d for d in json_pool(rng, 26, dup=False)]
        rng.shuffle(nodup)
        nodup = nodup[:14]
        pstreams.append(("\n".join(J.render(d, rng, rng.choice(("space", "wild", "compact")), 0.3) for d in nodup) + "\n").encode())
        ystreams.append(("yaml", "---\n".join(yaml_doc(d, rng) for d in nodup).encode()))
        ystreams.append(("json", ("\n".join(J.render(d, rng, "space", 0.1) for d in nodup[:1]) + "\n").encode()))
        for d in nodup[:8]:
            ydocs.append(("yaml", yaml_doc(d, rng).encode()))
            ydocs.append(("json", (J.render(d, rng, "space", 0.1) + "\n").encode()))

    # ---- pairs -----------------------------------------------------------------------------
    pairs = []          # dict(tool, kind, a_args, b_args, data, yamlout, identity, prog, wrap, mode, exp_a, exp_b)
    for i, p in enumerate(chosen):
        mode = JQ_MODES[i % len(JQ_MODES)]
        pairs.append(dict(tool="jq", kind="input", a=mode + [p["prog"]], b=mode + [p["prog"] + " # input"],
                          data=jstreams[i % len(jstreams)], yamlout=0, identity=p["identity"], prog=p["prog"], wrap=p["wrap"],
                          mode=" ".join(mode)))
        if p["m2"]:
            mode = YQ_JSON_MODES[i % len(YQ_JSON_MODES)]
            fmt, data = ystreams[i % len(ystreams)]
            base = (["-p", "json"] if fmt == "json" else []) + mode
            pairs.append(dict(tool="yq", kind="arg", a=base + [p["prog"]], b=base + ["--arg", "_verif", "x", p["prog"]],
                              data=data, yamlout=0, identity=p["identity"], prog=p["prog"], wrap=p["wrap"], mode=" ".join(base)))
            if p["single"] and (i % 2 == 0 or p["steps"] <= 1):
                mode = YQ_YAML_MODES[i % len(YQ_YAML_MODES)]
                fmt, data = ydocs[(i * 7 + 3) % len(ydocs)]
                base = (["-p", "json"] if fmt == "json" else []) + mode
                pairs.append(dict(tool="yq", kind="arg", a=base + [p["prog"]], b=base + ["--arg", "_verif", "x", p["prog"]],
                                  data=data, yamlout=1, identity=p["identity"], prog=p["prog"], wrap=p["wrap"], mode=" ".join(base)))
    for s in pstreams * (2 if q else 4):
        pairs.append(dict(tool="jq", kind="preserve", a=["--preserve-input", "-c", "."], b=["--preserve-input", "-c", ".|."],
                          data=s, yamlout=0, identity=1, prog=".", wrap="none", mode="--preserve-input -c"))

    def work(job):
        i, pr = job
        obs = []
        for side, args in (("a", pr["a"]), ("b", pr["b"])):
            rf = os.path.join(ctx.work, "route-%d%s" % (i, side)) if hook else None
            rc, out, err, routes = run_cli(cli, pr["tool"], args, pr["data"], rf)
            obs.append((rc, out, err, "+".join(sorted(set(routes)))))
        return obs

    t0 = time.time()
    with concurrent.futures.ThreadPoolExecutor(4) as ex:
        results = list(ex.map(work, list(enumerate(pairs))))
    ctx.stage("run CLI", time.time() - t0, pairs=len(pairs), runs=2 * len(pairs))

    events, dropped, pres_only, byte_eq, nonempty = [], 0, 0, 0, 0
    meta = {}
    for i, (pr, obs) in enumerate(zip(pairs, results)):
        canon = canon_yaml if pr["yamlout"] else canon_json
        va, vb = canon(obs[0][1]), canon(obs[1][1])
        if obs[0][1] == obs[1][1]:
            byte_eq += 1
            if va is None:      # same bytes that our reader cannot read (e.g. several YAML results): equal anyway
                va = vb = [["bytes", hashlib.sha1(obs[0][1]).hexdigest()]]
        elif va is None or vb is None:
            if pr["yamlout"]:
                dropped += 1    # YAML output our independent reader cannot read back: not comparable, counted
                continue
            va = va if va is not None else [["unreadable", hashlib.sha1(obs[0][1]).hexdigest()]]
            vb = vb if vb is not None else [["unreadable", hashlib.sha1(obs[1][1]).hexdigest()]]
        elif va == vb:
            pres_only += 1
            if pres_only <= 4:
                ctx.cov.setdefault("presentation_only_samples", []).append(
                    {"argv_a": [pr["tool"]] + pr["a"], "argv_b": [pr["tool"]] + pr["b"],
                     "stdout_a": obs[0][1].decode("utf-8", "replace")[:160], "stdout_b": obs[1][1].decode("utf-8", "replace")[:160]})
        if va:
            nonempty += 1
        common = {"e": "obs", "k": i, "tool": pr["tool"], "kind": pr["kind"], "yamlout": pr["yamlout"], "identity": pr["identity"],
                  "wrap": pr["wrap"], "mode": pr["mode"]}
        events.append(dict(common, forced=0, route=obs[0][3], n=len(va), vh=digest(va), rc=obs[0][0]))
        events.append(dict(common, forced=1, route=obs[1][3], r=len(vb), vh=digest(vb), rc=obs[1][0]))
        meta[i] = (pr, obs)
        ctx.note_distinct((pr["tool"], pr["kind"], pr["prog"], pr["mode"], hashlib.sha1(pr["data"]).hexdigest()))
    # anti-vacuity (not part of the property): with hook H5 the two runs of a pair should have
    # taken different routes.  Too few such pairs = the forcing spellings no longer force anything:
    # the check is inconclusive (tool error), never a violation.
    if hook:
        named = [(obs[0][3], obs[1][3]) for _, obs in meta.values() if obs[0][3] and obs[1][3]]
        distinct_pairs = sum(1 for a, b in named if a != b)
        ctx.cov["route_pairs_named"] = len(named)
        ctx.cov["route_pairs_distinct"] = distinct_pairs
        if named and distinct_pairs * 2 < len(named):
            raise vlib.ToolError("route forcing is vacuous: only %d of %d pairs took different routes" % (distinct_pairs, len(named)))
    for i in list(meta)[:3]:
        pr, obs = meta[i]
        ctx.sample({"argv_a": [pr["tool"]] + pr["a"], "argv_b": [pr["tool"]] + pr["b"], "stdin": pr["data"].decode("utf-8")[:160],
                    "stdout_a": obs[0][1].decode("utf-8", "replace")[:160], "routes": [obs[0][3], obs[1][3]]})

    with open(ctx.path("pairs.ndjson"), "w") as fh:
        for i, (pr, obs) in meta.items():
            fh.write(json.dumps({"k": i, "argv_a": [pr["tool"]] + pr["a"], "argv_b": [pr["tool"]] + pr["b"],
                                 "stdin": pr["data"].decode("utf-8"), "stdout_a": obs[0][1].decode("utf-8", "replace"),
                                 "stdout_b": obs[1][1].decode("utf-8", "replace"), "stderr_a": obs[0][2][:300], "stderr_b": obs[1][2][:300],
                                 "rc": [obs[0][0], obs[1][0]], "routes": [obs[0][3], obs[1][3]]}) + "\n")

    tp = ctx.path("trace.ndjson")
    vlib.write_ndjson(tp, events)

    logged = set()

    def sig_wrap(e, evs, k):
        s = sig_of(e, evs, k)
        pr, obs = meta[e["k"]]
        if s["cls"] != "route" and e["k"] not in logged:
            logged.add(e["k"])
            vlib.log("[C27] disagreeing pair: %s %s  | %s" % (pr["tool"], pr["a"], pr["b"]))
            if len(logged) <= 3:
                minimal_doc(cli, pr)
        return s

    vlib.check_trace(ctx, "Trace_Routes.tla", "Trace.cfg", tp, sig_wrap, group_key=lambda e: "n" in e, timeout=1200)
    ctx.cov["evaluations"] = 2 * len(meta)
    ctx.cov["pairs"] = len(meta)
    ctx.cov["pairs_byte_equal"] = byte_eq
    ctx.cov["presentation_only_differences"] = pres_only
    ctx.cov["yaml_outputs_not_readable_dropped"] = dropped
    ctx.cov["pairs_with_nonempty_output"] = nonempty
    ctx.cov["routes_seen"] = sorted({o[3] for _, obs in meta.values() for o in obs})
    ctx.cov["pairs_by_kind"] = {k: sum(1 for pr, _ in meta.values() if (pr["tool"] + "/" + pr["kind"] + ("/yaml" if pr["yamlout"] else "")) == k)
                               for k in ("jq/input", "jq/preserve", "yq/arg", "yq/arg/yaml")}
    ctx.cov["rule"] = ("one evaluation = one run of the real CLI over a document stream; a pair = the same (input, program, options) "
                       "through two routes, validated by the agreement register of Routes.tla; distinct_nontrivial = distinct "
                       "(tool, kind, program, options, stdin) tuples")
    if nonempty < len(meta) // 2:
        raise vlib.ToolError("too many pairs with empty output (%d of %d): the comparison would be vacuous" % (len(meta) - nonempty, len(meta)))
    ctx.assumptions += ["values, order and result count are compared; byte-level presentation differences between value-equal outputs are counted, not reported",
                        "yq documents have no repeated mapping keys; the --preserve-input pair runs on inputs without duplicate keys",
                        "YAML output is read back by PyYAML's syntax layer + own YAML 1.2 core resolution; outputs it cannot read are dropped and counted",
                        "only stdout is compared"]


def minimal_doc(cli, pr):
    """on a mismatch of a batched stream: the first single document on which the two routes differ (for the report)"""
    try:
        text = pr["data"].decode("utf-8")
        docs = text.split("---\n") if (pr["tool"] == "yq" and "-p" not in pr["a"]) else [d for d in text.split("\n") if d.strip()]
        for d in docs:
            data = (d if d.endswith("\n") else d + "\n").encode()
            ra = run_cli(cli, pr["tool"], pr["a"], data)
            rb = run_cli(cli, pr["tool"], pr["b"], data)
            if ra[1] != rb[1]:
                canon = canon_yaml if pr["yamlout"] else canon_json
                if canon(ra[1]) != canon(rb[1]) or canon(ra[1]) is None:
                    vlib.log("[C27]   differs on document %r: %r vs %r" % (d[:200], ra[1][:200], rb[1][:200]))
                    return d[:120]
    except Exception as e:       # reporting aid only
        return "minimisation failed: %s" % e
    return ""


# MUTANTS (scratch worktree /tmp/wt-c27 = /repo HEAD + hooks/H5-route-trace.patch, CLI rebuilt per set, quick tier):
#  M1 jq_runner.rs collapse_duplicate_fields keeps the FIRST value (lazy printer only)
#       -> VIOLATION exit 1 (jq `(.)?` vs `(.)? # input` on a document with duplicate keys; 8 disagreeing jq pairs)
#  M4 jq_runner.rs print_json compact cursor array loop drops elements after the 4th (lazy printer only)
#       -> VIOLATION exit 1 (jq -c `.` vs `. # input`; also 10 of 12 --preserve-input `.` vs `.|.` pairs disagree)
#  M5 yq_runner.rs OutputConfig::from_args `sort_keys: args.sort_keys` -> `true` (DOM route sorts keys)
#       -> VIOLATION exit 1 when run alone (yq -o json `(.)?` vs --arg _verif x; 12 disagreeing yq pairs, 0 on the unchanged tree)
#  M6 yq_runner.rs stream_cursor! m2_json: `result.stream_json(out, json_indent, true, ..)` (streaming route sorts keys)
#       -> VIOLATION exit 1 (yq -o json `(.)?` vs --arg _verif x; 11 disagreeing yq pairs)
#  Not a mutant under the chosen reading: "streaming formatter prints integer-valued floats differently" (1 vs 1.0) is
#  value-equal; the unchanged tree already does this (-p json -o json: streaming `1`, DOM `1.0`) -- counted as
#  presentation_only_differences in evidence.
#  Unchanged tree: exit 0 with one KNOWN-FINDING (known_findings.d/C27.json, yq -I 0 YAML output on the DOM route).
