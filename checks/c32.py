"""C32 — Simple-cursor JSON index navigates valid documents exactly (DESIGN.md §4 C32).

model stage : MC_SimpleNav — on every string over class representatives up to length 6 (thorough 7):
              the IB ones of JsonScan's simple machine are exactly SimpleNav!Structurals (defined on the
              text without the automaton); StructuralIndex/StructuralPos are inverse; on every
              well-nested string the 11/00/01 BP string is balanced and BP-find_close(2i) div 2 is the
              bracket-matching close (the arithmetic of SimpleJsonIndex::find_close); the one-pass
              match table used by trace validation equals the definitional matching.
trace (T)   : generated valid JSON documents (nesting up to 300, all escapes, numbers, all whitespace
              kinds, empty containers, brackets/commas/colons inside strings, wide arrays, multi-KiB
              documents) through the real SimpleJsonIndex built three ways (SimpleJsonIndex::build,
              from_parts over the SSE2 and scalar builders' words): structural_count,
              structural_positions, structural_pos(k) for every k, structural_index(p) for every byte
              position, find_close at every container, skip_value at every value and key — each
              answer must equal SimpleNav's definition evaluated by TLC on the logged text.  The
              generator's own value spans must agree with SimpleNav!SkipValue / FindClose at the doc
              event, which ties the definitions to the grammar-level notion of a value.

Interpretation decisions (weaker reading where the statement is silent):
 * skip_value is only judged at the first byte of a value or key, find_close only at structural open
   brackets (the statement speaks of "each container" / "each value"); other positions are not queried.
 * `children()` is not judged: the statement does not mention it (observation: it yields every
   non-delimiter structural strictly inside the container at any depth, not only "immediate children"
   as its doc comment says).
 * structural_index at non-structural positions and structural_pos(k) for k >= count must be None
   ("lists exactly ... maps each of them back to its ordinal").
"""
import json
import vlib

LEVEL = "model_checking"


def sig_of(e, events, k):
    if e.get("e") == "doc":
        return {"event": "doc", "cfg": e.get("cfg"), "panic": e.get("cnt") == -2}
    return {"event": "q", "op": e.get("op"), "panic": e.get("r") == -2}


def run(ctx):
    q = ctx.quick
    vlib.model_check(ctx, "MC_SimpleNav.tla", "MC_SimpleNav_quick.cfg" if q else "MC_SimpleNav_thorough.cfg",
                     workers=6, timeout=3000)
    # non-vacuity witness: a well-nested string with nesting, a delimiter and a bracket inside a
    # string must be reachable (TLC must report NoWitness violated)
    r = vlib.tlc(ctx, "MC_SimpleNav.tla", "MC_SimpleNav_witness.cfg", workers=4, timeout=600)
    if "NoWitness" not in r.violated:
        raise vlib.ToolError("MC_SimpleNav: no well-nested witness reachable (vacuous model)")
    ctx.stage("model witness", r.wall, witness_found=True)

    b = vlib.harness_bin("c32")
    tp = ctx.path("trace.ndjson")
    rc, out, wall = vlib.sh([b, "record", tp, "seed=%d" % ctx.seed, "docs=%d" % (330 if q else 2500),
                             "maxlen=%d" % (3000 if q else 12000)], timeout=900)
    info = json.loads(out.strip().splitlines()[-1])
    ctx.stage("record", wall, **info)
    n = vlib.check_trace(ctx, "Trace_SimpleNav.tla", "Trace.cfg", tp, sig_of,
                         group_key=lambda e: e.get("e") == "doc", timeout=3000, selftest=True, xmx="6g")
    evs = vlib.read_ndjson(tp)
    fams, ops, routes = {}, {}, {}
    for e in evs:
        if e["e"] == "doc":
            fams[e["fam"]] = fams.get(e["fam"], 0) + 1
            routes[e["cfg"]] = routes.get(e["cfg"], 0) + 1
            ctx.note_distinct(("doc", json.dumps(e["bytes"])))
        else:
            ops[e["op"]] = ops.get(e["op"], 0) + 1
    ctx.cov["doc_families"] = fams
    ctx.cov["routes"] = routes
    ctx.cov["queries_by_op"] = ops
    k = next(i for i, e in enumerate(evs) if e["e"] == "doc" and 12 < e["n"] < 50 and e["cnt"] > 3)
    ctx.sample({"doc_text": bytes(evs[k]["bytes"]).decode("utf-8", "replace"), "doc": evs[k],
                "first_queries": evs[k + 1:k + 4]})
    ctx.cov["evaluations"] = n
    ctx.cov["rule"] = ("one evaluation = one recorded SimpleJsonIndex call (or document construction) validated by TLC; "
                       "distinct_nontrivial = distinct generated documents")
    ctx.assumptions += [
        "documents come from the harness generator (valid by construction, re-parsed with serde_json up to nesting 100); "
        "TLC re-derives every value end from the bytes and rejects the doc event if the generator's spans disagree",
        "large documents: structural_index/structural_pos are sampled (all word boundaries, all structurals' neighbours "
        "with probability 1/4, 300 random positions) instead of every position",
    ]


# MUTANTS (scratch worktree /tmp/wt-c32, `VERIF_REPO=/tmp/wt-c32 ./check C32`, quick tier; all in
# src/json/simple_light.rs; every one exit 1 with a VIOLATION line):
#  m1 find_close: `bp_pos = struct_idx * 2` -> `* 2 + 1`                  CAUGHT  (q close a=0 r=7)
#  m2 find_string_end: `b'\\' => i += 2` -> `i += 1` (escaped quote ends) CAUGHT  (q skip at a string with \")
#  m3 ib_rank1: `bit_idx > 0` -> `bit_idx > 1` (bit 0 of the word missed)  CAUGHT  (q idx a=3969)
#  m4 find_close: `close_bp_pos / 2` -> `(close_bp_pos + 1) / 2`           CAUGHT  (q close a=0 r=-1)
#  m5 find_number_end: `b'E'` removed from the number bytes               CAUGHT  (q skip at 1E5-style number)
#  m6 structural_index: IB test skipped when bit_idx == 63                CAUGHT  (q idx a=63 r=14, a non-structural)
# (a seventh, BP `01` -> `10` for delimiters in the AVX2 simple builder, does not change any
#  SimpleJsonIndex answer -- both are excess-neutral -- and is caught by C05 instead.)
