"""C31 — index serialization round-trips and tolerates any byte alignment (DESIGN.md §4 C31).

model stage : MC_Binary — small model of spec/Binary.tla (little-endian, 8 bytes per word): round trip
              words -> bytes -> words, inverse on byte strings with Len % 8 = 0, Try = None <=> Len % 8 # 0.
              Binary.tla has no alignment parameter: that is the alignment-independence statement.
trace stage : (1) Trace_Binary: word vectors -> bytes -> words; byte slices of every length 0..40 at
              every offset 0..7 of an 8-aligned buffer through bytes_to_words, bytes_to_words_vec,
              try_bytes_to_words and SemiIndex::from_bytes under catch_unwind;
              (2) indexes rebuilt from serialized parts answer every query exactly as the originals:
              BitVec (Trace_BitVec.tla), JsonIndex navigation (Trace_JsonDoc.tla, the C06 walker) and
              interest-bit queries (Trace_IbIndex.tla, the C07 query generator) on original, borrowed
              (&[u64] out of the byte buffer), owned and SemiIndex::from_bytes rebuilds, all driven by
              the same seeded query stream; BalancedParens::from_words / new compared query by query.
              Besides TLC accepting every group, the answers of each rebuilt group must be IDENTICAL
              to the original group's (checked here).

Interpretation decisions (no false alarms):
 * Lengths that are not a multiple of 8: the documented contract is a panic for bytes_to_words /
   bytes_to_words_vec and None for try_bytes_to_words; exactly that is required.
 * Rebuilt indexes are fed 8-aligned copies of the serialized bytes (the misaligned case is the
   separate known finding F2); the interest-bit queries omit the k >= 2^32 probes that belong to
   C07's own known finding.
"""
import json
import os
import vlib

LEVEL = "model_checking"


def sig_binary(e, events, k):
    if e.get("e") == "b2w":
        return {"event": "b2w", "api": e.get("api"), "misaligned": e.get("mis") == 1,
                "len_mod8": e.get("n", 0) % 8, "panic": e.get("r") == -2}
    return {"event": e.get("e"), "kind": e.get("kind"), "panic": e.get("r") == -2}


def sig_generic(name):
    def f(e, events, k):
        return {"trace": name, "event": e.get("e"), "op": e.get("op"), "panic": e.get("r") == -2}
    return f


def is_build(e):
    return e.get("e") == "build"


def compare_groups(ctx, name, path, variant_key):
    """every rebuilt group must carry exactly the answers of the original group before it"""
    evs = vlib.read_ndjson(path)
    groups = []
    for e in evs:
        if is_build(e):
            groups.append([e])
        elif groups:
            groups[-1].append(e)
    orig = None
    pairs = 0
    for g in groups:
        v = g[0].get(variant_key)
        if v == "original":
            orig = g
            continue
        if orig is None:
            continue
        pairs += 1
        a, b = orig[1:], g[1:]
        if a != b:
            k = next((i for i in range(min(len(a), len(b))) if a[i] != b[i]), min(len(a), len(b)))
            ctx.report({"event": "rebuilt-differs", "trace": name, "variant": v},
                       "rebuilt %s index answers differently from the original at query %d: %s vs %s" %
                       (name, k, json.dumps(a[k] if k < len(a) else None)[:300], json.dumps(b[k] if k < len(b) else None)[:300]),
                       replay_events=[orig[0], g[0]] + ([a[k]] if k < len(a) else []) + ([b[k]] if k < len(b) else []))
            break
        ctx.note_distinct((name, v, json.dumps(g[0], sort_keys=True)[:2000]))
    ctx.add("rebuilt_groups_identical_to_original", pairs)
    return pairs


def run(ctx):
    q = ctx.quick
    if not os.environ.get("VERIF_DEV_SKIP_MODEL"):   # development only (mutation runs): the model stage does not depend on /repo
        vlib.model_check(ctx, "MC_Binary.tla", "MC_Binary.cfg", workers=6, timeout=900)
    b = vlib.harness_bin("c31")
    prefix = ctx.path("trace")
    rounds, docs, vectors, large = (1, 12, 20, 0) if q else (12, 80, 300, 200000)
    rc, out, wall = vlib.sh([b, "record", prefix, "seed=%d" % ctx.seed, "rounds=%d" % rounds, "docs=%d" % docs,
                             "vectors=%d" % vectors, "large=%d" % large], timeout=900)
    stats = json.loads(out.strip().splitlines()[-1])
    ctx.stage("record", wall, **stats)
    total = 0
    total += vlib.check_trace(ctx, "Trace_Binary.tla", "Trace.cfg", prefix + "-binary.ndjson", sig_binary,
                              group_key=lambda e: True, timeout=1200, selftest=True)   # every event stands alone
    total += vlib.check_trace(ctx, "Trace_BitVec.tla", "Trace.cfg", prefix + "-bitvec.ndjson", sig_generic("bitvec"),
                              group_key=is_build, timeout=1800, selftest=False)
    total += vlib.check_trace(ctx, "Trace_JsonDoc.tla", "Trace.cfg", prefix + "-jsondoc.ndjson", sig_generic("jsondoc"),
                              group_key=is_build, timeout=3000, selftest=False, xmx="8g")
    total += vlib.check_trace(ctx, "Trace_IbIndex.tla", "Trace.cfg", prefix + "-ib.ndjson", sig_generic("ib"),
                              group_key=is_build, timeout=3000, selftest=False, xmx="8g")
    pairs = 0
    pairs += compare_groups(ctx, "bitvec", prefix + "-bitvec.ndjson", "cfg")
    pairs += compare_groups(ctx, "jsondoc", prefix + "-jsondoc.ndjson", "variant")
    pairs += compare_groups(ctx, "ib", prefix + "-ib.ndjson", "variant")
    if pairs == 0:
        raise vlib.ToolError("no original/rebuilt pair was compared")
    n_al = {}
    for e in vlib.read_ndjson(prefix + "-binary.ndjson"):
        if e["e"] == "b2w":
            k = "%s off=%d" % (e["api"], e["off"])
            n_al[k] = n_al.get(k, 0) + 1
            ctx.note_distinct(("b2w", e["api"], e["off"], e["n"], json.dumps(e["bytes"])))
        elif e["e"] == "w2b":
            ctx.note_distinct(("w2b", json.dumps(e["words"])))
            ctx.sample({"w2b": {"words": e["words"], "bytes": e["bytes"]}}, limit=3)
    ctx.cov["evaluations"] = total
    ctx.cov["b2w_calls_by_api_offset"] = n_al
    ctx.cov["generator"] = stats
    ctx.cov["rule"] = ("one evaluation = one recorded call (conversion, or a query on an original/rebuilt index) validated by TLC; "
                       "distinct_nontrivial = distinct conversion inputs (api, offset, bytes) + distinct rebuilt index groups")
    ctx.assumptions += [
        "64-bit words are logged as sets of set-bit positions (harness word_bits), bytes as integers",
        "rebuilt-vs-original equality of answers is decided by comparing the two recorded query streams (same seed) in the driver, in addition to TLC validating each stream against the C01/C06/C07 trace specifications",
        "BalancedParens rebuilt with from_words/new is compared with the original query by query inside the harness ('same' events), not against a TLA+ definition (that is C04's subject)",
    ]

# MUTANTS (scratch worktree of /repo WITH hooks/FIX-C31-unaligned-bytes.patch applied, known findings reduced
# to the two borrowed forms; quick tier; "caught" = VIOLATION + exit 1):
#  0 fixed tree, no mutation                                                exit 0, only the two borrowed-form KNOWN-FINDINGs
#  1 binary.rs bytes_to_words_vec decodes with from_be_bytes                caught (b2w words differ)
#  2 binary.rs bytes_to_words_vec skips the first chunk                     caught (first run crashed the harness on the rebuilt
#    constructors' panic -> constructors now run under guarded(); re-run: VIOLATION)
#  3 binary.rs try_bytes_to_words accepts len % 4 == 0                      caught (b2w: panic where None is required)
#  4 light.rs from_parts builds ib_rank from the BP words                   caught (first run: Trace_JsonDoc crashed on a panic
#    event without fields -> spec made total (`e.r # -2` first); re-run: VIOLATION)
#  5 light.rs from_parts passes bp_len - 1                                  not caught: EQUIVALENT through the JsonCursor API (only
#    the root's own close is dropped; no cursor query reads it)
#  6 standard.rs SemiIndex::from_bytes swaps ib and bp                      caught (rebuilt-semi: root cursor invalid)
#  7 binary.rs cast_slice reintroduced in bytes_to_words_vec (= today's /repo) caught (b2w misaligned: panic)
#  8 light.rs from_parts stores ib_len - 1                                  caught (rebuilt index: select/text_position of a node starting at the last byte)
