"""C24 — jq mode matches jq 1.7.1 outside documented divergences (DESIGN.md §4 C24).

Oracle: the pinned jq 1.7.1 binary is not on this image; the oracle is the executable TLA+ reference
semantics spec/JqCore.tla evaluated in STRICT mode (every rule that is not pinned by a jq-1.7.1 recording
of the repository, by the jq manual, or by jq 1.7.1's own builtin.jq definitions quoted in
docs/compliance/jq answers "skip", and a skipped event constrains nothing).

calibration stage : every golden case (tests/data/jq-golden/cases, 487) and error probe
              (tests/data/jq-error-messages.tsv, 219) whose filter -- parsed by the repo's own jq::parse --
              converts node by node into the JqCore AST is replayed by TLC: Eval must reproduce the
              RECORDED jq-1.7.1 stdout values / error message.  A case the fragment cannot express is
              skipped and counted.  A recording the spec does not reproduce is a defect of the SPEC:
              the check stops with a tool error (exit 2), never a violation.
cli stage   : generated core-fragment programs (no opaque tier) x generated inputs through
              `succinctly jq -c`; stdout values + error message + failed-or-not compared with Eval by
              Trace_JqCli.tla.

Documented divergences excluded (docs/compliance/jq/limitations.md): float-literal spelling in messages
(any message that would dump a non-integer number => skip), multi-token tonumber/fromjson diagnostics
(not in the fragment), slices (not in the fragment), object keys yielding != 1 value (skip), sub/gsub
forks, compile-time function resolution, the "(at <stdin>:N)" prefix and exit codes (not compared),
truncation that splits a multi-byte character (skip), flatten with a non-numeric depth (skip).
Number spellings other than plain decimals are not generated (canonicalisation is not modelled).
"""
import json
import os
import re
import vlib
from checks import jq_shared as J

LEVEL = "exploration"


def sig_of(e, events=None, k=None):
    prog = e.get("prog", "")
    if e.get("e") == "cal":
        return {"stage": "calibration", "id": e.get("id")}
    f = J.features(prog) + list(e.get("mo", []))
    if f:
        return {"stage": "cli", "cause": f[0]}
    # `V as $x | ... try error($x) catch .` answers "undefined variable: $x" (binding lost inside try)
    try:
        outs = (e.get("oe") or {}).get("out") or []
        texts = ["".join(chr(c) for c in o.get("cp", [])) for o in outs if isinstance(o, dict) and o.get("t") == "str"]
        m = [t for t in texts if t.startswith("undefined variable: $")]
        if m and ("error(" + m[0][len("undefined variable: "):]) in prog.replace(" ", "") and "try" in prog:
            return {"stage": "cli", "cause": "variable_unbound_in_error_inside_try"}
    except Exception:
        pass
    if e.get("dup"):
        return {"stage": "cli", "cause": "duplicate_keys_input", "prog": prog}
    return {"stage": "cli", "cause": "other", "prog": prog}


def run(ctx):
    q = ctx.quick
    b = vlib.harness_bin("c24")
    cli = vlib.cli_bin()
    # ---- calibration: the spec must reproduce the recorded jq-1.7.1 behaviour ----
    cal = ctx.path("calibration.ndjson")
    rc, out, wall = vlib.sh([b, "calibrate", os.path.join(vlib.REPO, "tests", "data"), cal], timeout=600)
    cs = J.summary_of(out)
    ctx.stage("calibration convert", wall, **cs)
    matched, total = vlib.validate_trace(ctx, "Trace_JqCli.tla", "Trace.cfg", cal, timeout=1500)
    if matched != total:
        bad = vlib.read_ndjson(cal)[matched]
        raise vlib.ToolError("JqCore.tla does not reproduce the jq-1.7.1 recording %s (%s on %s): fix the specification"
                             % (bad["id"], bad["prog"], json.dumps(J.dec(bad["in"]))))
    mis, skipped, _ = J.scan(ctx, cal, tla="Scan_JqCli.tla")
    reproduced = total - len(skipped)
    ctx.cov["calibration"] = {"golden_cases": cs["golden_total"], "golden_in_fragment": cs["golden_converted"],
                              "error_probes": cs["probes_total"], "probes_in_fragment": cs["probes_converted"],
                              "recordings_reproduced_by_spec": reproduced, "spec_silent": len(skipped)}
    if reproduced < 150:
        raise vlib.ToolError("calibrated fragment too thin (%d recordings reproduced): C24 would be hollow" % reproduced)
    # ---- CLI stage ----
    tp = ctx.path("trace.ndjson")
    rc, out, wall = vlib.sh([b, "record", tp, "cli=" + cli, "seed=%d" % ctx.seed, "progs=%d" % (170 if q else 800),
                             "inputs=3", "depth=4"], timeout=2400)
    summary = J.summary_of(out)
    ops = summary.pop("ops_list")
    ctx.stage("record cli", wall, **summary)
    events = vlib.read_ndjson(tp)
    mis, skipped, total = J.scan(ctx, tp, tla="Scan_JqCli.tla")
    drop = set()
    for i in mis:
        sig = sig_of(events[i])
        if vlib.known_match(ctx.prop, sig) is not None:
            ctx.report(sig, "")
            drop.add(i)
    kept = [e for i, e in enumerate(events) if i not in drop]
    tp2 = ctx.path("trace-checked.ndjson")
    vlib.write_ndjson(tp2, kept)
    n = vlib.check_trace(ctx, "Trace_JqCli.tla", "Trace.cfg", tp2, sig_of, group_key=lambda e: True, timeout=1500, selftest=True)
    for i in [i for i in mis if i not in drop][:1]:
        e = events[i]
        vlib.log("[C24] first unexplained event: %s on %s -> cli %s stderr=%s" % (
            e["prog"], json.dumps(J.dec(e["in"]), ensure_ascii=False)[:200],
            json.dumps(J.show_outcome(e["oe"]), ensure_ascii=False)[:300], e.get("stderr", "")[:200]))
    ctx.cov["evaluations"] = n + reproduced
    ctx.cov["cli_runs_compared"] = n - len([i for i in skipped if i not in drop])
    ctx.cov["cli_runs_spec_silent"] = len([i for i in skipped if i not in drop])
    ctx.cov["constructs_and_builtins"] = len(ops)
    ctx.cov["known_finding_events_dropped"] = len(drop)
    ctx.cov["rule"] = ("one evaluation = one recorded jq-1.7.1 case reproduced by the spec, or one CLI run validated by TLC "
                       "against the calibrated spec; distinct_nontrivial = distinct program texts run through the CLI")
    for e in kept:
        ctx.note_distinct(e["prog"])
    for e in kept[:4]:
        ctx.sample({"prog": e["prog"], "in": J.dec(e["in"]), "cli": J.show_outcome(e["oe"])})
    ctx.assumptions += [
        "the oracle is JqCore.tla calibrated on the repository's jq-1.7.1 recordings (%d reproduced); rules not pinned by a recording, the manual or builtin.jq definitions answer 'skip'" % reproduced,
        "only the core fragment is covered (no regex, dates, formats, slices, destructuring, user functions, assignment operators)",
        "exit codes and the (at <stdin>:N) prefix are not compared (documented divergences)",
    ]


# MUTANTS (scratch worktree /tmp/wt-jq, VERIF_REPO=...; quick tier, seed 20260921; model stage skipped with the
# development knob VERIF_DEV_SKIP_MODEL=1 because it does not depend on /repo).  M1 and M4 were run alone; M2,M3,M5,
# M6,M7,M8 were applied TOGETHER in one build (CPU budget: a from-scratch build took 15 min on the shared box) -- the
# check exits 1 on the combination, and detection is attributed per mutant from the list of ALL rejected events
# (pre-pass scan / per-law sub-traces), so "caught" below means: at least one rejected event is explained by that
# mutant alone.
#   M1 eval_generic.rs only: to_entries drops the last field of an object
#   M2 eval.rs compare_values: objects compared by values before keys
#   M3 eval.rs builtin_add: `add` on an empty array/object -> 0 instead of null
#   M4 eval.rs eval_limit: limit(0; f) emits one output
#   M5 error.rs cannot_iterate: "Cannot iterate over" -> "cannot iterate over"
#   M6 eval.rs set_value_at_path: setpath through an array index truncates the later siblings
#   M7 eval.rs compare_values: strings ordered by length first
#   M8 eval.rs builtin_unique: no deduplication
#   C24: M1 caught (VIOLATION: `(to_entries | from_entries)` on {"key":{"key":2},"b":{}} -> CLI {"key":{"key":2}}).
#        M3 caught (`add` on [] -> CLI 0), M5 caught (`.[]` on 1 -> "cannot iterate over number (1)"), M7 caught (`sort` on
#        ["","b","A","abcdefghijklmno"]), M2 caught (`(.[] >= .)` on an object of objects).  M6, M8 not observed in the
#        quick CLI trace (170 programs); caught by C25.  M4 MISSED at first (never generated) -> generator strengthened;
#        M4 rerun: caught (VIOLATION: `limit(0; range(1))` on ["b","key","é"] -> CLI prints 0).
