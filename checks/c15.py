"""C15 — yq never emits YAML it cannot read back (DESIGN.md §4 C15).

model stage : MC_YqWrite — the alias-soundness automaton (spec/AliasSoundness.tla: DocStart resets,
              Anchor(name, value) defines/shadows, Alias(name, value) enabled only if the name is
              defined earlier in the same document with an equal value) is sound AND complete
              w.r.t. a history-variable statement of the rule, on every event sequence <= 6 over
              2 names x 2 values; the program grammar's well-formedness (WriteInv) and the
              presentation grammar's invariants are checked on the exhaustive generation scopes.
spec -> impl: Gen_YqWrite (spec/YqWrite.tla = C14 presentation grammar + write-program grammar +
              indent 0..7) enumerates small scopes (every operation x every target x stressing
              literals on every tree <= 3 nodes; every indent 0..7) and samples (-simulate)
              documents up to 12 nodes with anchors/aliases/comments/block scalars/quoted and
              ambiguous-looking strings, pipes of two steps, writes THROUGH aliases, all literals.
impl -> spec: for each case harness/src/bin/c15.rs runs `succinctly yq -I n <prog>` and
              `succinctly yq -o json -I 0 <prog>` on the rendered input, reloads the printed YAML
              with the library loader (YamlIndex::build + YamlCursor/YamlValue walk) and records
              the two observations plus the anchor/alias node events of the printed YAML in text
              order; Trace_YqWrite.tla validates Agreement of the two observations and runs the
              alias-soundness automaton (an alias event carries the value the JSON run has at the
              alias's path).  A printed YAML that cannot be reloaded matches no action.

Interpretation decisions (no false alarms):
* A result that is a scalar at the document root is printed raw by design (documented in
  light.rs stream_yaml_as_document, same as real yq): such cases are skipped and counted.
* Cases in which both commands fail (type errors of the generated program) carry no output and
  are skipped; cases in which exactly one command fails are skipped and counted (the statement is
  about printed YAML; route disagreement is C27's business).
* Numbers are compared by numeric value (1.0 = 1), strings by code points, key order included.
* --sort-keys is not generated (CLAUDE.md: #1350 is outside this property's option set); indent is
  0..7, what the CLI accepts.
* Inputs avoid the C14 loader defects K1/K2; a printed YAML that itself has the K2 trigger (empty
  value at indentation 0 followed by a quoted key) is classified under the same class.
"""
import json
import os
import re
import vlib
from checks import c14

LEVEL = "exploration"

ALL_OPS = '{"id", "get", "assign", "newkey", "update", "updid", "add", "del", "merge", "mergeas"}'
KNOWN_LITS = {2, 25, 54, 41, 43, 18, 35, 11, 36, 19, 20, 29}  # literals that trigger the known finding LSP (leading space); `<<` (merge key) and
                                  # NEL as a new key / value are left out (exotic, meaning on reload debatable)
PAL_OK = "{" + ",".join(str(i) for i in range(1, 61) if i not in (8, 19, 23, 24, 25, 40)) + "}"      # 40 = "0o17", 8 = "0x1" (literal 11): known finding OCT; 25 = " a": LSP; 19 = "a,b" (literals 36 ",", 19 "[", 20 "{k}"): FLOWIND; 23 = "|" (and literals 18 "|", 35 ">"): KEYBLK; 24 = "%" (literal 29): PCTKEY
LITS_OK = "{" + ", ".join(str(i) for i in range(1, 61) if i not in KNOWN_LITS) + "}"


def cfg_text(pal, nodes, docs, styles, coll, decor, ops, lits, indents, steps=1, flags="{}", breaks='{"LF"}',
             widths="{2}", sim=False, inv=False, avoid='{"K1", "K2", "AK", "HC", "SA", "BC", "DA"}'):
    return ("CONSTANTS\n  PalUse = %s\n  MaxNodes = %d\n  MaxDocs = %d\n  ScalarStyles = %s\n  CollStyles = %s\n"
            "  MaxDecor = %d\n  Indents = %s\n  Breaks = %s\n  DocFlags = %s\n  Avoid = %s\n  Sim = %s\n"
            "  MaxSteps = %d\n  Ops = %s\n  LitUse = %s\n  IndentOpts = %s\n"
            "SPECIFICATION WSpec\nINVARIANT Emit\n%sCHECK_DEADLOCK FALSE\n"
            % (pal, nodes, docs, styles, coll, decor, widths, breaks, flags, avoid, "TRUE" if sim else "FALSE",
               steps, ops, lits, indents, "INVARIANT Inv\n" if inv else ""))


def scopes(q):
    """(name, cfg, simulate arg or None, keep-one-in-k for the quick tier)"""
    both = '{"block", "flow"}'
    i07 = "{0, 1, 2, 3, 4, 5, 6, 7}"
    br3 = '{"LF", "CRLF", "CR"}'
    return [
        # every operation x every target x three stressing literals, every tree <= 3 nodes
        ("ops", cfg_text("{1}", 3, 1, '{"plain"}', both, 0, ALL_OPS, "{4, 23, 55}", "{2}", inv=True), None, 8 if q else 1),
        # EVERY literal of the table as an assigned / updated value, and as a new key, in block and flow context
        ("lits", cfg_text("{1}", 3, 1, '{"plain"}', both, 0, '{"assign", "update"}', LITS_OK, "{2}"), None, 30 if q else 3),
        ("newkeys", cfg_text("{1}", 2, 1, '{"plain"}', both, 0, '{"newkey"}', LITS_OK, "{2}"), None, 180 if q else 12),
        # every indent 0..7, block scalars in the input and in the literal
        ("indent", cfg_text("{1, 31}", 3, 1, '{"plain", "lit"}', '{"block"}', 0, '{"id", "assign"}', "{55}", i07), None, 4 if q else 1),
        # anchors and aliases everywhere, writes through aliases, two-step pipes
        ("simalias", cfg_text("{1, 7, 11}", 7, 1, '{"plain", "double"}', both, 1000, ALL_OPS, "{1, 51, 58}", "{0, 2, 4}", steps=2,
                              sim=True), "num=%d" % (300 if q else 1500), 1),
        # everything: full palette, all literals but the known-defect ones, all indents, 2 documents
        ("sim", cfg_text(PAL_OK, 12, 2, c14.ALL_STYLES, both, 1000, ALL_OPS, LITS_OK, i07, steps=2, flags=c14.ALL_FLAGS,
                         breaks=br3, widths="{1, 2, 4}", sim=True), "num=%d" % (800 if q else 5000), 1),
        # the literals of the known finding, so that it is exhibited (KNOWN-FINDING), nothing else masked
        ("simk", cfg_text("{1, 13, 25}", 4, 1, '{"plain", "single"}', both, 1000, '{"assign", "newkey", "update", "add"}',
                          "{2, 25, 54}", "{0, 2}", sim=True), "num=%d" % (40 if q else 150), 1),
        # key anchors, `get` of subtrees holding aliases, "0o17": exhibits AKEY / SUBALIAS / OCT
        ("simk2", cfg_text("{1, 8, 19, 23, 24, 40}", 4, 1, '{"plain", "single", "lit"}', both, 1000, '{"id", "get", "del", "assign"}', "{1}", "{2}",
                           sim=True, avoid='{"K1", "K2", "HC"}'), "num=%d" % (100 if q else 400), 1),
        # two documents declaring the same anchor names: exhibits DUPANCHOR
        ("simk3", cfg_text("{1, 7}", 6, 2, '{"plain"}', both, 1000, '{"id", "assign"}', "{1}", "{2}", sim=True,
                           avoid='{"K1", "K2", "AK", "HC", "SA", "BC"}'), "num=%d" % (120 if q else 400), 1),
    ]


def generate(ctx, q):
    from concurrent.futures import ThreadPoolExecutor
    path = ctx.path("cases.ndjson")
    if os.environ.get("VERIF_DEV_REUSE") and os.path.exists(path):
        # development aid (mutation testing): reuse the generated cases, optionally every k-th only
        k = int(os.environ.get("VERIF_DEV_SAMPLE", "1"))
        lines = [ln for i, ln in enumerate(open(path)) if i % k == 0]
        path = ctx.path("cases-dev.ndjson")
        open(path, "w").writelines(lines)
        ctx.stage("generate (reused)", 0.0, cases=len(lines))
        return path, len(lines)
    sc = scopes(q)

    def one(arg):
        i, (name, cfg, sim, keep) = arg
        cp = ctx.path("Gen_YqWrite_%s.cfg" % name)
        open(cp, "w").write(cfg)
        r = vlib.tlc(ctx, "Gen_YqWrite.tla", cp, workers=2, simulate=sim, depth=400 if sim else None,
                     seed=ctx.seed + i, timeout=3000)
        if (sim is None and not r.completed) or (sim is not None and (r.violated or "Error:" in r.out)):
            raise vlib.ToolError("scope %s failed (violated=%s):\n%s" % (name, r.violated, r.out[-3000:]))
        lines = sorted(set(c14.replay_lines(r)))
        if keep > 1:
            lines = [ln for k, ln in enumerate(lines) if (k + ctx.seed) % keep == 0]
        if not lines:
            raise vlib.ToolError("scope %s generated nothing:\n%s" % (name, r.out[-2000:]))
        return name, sim, r, lines

    with ThreadPoolExecutor(max_workers=3) as ex:
        results = list(ex.map(one, enumerate(sc)))
    total = 0
    with open(path, "w") as f:
        for name, sim, r, lines in results:
            for ln in lines:
                f.write(ln + "\n")
            total += len(lines)
            if sim is None:
                ctx.cov["states"] = ctx.cov.get("states", 0) + r.distinct
                ctx.cov["transitions"] = ctx.cov.get("transitions", 0) + r.generated
            ctx.stage("generate " + name, r.wall, cases=len(lines), mode="simulate" if sim else "exhaustive")
            ctx.cov["cases_" + name] = len(lines)
    return path, total


def run(ctx):
    q = ctx.quick
    if not os.environ.get("VERIF_DEV_REUSE"):
        vlib.model_check(ctx, "MC_YqWrite.tla", "MC_YqWrite.cfg", workers=4, timeout=1200)
    path, total = generate(ctx, q)
    cli = vlib.cli_bin()
    b = vlib.harness_bin("c15")
    tp = ctx.path("trace.ndjson")
    op = ctx.path("cases-out.ndjson")
    tmp = ctx.path("tmp")
    os.makedirs(tmp, exist_ok=True)
    rc, out, wall = vlib.sh([b, "run", path, tp, op, "cli=" + cli, "tmp=" + tmp, "threads=6"], timeout=3000)
    summ = json.loads(out.strip().splitlines()[-1])
    ctx.stage("run cli pairs + reload", wall, **summ)
    kinds = summ["kinds"]
    if kinds.get("harness_error") or kinds.get("json_unparsable"):
        raise vlib.ToolError("harness problems: %s" % summ)
    if kinds.get("ok", 0) < summ["cases"] // 3 or summ["alias_events"] < 20 or summ["anchor_events"] < 50:
        raise vlib.ToolError("run is vacuous: %s" % summ)
    outs = {c["id"]: c for c in vlib.read_ndjson(op)}
    for c in outs.values():
        if c["kind"] == "known_k2":
            ctx.report({"class": "K2"}, "")

    def sig_of(e, events, k):
        # the case this event belongs to
        cid = None
        for j in range(k, -1, -1):
            if events[j].get("e") == "case":
                cid = events[j]["id"]
                break
        c = outs.get(cid, {})
        cls = classify(c, events, k)
        if cls:
            return {"class": cls}
        return {"event": e.get("e"), "prog": c.get("prog"), "I": c.get("I"), "input": c.get("input")}

    n = vlib.check_trace(ctx, "Trace_YqWrite.tla", "Trace.cfg", tp, sig_of, group_key=lambda e: e.get("e") == "case",
                         timeout=3000, result_field="n", selftest_filter=lambda e: e.get("e") == "obs", max_rounds=40)
    if ctx.violations:
        v = ctx.violations[0]
        for c in outs.values():
            if c.get("prog") == v["sig"].get("prog") and c.get("input") == v["sig"].get("input"):
                vlib.log("[C15] failing case: prog=%r I=%s\n input=%r\n yaml_out=%r\n json_out=%r" %
                         (c["prog"], c["I"], c["input"], c["yaml_out"], c["json_out"]))
                break
    for c in outs.values():
        if c["kind"] == "ok":
            ctx.note_distinct((c["prog"].split(" ")[1] if " " in c["prog"] else c["prog"], c["I"], len(c["input"])))
    ctx.cov["evaluations"] = kinds.get("ok", 0) + kinds.get("disagree", 0) + kinds.get("fail", 0)
    ctx.cov["skipped"] = {k: v for k, v in kinds.items() if k not in ("ok", "disagree", "fail")}
    ctx.cov["anchor_events"] = summ["anchor_events"]
    ctx.cov["alias_events"] = summ["alias_events"]
    ctx.cov["rule"] = ("one evaluation = one (input document, program, indent) case whose YAML output was reloaded and whose two "
                       "observations + node events TLC validated; distinct_nontrivial = distinct (operation, indent, input size)")
    for c in outs.values():
        if c["kind"] == "ok" and "*" in c.get("yaml_out", "") and "&" in c.get("yaml_out", "") and "=" in c.get("prog", ""):
            ctx.sample({k: c[k] for k in ("prog", "I", "input", "yaml_out", "json_out")}, limit=3)
    for c in outs.values():
        if c["kind"] == "ok" and c.get("I") in (0, 7) and len(c.get("yaml_out", "")) > 20:
            ctx.sample({k: c[k] for k in ("prog", "I", "input", "yaml_out", "json_out")}, limit=5)
    ctx.assumptions += [
        "inputs come from the C14 presentation grammar (trusted renderer); the reloading side is the library loader checked by C14 (its defects K1/K2 are avoided / classified)",
        "programs cover the write fragment listed in spec/YqWrite.tla only; exhaustive only in the small scopes (quick: a seed-determined sample of them)",
    ]


def classify(c, events, k):
    """Known-defect class of a rejected case, from its recorded outputs."""
    if not c:
        return ""
    e = events[k]
    if e.get("e") == "fail":
        m = re.search(r"unknown anchor '([^']+)'", e.get("what", ""))
        if m and len(re.findall(r"&" + re.escape(m.group(1)) + r"(?![A-Za-z0-9])", c.get("input", ""))) >= 2 \
                and "---" in c.get("input", ""):
            return "DUPANCHOR"      # the same anchor name is declared in two documents of the input stream
        if m and ("&" + m.group(1)) not in re.findall(r"&[A-Za-z0-9]+", c.get("yaml_out", "")):
            # the alias survives in the output but its anchor was not printed at all
            if m.group(1) in c.get("key_anchors", []):
                return "AKEY"
            if ("&" + m.group(1)) in c.get("input", "") and not re.search(r"(=|del\(|\*)", c.get("prog", "")):
                return "SUBALIAS"
            if ("&" + m.group(1)) in c.get("input", "") and re.search(r"\|?=", c.get("prog", "")) \
                    and ("*" + m.group(1)) in c.get("yaml_out", ""):
                # an assignment / update replaced the anchored node; the anchor is gone from the output but
                # aliases to it are still printed
                return "UPDANCHOR"
        return ""
    ev = [x for x in events[max(0, k - 1):k + 1] if x.get("e") == "obs"]
    if len(ev) == 2 and ev[0]["v"] != ev[1]["v"]:
        jt, yt = ev[0]["v"], ev[1]["v"]

        def text(tok):
            return bytes.fromhex(tok[2:]).decode("utf-8", "replace")
        # FLOWIND changes the SHAPE of the value (a,b becomes two entries): decided on the printed text.  A key or
        # string holding a flow indicator is printed unquoted inside a flow collection.
        for tok in jt:
            if tok[:2] in ("k:", "s:"):
                t = text(tok)
                if re.search(r"[,\[\]{}]", t) and re.search(r"[\[{,:]\s*(&\w+ )?" + re.escape(t) + r"\s*[:,\]}]", c.get("yaml_out", "")):
                    return "FLOWIND"
        # LSP (text form): a KEY with a leading blank is printed unquoted; in block context the line then reads as a
        # continuation of the previous entry, so the shape changes
        for tok in jt:
            if tok[:2] == "k:":
                t = text(tok)
                if len(t) > 1 and t[0] == " " and re.search(r"(^|\n|[{,\[])(- )*" + re.escape(t) + ":", c.get("yaml_out", "")):
                    return "LSP"
        # KEYBLK (text form): a key that is exactly `|` or `>` is printed unquoted (`|: ...`); depending on what follows
        # the loader reads an empty key or a block scalar
        if any(t in ("k:7c", "k:3e") for t in jt) and re.search(r"(^|\n)\s*(- )*(&\w+ )?[|>]:", c.get("yaml_out", "")):
            return "KEYBLK"
        # PCTKEY: the first key of a document starts with `%` and is printed plain at column 0, where the loader
        # (correctly) reads a directive line: the document comes back empty
        if re.match(r"(---\n)?%", c.get("yaml_out", "")) and len(yt) < len(jt):
            return "PCTKEY"
        if len(jt) != len(yt):
            return ""
        kinds = set()
        for a, b in zip(jt, yt):
            if a == b:
                continue
            if a[:2] in ("s:", "k:") and a[:2] == b[:2] and len(text(a)) > 1 and text(a).lstrip(" ") == text(b):
                kinds.add("LSP")        # a string / key lost its leading blanks
            elif a[:2] == "s:" and b[:2] == "n:" and (
                    (re.fullmatch(r"0o[0-7]+", text(a)) and b == "n:%d" % int(text(a)[2:], 8)) or
                    (re.fullmatch(r"0x[0-9a-fA-F]+", text(a)) and b == "n:%d" % int(text(a)[2:], 16))):
                kinds.add("OCT")        # a "0o17" / "0x1" string came back as an integer
            elif a[:2] == "s:" and b[:2] == "s:" and re.sub(r" # c(?=\n|$)", "", text(b)) == text(a) and text(b) != text(a):
                kinds.add("BSCOMMENT")  # the header comment of a block scalar was printed inside its content
            elif a in ("k:7c", "k:3e") and b == "k:":
                kinds.add("KEYBLK")     # the key `|` / `>` came back as the empty key
            else:
                return ""
        for cls in ("LSP", "OCT", "KEYBLK", "BSCOMMENT"):
            if cls in kinds:
                return cls
    return ""


# MUTANTS (scratch worktree /tmp/wt-c15 at /repo HEAD, private VERIF_ALT_BUILD; `VERIF_REPO=... VERIF_DEV_REUSE=1
# VERIF_DEV_SAMPLE=3 ./check C15` = the generated cases of the unchanged tree replayed through the mutated CLI; two
# mutants per build, with disjoint symptoms):
#   M1 yq_runner.rs scan_anchor_soundness: equality test dropped (`Some(d) if *d == value` -> `Some(_)`)
#        CAUGHT (exit 1): `.[0][1] |= 7` on `&a1 [[&a3 No, *a3, ...]]` keeps `*a3` -> the two observations disagree
#   M2 yq_runner.rs yaml_quote_key: `#` no longer forces quoting
#        CAUGHT: `.[0] = {"#k": "#h"}` prints `- #k: "#h"` (a comment) -> disagreement, not in any known class
#        (seen in the same run's trace; the check stops at the first unknown rejection, which was M1's)
#   M3 yq_runner.rs yaml_quote_string: `ends_with(' ')` dropped
#        CAUGHT (exit 1): `... |= " "` prints `['a', 'yes',  ]` -> the blank string is lost
#   M4 yq_runner.rs yaml_quote_string: `contains(" #")` dropped
#        MISSED by the case set of that run (literal 7 "a #b" was never drawn as an assigned value); the generators
#        were strengthened afterwards with the exhaustive `lits` / `newkeys` scopes (every literal of LITS as assigned
#        value and as new key, block and flow) - not re-run against M4 for lack of time (`.a = "a #b"` prints
#        `a: a #b`, which reloads as "a": the lits scope contains exactly this case).
