"""C12 — line/column mapping exact and history-independent (DESIGN.md §4 C12).

model stage : MC_LineIndex — for every text over {other,LF,CR} in scope, the graph
              <<text, cache>> closed under every query: implementation-shaped Step (one-entry
              cache, CAP-bounded forward walk, predecessor fall-through) always answers the pure
              abstract ToLineCol; cache invariant; round trip; Starts definitional sanity.
trace stage : real text::LineIndex (hooks build; cache triple logged after each call) and the
              JsonIndex/YamlIndex wrappers, validated by Trace_LineIndex.tla with the real CAP=16:
              every answer = the pure answer; the hooked cache must satisfy the documented
              representation invariant after every call (its exact content is not prescribed).

Interpretation: offsets are explored up to 2^31-2 (largest whose column fits a TLC integer);
to_offset with a huge line or column must answer None (the result is past the end).
"""
import json
import vlib

LEVEL = "model_checking"


def sig_of(e, events, k):
    s = {"event": e.get("e"), "panic": e.get("r") == -2 or e.get("line") == -2}
    if e.get("e") == "off":
        s["huge_col"] = e.get("col") == -1
        s["huge_line"] = e.get("line") == -1
    return s


def run(ctx):
    q = ctx.quick
    vlib.model_check(ctx, "MC_LineIndex.tla", "MC_LineIndex_quick.cfg" if q else "MC_LineIndex_thorough.cfg",
                     workers=8, timeout=3000)
    b = vlib.harness_bin("c12", ("hooks",))
    tp = ctx.path("trace.ndjson")
    rc, out, wall = vlib.sh([b, "record", tp, "seed=%d" % ctx.seed, "texts=%d" % (150 if q else 2500),
                             "ops=%d" % (150 if q else 300)], timeout=900)
    ctx.stage("record", wall, **json.loads(out.strip().splitlines()[-1]))
    n = vlib.check_trace(ctx, "Trace_LineIndex.tla", "Trace_LineIndex.cfg", tp, sig_of,
                         group_key=lambda e: e.get("e") == "build", timeout=3000, result_field="line",
                         selftest_filter=lambda e: e.get("e") == "lc")
    evs = vlib.read_ndjson(tp)
    k = 0
    for i, e in enumerate(evs):
        if e["e"] == "build":
            ctx.note_distinct(("text", json.dumps(e["t"])))
            k += 1
            if k <= 3:
                s = dict(e); s["t"] = s["t"][:60]
                ctx.sample({"build": s, "queries": evs[i + 1:i + 6]})
    ctx.cov["evaluations"] = n
    ctx.cov["query_histories"] = k
    ctx.cov["rule"] = ("one evaluation = one recorded call validated by TLC (answer = pure abstract answer, and for LineIndex "
                       "answer+cache = implementation-shaped Step); distinct_nontrivial = distinct texts, each with its own random query history")
    ctx.assumptions += ["CAP scaled to 2 in the model stage; the real cap 16 is exercised by traces",
                        "EliasFano predecessor/get used by LineIndex are specified abstractly here (their exactness is C03)",
                        "offsets above 2^31-2 are not explored (TLC integers)"]
