"""C01 — BitVec rank/select/access exact (DESIGN.md §4 C01).

model stage : MC_BitRuns (run-length evaluation = definitional BitSeq),
              MC_BitVec (scaled implementation-shaped BitVecImpl refines BitSeq, exhaustive)
trace stage : real BitVec (default / simd / portable-popcount builds, sample rates
              {0,1,2,3,63,64,255,256,257,4096}) validated event by event by Trace_BitVec.tla
"""
import json
import vlib

LEVEL = "model_checking"

CFGS = [("default", ()), ("simd", ("simd",)), ("portable-popcount", ("portable-popcount",))]


def sig_of(e, events, k):
    if e.get("e") == "build":
        return {"event": "build", "zeros_panic": e.get("zeros") == -2}
    return {"event": "q", "op": e.get("op"), "panic": e.get("r") == -2}


def run(ctx):
    q = ctx.quick
    vlib.model_check(ctx, "MC_BitRuns.tla", "MC_BitRuns.cfg", workers=8, timeout=600)
    vlib.model_check(ctx, "MC_BitVec.tla", "MC_BitVec_quick.cfg" if q else "MC_BitVec_thorough.cfg",
                     workers=8, timeout=3000)
    if not q:
        vlib.model_check(ctx, "MC_BitVec.tla", "MC_BitVec_thorough2.cfg", workers=8, timeout=3000)
    nvec = 150 if q else 1500
    total = 0
    for i, (name, feats) in enumerate(CFGS):
        b = vlib.harness_bin("c01", feats)
        tp = ctx.path("trace-%s.ndjson" % name)
        rc, out, wall = vlib.sh([b, "record", tp, "seed=%d" % (ctx.seed + i), "vectors=%d" % nvec, "cfg=" + name,
                                 "maxwords=%d" % (700 if q else 20000)], timeout=600)
        ctx.stage("record " + name, wall, **json.loads(out.strip().splitlines()[-1]))
        n = vlib.check_trace(ctx, "Trace_BitVec.tla", "Trace.cfg", tp, sig_of,
                             group_key=lambda e: e.get("e") == "build", timeout=1800, selftest=(i == 0))
        total += n
        evs = vlib.read_ndjson(tp)
        for e in evs:
            if e["e"] == "build":
                ctx.note_distinct(("v", json.dumps(e["rl"]), e["len"], e["rate"]))
        if i == 0:
            bi = [j for j, e in enumerate(evs) if e["e"] == "build"]
            for j in bi[:3]:
                s = dict(evs[j]); s["rl"] = s["rl"][:12]
                ctx.sample({"build": s, "first_queries": evs[j + 1:j + 4]})
    ctx.cov["evaluations"] = total
    ctx.cov["rule"] = ("one evaluation = one recorded API call validated by TLC; distinct_nontrivial = number of "
                       "distinct (bit vector, len, sample rate) triples built")
    ctx.assumptions += ["BitRuns (run-length evaluation) equals BitSeq only checked exhaustively for <=4 runs of length <=3",
                        "scaled constants (W=3,B=2,BLK=2,PRO=1) stand for (64,8,8,8) in the model stage; the real constants are exercised by traces only"]
