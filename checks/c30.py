"""C30 — jq programs never crash the process (DESIGN.md §4 C30).

model stage : MC_CallProtocol (Invoke -> exactly one Return(value|error); no action for panic /
              abort) and the GENERATOR state spaces: JqGrammarX.tla (138 program templates x
              extreme operands {infinite, nan, -0, 1e19, -1e19, 1e308, 9007199254740993,
              9223372036854775808, -1, 0.5} (+ the ordinary 3) in every numeric slot: string
              repetition, index / slice assignment and setpath padding, getpath, nth, limit,
              range, until/while with bounded loops, slices, implode, @base64d, ltrimstr,
              tojson/fromjson, tonumber, pow and the math builtins, indices, dates ...) and
              TokenSoup.tla (token soups over jq's token alphabet, exhaustive <= 2 (quick) /
              3 tokens, longer by -simulate).
replay      : every (program, input) in a SUPERVISED WORKER PROCESS: jq::parse, then jq::eval
              and jq::eval_generic under catch_unwind, all outputs materialised and printed.
              The supervisor observes a dead worker (SIGABRT on allocation failure, SIGSEGV /
              SIGABRT on stack overflow) for EVERY program, finds the evaluator that died by
              re-running them one by one in fresh workers, and restarts.
cli         : a seeded sample through `succinctly jq -c PROG` — exit status 101 / signal.
trace       : Trace_CallProtocol.tla validates the inv/ret events (all grammar programs, all
              anomalous soup calls, a 1-in-k sample of the other soup calls).

Interpretation decisions:
 * non-terminating programs are outside the statement: the grammar does not generate repeat /
   unbounded recurse / range(1e19) / until(false); `range` bounds come from domains that keep
   the loop short; token soups containing `def` are parsed but not evaluated (a recursive
   definition is the only way to loop forever with that alphabet).
 * mid-range sizes (10^9..10^12) are never generated, so a legitimate multi-gigabyte
   allocation cannot masquerade as an abort; every operand is tiny or >= 9e15.  If the worker
   (address space limited to 8 GiB) dies on an allocation < 2^47 bytes, that is INCONCLUSIVE;
   an allocation request >= 2^47 bytes (impossible on any machine) that aborts the process IS
   the violation the statement names.
 * wall-clock overrun (20 s per batch of 32 programs, 10 s per CLI run) -> inconclusive.
 * documented depth-limit panics ("nesting depth exceeds limit of N") are counted, not reported
   (no generated program nests deeper than a few levels).
 * jq errors (including `Cannot grow array to N elements`) are "a jq error": fine.
"""
import json
import re
import vlib
from checks import c19 as base

LEVEL = "exploration"


def shape_of_prog(prog):
    """Normalised form of a program for signatures of panics whose location is generic
    (inside the standard library) or of process deaths."""
    t = re.sub(r'"(?:[^"\\]|\\.)*"', "S", prog)
    t = re.sub(r"(?<![\w.$@])-?(?:infinite|nan|\d+(?:\.\d+)?(?:e[+-]?\d+)?)\b", "N", t)
    t2 = t.replace(" ", "")
    # a string-valued operand (literal, @format applied to the input, the input itself) times a number
    if re.search(r"(?:S|@\w+|^\.)\*\(?N|N\*(?:S|@\w+)", t2):
        return "string * number"
    return t[:80]


def shape_c30(api, anomaly):
    return shape_of_prog(anomaly.get("prog", ""))


def run(ctx):
    q = ctx.quick
    vlib.model_check(ctx, "MC_CallProtocol.tla", "MC_CallProtocol.cfg", workers=2, timeout=600)

    progs = base.generate(ctx, "JqGrammarX.tla", "JqGrammarX.cfg")
    tpls = set(p["tpl"] for p in progs)
    soups = base.generate(ctx, "TokenSoup.tla", "TokenSoup_jq2.cfg" if q else "TokenSoup_jq3.cfg")
    soups += base.generate(ctx, "TokenSoup.tla", "TokenSoup_jq_sim.cfg", simulate="num=%d" % (1500 if q else 20000), depth=10)
    ip = ctx.path("programs.ndjson")
    vlib.write_ndjson(ip, progs + soups)

    b = vlib.harness_bin("c30")
    tp, ap = ctx.path("trace-lib.ndjson"), ctx.path("anomalies-lib.ndjson")
    rc, out, wall = vlib.sh([b, "replay", ip, tp, "anomalies=" + ap, "cap=%d" % (60000 if q else 300000), "threads=4",
                             "seed=%d" % ctx.seed], timeout=6000)
    st = json.loads(out.strip().splitlines()[-1])
    per_api = st.pop("per_api")
    ctx.stage("replay (both evaluators, supervised worker)", wall, **st)
    ctx.cov["calls_by_api"] = per_api
    if per_api.get("jq.eval", [0])[0] < 1000 or per_api.get("jq.eval_generic", [0])[0] < 1000:
        raise vlib.ToolError("generator is vacuous: too few programs evaluate to a value: %s" % per_api)
    n_lib, known_lib = base.triage_and_validate(ctx, tp, ap, "lib", selftest=True, shape_of=shape_c30)

    if ctx.violations:
        return          # already decided; the CLI stage (a second, long build) adds nothing

    cli = vlib.cli_bin()
    tc, ac = ctx.path("trace-cli.ndjson"), ctx.path("anomalies-cli.ndjson")
    rc, out, wall = vlib.sh([b, "cli", ip, tc, "cli=" + cli, "anomalies=" + ac, "max=%d" % (160 if q else 3000), "also=" + ap, "threads=4",
                             "seed=%d" % ctx.seed], timeout=6000)
    sc = json.loads(out.strip().splitlines()[-1])
    ctx.stage("replay (CLI subprocess)", wall, **sc)
    n_cli, known_cli = base.triage_and_validate(ctx, tc, ac, "cli", selftest=False, shape_of=shape_c30)

    ctx.cov["evaluations"] = st["calls"] + sc["runs"]
    ctx.cov["rule"] = ("one evaluation = one guarded parse / eval / eval_generic call of a generated program in the supervised "
                       "worker, or one CLI run; distinct_nontrivial = distinct generated program texts; TLC validated %d "
                       "library + %d CLI events" % (n_lib, n_cli))
    ctx.cov["distinct_nontrivial"] = len(set(p["prog"] for p in progs)) + len(set(json.dumps(s_["p"]) for s_ in soups))
    ctx.cov["templates"] = len(tpls)
    ctx.cov["inconclusive"] = st["inconclusive"] + sc["inconclusive"]
    ctx.cov["documented_limit_panics"] = st["documented_limit"]
    ctx.cov["known_finding_calls"] = known_lib + known_cli
    ctx.cov["worker_restarts"] = st["worker_restarts"]
    for p in progs[7:9] + progs[2000:2002] + soups[-2:]:
        ctx.sample(p)
    ctx.assumptions += [
        "programs: templates x extreme operands (exhaustive) and token soups (exhaustive <= 2/3 tokens, simulated to 9); "
        "inputs are the small JSON documents named in the templates",
        "non-terminating shapes are not generated; token soups containing `def` are parsed, not evaluated",
        "aborts are observed as death of the worker / CLI process; allocation failures below 2^47 bytes under the 8 GiB "
        "sandbox limit and wall-clock overruns are inconclusive",
        "out-of-bounds accesses in unsafe code that do not trap are invisible (Miri/ASan would be a different technique)",
    ]


# MUTANTS (same scratch worktree as C19: HEAD + hooks/FIX-*.patch + all mutants; one
# `VERIF_REPO=/tmp/wt-c19 ./check C30` quick run, exit 1, each mutant visible under its own signature;
# the string-repetition and parser known findings no longer fired with the fixes applied):
#  N1 src/jq/eval.rs pad_with_nulls: `try_reserve(..).map_err(cannot_grow_array)` removed, plain
#     `resize` (reintroduces `capacity overflow` in setpath padding)
#       -> CAUGHT  `capacity overflow` panics for `.[1e19] = 1`, `setpath([1e19]; 9)`, `.[N] |= 5`, `.[N] += 1`,
#          to_entries/.[N]=..., reduce/setpath, and process ABORTS (SIGABRT, `memory allocation of
#          648518346341351568 bytes failed`) for `setpath([0, 9007199254740993, infinite]; 9)` in both evaluators
#          (observed by the worker supervisor: 8 alloc_impossible deaths)
#  N2 src/jq/eval.rs builtin_implode: `.unwrap_or('\u{FFFD}')` -> `.unwrap()`
#       -> CAUGHT  jq.eval panic at eval.rs:8434 (`[1e19] | implode`, `[-1] | implode`)
#  N3 src/jq/slice.rs clamp: upper clamp `folded >= len` dropped
#       -> CAUGHT  `range start/end index .. out of range` panics at eval.rs:12311, eval_generic.rs:3865 and
#          core slice index for `.[infinite:infinite]`, `.[nan:infinite] = ["x"]`, `del(.[-0:9007199254740993])`
#  M3 src/jq/parser.rs: `unwrap()` on a backslash at the end of a string literal
#       -> CAUGHT  jq.parse panic at parser.rs:579 on the token soup `"\`
#  natural mutants of the unchanged tree found by the first run: string repetition `"ab" * 1e19`
#  (capacity overflow) / `"ab" * 9007199254740993` (SIGABRT), jq parser `-é`.
