"""C20 — DSV index does not depend on the indexing engine (DESIGN.md §4 C20).

model stage : MC_QuoteMask  — prefix-XOR-by-shift-doubling and PDEP-deposit+adder quote masks at
                              scaled width W=8 equal the bit-serial definition on ALL 2^8 masks x
                              carry, and on all pairs of consecutive chunks (carry hand-over).
              MC_DsvChunked — the chunk loop with zero-padded, masked tail (padding byte of ANY
                              class: 0x00 may be a special byte) = bit-serial Dsv!Scan on every
                              class string <= 6 (thorough <= 8) at chunk width 3 / 4.
trace stage : the REAL engines build_index_scalar, simd::sse2, simd::avx2, simd::bmi2 and the
              dispatcher on engineered texts (quoted regions over 0..5 chunks, quote at bit 63/0,
              odd/even quote runs, lengths 64k+-1, 40 configurations incl. bytes 0x00/0x7F/0x80/0xFF,
              quote ', newline CR); Trace_DsvIndex.tla steps QuoteStep over the logged bytes and
              every engine's marker / newline offsets, counts and rank/select answers must equal it.
replay stage: every class string <= 5 (thorough 7) from Gen_Dsv placed across the 64-byte boundary
              at every cut x 6 configurations x 2 prefixes x all engines.

Interpretation: "mark exactly the same positions" is checked as "every engine marks exactly the
positions of the bit-serial definition" (stronger than pairwise equality only in that it also
pins the common answer, which is the documented scalar reference).  Set bits at offsets >=
text_len would change rank1(text_len), so the logged offsets cover all index words.
"""
import json
import os
import vlib

LEVEL = "model_checking"


def sig_of(e, events, k):
    if e.get("e") == "index":
        return {"event": "index", "eng": e.get("eng"), "panic": e.get("mc") == -2}
    if e.get("e") == "q":
        return {"event": "q", "eng": e.get("eng"), "op": e.get("op"), "panic": e.get("r") == -2}
    return {"event": e.get("e")}


def run(ctx):
    q = ctx.quick
    if not os.environ.get("VERIF_DEV_SKIP_MODEL"):      # development only (mutation runs against the code)
        vlib.model_check(ctx, "MC_QuoteMask.tla", "MC_QuoteMask.cfg", workers=6, timeout=1200)
        vlib.model_check(ctx, "MC_DsvChunked.tla", "MC_DsvChunked_quick.cfg" if q else "MC_DsvChunked_thorough.cfg",
                         workers=6, timeout=3000)
        if not q:
            vlib.model_check(ctx, "MC_DsvChunked.tla", "MC_DsvChunked_thorough2.cfg", workers=6, timeout=3000)

    b = vlib.harness_bin("c20")
    tp = ctx.path("trace.ndjson")
    rc, out, wall = vlib.sh([b, "record", tp, "seed=%d" % ctx.seed, "texts=%d" % (240 if q else 2000),
                             "big=%d" % (5 if q else 24)], timeout=900)
    st = json.loads(out.strip().splitlines()[-1])
    ctx.stage("record", wall, **st)
    if st["engines"] < 5:
        ctx.assumptions.append("host CPU lacks AVX2/BMI2: only %d engines exercised" % st["engines"])
    n = vlib.check_trace(ctx, "Trace_DsvIndex.tla", "Trace.cfg", tp, sig_of,
                         group_key=lambda e: e.get("e") == "text", timeout=2400)
    evs = vlib.read_ndjson(tp)
    engines, fams, cfgs = {}, {}, set()
    for e in evs:
        if e["e"] == "text":
            ctx.note_distinct(("t", e["d"], e["q"], e["n"], e["len"], hash(tuple(e["b"]))))
            fams[str(e["fam"])] = fams.get(str(e["fam"]), 0) + 1
            cfgs.add((e["d"], e["q"], e["n"]))
        elif e["e"] == "index":
            engines[e["eng"]] = engines.get(e["eng"], 0) + 1
    ctx.cov["engines"] = engines
    ctx.cov["text_families"] = fams
    ctx.cov["configurations"] = len(cfgs)
    for j, e in enumerate(evs):
        if e["e"] == "text" and 0 < e["len"] < 80:
            ctx.sample({"text": e, "index": {k: v for k, v in evs[j + 1].items()}})
            if len(ctx.cov["samples"]) >= 2:
                break

    res = vlib.tlc(ctx, "Gen_Dsv.tla", "Gen_Dsv_quick.cfg" if q else "Gen_Dsv_thorough.cfg", workers=4, timeout=900)
    if not res.completed:
        raise vlib.ToolError("Gen_Dsv did not complete:\n" + res.out[-3000:])
    beh = [json.loads(json.loads(ln[len('<<"REPLAY", '):-2])) for ln in res.printed("REPLAY")]
    ctx.stage("generate Gen_Dsv", res.wall, behaviours=len(beh), states=res.distinct)
    gp = ctx.path("gen.ndjson")
    vlib.write_ndjson(gp, beh)
    mp = ctx.path("replay-mismatches.ndjson")
    rc, out, wall = vlib.sh([b, "replay", gp, mp, "seed=%d" % ctx.seed], timeout=1800)
    rs = json.loads(out.strip().splitlines()[-1])
    ctx.stage("replay", wall, **rs)
    for m in vlib.read_ndjson(mp)[:5]:
        ctx.report({"stage": "replay", "eng": m["eng"]},
                   "engine %s cfg=(%d,%d,%d) class string %s at offset %d: markers %s (want %s) newlines %s (want %s)" % (
                       m["eng"], m["d"], m["q"], m["n"], m["cls"], m["off"], m["got_mk"], m["exp_mk"], m["got_nl"],
                       m["exp_nl"]), replay_events=[m])
    for bb in beh:
        ctx.note_distinct(("g", json.dumps(bb["cls"])))
    ctx.cov["evaluations"] = n + rs["builds"]
    ctx.cov["rule"] = ("one evaluation = one recorded index build / rank / select call validated by TLC, or one "
                       "index build compared with the TLC-predicted marker sets (replay); distinct_nontrivial = "
                       "distinct (text, configuration) traced + distinct class strings replayed")
    ctx.assumptions += [
        "scaled widths (W=8 for the mask algorithms, chunk width 3/4 for the chunk loop) stand for 64 in the model "
        "stage; the real width is exercised by traces and replay only",
        "_pdep_u64 and wrapping_add are modelled by their arithmetic definitions",
        "NEON / SVE2 engines cannot run on this x86_64 host and are not covered",
    ]

# MUTANTS (scratch worktree, VERIF_REPO=..., quick tier, model stage skipped; all must exit 1):
#  M1  quote_mask.rs next_carry ignores the incoming carry          -> caught (trace: index sse2; replay variant 2
#      [string across the 2nd boundary after a quoted region spanning the 1st] added because the first replay
#      version placed strings over <= 2 chunks only and missed it)
#  M2  avx2.rs  delim_mask1 << 32  ->  << 31                        -> caught (trace index avx2 + replay)
#  M3  x86.rs toggle64_bmi2: ODDS_MASK << (carry & 1) -> ODDS_MASK   -> caught (trace index bmi2/dispatch + replay)
#  M4  sse2.rs  quote_mask3 << 48  ->  << 47                        -> caught (trace index sse2 + replay)
#  M5  bmi2.rs  chunk loop never stores new_carry                    -> caught (trace index bmi2 + replay)
#  M10 parser.rs scalar: newline bytes not written to `markers`      -> caught (trace index scalar, event 2)
#  M8  index_lightweight.rs markers_select1: partition_point -> slice::binary_search (the issue-#196 shape)
#      -> NOT caught, and equivalent on this toolchain: rustc 1.95's binary_search returns the LAST of equal
#      elements (verified on [0,1,1,1,3] etc.), i.e. exactly partition_point - 1.
#  M8b the same lookup returning the FIRST of equal rank entries      -> caught (trace q mselect after a whole
#      64-bit word without marks; those targeted select queries (gap_ks) were added for this mutant)
#  not applicable: dropping `markers_word &= mask` in the tail chunk is equivalent (write_bits(_, remaining)
#      truncates); the spec-level counterpart (BitsToPos(.., W) instead of rem) IS rejected by MC_DsvChunked.
#  spec-level sanity (mutating the TLA+ transcription): NextCarry without carry, Pdep without the shift,
#      unmasked tail -> MC_QuoteMask / MC_DsvChunked report a violated invariant.
