"""C08 — strict JSON validation accepts exactly RFC 8259 documents, nesting <= 128 (DESIGN.md §4 C08).

model stage : MC_JsonGrammar — the byte-level PDA of JsonGrammar.tla explored as a state graph
              (append one of 49 byte-class representatives, depth-bounded, cap scaled): every
              non-stuck configuration is completed to acceptance by a bounded completion operator
              (=> Viable = longest extendable prefix), the cap rejects exactly at cap+1, the
              surrogate-pairing automaton accepts a subset of the RFC automaton.
              MC_JsonAbnf — the PDA accepts exactly the strings derivable from the RFC 8259 ABNF
              (an independent, set-valued transcription of the grammar) for all strings <= 4/4/3 (quick) / <= 5/5/4
              (thorough) over three 13-byte alphabets A (structure+numbers), B (escapes, literal
              names, LF), C (UTF-8 edges, control, CR).   MC_Bytes — line/column folds = definitional forms.
replay      : Gen_JsonGrammar enumerates ALL strings <= 5/4/4 (quick; <= 6/5/5 thorough)
              over the alphabets A/B/C with accept flag, Viable and the line/column table; run through
              succinctly::json::validate::validate.
trace       : number / keyword / top-level / escape / surrogate probes, nesting 126..131 (arrays,
              objects, mixed, siblings), every byte value substituted and inserted at every offset
              of tiny documents, generated documents with every single-byte mutation (spread of
              56 values), insertion, deletion and truncation at every offset, UTF-8 damage inside
              strings; whitespace LF / CR / CRLF / tab.  TLC runs the PDA over the logged bytes.

Oracle (no more than the statement): ok <=> RFC 8259 JSON text (ABNF of RFC 8259 §2-§7 over
well-formed UTF-8, nothing but ws around the one value) with nesting <= 128; on error
0 <= offset <= Viable(bytes) and (line, column) = position of that offset with LF, CR and CRLF each
ending one line, columns in bytes.  The error KIND is not constrained.

Known deviation (known_findings.d/C08.json): RFC 8259 §7 admits any \\uXXXX escape — §8.2 names
"\\uDEAD" as allowed by the ABNF — but validate.rs rejects unpaired surrogate escapes
(UnpairedSurrogate).  Events with that error kind are split off and must (a) match the
surrogate-PAIRING automaton of JsonGrammar.tla exactly (so the class is really "lone surrogate
escape", nothing else hides behind the signature) and (b) those among them that the RFC automaton
accepts are reported through the known-finding mechanism.
"""
import json
import os
import re
import vlib

LEVEL = "model_checking"

K_UNPAIRED = 7
KNOWN_SIG = {"api": "json::validate::validate", "class": "lone-surrogate-escape-rejected"}


def sig_of(e, events, k):
    if e.get("r") == -2:
        return {"api": "json::validate::validate", "class": "panic", "family": e.get("f")}
    return {"api": "json::validate::validate",
            "class": "accepts-non-json" if e.get("r") == -1 else "rejects-json-or-wrong-position",
            "family": e.get("f"), "kind": e.get("k")}


def _gen_replay(ctx, cfg, name, workers=6):
    if DEV_FAST and os.path.exists(ctx.path("replay-in-%s.ndjson" % name)):
        return _replay(ctx, name)
    res = vlib.tlc(ctx, "Gen_JsonGrammar.tla", cfg, workers=workers, timeout=3000, xmx="8g")
    if not res.completed:
        raise vlib.ToolError("Gen_JsonGrammar %s did not complete:\n%s" % (cfg, res.out[-3000:]))
    inp = ctx.path("replay-in-%s.ndjson" % name)
    n = 0
    with open(inp, "w") as f:
        for ln in res.out.splitlines():
            if ln.startswith('<<"REPLAY"'):
                f.write(json.loads(ln[ln.index(",") + 2: ln.rindex(">>")]) + "\n")
                n += 1
    ctx.stage("gen %s" % cfg, res.wall, behaviours=n, states=res.distinct)
    if n != res.distinct:
        raise vlib.ToolError("Gen_JsonGrammar: %d behaviours printed for %d states" % (n, res.distinct))
    del res
    return _replay(ctx, name)


def _replay(ctx, name):
    inp = ctx.path("replay-in-%s.ndjson" % name)
    b = vlib.harness_bin("c08")
    outp = ctx.path("replay-out-%s.ndjson" % name)
    rc, out, wall = vlib.sh([b, "replay", inp, outp], timeout=3000)
    st = json.loads(out.strip().splitlines()[-1])
    ctx.stage("replay %s" % name, wall, **st)
    ctx.add("replayed_behaviours", st["cases"])
    ctx.add("replayed_accepting", st["accepted"])
    if st["mismatches"]:
        for m in vlib.read_ndjson(outp)[:3]:
            ctx.report({"stage": "replay", "why": m.get("why")},
                       "replay mismatch (spec -> impl): %s" % json.dumps(m)[:700], replay_events=[m])
    return st


def _surrogate_class(ctx, sur, sentinel):
    """Events rejected with UnpairedSurrogate: must match the pairing automaton; those the RFC
    automaton accepts are the known deviation."""
    p = ctx.path("trace-surrogate.ndjson")
    vlib.write_ndjson(p, sur + [sentinel])
    r = vlib.tlc(ctx, "Trace_Json.tla", "Trace_Json.cfg", workers=1, timeout=1800,
                 env={"TRACE": p, "JSON_PAIRING": "1"}, xss="1g", deque=True)
    lines = r.printed("VERIF_TRACE")
    if not lines:
        raise vlib.ToolError("surrogate-class validation produced no verdict:\n" + r.out[-3000:])
    m = re.match(r'<<"VERIF_TRACE", (-?\d+), (-?\d+)>>', lines[-1])
    matched, total = int(m.group(1)), int(m.group(2))
    ctx.stage("trace Trace_Json.tla (pairing) on %d UnpairedSurrogate events" % len(sur), r.wall, matched=matched, total=total)
    if total != len(sur) + 1:
        raise vlib.ToolError("trace length mismatch in surrogate class")
    if matched < total:
        bad = (sur + [sentinel])[matched]
        ctx.report({"api": "json::validate::validate", "class": "unpaired-surrogate-verdict-wrong", "family": bad.get("f")},
                   "validator reports UnpairedSurrogate but the bytes do not contain an unpaired surrogate escape "
                   "(or position is wrong): %s" % json.dumps(bad)[:600], replay_events=[bad])
        return
    ctx.add("trace_events_validated", len(sur))
    hits = [int(re.match(r'<<"RFC_ACCEPTS", (\d+)>>', ln).group(1)) for ln in r.printed("RFC_ACCEPTS")]
    ctx.cov["lone_surrogate_events"] = len(sur)
    ctx.cov["lone_surrogate_events_rfc_valid"] = len(hits)
    for h in hits[:1]:
        e = sur[h - 1]
        ctx.report(dict(KNOWN_SIG), "validate(%r) fails with UnpairedSurrogate at offset %d although the bytes are an "
                   "RFC 8259 JSON text (RFC 8259 sec. 7 / 8.2)" % (bytes(e["b"]).decode("utf-8", "replace"), e["r"]),
                   replay_events=[e])
    if hits:
        ctx.add("known_finding_hits", len(hits) - 1)


# development only (mutation testing): VERIF_DEV_FAST=1 skips the model stage and reuses the
# TLC-generated replay inputs of a previous run (both are independent of the code under test)
DEV_FAST = os.environ.get("VERIF_DEV_FAST") == "1"


def run(ctx):
    q = ctx.quick
    if not DEV_FAST:
        vlib.model_check(ctx, "MC_Bytes.tla", "MC_Bytes.cfg", workers=6, timeout=600)
        vlib.model_check(ctx, "MC_JsonGrammar.tla", "MC_JsonGrammar_quick.cfg" if q else "MC_JsonGrammar_thorough.cfg",
                         workers=6, timeout=3000)
        vlib.model_check(ctx, "MC_JsonAbnf.tla", "MC_JsonAbnf_quick.cfg" if q else "MC_JsonAbnf_thorough.cfg",
                         workers=6, timeout=3000)

    # ---- spec -> impl
    _gen_replay(ctx, "Gen_JsonGrammar_quick.cfg" if q else "Gen_JsonGrammar_thorough.cfg", "q" if q else "t")

    # ---- impl -> spec
    b = vlib.harness_bin("c08")
    tp = ctx.path("trace-all.ndjson")
    rc, out, wall = vlib.sh([b, "record", tp, "seed=%d" % ctx.seed] +
                            (["docs=400", "muts=3", "ins=2", "tiny=4"] if q else ["docs=1200", "muts=8", "ins=4", "tiny=12"]),
                            timeout=1200)
    ctx.stage("record", wall, **json.loads(out.strip().splitlines()[-1]))
    evs = vlib.read_ndjson(tp)
    sur = [e for e in evs if e["r"] >= 0 and e["k"] == K_UNPAIRED]
    main = [e for e in evs if not (e["r"] >= 0 and e["k"] == K_UNPAIRED)]
    mp = ctx.path("trace.ndjson")
    vlib.write_ndjson(mp, main)
    n = vlib.check_trace(ctx, "Trace_Json.tla", "Trace_Json.cfg", mp, sig_of, group_key=lambda e: True,
                         selftest_filter=lambda e: e.get("e") == "val",   # "r" = reported offset / -1 ok: a result
                         timeout=3000, xmx="6g")
    if sur:
        sentinel = next(e for e in main if e["r"] == -1)
        _surrogate_class(ctx, sur, sentinel)

    shown = 0
    for e in evs:
        ctx.note_distinct((e["f"], e["k"], e["r"] == -1, len(e["b"]) // 8, e["ln"] > 1))
        if shown < 4 and e["f"] in ("doc", "nest") and 8 < len(e["b"]) < 40 and e["r"] > 3:
            s = dict(e)
            s["text"] = bytes(e["b"]).decode("utf-8", "replace")
            ctx.sample({"trace": s})
            shown += 1
    ctx.cov["trace_accepting"] = sum(1 for e in evs if e["r"] == -1)
    ctx.cov["trace_max_len"] = max(len(e["b"]) for e in evs)
    ctx.cov["evaluations"] = ctx.cov.get("trace_events_validated", 0) + ctx.cov.get("replayed_behaviours", 0)
    ctx.cov["rule"] = ("one evaluation = one call of json::validate::validate whose verdict (and, on error, offset "
                       "bound and line/column) was compared with the PDA of JsonGrammar.tla; distinct_nontrivial = "
                       "distinct (generator family, error kind, ok, length class, multi-line) in the trace")
    ctx.assumptions += [
        "RFC 8259 reading of 'JSON text': the ABNF incl. any \\uXXXX escape; BOM is not part of the grammar",
        "error kind is not constrained by the statement and not checked; only verdict, offset <= Viable and line/column",
        "the `succinctly json validate` CLI wrapper is not exercised (library entry point only)",
        "model stage explores the PDA with the nesting cap scaled to 3 (quick) / 4 (thorough); the real cap 128 is "
        "exercised by the nesting 126..131 traces",
    ]


# MUTANTS (scratch worktree under /tmp, VERIF_REPO=<worktree> ./check C08, quick tier), json/validate.rs:
#  1 enter_nested: nesting_depth >= MAX -> >                      CAUGHT trace (nest family, depth 129 accepted)
#  2 validate_escape: accept \v                                   CAUGHT trace (esc probes) 
#  3 validate_number: LeadingZero test disabled (if false)         NOT a semantic change for the property: "01" is
#       still rejected, at the same offset, by the caller (TrailingContent / expected ',' or ']') -- only the
#       error kind changes, which the statement does not constrain.  Equivalent mutant; replaced by 3b.
#  3b validate_number: '0' arm merged into the digit run (leading zeros really accepted)
#                                                                  CAUGHT replay ("00", "01" accepted)
#  4 skip_whitespace: CR no longer bumps `line`                    CAUGHT trace (line/column after CR)
#  5 validate_utf8_char: max 0x10FFFF -> 0x1FFFFF                  CAUGHT trace (F4 90 80 80 in a string accepted)
#  6 validate: trailing-content test disabled                      CAUGHT replay + trace
#  7 validate_keyword: error column not rewound to keyword start   CAUGHT replay/trace (line/column)
#  8 validate_number: exponent without digits accepted             CAUGHT replay ("1e" accepted)
#  9 validate_utf8_char: surrogate test for 3-byte sequences dropped   CAUGHT replay ("\\xED\\xA0\\x80: offset beyond viable prefix) + trace
# 10 validate_escape: 0xD7FF treated as a high surrogate           CAUGHT (UnpairedSurrogate class must match the
#       pairing automaton: "\uD7FF" is not an unpaired surrogate -> class unpaired-surrogate-verdict-wrong)
