"""C17 — YAML position tables return recorded positions under any access order
(DESIGN.md §4 C17; code: src/yaml/advance_positions.rs, end_positions.rs, index.rs).

model stage : MC_PositionTables — the implementation-shaped tables (PositionTablesImpl: IB bitmap
              sized from text_len, advance bitmap, cumulative ranks, select samples, zero-filling,
              Compact/Dense choice, SequentialCursor with the three `get` arms as three actions;
              scaled W=4, R=2) REFINE the abstract machine PositionTables for every recorded
              sequence of the bounded size and every lookup history of ANY length (the cursor
              state space of a bounded table is finite and explored completely), plus the cursor
              invariants of the code comments.  Three runs:
                as-coded  (IBExtra=0, AllowF3)  the code's IB sizing; the only admitted deviation
                                                is the known defect F3
                f3        (IBExtra=0, no allowance, tiny) must FAIL, and exactly with an F3 step:
                                                the model of the code as written exhibits the defect
                fixed     (IBExtra=1, no allowance)  the proposed repair refines with no exception
trace stage : the real YamlIndex (from_parts with arbitrary tables; YamlIndex::build on generated
              YAML) driven through all four accessors in sequential / gapped / backward / repeated /
              interleaved orders; every call validated by Trace_PositionTables.tla as a step of
              the abstract machine.  With hook H4 (hooks/H4-position-cursors.patch applied to the
              repo: `YamlIndex::verif_position_cursors`) the concrete cursor invariants and the
              Compact/Dense choice are validated on the real object after every call; without it
              that clause is skipped (evidence says which).

Interpretation decisions (no false alarms):
 * positions are taken from 0..=text_len (the statement lists "positions equal to the text
   length"; larger ones are not claimed and not generated);
 * End(i) for a node without a recorded end: None, or an end recorded for an EARLIER node; the
   clause "at or before its start" is demanded exactly when the producer kept its invariant for
   that node (most recently recorded end <= the node's start — the parser's debug assertion);
   tables breaking it (possible via from_parts) only get the weaker demand;
 * a start lookup through bp_to_text_pos(bp) is judged as Start(rank1(bp)) with BP = all opens
   (from_parts) or the real BP (yaml: bp = select1(i));
 * for parser-produced tables the "recorded" sequences are those a strictly sequential pass over a
   separate fresh index returns (the parser's raw vectors are private); random-order lookups on
   another fresh index must reproduce them.
"""
import json
import os
import re
import vlib

LEVEL = "model_checking"

F3_CLASS = "start==text_len,text_len%64==0,compact->None"
F3Y_CLASS = "trailing-node-start-None,text_len%64==0"


def h4_present():
    p = os.path.join(vlib.REPO, "src", "yaml", "index.rs")
    try:
        return "fn verif_position_cursors" in open(p).read()
    except OSError:
        return False


def _mono(v):
    return all(a <= b for a, b in zip(v, v[1:]))


def make_sig_of(events):
    builds = {e["g"]: e for e in events if e.get("e") == "build"}

    def sig_of(e, cur, k):
        if e.get("e") == "build":
            cls = "other"
            if e.get("n") == -2:
                cls = "constructor-panic"
            elif e.get("src") == "yaml" and any(v < 0 for v in e["s"]):
                s = e["s"]
                first = min(i for i, v in enumerate(s) if v < 0)
                if all(v < 0 for v in s[first:]) and e["tl"] % 64 == 0 and _mono(s[:first]):
                    cls = F3Y_CLASS
            return {"event": "build", "src": e.get("src"), "class": cls}
        b = builds.get(e.get("g"), {})
        table = "start" if e.get("op") in ("ts", "bs") else "end"
        cls = "panic" if e.get("r") == -2 else "other"
        a = e.get("a", -1)
        s = b.get("s", [])
        if (table == "start" and 0 <= a < len(s) and s[a] == b.get("tl") and b.get("tl", 1) % 64 == 0
                and e.get("r") == -1 and _mono(s)):
            cls = F3_CLASS
        return {"event": "q", "table": table, "class": cls}

    return sig_of


def model_stage(ctx):
    q = ctx.quick
    w = 8
    vlib.model_check(ctx, "MC_PositionTables.tla",
                     "MC_PositionTables_quick.cfg" if q else "MC_PositionTables_thorough.cfg",
                     workers=w, timeout=3000)
    vlib.model_check(ctx, "MC_PositionTables.tla",
                     "MC_PositionTables_fixed_quick.cfg" if q else "MC_PositionTables_fixed_thorough.cfg",
                     workers=w, timeout=3000)
    # the model of the code AS WRITTEN must exhibit F3 when the allowance is removed, and the
    # counterexample must be an F3 step (start == text_len, text_len % W == 0, answer None)
    r = vlib.tlc(ctx, "MC_PositionTables.tla", "MC_PositionTables_f3.cfg", workers=1, timeout=600)
    ok = False
    if "Action property" in r.out and "is violated" in r.out:
        tail = r.out[r.out.rfind("State "):]
        m_out = re.search(r'out = <<"start", (\d+), -1>>', tail)
        m_tl = re.search(r"tl = (\d+)", tail)
        m_st = re.search(r"starts = <<([0-9, ]*)>>", tail)
        if m_out and m_tl and m_st:
            st = [int(x) for x in m_st.group(1).split(",") if x.strip()]
            i, tl = int(m_out.group(1)), int(m_tl.group(1))
            ok = i < len(st) and st[i] == tl and tl % 4 == 0
            ctx.cov["model_f3_counterexample"] = {"W": 4, "text_len": tl, "starts": st, "lookup": i, "answer": "None"}
    if not ok:
        raise vlib.ToolError("MC_PositionTables_f3.cfg: expected the as-coded model to violate Refinement with an "
                             "F3 step, got:\n" + r.out[-3000:])
    ctx.stage("model MC_PositionTables_f3 (expected F3 counterexample)", r.wall, states=r.distinct)


def run(ctx):
    q = ctx.quick
    if os.environ.get("VERIF_C17_SKIP_MODEL") != "1":      # development only (mutation testing of /repo
        model_stage(ctx)                                   # code: the model stage does not read /repo)

    hook = h4_present()
    b = vlib.harness_bin("c17", ("hooks",) if hook else ())
    ctx.cov["hook_H4"] = "present: concrete cursor invariants validated" if hook else \
        "absent: cursor-invariant clause skipped (apply hooks/H4-position-cursors.patch)"
    total = 0
    # (name, mode, seed offset, tables, queries, big, bigq, yaml)
    rounds = [("main", "main", 0, 270, 70, 1, 400, 40), ("f3", "f3", 1, 45, 40, 0, 0, 12)] if q else \
             [("main", "main", 0, 1800, 120, 3, 3000, 300), ("main2", "main", 2, 1800, 60, 2, 1500, 300),
              ("f3", "f3", 1, 300, 60, 0, 0, 60)]
    for k, (name, mode, so, tables, queries, big, bigq, yaml) in enumerate(rounds):
        tp = ctx.path("trace-%s.ndjson" % name)
        rc, out, wall = vlib.sh([b, "record", tp, "mode=" + mode, "seed=%d" % (ctx.seed + so), "tables=%d" % tables,
                                 "queries=%d" % queries, "big=%d" % big, "bigq=%d" % bigq, "yaml=%d" % yaml],
                                timeout=900)
        info = json.loads(out.strip().splitlines()[-1])
        ctx.stage("record " + name, wall, **info)
        if bool(info.get("hook")) != hook:
            raise vlib.ToolError("harness hook flag %s does not match repo (H4 present: %s)" % (info.get("hook"), hook))
        evs = vlib.read_ndjson(tp)
        n = vlib.check_trace(ctx, "Trace_PositionTables.tla", "Trace.cfg", tp, make_sig_of(evs),
                             group_key=lambda e: e.get("e") == "build", timeout=2400, selftest=(k == 0),
                             max_rounds=6)
        total += n
        arms = {"seq": 0, "gap": 0, "back": 0}
        ops = {}
        prev = {}
        for e in evs:
            if e["e"] == "build":
                if e["n"] > 0:
                    ctx.note_distinct(("t", e["fam"], e["tl"], json.dumps(e["s"][:64]), json.dumps(e["en"][:64]), e["n"]))
                prev = {"s": 0, "e": 0}
                continue
            ops[e["op"]] = ops.get(e["op"], 0) + 1
            t = "s" if e["op"] in ("ts", "bs") else "e"
            a = e["a"] if e["a"] >= 0 else 1 << 30
            # which arm of `get` the call took, from the cursor BEFORE it (hook) or, without the
            # hook, approximated from the previous argument of the same table
            if hook:
                c = e["co" if t == "s" else "ce"]
                pc = prev.get("c" + t)
                noi = pc[0] if pc else 0
                prev["c" + t] = c if c else None
            else:
                noi = prev[t]
                prev[t] = a + 1
            arms["seq" if a == noi else "gap" if a > noi else "back"] += 1
        for kx, v in arms.items():
            ctx.add("lookups_arm_" + kx, v)
        for kx, v in ops.items():
            ctx.add("calls_" + kx, v)
        if k == 0:
            bi = [j for j, e in enumerate(evs) if e["e"] == "build"]
            for j in bi[:2] + bi[-1:]:
                s = dict(evs[j])
                s["s"], s["en"] = s["s"][:16], s["en"][:16]
                ctx.sample({"build": s, "first_queries": evs[j + 1:j + 4]})
    for kx in ("seq", "gap", "back"):
        if not ctx.cov.get("lookups_arm_" + kx):
            raise vlib.ToolError("no recorded lookup took the %s arm" % kx)
    ctx.cov["evaluations"] = total
    ctx.cov["rule"] = ("one evaluation = one recorded accessor call (or table construction) validated by TLC as a step "
                       "of the abstract machine; distinct_nontrivial = number of distinct non-empty (family, text_len, "
                       "starts, ends) tables built")
    ctx.assumptions += [
        "model stage uses scaled constants W=4, R=2 and tables of <= %d nodes over positions 0..8; the real constants "
        "(64, 256) are exercised by traces only" % (4 if q else 5),
        "bits::scan_select is modelled by its contract (per-word scan); its block-skipping phases are C01's subject",
        "positions > text_len are outside the statement and not generated",
        "parser-produced tables: the recorded sequences are read back by one sequential pass over a separate fresh "
        "index (the parser's vectors are private)",
    ]


# MUTANTS (scratch worktree /tmp/wt-c17 = /repo HEAD [+ hooks/H4-position-cursors.patch]; quick tier,
# trace stage — the model stage does not read /repo; every run: VIOLATION + exit 1 unless noted):
#   M1  advance_positions.rs get_sequential: `cursor.ib_ones_before = k - rem` -> `k`
#         hook: caught (event 12, cursor invariant ib_ones_before)   no hook: caught (event 10, wrong start)
#   M2  advance_positions.rs advance_cursor_to: adv_cumulative not refreshed (stale rank after a forward gap)
#         caught (event 6, wrong start)          [DESIGN's "forgets next_open_idx" is an equivalent mutant:
#         get_sequential overwrites next_open_idx unconditionally]
#   M3  end_positions.rs Dense get: `.filter(pos > 0)` dropped (Some(0) for a node without an end)
#         caught (event 372: 0 is neither None nor a recorded end)
#   M4  advance_positions.rs get_random: cursor re-seeded with ib_word_idx 0 but the real ib_ones_before
#         hook: caught (event 384, invariant)    no hook: caught (event 373, wrong start after a backward jump)
#   M5  end_positions.rs get_sequential: `cursor.ib_ones_before = k - remaining` -> `k`
#         hook: caught (event 27)                no hook: caught (event 319, wrong end)
#   M6  advance_positions.rs get: forward-gap arm calls get_sequential without advance_cursor_to
#         caught (event 6)
#   M7  advance_positions.rs ib_select1_with_state: `skip_ones - prefix_ones` -> `skip_ones` (stale ones_before
#         handed to the cursor by get_random; needs > 256 distinct positions and a sample bit inside a word)
#         hook: caught (event 832, invariant at open 257)   no hook: caught (event 2950, wrong start, family
#         sample-boundary)
#   M8  advance_positions.rs OpenPositions::build: monotonic test `<=` -> `<` (duplicates force Dense)
#         hook: caught (event 107, variant tag: Dense where the documentation promises Compact);
#         without the hook this mutant is not observable through the accessors (Dense answers are right)
#   M9  end_positions.rs try_build: monotonicity check lets a dip of exactly 1 through (`pos + 1 < prev`)
#         first MISSED (no generated table had a single small inversion) -> family "near-mono" added ->
#         hook: caught (event 1039, variant tag)   no hook: caught (event 1040, wrong end in a near-mono table)
#   M10 end_positions.rs try_build: zero-fill takes the NEXT node's end instead of the previous one
#         hook: caught (event 50: inherited end is not an earlier node's)   no hook: caught (event 23)
#   M11 advance_positions.rs get_sequential: duplicate fast path also taken for k = last_ib_arg + 1 when k % 7 == 3
#         caught (event 12)
