"""JSON tooling for the CLI checks C11 / C27 -- written independently of the library under
test: a strict RFC 8259 reader that keeps duplicate keys and their order, a renderer with layout /
spelling variations, and seeded generators.

Tree node (uniform, as spec/JsonPrint.tla):  {"t","a","cp","ks","ch"}
  t in null|true|false|num|str|arr|obj ; a = atom of a number (float(lit).hex(), zero unsigned) ;
  cp = code points of a string ; ks = keys (code-point lists) ; ch = children.
Internal nodes additionally carry "lit" (number literal as generated); strip() removes it.
"""
import json
import re
import sys

sys.setrecursionlimit(20000)

NUM_RE = re.compile(r'-?(?:0|[1-9][0-9]*)(?:\.[0-9]+)?(?:[eE][+-]?[0-9]+)?')
WS = " \t\n\r"


def node(t, a="", cp=None, ks=None, ch=None):
    return {"t": t, "a": a, "cp": cp or [], "ks": ks or [], "ch": ch or []}


def atom(lit):
    f = float(lit)
    if f == 0.0:
        return "0x0.0p+0"
    return f.hex()


def strip(n):
    return {"t": n["t"], "a": n["a"], "cp": n["cp"], "ks": n["ks"], "ch": [strip(c) for c in n["ch"]]}


def flat(n, out=None):
    """Preorder token list [t,a,cp,ks,n] (the trace encoding: TLC's JSON reader refuses nesting
    deeper than 255)."""
    if out is None:
        out = []
    out.append({"t": n["t"], "a": n["a"], "cp": n["cp"], "ks": n["ks"], "n": len(n["ch"])})
    for c in n["ch"]:
        flat(c, out)
    return out


def unflat(toks):
    def at(i):
        k = toks[i]
        ch = []
        i += 1
        for _ in range(k["n"]):
            c, i = at(i)
            ch.append(c)
        return node(k["t"], k["a"], k["cp"], k["ks"], ch), i
    return at(0)[0]


class Bad(Exception):
    pass


# ------------------------------------------------------------------------------------------
# strict reader
# ------------------------------------------------------------------------------------------

def read_value(s, i):
    """Parse one JSON value of the str `s` starting exactly at i (no leading whitespace).
    Returns (node, end).  Raises Bad."""
    n = len(s)
    if i >= n:
        raise Bad("eof")
    c = s[i]
    if c == '{':
        i = skip_ws(s, i + 1)
        ks, ch = [], []
        if i < n and s[i] == '}':
            return node("obj"), i + 1
        while True:
            if i >= n or s[i] != '"':
                raise Bad("key expected at %d" % i)
            k, i = read_string(s, i)
            i = skip_ws(s, i)
            if i >= n or s[i] != ':':
                raise Bad("colon expected at %d" % i)
            i = skip_ws(s, i + 1)
            v, i = read_value(s, i)
            ks.append(k)
            ch.append(v)
            i = skip_ws(s, i)
            if i < n and s[i] == ',':
                i = skip_ws(s, i + 1)
                continue
            if i < n and s[i] == '}':
                return node("obj", ks=ks, ch=ch), i + 1
            raise Bad("',' or '}' expected at %d" % i)
    if c == '[':
        i = skip_ws(s, i + 1)
        ch = []
        if i < n and s[i] == ']':
            return node("arr"), i + 1
        while True:
            v, i = read_value(s, i)
            ch.append(v)
            i = skip_ws(s, i)
            if i < n and s[i] == ',':
                i = skip_ws(s, i + 1)
                continue
            if i < n and s[i] == ']':
                return node("arr", ch=ch), i + 1
            raise Bad("',' or ']' expected at %d" % i)
    if c == '"':
        cp, i = read_string(s, i)
        return node("str", cp=cp), i
    for word in ("null", "true", "false"):
        if s.startswith(word, i):
            return node(word), i + len(word)
    m = NUM_RE.match(s, i)
    if m and m.end() > i:
        return node("num", a=atom(m.group(0))), m.end()
    raise Bad("value expected at %d" % i)


def skip_ws(s, i):
    n = len(s)
    while i < n and s[i] in WS:
        i += 1
    return i


HEX = "0123456789abcdefABCDEF"
SHORT = {'"': 34, '\\': 92, '/': 47, 'b': 8, 'f': 12, 'n': 10, 'r': 13, 't': 9}


def read_string(s, i):
    assert s[i] == '"'
    i += 1
    n = len(s)
    cp = []
    while True:
        if i >= n:
            raise Bad("unterminated string")
        c = s[i]
        o = ord(c)
        if c == '"':
            return cp, i + 1
        if o < 0x20:
            raise Bad("raw control character in string at %d" % i)
        if c != '\\':
            cp.append(o)
            i += 1
            continue
        if i + 1 >= n:
            raise Bad("dangling backslash")
        e = s[i + 1]
        if e in SHORT:
            cp.append(SHORT[e])
            i += 2
            continue
        if e != 'u':
            raise Bad("bad escape \\%s at %d" % (e, i))
        h = s[i + 2:i + 6]
        if len(h) != 4 or any(x not in HEX for x in h):
            raise Bad("bad \\u escape at %d" % i)
        u = int(h, 16)
        i += 6
        if 0xD800 <= u < 0xDC00 and s[i:i + 2] == '\\u':
            h2 = s[i + 2:i + 6]
            if len(h2) == 4 and all(x in HEX for x in h2):
                u2 = int(h2, 16)
                if 0xDC00 <= u2 < 0xE000:
                    cp.append(0x10000 + ((u - 0xD800) << 10) + (u2 - 0xDC00))
                    i += 6
                    continue
        cp.append(u)     # lone surrogates stay as their own (unequal to anything generated)


def read_document(text):
    """A whole text holding exactly one value (surrounding whitespace allowed)."""
    i = skip_ws(text, 0)
    v, i = read_value(text, i)
    i = skip_ws(text, i)
    if i != len(text):
        raise Bad("trailing data at %d" % i)
    return v


VALUE_START = set('{["-0123456789tfn')


def read_frames(raw):
    """Split CLI stdout (bytes) into frames {pre, v, post}: pre = RS bytes before the value,
    post = every byte after it that can neither start a value nor be an RS.  Returns
    (frames, n_ok); an unreadable remainder becomes one frame with v.t = "bad".  Readable frames
    also carry "span" = (start, end) of the value text in the decoded stdout."""
    try:
        s = raw.decode("utf-8")
    except UnicodeDecodeError:
        return [{"pre": [], "v": node("bad", a="utf8"), "post": []}], 0
    frames = []
    ok = 0
    i, n = 0, len(s)
    while i < n:
        pre = []
        while i < n and s[i] == '\x1e':
            pre.append(0x1e)
            i += 1
        try:
            v, j = read_value(s, i)
        except Bad as e:
            rest = s[i:]
            frames.append({"pre": pre, "v": node("bad", a=str(e)[:60], cp=[ord(c) for c in rest[:40]]), "post": []})
            return frames, ok
        ok += 1
        i0 = j
        post = []
        while j < n and s[j] != '\x1e' and s[j] not in VALUE_START:
            post += list(s[j].encode("utf-8"))
            j += 1
        frames.append({"pre": pre, "v": v, "post": post, "span": (i, i0)})
        i = j
    return frames, ok


def from_python_json(text):
    """Second, independent reader (python's json, duplicates and order kept) -> node."""
    class Obj(list):
        pass

    def conv(x):
        if x is None:
            return node("null")
        if x is True:
            return node("true")
        if x is False:
            return node("false")
        if isinstance(x, Num):
            return node("num", a=atom(x.lit))
        if isinstance(x, str):
            return node("str", cp=cps_of(x))
        if isinstance(x, Obj):
            return node("obj", ks=[cps_of(k) for k, _ in x], ch=[conv(v) for _, v in x])
        if isinstance(x, list):
            return node("arr", ch=[conv(v) for v in x])
        raise Bad("unexpected python value %r" % (x,))

    class Num:
        def __init__(self, lit):
            self.lit = lit

    def no_constant(c):
        raise Bad("constant " + c)

    return conv(json.loads(text, object_pairs_hook=Obj, parse_float=Num, parse_int=Num, parse_constant=no_constant))


def cps_of(pystr):
    """Code points of a python str that may hold surrogate code units (json module keeps
    escaped pairs combined already; lone ones stay)."""
    return [ord(c) for c in pystr]


# ------------------------------------------------------------------------------------------
# rendering with spelling / layout variation
# ------------------------------------------------------------------------------------------

SHORT_OF = {34: '\\"', 92: '\\\\', 47: '\\/', 8: '\\b', 12: '\\f', 10: '\\n', 13: '\\r', 9: '\\t'}


def hex4(u, rng):
    h = "%04x" % u
    r = rng.random()
    if r < 0.4:
        return h.upper()
    if r < 0.6:
        return "".join(ch.upper() if rng.random() < 0.5 else ch for ch in h)
    return h


def spell_cp(c, rng, esc):
    """esc: probability of escaping a character that could be written literally."""
    must = c < 0x20 or c in (34, 92)
    if not must and rng.random() >= esc:
        return chr(c)
    if c in SHORT_OF and (c != 47 or True) and rng.random() < 0.6:
        return SHORT_OF[c]
    if c >= 0x10000:
        v = c - 0x10000
        return "\\u" + hex4(0xD800 + (v >> 10), rng) + "\\u" + hex4(0xDC00 + (v & 0x3FF), rng)
    return "\\u" + hex4(c, rng)


def spell_string(cp, rng, esc):
    return '"' + "".join(spell_cp(c, rng, esc) for c in cp) + '"'


def ws(rng, style):
    if style == "compact":
        return ""
    if style == "space":
        return " " if rng.random() < 0.5 else ""
    k = rng.choice((0, 0, 1, 1, 2, 3))
    return "".join(rng.choice(WS) for _ in range(k))


def render(n, rng, style="wild", esc=0.15):
    """JSON text of an internal node (num nodes carry "lit")."""
    out = []
    _render(n, rng, style, esc, out)
    return "".join(out)


def _render(n, rng, style, esc, out):
    t = n["t"]
    if t in ("null", "true", "false"):
        out.append(t)
    elif t == "num":
        out.append(n["lit"])
    elif t == "str":
        out.append(spell_string(n["cp"], rng, esc))
    elif t == "arr":
        out.append("[")
        out.append(ws(rng, style))
        for i, c in enumerate(n["ch"]):
            if i:
                out.append(ws(rng, style))
                out.append(",")
                out.append(ws(rng, style))
            _render(c, rng, style, esc, out)
        if n["ch"]:
            out.append(ws(rng, style))
        out.append("]")
    elif t == "obj":
        out.append("{")
        out.append(ws(rng, style))
        for i, (k, c) in enumerate(zip(n["ks"], n["ch"])):
            if i:
                out.append(ws(rng, style))
                out.append(",")
                out.append(ws(rng, style))
            out.append(spell_string(k, rng, esc))
            out.append(ws(rng, style))
            out.append(":")
            out.append(ws(rng, style))
            _render(c, rng, style, esc, out)
        if n["ch"]:
            out.append(ws(rng, style))
        out.append("}")
    else:
        raise ValueError(t)


# ------------------------------------------------------------------------------------------
# generators
# ------------------------------------------------------------------------------------------

NUM_LITS = [
    "0", "-0", "1", "-1", "7", "42", "1.0", "1.50", "0.1", "-0.25", "1e3", "1E3", "1e+3", "1E-2", "2.5e-3",
    "100", "1e0", "0e0", "0.0", "-0.0", "0E-10", "3.14159", "1.10", "123456789", "1234567890123",
    "9007199254740991", "9007199254740992", "9007199254740993", "-9007199254740993",
    "9223372036854775807", "-9223372036854775808", "9223372036854775808", "18446744073709551615",
    "18446744073709551616", "123456789012345678901234567890", "-123456789012345678901234567890",
    "100000000000000000000", "1e22", "1e23", "1.7976931348623157e308", "-1.7976931348623157E+308",
    "2.2250738585072014e-308", "5e-324", "4.9406564584124654e-324", "1e-400", "0.000001", "1e-7",
    "0.1e1", "12.5E+1", "1.0000000000000002", "0.30000000000000004", "2e2", "4e4", "-4E4",
    "1.23456789012345678901234567890", "1e15", "1e16", "1e17", "99999999999999999999.5",
]

CP_POOL = (
    list(range(0x20, 0x7f)) * 3 + [0x7f, 0x80, 0x9f, 0xa0, 0xe9, 0xff, 0x100, 0x3b1, 0x416, 0x5d0, 0x7ff, 0x800,
                                   0x2028, 0x2029, 0x20ac, 0x3042, 0x4e2d, 0xd7ff, 0xe000, 0xfeff, 0xfffd, 0xfffe,
                                   0xffff, 0x10000, 0x1f600, 0x1f4a9, 0x2f800, 0x10ffff] * 2
    + list(range(0, 0x20)) + [34, 92, 47] * 3)

KEY_POOL = [[97], [98], [], [97, 97], [66], [233], [0xffff], [0x1f600], [34, 92], [97, 0], [47], [97, 47, 98],
            [0x7f], [10], [32], [0xe000], [0x10000], [107, 101, 121], [0x3b1, 0x3b2], [48], [45, 49], [0x20ac]]


def rand_cps(rng, maxlen=8):
    k = rng.choice((0, 1, 1, 2, 3, 5, maxlen))
    return [rng.choice(CP_POOL) for _ in range(k)]


def rand_scalar(rng, allow_str=True):
    r = rng.random()
    if r < 0.12:
        return node(rng.choice(("null", "true", "false")))
    if r < 0.55 or not allow_str:
        lit = rng.choice(NUM_LITS)
        n = node("num", a=atom(lit))
        n["lit"] = lit
        return n
    return node("str", cp=rand_cps(rng))


def rand_key(rng):
    if rng.random() < 0.7:
        return list(rng.choice(KEY_POOL))
    return rand_cps(rng, 5)


def rand_tree(rng, budget, depth=0, dup=0.3, top=True, allow_top_str=True):
    """Random tree with about `budget` nodes; objects repeat keys with probability dup."""
    if budget <= 1 or (depth > 0 and rng.random() < 0.25):
        return rand_scalar(rng, allow_str=(allow_top_str or not top))
    k = rng.choice((0, 1, 2, 2, 3, 4, 6))
    k = min(k, budget - 1)
    kind = rng.choice(("arr", "obj", "obj"))
    share = max(1, (budget - 1) // max(1, k))
    ch = [rand_tree(rng, share, depth + 1, dup, False) for _ in range(k)]
    if kind == "arr":
        return node("arr", ch=ch)
    ks = []
    for _ in range(k):
        if ks and rng.random() < dup:
            ks.append(list(rng.choice(ks)))
        else:
            ks.append(rand_key(rng))
    return node("obj", ks=ks, ch=ch)


def wide_object(rng, nfields, dup=True):
    """An object with more than 16 fields (the printer's duplicate probe switches from a
    pairwise scan to a sort above 16) and repeated keys at chosen places."""
    ks = [[107] + [ord(c) for c in str(i)] for i in range(nfields)]
    if dup:
        for _ in range(rng.choice((1, 2, 3))):
            i, j = rng.randrange(nfields), rng.randrange(nfields)
            ks[j] = list(ks[i])
    rng.shuffle(ks)
    ch = [rand_tree(rng, rng.choice((1, 1, 3)), 1, 0.3, False) for _ in ks]
    return node("obj", ks=ks, ch=ch)


def deep_tree(rng, depth, kind="mix", inner=None):
    """`depth` nested containers around `inner` (None: the innermost container is empty)."""
    cur = inner
    for d in range(depth):
        k = kind if kind != "mix" else rng.choice(("arr", "obj"))
        kids = [] if cur is None else [cur]
        if k == "arr":
            if cur is not None and rng.random() < 0.2:
                kids = [rand_scalar(rng)] + kids
            cur = node("arr", ch=kids)
        else:
            ks = [rand_key(rng) for _ in kids]
            if cur is not None and rng.random() < 0.2:      # a duplicate key overridden by the deep value
                ks = [list(ks[0])] + ks
                kids = [rand_scalar(rng)] + kids
            cur = node("obj", ks=ks, ch=kids)
    return cur


def has_dup(n):
    if n["t"] == "obj":
        seen = set()
        for k in n["ks"]:
            tk = tuple(k)
            if tk in seen:
                return True
            seen.add(tk)
    return any(has_dup(c) for c in n["ch"])


def size(n):
    return 1 + sum(size(c) for c in n["ch"])


def depth_of(n):
    if n["t"] in ("arr", "obj"):
        return 1 + max([depth_of(c) for c in n["ch"]] or [0])
    return 0
