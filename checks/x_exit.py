"""Extra stage (beyond the listed properties): the exit-status protocol of `succinctly jq`
(halt outranks error outranks -e; ExitProtocol.tla).  spec -> impl: TLC enumerates every
sequence of per-input outcomes in a small scope with the predicted exit codes and output
count; each behaviour is instantiated as a real CLI run (a JSON stream whose records tell a
fixed driver program what to output and how to end) on several evaluation routes, with and
without -e; exit status and stdout must equal the prediction."""
import json
import os
import random
import subprocess
from concurrent.futures import ThreadPoolExecutor

import vlib

PROG = ('. as $r | .o[], (if $r.end == "error" then error("x") elif $r.end == "halt" then halt '
        'elif $r.end == "halt_error" then ("m"|halt_error($r.code)) else empty end)')
VAL = {"t": "true", "f": "false", "n": "null"}
ROUTES = [("plain", [], ""), ("nonlazy-comment", [], " # input"), ("seq", ["--seq"], ""), ("sortkeys", ["-S"], "")]


def _expected_stdout(inputs):
    out = []
    for inp in inputs:
        out += [VAL[v] for v in inp["outs"]]
        if inp["end"] in ("halt", "halt_error"):
            break
        # an uncaught error ends this input's evaluation (its outputs came first) and the run goes on
    return out


def _run_one(cli, beh, route, flag_e, workdir, idx):
    name, flags, suffix = route
    # --seq switches BOTH input and output to RFC 7464 framing: every input record needs an RS prefix
    rs = "\x1e" if "--seq" in flags else ""
    text = "".join(rs + json.dumps({"o": [json.loads(VAL[v]) for v in i["outs"]], "end": i["end"], "code": i["code"]}) + "\n"
                   for i in beh["inputs"])
    cmd = [cli, "jq", "-c"] + flags + (["-e"] if flag_e else []) + [PROG + suffix]
    p = subprocess.run(cmd, input=text.encode(), stdout=subprocess.PIPE, stderr=subprocess.PIPE, timeout=60)
    got = [ln.lstrip("\x1e") for ln in p.stdout.decode("utf-8", "replace").splitlines() if ln.strip("\x1e")]
    exp_code = beh["exitE"] if flag_e else beh["exit0"]
    exp_out = _expected_stdout(beh["inputs"])
    ok = (p.returncode == exp_code and got == exp_out)
    return ok, {"route": name, "e": int(flag_e), "inputs": beh["inputs"], "expected_exit": exp_code, "got_exit": p.returncode,
                "expected_stdout": exp_out, "got_stdout": got, "stderr": p.stderr.decode("utf-8", "replace")[:300]}


def stage(ctx):
    cli = vlib.cli_bin()
    r = vlib.tlc(ctx, "Gen_ExitProtocol.tla", "Gen_ExitProtocol_quick.cfg" if ctx.quick else "Gen_ExitProtocol_thorough.cfg",
                 workers=4, timeout=1200)
    if not r.completed:
        raise vlib.ToolError("Gen_ExitProtocol did not complete:\n" + r.out[-3000:])
    ctx.stage("gen exit-protocol", r.wall, behaviours=r.distinct)
    ctx.add("states", r.distinct)
    ctx.add("transitions", r.generated)
    behs = [json.loads(json.loads(ln[len('<<"REPLAY", '):-2])) for ln in r.printed("REPLAY")]
    rng = random.Random(ctx.seed)
    small = [b for b in behs if len(b["inputs"]) <= 1]
    big = [b for b in behs if len(b["inputs"]) > 1]
    rng.shuffle(big)
    chosen = small + big[:(120 if ctx.quick else 6000)]
    jobs = []
    for i, b in enumerate(chosen):
        for route in ROUTES:
            for fe in (False, True):
                jobs.append((b, route, fe, i))
    bad = 0
    with ThreadPoolExecutor(max_workers=4) as ex:
        for ok, info in ex.map(lambda j: _run_one(cli, j[0], j[1], j[2], ctx.work, j[3]), jobs):
            if not ok:
                bad += 1
                if bad <= 3:
                    ctx.report({"component": "exit-protocol", "route": info["route"], "e": info["e"],
                                "expected_exit": info["expected_exit"], "got_exit": info["got_exit"]},
                               "exit-status protocol mismatch: " + json.dumps(info)[:700], replay_events=[info])
    ctx.add("exit_protocol_cli_runs", len(jobs))
    ctx.cov.setdefault("extra_samples", []).append({"exit_protocol_behaviour": chosen[len(small) if len(chosen) > len(small) else 0]})
    return len(jobs)
