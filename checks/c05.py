"""C05 — JSON semi-index does not depend on the indexing engine (DESIGN.md §4 C05).

model stage  : MC_JsonScan — all strings over one representative byte per class up to length 6
               (the step functions provably depend on the byte only through its class: checked for
               all 256 bytes x all states): chunked evaluation carrying only the state = whole
               evaluation at every split point, neutral-padding lemma, #IB/#BP relations, position
               lists = written bit strings.
tables       : the public json::pfsm_tables::{TRANSITION_TABLE, PHI_TABLE} (256 x 4 raw entries and
               the PfsmState extractors) validated exhaustively against JsonScan!StdStep by TLC.
replay (R)   : Gen_JsonScan — every class string <= 4 (thorough 5) instantiated with edge bytes, and
               every single byte value in every state (+ a probe suffix), with the semi-indexes the
               spec predicts; the harness embeds each at offsets 0..70 (leading neutral padding,
               optional trailing neutral padding) and runs scalar, PFSM, SSE2, AVX2 and the
               dispatcher for both encodings.
trace (T)    : valid / mutated JSON, random bytes, escape and value runs straddling 16/32/64-byte
               boundaries, lengths 0..4 KiB (thorough 16 KiB): TLC steps both automata over the logged
               bytes and every engine's final state, IB words and BP words must equal the reference.
index (T)    : the IB/BP words held by JsonIndex::build / SimpleJsonIndex::build ("consequently every
               index built by the library is the reference index of its input").

Interpretation decisions (weaker reading where the statement is silent):
 * a SemiIndex has no bit lengths, so "identical BP bits" = identical word vectors (one-bit positions
   and number of words); the number of words is the BitWriter's ceil(bits/64), which all engines share.
 * for the library indexes only the IB and BP *words* are compared with the reference (plus the BP
   length of the simple index, which the code documents as 2 bits per structural); the BP length the
   standard JsonIndex derives (2 x ones) is not judged.
 * engines that need a CPU feature absent on the host (AVX2) are skipped, as the statement says
   "every x86_64 SIMD level present on the host".
"""
import json
import re
import vlib

LEVEL = "model_checking"


def _std_bp(bytes_):
    """(ones, length) of the reference standard BP — used ONLY to classify a rejected event for the
    known-findings signature (never as an oracle)."""
    s, ones, n = 0, 0, 0
    for c in bytes_:
        op, cl, dl = c in (91, 123), c in (93, 125), c in (44, 58)
        vc = (48 <= c <= 57) or (65 <= c <= 90) or (97 <= c <= 122) or c in (43, 45, 46)
        if s in (0, 3):
            if op:
                ones += 1; n += 1; s = 0
            elif cl:
                n += 1; s = 0
            elif dl:
                s = 0
            elif vc:
                if s == 0:
                    ones += 1; n += 2
                s = 3
            elif c == 34 and s == 0:
                ones += 1; n += 2; s = 1
            else:
                s = 0
        elif s == 1:
            s = 0 if c == 34 else (2 if c == 92 else 1)
        else:
            s = 1
    return ones, n


def _input_of(events, k):
    for i in range(k, -1, -1):
        if events[i].get("e") == "in":
            return events[i]
    return {}


def sig_of(e, events, k):
    if e.get("e") == "tab":
        return {"event": "tab", "byte": e.get("b")}
    if e.get("e") == "in":
        return {"event": "in"}
    sig = {"event": "out", "enc": e.get("enc"), "eng": e.get("eng"), "panic": e.get("st") == -2}
    if e.get("eng") == "index":
        ones, n = _std_bp(_input_of(events, k).get("bytes", []))
        # "balanced" here = the BP length the index assumes (2 x opens) is the true BP length
        sig["bp_len_estimate_exact"] = (2 * ones == n)
    return sig


def _gen_replay(ctx, b, cfg, offsets):
    r = vlib.tlc(ctx, "Gen_JsonScan.tla", cfg, workers=4, timeout=1800, seed=ctx.seed)
    if not r.completed:
        raise vlib.ToolError("Gen_JsonScan did not complete:\n" + r.out[-3000:])
    lines = r.printed("REPLAY")
    cases = []
    for ln in lines:
        m = re.match(r'<<"REPLAY", (".*")>>\s*$', ln)
        cases.append(json.loads(json.loads(m.group(1))))
    ctx.stage("gen Gen_JsonScan/" + cfg, r.wall, behaviours=len(cases), states=r.distinct)
    nsingle = sum(1 for c in cases if c["cls"] and c["cls"][0] >= 100)
    if nsingle != 2 * 1024 or len(cases) - nsingle < 1000:
        raise vlib.ToolError("generator produced %d behaviours (%d single-byte)" % (len(cases), nsingle))
    gp = ctx.path("gen.ndjson")
    vlib.write_ndjson(gp, cases)
    mp = ctx.path("replay-mismatches.ndjson")
    rc, out, wall = vlib.sh([b, "replay", gp, mp, "offsets=%d" % offsets], timeout=3000)
    summ = json.loads(out.strip().splitlines()[-1])
    ctx.stage("replay", wall, **summ)
    for c in cases:
        ctx.note_distinct(("cls", json.dumps(c["bytes"])))
    ctx.sample({"replayed_behaviour": cases[len(cases) // 3]})
    for m in vlib.read_ndjson(mp):
        sig = {"event": "replay", "enc": m["enc"], "eng": m["eng"], "panic": m["got"] == "PANIC"}
        ctx.report(sig, "engine %s/%s differs from the JsonScan prediction on input %s (core class string %s at offset %d)"
                   % (m["enc"], m["eng"], m["input"], m["cls"], m["off"]), replay_events=[m])
        if len(ctx.violations) >= 3:
            break
    return summ


def run(ctx):
    q = ctx.quick
    vlib.model_check(ctx, "MC_JsonScan.tla", "MC_JsonScan_quick.cfg" if q else "MC_JsonScan_thorough.cfg",
                     workers=6, timeout=3000)
    b = vlib.harness_bin("c05")

    # PFSM tables, exhaustive
    tp = ctx.path("tables.ndjson")
    rc, out, wall = vlib.sh([b, "tables", tp], timeout=120)
    if len(vlib.read_ndjson(tp)) != 256:
        raise vlib.ToolError("table dump is not 256 events")
    n_tab = vlib.check_trace(ctx, "Trace_JsonScan.tla", "Trace.cfg", tp, sig_of, group_key=None, timeout=600,
                             selftest=True, result_field="r")
    ctx.add("pfsm_table_entries_validated", 4 * n_tab * 4)
    if ctx.violations:
        return

    # spec -> impl
    summ = _gen_replay(ctx, b, "Gen_JsonScan_quick.cfg" if q else "Gen_JsonScan_thorough.cfg", 70)
    if ctx.violations:
        return

    # impl -> spec, engines
    total = 0
    tp = ctx.path("trace-engines.ndjson")
    rc, out, wall = vlib.sh([b, "record", tp, "seed=%d" % ctx.seed, "inputs=%d" % (1100 if q else 3000),
                             "maxlen=%d" % (4096 if q else 16384)], timeout=900)
    info = json.loads(out.strip().splitlines()[-1])
    ctx.stage("record engines", wall, **info)
    total += vlib.check_trace(ctx, "Trace_JsonScan.tla", "Trace.cfg", tp, sig_of,
                              group_key=lambda e: e.get("e") == "in", timeout=3000, selftest=True,
                              result_field="st", xmx="6g")
    evs = vlib.read_ndjson(tp)
    fams = {}
    for e in evs:
        if e["e"] == "in":
            fams[e["fam"]] = fams.get(e["fam"], 0) + 1
            ctx.note_distinct(("in", json.dumps(e["bytes"])))
    ctx.cov["input_families"] = fams
    ctx.cov["automaton_byte_steps"] = 2 * info["bytes"]
    k = next(i for i, e in enumerate(evs) if e["e"] == "in" and 8 < e["n"] < 60)
    ctx.sample({"input": evs[k], "first_engine": evs[k + 1]})
    if ctx.violations:
        return

    # impl -> spec, the indexes the library builds
    tp = ctx.path("trace-index.ndjson")
    rc, out, wall = vlib.sh([b, "record", tp, "seed=%d" % (ctx.seed + 1), "inputs=%d" % (250 if q else 1000),
                             "maxlen=%d" % (2048 if q else 8192), "mode=index"], timeout=900)
    info2 = json.loads(out.strip().splitlines()[-1])
    ctx.stage("record index", wall, **info2)
    total += vlib.check_trace(ctx, "Trace_JsonScan.tla", "Trace.cfg", tp, sig_of,
                              group_key=lambda e: e.get("e") == "in", timeout=3000, selftest=False,
                              result_field="st")
    ctx.cov["evaluations"] = total + summ["evals"] + 1024
    ctx.cov["rule"] = ("evaluations = trace events validated by TLC (one per engine result or input) + engine runs "
                       "compared with a TLC-predicted behaviour in replay + 1024 PFSM table entries; "
                       "distinct_nontrivial = distinct byte strings (replayed cores + recorded inputs)")
    ctx.cov["engines"] = info["engines"]
    ctx.cov["avx2_present"] = info["avx2"]
    ctx.assumptions += [
        "model stage covers strings over one representative byte per class; ClassFacts (all 256 bytes x all states) "
        "justifies the quotient",
        "replay embeds the TLC-predicted core at offsets 0..70 by shifting IB positions (PadLemma, model-checked "
        "for pads <= 3, which is an induction step)",
        "all engines start in InJson (no public entry point takes an initial state); states are reached by prefixes",
        "AVX2 paths are exercised only when the host CPU has AVX2 (recorded in coverage.avx2_present)",
    ]


# MUTANTS (scratch worktree /tmp/wt-c05, `VERIF_REPO=/tmp/wt-c05 ./check C05`, quick tier; every one
# exit 1 with a VIOLATION line; the check stops at the first failing stage):
#  m1 simd/avx2.rs: v_z_range = 'z'-'a' -> 'z'-'a'-1 (drops z and Z)        CAUGHT replay (byte 90 in InJson, std/dispatch)
#  m2 simd/x86.rs: eq_plus dropped from the value-char mask                 CAUGHT replay (byte 43, std/sse2)
#  m3 pfsm_tables.rs: TRANSITION_TABLE['-'] InValue entry 3 -> 0            CAUGHT tables (tab event b=45)
#  m4 simd/avx2.rs: standard tail chunk starts from the state before the
#     last full chunk                                                        CAUGHT replay (offset-13 core + trailing pad, std/dispatch)
#  m5 simd/avx2.rs: simple cursor writes BP 10 instead of 01 for , and :    CAUGHT replay (byte 44, simple/dispatch)
#  m6 bit_writer.rs: finish() drops a final word holding exactly one bit
#     (ALL engines still agree with each other)                             CAUGHT replay (input [32], std/scalar vs spec)
#  m7 simd/x86.rs: simple cursor, an escaped quote in lane 15 of a 16-byte
#     chunk closes the string                                               CAUGHT replay (`"\"` at offset 13, simple/sse2)
#  m4+m7 together, trace stage alone (record + Trace_JsonScan, same seed): 309 resp. 64 of the 1100
#     recorded inputs expose them; TLC rejects at event 85.
