"""C11 -- `succinctly jq .` output reads back to the same value under all output options
(DESIGN.md §4 C11).

model stage : MC_JsonPrint -- every tree <= 4 nodes with duplicate keys x the option product:
              implementation-shaped collapse (slot overwrite) = declarative collapse (first position,
              last value); Collapse / SortKeys idempotent and commuting; no duplicate / sorted at
              every object; the expected value depends on -S only; framing bytes.
replay      : Gen_JsonPrint (TLC simulation, ctx.seed) draws (option vector, #documents, tree shapes
              with duplicate keys) and prints the predicted value / framing / route; this driver fills
              in scalars and spellings, runs the REAL binary and compares (spec -> impl).
trace       : every run (TLC-drawn and python-drawn stress documents: wide objects > 16 fields,
              nesting to the documented depth 256, all escape forms, non-ASCII, big integers) is
              logged as {options, input trees, output frames as read by an independent strict JSON
              reader} and validated by Trace_JsonPrint.tla (impl -> spec).

Interpretation decisions (weaker reading wherever the statement is silent):
 * "numbers equal as doubles": both literals are converted with python float() (correctly rounded)
   and compared with == (so -0 = 0); literals whose magnitude exceeds the finite double range are not
   generated (their "value as a double" is not defined by the statement; underflow to 0 is).
 * "strings identical": equal code-point lists.  Lone surrogate escapes are not generated (they have
   no code-point reading).
 * key ORDER is checked ("first position, last value" / "sorted order" are about order).
 * raw output (-r / -j / --raw-output0) is only exercised with non-string top-level values, as the
   statement says; strings nested in containers are exercised.
 * -j with several documents is not generated (concatenated scalars are not self-delimiting).
 * --seq also switches the INPUT to RFC 7464, so the driver frames the input with RS for it.
 * documented depth: eval_generic::MAX_NESTING_DEPTH = 256 (values at levels 0..255): 256 nested
   containers with an empty innermost one, or 255 around a scalar.
 * nothing is demanded of the layout (indent bytes) beyond "a conforming parser reads the value".
 * with -a the whole stdout must be ASCII.
 * routes: lazy cursor printer (default options) vs materialised printer (-S, -a, --seq, and the filter
   spelling `. # input` which jq_runner.rs sends down the non-lazy path: `filter_str.contains("input")`,
   jq_runner.rs:889/1036).  With hook H5 compiled in the route actually taken is logged and must be the
   one JsonPrint!RouteOf predicts; without it the field is "" and evidence says so.
"""
import concurrent.futures
import hashlib
import json
import os
import random
import subprocess

import vlib
from checks import c11_json as J

LEVEL = "exploration"

LAY_FLAGS = {8: ["--tab"], 9: ["-c"], 10: []}
RAW_FLAGS = {0: [], 1: ["-r"], 2: ["-j"], 3: ["--raw-output0"]}


def flags_of(o):
    f = list(LAY_FLAGS.get(o["lay"], ["--indent", str(o["lay"])]))
    if o["S"]:
        f.append("-S")
    if o["a"]:
        f.append("-a")
    f += RAW_FLAGS[o["raw"]]
    if o["seq"]:
        f.append("--seq")
    return f, (". # input" if o["route"] else ".")


def expected_route(o):
    if o["route"] == 0 and not (o["S"] or o["a"] or o["seq"]):
        return "lazy"
    return "materialized_inputq" if o["route"] else "materialized"


def frame_input(texts, o, rng):
    if o["seq"]:
        return "".join("\x1e" + t + "\n" for t in texts)
    sep = ["\n", "\n", " \n", "\r\n", "\n\n\t"]
    out = ""
    for i, t in enumerate(texts):
        out += t + (rng.choice(sep) if i + 1 < len(texts) or rng.random() < 0.7 else "")
    return out


def clean_env(route_file=None):
    e = {k: v for k, v in os.environ.items() if not k.startswith("SUCCINCTLY_") and k not in ("JQ_COLORS", "NO_COLOR")}
    if route_file:
        e["SUCCINCTLY_VERIF_ROUTE"] = route_file
    return e


def run_cli(cli, sub, args, data, route_file=None, timeout=120):
    """-> (rc, stdout bytes, stderr text, route names)"""
    if route_file and os.path.exists(route_file):
        os.unlink(route_file)
    try:
        p = subprocess.run([cli, sub] + args, input=data, stdout=subprocess.PIPE, stderr=subprocess.PIPE,
                           env=clean_env(route_file), timeout=timeout)
    except subprocess.TimeoutExpired:
        raise vlib.ToolError("CLI timeout: %s %s" % (sub, args))
    routes = []
    if route_file and os.path.exists(route_file):
        routes = [ln.strip() for ln in open(route_file) if ln.strip()]
        os.unlink(route_file)
    return p.returncode, p.stdout, p.stderr.decode("utf-8", "replace"), routes


def hook_present(cli, workdir):
    rf = os.path.join(workdir, "route-probe")
    rc, out, err, routes = run_cli(cli, "jq", ["-c", "."], b"1\n", rf)
    return bool(routes)


# ------------------------------------------------------------------------------------------
# cases
# ------------------------------------------------------------------------------------------

def fill_leaves(n, rng, leafmap, top, raw):
    """Replace the anonymous leaves of a TLC-drawn shape with concrete scalars."""
    if n["t"] == "leaf":
        v = J.rand_scalar(rng, allow_str=not (top and raw))
        leafmap[n["a"]] = v
        return v
    m = J.node(n["t"], ks=[list(k) for k in n["ks"]], ch=[fill_leaves(c, rng, leafmap, False, raw) for c in n["ch"]])
    return m


def subst(n, leafmap):
    if n["t"] == "leaf":
        return J.strip(leafmap[n["a"]])
    return J.node(n["t"], ks=[list(k) for k in n["ks"]], ch=[subst(c, leafmap) for c in n["ch"]])


def rand_opts(rng):
    return {"lay": rng.randrange(0, 11), "S": rng.randrange(2), "a": rng.randrange(2), "raw": rng.randrange(4),
            "seq": rng.randrange(2), "route": rng.randrange(2)}


def stress_cases(rng, nruns, quick):
    """python-drawn documents the small TLC shapes cannot reach; several documents per run."""
    def num(lit):
        n_ = J.node("num", a=J.atom(lit))
        n_["lit"] = lit
        return n_

    pool = {"wide": [], "num": [], "string": [], "dupspell": [], "rand": []}
    for i in range(60):
        pool["wide"].append(J.wide_object(rng, rng.choice((16, 17, 18, 25, 40)), dup=(i % 4 != 3)))
    for lit in J.NUM_LITS:
        pool["num"] += [num(lit), J.node("obj", ks=[[110]], ch=[num(lit)])]
    pool["num"].append(J.node("arr", ch=[num(lit) for lit in J.NUM_LITS]))
    for i in range(60):
        s_ = J.node("str", cp=[rng.choice(J.CP_POOL) for _ in range(rng.choice((1, 30, 300, 2000)))])
        pool["string"].append(rng.choice((s_, J.node("arr", ch=[s_]), J.node("obj", ks=[s_["cp"][:20]], ch=[s_]))))
    for i in range(60):
        k = J.rand_key(rng)
        t = J.node("obj", ks=[k, J.rand_key(rng), list(k), list(k)][:rng.choice((2, 3, 4))], ch=[])
        t["ch"] = [J.rand_tree(rng, 3, 1, 0.3, False) for _ in t["ks"]]
        pool["dupspell"].append(t)
    for i in range(200):
        pool["rand"].append(J.rand_tree(rng, rng.choice((1, 3, 8, 20, 60)), 0, rng.choice((0.0, 0.3, 0.6))))

    cases = []

    def add(trees, o=None, style=None, esc=None, why=""):
        o = dict(o) if o else rand_opts(rng)
        if o["raw"]:
            trees = [t if t["t"] != "str" else J.node("arr", ch=[t]) for t in trees]
        if o["raw"] == 2 and len(trees) > 1:
            trees = [t if t["t"] in ("arr", "obj") else J.node("arr", ch=[t]) for t in trees]
        cases.append({"o": o, "trees": trees, "style": style or rng.choice(("wild", "wild", "compact", "space")),
                      "esc": rng.choice((0.0, 0.15, 0.6)) if esc is None else esc, "src": why})

    base = [{"lay": 9, "S": 0, "a": 0, "raw": 0, "seq": 0, "route": 0}, {"lay": 10, "S": 0, "a": 0, "raw": 0, "seq": 0, "route": 0},
            {"lay": 9, "S": 0, "a": 0, "raw": 0, "seq": 0, "route": 1}, {"lay": 9, "S": 1, "a": 0, "raw": 0, "seq": 0, "route": 0},
            {"lay": 3, "S": 1, "a": 1, "raw": 1, "seq": 0, "route": 1}, {"lay": 8, "S": 0, "a": 1, "raw": 3, "seq": 0, "route": 0}]
    # nesting at the documented depth (256 levels), every container kind, both routes, compact and pretty
    for i, o in enumerate(base):
        kind = ("arr", "obj", "mix")[i % 3]
        add([J.deep_tree(rng, 256, kind, None), J.deep_tree(rng, 255, kind, J.rand_scalar(rng)),
             J.deep_tree(rng, rng.randrange(129, 250), "mix", J.rand_tree(rng, 6, 1))], o, why="deep")
    # --seq reads the input as RFC 7464 too: nesting 128 and 129..256 separately (known finding above 128)
    for i, (o, d) in enumerate([(base[0], 128), (base[3], 127), (base[0], 129), (base[2], 200), (base[4], 256)]):
        o = dict(o, seq=1)
        add([J.deep_tree(rng, d, ("arr", "obj", "mix")[i % 3], None)], o, why="deep-seq")
    for i in range(nruns - len(cases)):
        kinds = ("wide", "num", "string", "dupspell", "rand")
        kind = kinds[i % len(kinds)]
        o = base[(i // len(kinds)) % len(base)] if i < len(kinds) * len(base) else None
        k = rng.choice((4, 6, 8, 10))
        trees = [rng.choice(pool[kind] if rng.random() < 0.7 else pool["rand"]) for _ in range(k)]
        add(trees, o, esc=(rng.choice((0.0, 0.3)) if kind == "wide" else None), why=kind)
    return cases


def classify(ev, exp_route):
    o = ev["o"]
    if ev["rc"] != 0:
        return "rc"
    if ev["r"] != len(ev["in"]) or len(ev["out"]) != len(ev["in"]):
        return "frames"
    pre = [30] if o["seq"] else []
    post = [0] if o["raw"] == 3 else ([] if o["raw"] == 2 else [10])
    if any(f["pre"] != pre or f["post"] != post for f in ev["out"]):
        return "framing"
    if o["a"] and not ev["ascii"]:
        return "ascii"
    if ev["rt"] and ev["rt"] != exp_route:
        return "route"
    return "value"


def to_wire(ev):
    """trace encoding: every tree as a flat preorder token list (see JsonPrint.tla FTree)"""
    w = dict(ev)
    w["in"] = [J.flat(t) for t in ev["in"]]
    w["out"] = [{"pre": f["pre"], "v": J.flat(f["v"]), "post": f["post"]} for f in ev["out"]]
    return w


def from_wire(w):
    if not w["in"] or isinstance(w["in"][0], dict):
        return w
    ev = dict(w)
    ev["in"] = [J.unflat(t) for t in w["in"]]
    ev["out"] = [{"pre": f["pre"], "v": J.unflat(f["v"]), "post": f["post"]} for f in w["out"]]
    return ev


def sig_of(e, events=None, k=None):
    e = from_wire(e)
    o = e["o"]
    return {"event": "case", "cls": classify(e, expected_route(o)), "route": expected_route(o), "S": o["S"], "a": o["a"],
            "raw": o["raw"], "seq": o["seq"], "dup": int(any(J.has_dup(t) for t in e["in"])),
            "deep": int(max(J.depth_of(t) for t in e["in"]) > 128)}


def run(ctx):
    q = ctx.quick
    rng = random.Random(ctx.seed)
    vlib.model_check(ctx, "MC_JsonPrint.tla", "MC_JsonPrint_quick.cfg" if q else "MC_JsonPrint_thorough.cfg",
                     workers=4, timeout=1800)

    cli = vlib.cli_bin()
    hook = hook_present(cli, ctx.work)
    ctx.cov["route_hook"] = "H5 present: routes logged and checked" if hook else "route names unavailable (hook H5 not compiled in)"

    # ---- spec -> impl: TLC draws the cases -------------------------------------------------
    ngen = 110 if q else 1500
    workers = 2
    res = vlib.tlc(ctx, "Gen_JsonPrint.tla", "Gen_JsonPrint.cfg", workers=workers, simulate="num=%d" % (ngen // workers),
                   depth=90, seed=ctx.seed, timeout=1200)
    lines = res.printed("REPLAY")
    if not lines:
        raise vlib.ToolError("Gen_JsonPrint printed nothing:\n" + res.out[-3000:])
    beh = [json.loads(json.loads(ln[len('<<"REPLAY", '):-2])) for ln in lines]
    seen, uniq = set(), []
    for b in beh:
        key = json.dumps(b, sort_keys=True)
        if key not in seen:
            seen.add(key)
            uniq.append(b)
    ctx.stage("generate Gen_JsonPrint", res.wall, behaviours=len(beh), distinct=len(uniq))

    cases = []
    for b in uniq:
        leafmap = {}
        trees = [fill_leaves(t, rng, leafmap, True, b["o"]["raw"]) for t in b["in"]]
        cases.append({"o": b["o"], "trees": trees, "style": rng.choice(("wild", "compact", "space", "wild")),
                      "esc": rng.choice((0.0, 0.15, 0.6)), "src": "gen",
                      "exp": [subst(t, leafmap) for t in b["exp"]], "pre": b["pre"], "post": b["post"], "rt": b["rt"]})
    cases += stress_cases(rng, 70 if q else 700, q)

    # ---- render, self-check the renderer with the two independent readers, run --------------
    jobs = []
    dropped = 0
    for i, c in enumerate(cases):
        texts = [J.render(t, rng, c["style"], c["esc"]) for t in c["trees"]]
        ok = True
        for t, txt in zip(c["trees"], texts):
            try:
                a, b2 = J.read_document(txt), J.from_python_json(txt)
            except Exception:
                ok = False
                break
            if a != J.strip(t) or b2 != a:
                ok = False
        if not ok:
            dropped += 1
            continue
        data = frame_input(texts, c["o"], rng).encode("utf-8")
        jobs.append((i, c, data))
    if dropped:
        raise vlib.ToolError("renderer self-check failed for %d cases (harness bug)" % dropped)

    def work(job):
        i, c, data = job
        fl, filt = flags_of(c["o"])
        rf = os.path.join(ctx.work, "route-%d" % i) if hook else None
        rc, out, err, routes = run_cli(cli, "jq", fl + [filt], data, rf)
        frames, nok = J.read_frames(out)
        # second reader on every frame text is implied by read_frames; cross-check whole-stdout
        ev = {"e": "case", "id": i, "src": c["src"], "o": c["o"], "in": [J.strip(t) for t in c["trees"]], "out": frames,
              "r": nok, "rc": rc, "ascii": int(all(b < 128 for b in out)),
              "rt": "+".join(sorted(set(routes))) if routes else ""}
        return ev, data, out, err

    import time
    t0 = time.time()
    with concurrent.futures.ThreadPoolExecutor(4) as ex:
        results = list(ex.map(work, jobs))
    ctx.stage("run CLI", time.time() - t0, runs=len(results))

    # cross-check the strict reader against python's json on every frame it accepted
    nframes = 0
    for ev, data, out, err in results:
        txt = None
        for f in ev["out"]:
            sp = f.pop("span", None)
            if sp is None:
                continue
            if txt is None:
                txt = out.decode("utf-8")
            nframes += 1
            try:
                if J.from_python_json(txt[sp[0]:sp[1]]) != f["v"]:
                    raise vlib.ToolError("the two independent readers disagree on CLI output of case %d" % ev["id"])
            except (ValueError, J.Bad):
                raise vlib.ToolError("python json rejects an output the strict reader accepted (case %d)" % ev["id"])
    ctx.cov["documents_printed_and_read_back"] = nframes

    # ---- spec -> impl comparison for the TLC-drawn cases ------------------------------------
    events = []
    mism = 0
    for (i, c, data), (ev, _, out, err) in zip(jobs, results):
        bad = None
        if c["src"] == "gen":
            if ev["rc"] != 0 or len(ev["out"]) != len(c["exp"]):
                bad = "rc=%d frames=%d expected %d" % (ev["rc"], len(ev["out"]), len(c["exp"]))
            else:
                for f, x in zip(ev["out"], c["exp"]):
                    if f["v"] != x or f["pre"] != c["pre"] or f["post"] != c["post"]:
                        bad = "frame differs from the TLC prediction"
                if c["o"]["a"] and not ev["ascii"]:
                    bad = "non-ASCII byte under -a"
                if ev["rt"] and ev["rt"] != c["rt"]:
                    bad = "route %s, predicted %s" % (ev["rt"], c["rt"])
            ctx.add("replayed_behaviours")
        if bad:
            mism += 1
            fl, filt = flags_of(c["o"])
            ctx.report(sig_of(ev), "replay of TLC case: %s; argv=jq %s %r stdin=%r stdout=%r stderr=%r" %
                       (bad, " ".join(fl), filt, data[:400], out[:400], err[:200]), replay_events=[ev])
        else:
            events.append(ev)
        o = c["o"]
        ctx.note_distinct((json.dumps(o, sort_keys=True), hashlib.sha1(data).hexdigest()))
    for (i, c, data), (ev, _, out, err) in list(zip(jobs, results))[:3]:
        fl, filt = flags_of(c["o"])
        ctx.sample({"argv": ["jq"] + fl + [filt], "stdin": data.decode("utf-8")[:200], "stdout": out.decode("utf-8", "replace")[:200],
                    "route": ev["rt"]})

    # ---- impl -> spec: trace validation ------------------------------------------------------
    tp = ctx.path("trace.ndjson")
    suspects = [e for e in events if vlib.known_match(ctx.prop, sig_of(e)) is not None]
    events = [e for e in events if vlib.known_match(ctx.prop, sig_of(e)) is None]
    vlib.write_ndjson(tp, [to_wire(e) for e in events])
    # keep stdin/stdout of every case next to the trace for replay
    with open(ctx.path("cases.ndjson"), "w") as fh:
        for (i, c, data), (ev, _, out, err) in zip(jobs, results):
            fl, filt = flags_of(c["o"])
            fh.write(json.dumps({"id": i, "argv": ["jq"] + fl + [filt], "stdin": data.decode("utf-8"),
                                 "stdout": out.decode("utf-8", "replace"), "stderr": err[:300], "rc": ev["rc"]}) + "\n")
    n = vlib.check_trace(ctx, "Trace_JsonPrint.tla", "Trace.cfg", tp, sig_of, group_key=lambda e: True, timeout=1800)
    bs = ctx.cov.get("binding_selftest")
    if isinstance(bs, dict) and isinstance(bs.get("corrupted_event"), dict):
        ce = bs["corrupted_event"]
        bs["corrupted_event"] = {"id": ce.get("id"), "o": ce.get("o"), "r": ce.get("r"), "documents": len(ce.get("in", []))}
    if suspects:
        # events whose signature is listed as a known finding: validated on their own (TLC must still be
        # the one that rejects them; vlib drops what it rejects and re-validates the rest)
        sp = ctx.path("trace-suspects.ndjson")
        vlib.write_ndjson(sp, [to_wire(e) for e in suspects])
        vlib.check_trace(ctx, "Trace_JsonPrint.tla", "Trace.cfg", sp, sig_of, group_key=lambda e: True, timeout=900, selftest=False)
    if not ctx.violations:
        value_selftest(ctx, events, rng)

    ctx.cov["evaluations"] = len(results)
    ctx.cov["routes_seen"] = sorted({ev["rt"] for ev, _, _, _ in results})
    by = {}
    for ev, _, _, _ in results:
        k = expected_route(ev["o"])
        by[k] = by.get(k, 0) + 1
    ctx.cov["runs_by_predicted_route"] = by
    ctx.cov["inputs_with_duplicate_keys"] = sum(1 for ev, _, _, _ in results if any(J.has_dup(t) for t in ev["in"]))
    ctx.cov["max_depth"] = max(max(J.depth_of(t) for t in ev["in"]) for ev, _, _, _ in results)
    ctx.cov["rule"] = ("one evaluation = one run of the real `succinctly jq` whose stdout was tokenised by the independent strict "
                       "reader and validated by TLC against JsonPrint!ExpectedValue; distinct_nontrivial = distinct (option vector, "
                       "stdin bytes) pairs")
    ctx.assumptions += ["number literals stay inside the finite double range (underflow included, overflow excluded)",
                        "no lone-surrogate escapes in inputs",
                        "raw output options only with non-string top-level values; -j only with one document",
                        "python float() is the reference decimal->double conversion"]


def value_selftest(ctx, events, rng):
    """Anti-vacuity beyond the integer-field self-test: corrupt a VALUE in a recorded output (swap
    two keys of an object / change a number atom / drop an array element) and require the trace spec
    to reject exactly that event."""
    def mutate(v):
        if v["t"] == "obj" and len(v["ks"]) >= 2 and v["ks"][0] != v["ks"][1]:
            w = dict(v)
            w["ks"] = [v["ks"][1], v["ks"][0]] + v["ks"][2:]
            w["ch"] = [v["ch"][1], v["ch"][0]] + v["ch"][2:]
            return w, "swap-keys"
        if v["t"] == "num":
            w = dict(v)
            w["a"] = "0x1.fffffffffffffp+0" if v["a"] != "0x1.fffffffffffffp+0" else "0x1.0p+0"
            return w, "atom"
        if v["t"] == "arr" and v["ch"]:
            w = dict(v)
            w["ch"] = v["ch"][:-1]
            return w, "drop-last"
        for i, c in enumerate(v["ch"]):
            r = mutate(c)
            if r:
                w = dict(v)
                w["ch"] = v["ch"][:i] + [r[0]] + v["ch"][i + 1:]
                return w, r[1]
        return None

    done = {}
    cands = list(range(len(events)))
    rng.shuffle(cands)
    for k in cands:
        e = events[k]
        if not e["out"] or J.size(e["in"][0]) > 200:
            continue
        r = mutate(e["out"][0]["v"])
        if not r or r[1] in done:
            continue
        bad = json.loads(json.dumps(e))
        bad["out"][0]["v"] = r[0]
        pref = events[max(0, k - 2):k] + [bad]
        p = ctx.path("selftest-%s.ndjson" % r[1])
        vlib.write_ndjson(p, [to_wire(x) for x in pref])
        matched, total = vlib.validate_trace(ctx, "Trace_JsonPrint.tla", "Trace.cfg", p)
        if matched != total - 1:
            raise vlib.ToolError("value self-test (%s): corrupted output accepted or rejected elsewhere (%d/%d)" % (r[1], matched, total))
        done[r[1]] = True
        if len(done) == 3:
            break
    ctx.cov["value_selftest"] = sorted(done)
    if len(done) < 2:
        raise vlib.ToolError("value self-test found too few corruptible events")


# MUTANTS (scratch worktree /tmp/wt-c27 = /repo HEAD + hooks/H5-route-trace.patch, CLI rebuilt per set, quick tier):
#  M1 jq_runner.rs collapse_duplicate_fields: `Some(&at) => chosen[at] = *field` -> `Some(_) => {}` (first position, FIRST value)
#       -> VIOLATION exit 1 (replay of TLC cases + trace: cls value, lazy route, dup=1)
#  M2 output.rs format_json_impl: `if opts.sort_keys` -> `if opts.sort_keys && level == 0` (nested objects not sorted under -S)
#       -> VIOLATION exit 1 (cls value, S=1, both materialised routes)
#  M3 output.rs escape_json_string_ascii: strings holding an astral character are left literal under -a
#       -> VIOLATION exit 1 (cls ascii, a=1)
#  M4 jq_runner.rs print_json, compact cursor array loop: `if i >= 4 { break; }` (lazy printer drops trailing elements)
#       -> VIOLATION exit 1 (cls value, route lazy); run alone to rule out masking by M3
#  (M1+M5, M2+M6, M3+M4 were built together -- disjoint code; C11 was also run on M4 alone.)
#  Unchanged tree: exit 0 with one KNOWN-FINDING (known_findings.d/C11.json, --seq drops records nested > 128).
