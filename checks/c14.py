"""C14 — YAML loading reproduces the value of every well-formed document (DESIGN.md §4 C14).

model stage : MC_YamlPresentation — the presentation grammar's own invariants (alias targets
              precede use and never enclose it, flow heredity, a style only where the palette
              entry declares it admissible, distinct scalar keys, closed collections
              well-formed, Val alias-free) on every reachable state of a bounded instance;
              Gen_YamlCoreSchema — lemmas of the YAML 1.2 core-schema transcription on every
              string <= 3 (quick) / 4 (thorough) over a 25-character alphabet.
spec -> impl: (a) every such string with its predicted resolution is replayed through the
              public succinctly::yaml::resolve_plain (class and int/bool value);
              (b) Gen_YamlPresentation ENUMERATES every presentation of every tree in three
              bounded scopes (all styles x 6-scalar sub-palette; all decorations / document
              options within a budget of 2 non-default choices; 4 nodes with aliases) and
              SAMPLES (-simulate) trees of up to 40 nodes over the full 60-entry palette with
              all choices independent; harness/src/bin/c14.rs renders each to bytes, loads it
              with the real YamlIndex::build, walks YamlCursor/YamlValue per document and
              compares with Val; to_json / to_json_document must equal the tree's JSON
              (parsed-token comparison, key order included);
              (c) AMPLIFICATION: behaviours that passed are concatenated (same break kind, `---` before each
              appended document) into streams holding 62..320 collections, incl. the multiples of 64 +- 1, and
              loaded/compared the same way (index tables sized per 64 collections are only reached there);
              (d) a sample of the documents goes through the CLI `succinctly yq -o json`.

Interpretation decisions (no false alarms):
* The generated space contains only constructs whose YAML 1.2 meaning is beyond doubt; the
  constructs docs/compliance/yaml/limitations.md lists as divergent are not generated (list in
  the header of spec/YamlPresentation.tla), including the documented KeyWithoutValue class
  (`b #c: d`: line-leading plain/block scalar or alias followed by a comment containing `: `).
* Leaves are string/int/bool/null as the statement says: a plain scalar that the core schema
  resolves to a float is never generated plain; plain keys are generated only when they
  resolve to strings (a JSON encoding has string keys only).
* Floats are compared by class only in the resolve_plain stage (TLC has no floats).
* JSON comparison is on parsed tokens, not bytes.
"""
import json
import os
import vlib

LEVEL = "exploration"

FULL_PAL = "{" + ",".join(str(i) for i in range(1, 61)) + "}"
ALL_STYLES = '{"plain", "single", "double", "lit", "fold"}'
ALL_FLAGS = '{"ds", "de", "zi", "cmp", "fsp"}'


def cfg_text(pal, nodes, docs, styles=ALL_STYLES, coll='{"block", "flow"}', decor=0, indents="{2}",
             breaks='{"LF"}', flags="{}", avoid="{}", sim=False, inv=False):
    return ("CONSTANTS\n  PalUse = %s\n  MaxNodes = %d\n  MaxDocs = %d\n  ScalarStyles = %s\n  CollStyles = %s\n"
            "  MaxDecor = %d\n  Indents = %s\n  Breaks = %s\n  DocFlags = %s\n  Avoid = %s\n  Sim = %s\n"
            "SPECIFICATION Spec\nINVARIANT Emit\n%sCHECK_DEADLOCK FALSE\n"
            % (pal, nodes, docs, styles, coll, decor, indents, breaks, flags, avoid,
               "TRUE" if sim else "FALSE", "INVARIANT Inv\n" if inv else ""))


def scopes(quick, avoid_sim):
    """(name, cfg text, simulate-arg or None).  The enumerated scopes are exhaustive; `sim`
    samples large documents with every choice independent."""
    br3 = '{"LF", "CRLF", "CR"}'
    few = '{"plain", "double", "lit"}'
    out = [
        # every style of every scalar x every collection style, no decoration
        ("styles", cfg_text("{1, 3, 6, 13, 31, 11}", 3, 1, inv=True), None),
        # every pair of non-default choices (anchor, comment, pre-line, variant, document flag,
        # indent width, break kind) on every tree <= 3 nodes
        ("decor", cfg_text("{1, 31}", 3, 1, styles=few, decor=2, indents="{1, 2, 4}", breaks=br3, flags=ALL_FLAGS), None),
        # two documents in a stream
        ("docs", cfg_text("{1, 31}", 3, 2, styles='{"plain", "lit"}', decor=1 if quick else 2, indents="{1, 2}",
                          breaks=br3, flags=ALL_FLAGS), None),
        # anchors and aliases: 4 nodes, budget 2 = one anchor + one alias
        ("alias", cfg_text("{1}" if quick else "{1, 14}", 4, 1, styles='{"plain"}' if quick else '{"plain", "single"}',
                           decor=2, flags='{"cmp", "zi"}'), None),
    ]
    # quoted / plain keys after empty values in a root mapping (5 nodes, block only)
    out.append(("keys", cfg_text("{1, 3}", 5, 1, styles='{"plain", "double"}', coll='{"block"}', decor=0), None))
    if not quick:
        out.append(("styles4", cfg_text("{1, 3, 6, 13, 31, 11}", 4, 1), None))
        out.append(("words", cfg_text("{2, 4, 8, 14, 16, 26, 34, 36}", 3, 1, decor=1, breaks=br3), None))
    sim_cfg = cfg_text(FULL_PAL, 40, 3, decor=1000, indents="{1, 2, 3, 4}", breaks=br3, flags=ALL_FLAGS,
                       avoid=avoid_sim, sim=True)
    out.append(("sim", sim_cfg, "num=%d" % (400 if quick else 6000)))
    sim_small = cfg_text(FULL_PAL, 8, 2, decor=1000, indents="{1, 2, 3, 4}", breaks=br3, flags=ALL_FLAGS,
                         avoid=avoid_sim, sim=True)
    out.append(("sim8", sim_small, "num=%d" % (2500 if quick else 30000)))
    # the same small random documents WITHOUT avoiding the known-defect triggers, so that the known
    # findings are exhibited (KNOWN-FINDING) and anything else there is still a violation
    sim_known = cfg_text(FULL_PAL, 9, 1, decor=1000, indents="{1, 2, 3, 4}", breaks=br3, flags=ALL_FLAGS, avoid="{}", sim=True)
    out.append(("simk", sim_known, "num=%d" % (1200 if quick else 10000)))
    return out


def replay_lines(res):
    """REPLAY lines printed by TLC -> list of JSON strings (TLA+ string escaping stripped)."""
    out = []
    for ln in res.printed("REPLAY"):
        q = ln[ln.index(",") + 1:].strip()
        q = q[:q.rindex(">>")].strip()
        out.append(json.loads(q))
    return out


def generate(ctx, quick, avoid_sim, parallel=3, workers=2, extra=()):
    """Run every scope (TLC processes side by side: `parallel` x `workers` <= 6 threads);
    returns the path of the NDJSON file with all behaviours and their number."""
    from concurrent.futures import ThreadPoolExecutor
    sc = scopes(quick, avoid_sim) + list(extra)
    path = ctx.path("behaviours.ndjson")
    if os.environ.get("VERIF_DEV_REUSE") and os.path.exists(path):
        # development aid (mutation testing): reuse the behaviours TLC generated in the previous run
        n = sum(1 for _ in open(path))
        ctx.stage("generate (reused)", 0.0, behaviours=n)
        return path, n

    def one(arg):
        i, (name, cfg, sim) = arg
        cp = ctx.path("Gen_YamlPresentation_%s.cfg" % name)
        with open(cp, "w") as c:
            c.write(cfg)
        if sim is None:
            r = vlib.tlc(ctx, "Gen_YamlPresentation.tla", cp, workers=workers, timeout=3000)
            if not r.completed:
                raise vlib.ToolError("scope %s did not complete cleanly (violated=%s):\n%s" % (name, r.violated, r.out[-3000:]))
        else:
            r = vlib.tlc(ctx, "Gen_YamlPresentation.tla", cp, workers=workers, simulate=sim, depth=400,
                         seed=ctx.seed + i, timeout=3000)
            if r.violated or "Error:" in r.out:
                raise vlib.ToolError("simulation %s failed:\n%s" % (name, r.out[-3000:]))
        lines = replay_lines(r)
        if not lines:
            raise vlib.ToolError("scope %s generated no behaviours:\n%s" % (name, r.out[-2000:]))
        return name, sim, r, lines

    total = 0
    with ThreadPoolExecutor(max_workers=parallel) as ex:
        results = list(ex.map(one, enumerate(sc)))
    with open(path, "w") as f:
        for name, sim, r, lines in results:
            for ln in lines:
                f.write(ln + "\n")
            total += len(lines)
            if sim is None:
                ctx.cov["states"] = ctx.cov.get("states", 0) + r.distinct
                ctx.cov["transitions"] = ctx.cov.get("transitions", 0) + r.generated
            ctx.stage("generate " + name, r.wall, behaviours=len(lines), mode="simulate" if sim else "exhaustive",
                      states=r.distinct)
            ctx.cov["behaviours_" + name] = len(lines)
    return path, total


def sig_of(m):
    """Signature of a mismatch: stage + known-defect trigger class, or the document itself."""
    if m.get("class"):
        return {"stage": "load" if m["stage"] in ("build", "value", "json", "panic") else m["stage"], "class": m["class"]}
    return {"stage": m["stage"], "yaml": m["yaml"]}


def report_mismatches(ctx, mpath, stages, limit=8):
    """Report mismatches of the given stages; returns count."""
    n = 0
    reported = 0
    for m in vlib.read_ndjson(mpath):
        if m["stage"] not in stages:
            continue
        n += 1
        sig = sig_of(m)
        if vlib.known_match(ctx.prop, sig) is not None:
            ctx.report(sig, "")
            continue
        if reported < limit:
            reported += 1
            ctx.report(sig, "%s: %s | document: %s" % (m["stage"], m["detail"][:400], json.dumps(m["yaml"])[:600]),
                       replay_events=[m["rec"]])
    return n


def schema_stage(ctx):
    q = ctx.quick
    p = ctx.path("schema.ndjson")
    if os.environ.get("VERIF_DEV_REUSE") and os.path.exists(p):
        lines = open(p).read().splitlines()
    else:
        r = vlib.model_check(ctx, "Gen_YamlCoreSchema.tla",
                             "Gen_YamlCoreSchema_quick.cfg" if q else "Gen_YamlCoreSchema_thorough.cfg", workers=6, timeout=3000)
        lines = replay_lines(r)
        with open(p, "w") as f:
            for ln in lines:
                f.write(ln + "\n")
    b = vlib.harness_bin("c14")
    mp = ctx.path("schema-mismatches.ndjson")
    rc, out, wall = vlib.sh([b, "schema", p, mp], timeout=900)
    summ = json.loads(out.strip().splitlines()[-1])
    ctx.stage("replay resolve_plain", wall, **summ)
    if summ["strings"] != len(lines) or summ["non_string_resolutions"] < 50:
        raise vlib.ToolError("schema replay is vacuous: %s" % summ)
    ctx.cov["resolve_plain_strings"] = summ["strings"]
    for m in vlib.read_ndjson(mp)[:8]:
        ctx.report({"stage": "schema", "s": m["s"]},
                   "resolve_plain(%r) = %s, core schema says %s" % (m["s"], m["got"], m["want"]), replay_events=[m])
    return summ["strings"]


def cli_stage(ctx, samples_path, validate=False, limit=60):
    """`succinctly yq -o json -I0 .` (and --validate) on sampled documents."""
    if os.environ.get("VERIF_DEV_NOCLI"):      # development aid (mutation testing): skip the CLI build
        return 0
    cli = vlib.cli_bin()
    n = 0
    t0 = __import__("time").time()
    for k, s in enumerate(vlib.read_ndjson(samples_path)[:limit]):
        yp = ctx.path("cli-%d.yaml" % k)
        with open(yp, "wb") as f:
            f.write(s["yaml"].encode("utf-8"))
        cmd = [cli, "yq", "-o", "json", "-I", "0"] + (["--validate"] if validate else []) + [".", yp]
        rc, out, _ = vlib.sh(cmd, timeout=60, check=False)
        n += 1
        got = None
        if rc == 0:
            try:
                got = [json.loads(x) for x in out.splitlines() if x.strip()]
            except ValueError:
                got = None
        if validate:
            # C18: only the validator's verdict matters here (the loaded value is C14's business)
            if rc != 0 and "validation error" in out:
                sig = {"stage": "validate", "class": s["vclass"]} if s.get("vclass") else {"stage": "cli-validate", "yaml": s["yaml"]}
                ctx.report(sig, "succinctly yq --validate rejected a well-formed document: %s | document %s" %
                           (out[:300], json.dumps(s["yaml"])[:400]), replay_events=[s])
        elif got != s["json"]:
            sig = {"stage": "load", "class": s["class"]} if s.get("class") else {"stage": "cli", "yaml": s["yaml"]}
            ctx.report(sig, "succinctly yq -o json: rc=%d output %s expected %s | document %s" %
                       (rc, out[:300], json.dumps(s["json"])[:300], json.dumps(s["yaml"])[:400]), replay_events=[s])
    ctx.stage("cli yq -o json" + (" --validate" if validate else ""), __import__("time").time() - t0, documents=n)
    return n


def run(ctx):
    q = ctx.quick
    # model stage: the grammar's own invariants on every reachable state (also checked on the
    # "styles" generation scope below, which runs with INVARIANT Inv)
    if not os.environ.get("VERIF_DEV_REUSE"):
        vlib.model_check(ctx, "MC_YamlPresentation.tla", "MC_YamlPresentation_quick.cfg" if q else "MC_YamlPresentation_thorough.cfg",
                         workers=6, timeout=3000)
    nstr = schema_stage(ctx)
    path, total = generate(ctx, q, '{"K1", "K2"}')
    b = vlib.harness_bin("c14")
    mp = ctx.path("mismatches.ndjson")
    # the replay also runs the AMPLIFICATION stage: already-checked behaviours of one break kind are concatenated
    # (`---` before each appended document) into streams of 62..320 collections (multiples of 64 +- 1 included),
    # expected value = concatenation of the expected documents; 16 targets x 3 break kinds x `amplify` repetitions
    rc, out, wall = vlib.sh([b, "replay", path, mp, "samples=%d" % (40 if q else 200), "seed=%d" % ctx.seed,
                             "amplify=%d" % (2 if q else 25)], timeout=3000)
    summ = json.loads(out.strip().splitlines()[-1])
    ctx.stage("replay load", wall, **summ)
    if summ["behaviours"] != total or summ["distinct_documents"] < 1000 or summ["max_nodes"] < 20:
        raise vlib.ToolError("replay is vacuous: %s" % summ)
    if summ["amplified_streams"] < 30 or summ["amplified_max_collections"] < 257:
        raise vlib.ToolError("amplification stage is vacuous: %s" % summ)
    ctx.cov["amplified_streams"] = summ["amplified_streams"]
    ctx.cov["amplified_max_collections"] = summ["amplified_max_collections"]
    report_mismatches(ctx, mp, ("build", "value", "json", "panic"))
    ncli = cli_stage(ctx, mp + ".samples", limit=40 if q else 200)
    ctx.cov["evaluations"] = summ["distinct_documents"] + summ["amplified_streams"] + nstr + ncli
    ctx.cov["distinct_nontrivial"] = summ["feature_classes"]
    ctx.cov["rule"] = ("one evaluation = one distinct rendered YAML stream loaded by the real YamlIndex and compared with the "
                       "denotation (value walk + 3 JSON outputs), or one string resolved by resolve_plain, or one CLI run; "
                       "distinct_nontrivial = number of distinct construct sets (node kind x style, anchor, comment, pre-line, "
                       "document flags, break kind) among the loaded streams")
    for s in vlib.read_ndjson(mp + ".samples")[:4]:
        ctx.sample(s)
    ctx.assumptions += [
        "the renderer (harness/src/bin/yaml_common/mod.rs) is the trusted inverse of loading; it emits only constructs whose YAML 1.2 meaning is unambiguous (development-time cross-check with PyYAML on the 1.1/1.2-neutral subset)",
        "exhaustive only in the small scopes (<= 3-4 nodes, sub-palettes, decoration budget 2); larger documents are sampled",
        "core-schema values are checked for literals of magnitude < 2^31; float values by class only",
        "constructs documented as divergent in docs/compliance/yaml/limitations.md are not generated",
    ]


# MUTANTS (scratch worktree /tmp/wt-c14, `VERIF_REPO=... VERIF_DEV_REUSE=1 VERIF_DEV_NOCLI=1 ./check C14`:
# the behaviours TLC generated for the unchanged tree are replayed against the mutated loader;
# MC stage and CLI stage skipped for speed) -- all four CAUGHT (exit 1):
#   M1 yaml/scalar.rs  resolve_plain: "Null" no longer null            -> value mismatch on plain `Null` (sim scopes)
#   M2 yaml/light.rs   decode_block_literal: CR not a line break       -> `|+\r\n    a\r\n    b\r\n` loads "a\r\nb\r\n"
#   M3 yaml/light.rs   decode_block_folded: blank run worth N+1 (#329) -> `>\n  a\n\n  b\n` loads "a\n\nb\n"
#   M4 yaml/light.rs   decode_single_quoted: `''` not collapsed        -> 'it''s' loads "it''s"
# Note: M1 is caught by the load replay (palette entry 41); the exhaustive resolve_plain stage
# reaches 4-character strings only in the thorough tier.
