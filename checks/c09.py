"""C09 — JSON string escaping round-trips and escapes exactly the required set (DESIGN.md §4 C09).

model stage : MC_Escape — for every scalar value (thorough: all 1 112 064; quick: the blocks around
              every boundary) and every convention: the canonical form Form(c,cp) reads back to cp
              (arithmetically and through the RFC 8259 reader DecodeBody) and is literal iff not
              MustEscape; Steps(c) is exactly the set of change points of MustEscape; every string
              of length <= 3/4 over a boundary alphabet round-trips through its canonical body;
              the one-pass scanner table equals FirstEscapable.
trace stage : the REAL write_json_body_jq / _jq_ascii / _yq / _yq_ascii on (i) every scalar value
              (logged as maximal intervals of one lexical shape, both edge bodies raw), (ii) strings
              of length 0..200 with an escapable character at every offset 0..70 and at every
              16/32-byte chunk edge, bodies logged raw and read back by TLC (Trace_Escape.tla);
              find_json_escape for every start 0..len+2 on byte-run inputs incl. every byte value.

Interpretation decisions (weaker reading where the statement is silent):
 * The verdict is semantic: a body must DENOTE the input string (RFC 8259 reading) and a character
   must be written as an escape iff the convention requires it.  WHICH legal spelling of an escape
   is used (\\b vs \\u0008, hex digit case) is not part of the property, so it is not demanded.
 * A body containing a raw quote / raw C0 control / malformed escape / lone surrogate escape does
   not denote any string: violation.
 * find_json_escape(bytes, start) with start > len returns len (documented "or bytes.len()").
"""
import json
import vlib

LEVEL = "model_checking"


def sig_of(e, events, k):
    t = e.get("e")
    s = {"event": t}
    if t in ("iv", "ivend"):
        s.update(convention=e.get("c"), kind=e.get("kind", ""), lo=e.get("lo", -1))
    elif t == "s":
        s.update(panic=any(o == [-2] for o in e.get("o", [])))
    elif t == "fe":
        s.update(panic=-2 in e.get("res", []))
    return s


def list_selftest(ctx, tla, events, kind, field, nested, env):
    """Binding self-test for list-valued results (vlib's built-in one corrupts only the scalar
    field `r`): corrupt one element of `field` in one event of kind `kind`; TLC must reject it.
    Interval events are validated in tiling order, so their prefix (from lo = 0) is replayed."""
    idx = [i for i, e in enumerate(events) if e.get("e") == kind and e.get(field) and (not nested or all(e[field]))]
    if not idx:
        return
    k = ctx.rng.choice(idx)
    e = json.loads(json.dumps(events[k]))
    lst = e[field]
    if nested:
        lst = lst[ctx.rng.randrange(len(lst))]
    lst[ctx.rng.randrange(len(lst))] += 1
    if kind == "iv":
        first = max(i for i in range(k + 1) if events[i].get("e") == "iv" and events[i]["lo"] == 0)
        pref = events[first:k] + [e]
    else:
        pref = [e]
    p = ctx.path("selftest-%s-%s.ndjson" % (kind, field))
    vlib.write_ndjson(p, pref)
    matched, total = vlib.validate_trace(ctx, tla, "Trace.cfg", p, timeout=900, env=env)
    ok = matched == total - 1
    ctx.cov.setdefault("binding_selftest_lists", []).append({"event": kind, "field": field, "rejected": ok})
    if not ok:
        raise vlib.ToolError("list self-test: corrupted %s.%s accepted (matched %d of %d)" % (kind, field, matched, total))


def run(ctx):
    q = ctx.quick
    vlib.model_check(ctx, "MC_Escape.tla", "MC_Escape_quick.cfg" if q else "MC_Escape_thorough.cfg",
                     workers=4 if q else 8, timeout=3400)
    b = vlib.harness_bin("c09", ())
    tp = ctx.path("trace.ndjson")
    rc, out, wall = vlib.sh([b, "record", tp, "seed=%d" % ctx.seed, "strings=%d" % (200 if q else 3000),
                             "scans=%d" % (150 if q else 2000), "perofs=%d" % (3 if q else 16),
                             "pre=%d" % (2 if q else 7)], timeout=900)
    info = json.loads(out.strip().splitlines()[-1])
    ctx.stage("record", wall, **info)
    env = {} if q else {"C09FULL": "1"}
    n = vlib.check_trace(ctx, "Trace_Escape.tla", "Trace.cfg", tp, sig_of,
                         group_key=lambda e: e.get("e") in ("s", "fe") or (e.get("e") == "iv" and e.get("lo") == 0),
                         # `r` is a result of the code under test only in "s" events (length of the body
                         # written by write_json_body_jq); in iv/ivend/fe it is a harness-side count
                         selftest_filter=lambda e: e.get("e") == "s",
                         timeout=3400, env=env)
    evs = vlib.read_ndjson(tp)
    if not ctx.violations:
        list_selftest(ctx, "Trace_Escape.tla", evs, "s", "o", True, env)
        list_selftest(ctx, "Trace_Escape.tla", evs, "fe", "res", False, env)
        list_selftest(ctx, "Trace_Escape.tla", evs, "iv", "ohi", False, env)
    nstr = 0
    for e in evs:
        if e["e"] == "s":
            ctx.note_distinct(("s", tuple(e["s"])))
            nstr += 1
            if 3 <= len(e["s"]) <= 12:
                ctx.sample(e, limit=3)
        elif e["e"] == "iv":
            ctx.note_distinct(("iv", e["c"], e["lo"], e["hi"]))
        elif e["e"] == "fe":
            ctx.note_distinct(("fe", json.dumps(e["rn"])))
    ivs = [e for e in evs if e["e"] == "iv"]
    ctx.sample(ivs[0], limit=6)
    ctx.sample(ivs[-1], limit=6)
    ctx.cov["evaluations"] = info["scalars_covered"] + 4 * info["string_chars"] + info["scanner_results"]
    ctx.cov["events"] = n
    ctx.cov["scalars_covered_per_convention"] = info["scalars_covered"] // 4
    ctx.cov["rule"] = ("one evaluation = one written character form of the real code judged against the spec: every scalar value x 4 "
                       "conventions (through %d interval events, edges decoded by TLC, interior shape checked by the harness), every "
                       "character of every string x 4 conventions, every find_json_escape result; distinct_nontrivial = distinct "
                       "strings + intervals + scanner inputs" % info["intervals"])
    ctx.assumptions += [
        "interior of an interval event: the harness's lexical shape test (same shape, numeric parameter +1 per code point) is "
        "trusted; TLC reads both edge bodies from raw characters and checks MustEscape over the interval",
        "quick tier: MustEscape on long intervals via the change-point lemma Steps (model-checked on the boundary blocks in quick, "
        "on all scalar values in thorough); thorough evaluates every code point in the trace as well",
        "escaping is judged semantically (RFC 8259 reading of the body), not by spelling",
    ]


# MUTANTS (scratch worktree /tmp/wt-c09, `VERIF_REPO=/tmp/wt-c09 ./check C09`, quick tier, seed 20260921):
#  N1 escape.rs is_jq_escaped_control: drop `|| c == '\u{7f}'` (DEL raw in jq)        -> VIOLATION exit 1
#     (iv jq lo=93: the literal interval 93..0xD7FF swallows 127; MustEscape(jq,127) violated)
#  N2 escape.rs write_u_escape: `0xDC00 + (adjusted & 0x3FF)` -> `& 0x3FE`              -> VIOLATION exit 1
#     (iv jqAscii lo=65537 kind pair: edge body \ud800\udc00 reads back as 65536)
#  N3 simd/escape.rs json_avx2_mask: `set1_epi8(0x1F)` -> `0x1E` (AVX2 loop misses 0x1F)   -> VIOLATION exit 1
#     (s event: yq body with a raw 0x1F inside the first 32-byte chunk is not a string body)
#  N4 escape.rs write_json_body_yq: `i = escape_pos` -> `i = escape_pos + 1`              -> VIOLATION exit 1
#     (iv yq lo=0: body of "\0" is empty, kind other)
#  N5 escape.rs write_short_u_escape: high nibble `b >> 4` -> `b >> 5`                    -> VIOLATION exit 1
#     (iv jq lo=16..31: \u0000..\u000f instead of \u0010..\u001f)
#  N6 simd/escape.rs avx2 kernel: 16-byte tail `offset + 16 <= data_len` -> `<`           -> survives (exit 0):
#     equivalent mutant, an exact 16-byte tail is then found by the scalar remainder with the same answer.
