"""C26 — yq results do not depend on the input's syntax (DESIGN.md §4 C26).

spec -> impl: Gen_YqAgree.tla (TreeGen state machine + a presentation-blind program) is
  enumerated exhaustively in a small scope and sampled with -simulate in a larger one; every
  behaviour is a (tree, program) pair.
binding: each tree is rendered by this driver as JSON, block YAML and flow YAML (scalar styles
  chosen with the seed: plain only for strings that are unambiguous in YAML 1.2 core schema,
  otherwise single/double quoted); `succinctly yq -o json -I0 <program>` runs on the three files.
impl -> spec: the observations (exit status + stdout) are logged per case and validated by
  Trace_YqAgree.tla against the Agreement register: all observations of a case must be equal.

Interpretation: "prints the same values" = same exit status and byte-identical stdout under
`-o json -I0` (JSON output of equal values is deterministic).  stderr text is not compared (it
may mention the file name).  The renderers are the trusted inverse (see assumptions).
"""
import json
import os
import random
import re
import subprocess
from concurrent.futures import ThreadPoolExecutor

import vlib

LEVEL = "exploration"

RESERVED = re.compile(r"^(~|null|Null|NULL|true|True|TRUE|false|False|FALSE|yes|Yes|YES|no|No|NO|on|On|ON|off|Off|OFF|y|Y|n|N)$")
PLAIN_SAFE = re.compile(r"^[A-Za-z_][A-Za-z0-9_]*( [A-Za-z0-9_]+)*$")


def fix(s):
    return s.replace("@E9@", "é")


def norm(t):
    """Decode the tagged tree printed by TLC into python data (object = list of pairs)."""
    k = t["t"]
    if k == "str":
        return ("str", fix(t["v"]))
    if k == "int":
        return ("int", t["v"])
    if k == "bool":
        return ("bool", t["v"])
    if k == "null":
        return ("null", None)
    if k == "arr":
        return ("arr", [norm(x) for x in t["v"]])
    return ("obj", [(fix(p[0]), norm(p[1])) for p in t["v"]])


def to_json(v):
    k, x = v
    if k == "str":
        return json.dumps(x, ensure_ascii=False)
    if k == "int":
        return str(x)
    if k == "bool":
        return "true" if x else "false"
    if k == "null":
        return "null"
    if k == "arr":
        return "[" + ",".join(to_json(e) for e in x) + "]"
    return "{" + ",".join(json.dumps(a, ensure_ascii=False) + ":" + to_json(b) for a, b in x) + "}"


def yscalar(s, rng, flow):
    """A YAML spelling of string s."""
    plain_ok = bool(PLAIN_SAFE.match(s)) and not RESERVED.match(s)
    has_ctl = any(ord(c) < 32 for c in s)
    choices = ["dq"]
    if not has_ctl and s != "":
        choices.append("sq")
    if not has_ctl:
        choices.append("sq")
    if plain_ok:
        choices += ["plain", "plain"]
    c = rng.choice(choices)
    if c == "plain":
        return s
    if c == "sq":
        return "'" + s.replace("'", "''") + "'"
    return json.dumps(s, ensure_ascii=rng.random() < 0.3)


def yleaf(v, rng, flow):
    k, x = v
    if k == "str":
        return yscalar(x, rng, flow)
    if k == "int":
        return str(x)
    if k == "bool":
        return "true" if x else "false"
    return rng.choice(["null", "~", "null"])


def to_flow(v, rng):
    k, x = v
    if k == "arr":
        return "[" + ", ".join(to_flow(e, rng) for e in x) + "]"
    if k == "obj":
        return "{" + ", ".join(yscalar(a, rng, True) + ": " + to_flow(b, rng) for a, b in x) + "}"
    return yleaf(v, rng, True)


def to_block(v, rng, ind=0, step=2):
    """Lines of a block rendering of v at indentation ind (containers non-empty)."""
    k, x = v
    pad = " " * ind
    out = []
    if k == "arr":
        for e in x:
            if e[0] in ("arr", "obj") and e[1]:
                sub = to_block(e, rng, ind + step, step)
                # "- " followed by the first line of the nested block (compact form) or on its own line
                if rng.random() < 0.5:
                    out.append(pad + "-" + " " * (step - 1) + sub[0][ind + step:])
                    out += sub[1:]
                else:
                    out.append(pad + "-")
                    out += sub
            else:
                out.append(pad + "- " + inline(e, rng))
        return out
    if k == "obj":
        for a, b in x:
            key = yscalar(a, rng, False)
            if b[0] in ("arr", "obj") and b[1]:
                out.append(pad + key + ":")
                out += to_block(b, rng, ind + step, step)
            else:
                out.append(pad + key + ": " + inline(b, rng))
        return out
    return [pad + yleaf(v, rng, False)]


def inline(v, rng):
    k, x = v
    if k == "arr" and not x:
        return "[]"
    if k == "obj" and not x:
        return "{}"
    return yleaf(v, rng, False)


def block_doc(v, rng):
    k, x = v
    if k in ("arr", "obj") and not x:
        return inline(v, rng) + "\n"
    return "\n".join(to_block(v, rng, 0, rng.choice([2, 2, 4]))) + "\n"


def run_case(cli, work, idx, case, rng_seed):
    rng = random.Random(rng_seed)
    tree = norm(case["tree"])
    prog = fix(case["prog"])
    texts = {"json": to_json(tree) + "\n", "block": block_doc(tree, rng), "flow": to_flow(tree, rng) + "\n"}
    obs = []
    for syn, text in texts.items():
        ext = "json" if syn == "json" else "yaml"
        p = os.path.join(work, "case-%d-%s.%s" % (idx % 64, syn, ext))
        # unique file per thread slot
        p = os.path.join(work, "c%d-%s.%s" % (idx, syn, ext))
        with open(p, "w", encoding="utf-8") as f:
            f.write(text)
        try:
            r = subprocess.run([cli, "yq", "-o", "json", "-I0", prog, p], stdout=subprocess.PIPE, stderr=subprocess.PIPE, timeout=60)
            rc, out, err = r.returncode, r.stdout.decode("utf-8", "replace"), r.stderr.decode("utf-8", "replace")
        except subprocess.TimeoutExpired:
            rc, out, err = -9, "", "timeout"
        os.remove(p)
        obs.append({"syntax": syn, "rc": rc, "out": out, "text": text, "err": err[:200]})
    return idx, prog, obs


def run(ctx):
    cli = vlib.cli_bin()
    q = ctx.quick
    cases = []
    r = vlib.tlc(ctx, "Gen_YqAgree.tla", "Gen_YqAgree_exh.cfg", workers=4, timeout=1200)
    if not r.completed:
        raise vlib.ToolError("Gen_YqAgree exhaustive did not complete:\n" + r.out[-3000:])
    ctx.add("states", r.distinct)
    ctx.add("transitions", r.generated)
    exh = [json.loads(json.loads(ln[len('<<"REPLAY", '):-2])) for ln in r.printed("REPLAY")]
    ctx.stage("gen exhaustive", r.wall, behaviours=len(exh))
    r2 = vlib.tlc(ctx, "Gen_YqAgree.tla", "Gen_YqAgree_sim.cfg", workers=1, timeout=1200,
                  simulate="num=%d" % (40 if q else 600), depth=80, seed=ctx.seed)
    sim = [json.loads(json.loads(ln[len('<<"REPLAY", '):-2])) for ln in r2.printed("REPLAY")]
    ctx.stage("gen simulate", r2.wall, behaviours=len(sim))
    rng = random.Random(ctx.seed)
    rng.shuffle(exh)
    rng.shuffle(sim)
    cases = exh[:(250 if q else 3161)] + sim[:(700 if q else 20000)]
    evs = []
    nobs = 0
    with ThreadPoolExecutor(max_workers=4) as ex:
        for idx, prog, obs in ex.map(lambda ic: run_case(cli, ctx.work, ic[0], ic[1], ctx.seed * 1000003 + ic[0]), enumerate(cases)):
            evs.append({"e": "case", "id": idx, "prog": prog})
            for o in obs:
                evs.append({"e": "obs", "id": idx, "syntax": o["syntax"], "rc": o["rc"], "out": o["out"], "text": o["text"]})
                nobs += 1
            ctx.note_distinct(json.dumps([cases[idx]["tree"], prog]))
            if idx < 3:
                ctx.sample({"prog": prog, "inputs": {o["syntax"]: o["text"] for o in obs}, "out": obs[0]["out"], "rc": obs[0]["rc"]})
    tp = ctx.path("trace.ndjson")
    vlib.write_ndjson(tp, evs)

    def sig_of(e, events, k):
        # which program family disagrees, and on which syntax
        prog = ""
        for j in range(k, -1, -1):
            if events[j].get("e") == "case":
                prog = events[j]["prog"]
                break
        return {"prog": prog, "syntax": e.get("syntax"), "timeout": e.get("rc") == -9}

    n = vlib.check_trace(ctx, "Trace_YqAgree.tla", "Trace.cfg", tp, sig_of,
                         group_key=lambda e: e.get("e") == "case", result_field="rc",
                         selftest_filter=lambda e: e.get("e") == "obs" and e.get("syntax") != "json", timeout=1800)
    ctx.cov["evaluations"] = nobs
    ctx.cov["cases"] = len(cases)
    ctx.cov["rule"] = ("one evaluation = one CLI run; a case = (tree, program) rendered as JSON, block YAML and flow YAML; "
                       "distinct_nontrivial = distinct (tree, program) pairs")
    ctx.assumptions += ["the driver's JSON / block / flow renderers denote the same tree (plain style only for strings that are "
                        "unambiguous under the YAML 1.2 core schema; everything else quoted)",
                        "stderr text is not compared"]
