"""C28 — jq-locate expressions evaluate to the located JSON node (DESIGN.md §4 C28/C29).

model stage : MC_Locate (Yaml = FALSE): a layout machine writes every document with <= 4 value
              nodes token by token and records the spans; on every finished document TLC checks
              the lemmas the binding relies on (spans are a layout, at most one token is located
              at an offset, NodeAt = innermost node, ValueAtPath(PathOf(n)) = n / the value a key
              names) and that LocateImpl.tla -- an implementation-shaped transcription of
              locate.rs on the semi-index view (IB rank -> node, parent walk with
              count_siblings_before / find_key_for_value) -- refines them on every qualifying
              offset (InvImpl).  Negative controls: MC_Locate_dup.cfg (duplicate keys: InvPath
              MUST fail, that is why the property excludes them) and MC_Locate_implmut.cfg
              (`<` -> `<=` in count_siblings_before: InvImpl MUST fail).
trace stage : generated JSON documents without duplicate keys (keys needing bracket notation,
              non-ASCII keys, keyword-like keys, nested containers, every kind of whitespace
              around tokens and around the document, escapes inside strings and keys) with the
              spans recorded by the renderer.  For EVERY qualifying offset the harness calls
              json::locate::locate_offset_detailed, evaluates the printed expression with BOTH
              real evaluators (jq::eval and the cursor evaluator used by the CLI), and evaluates
              at_offset(off) / at_position(line; col).  Trace_Locate.tla demands per event:
              value = ValueAtPath(tree, PathOf(NodeAt(off))), range = the token's span,
              at_offset / at_position = the token's own value, (line, col) maps to off
              (LineIndex.tla), and per document: one event per qualifying offset.
CLI stage   : `succinctly jq-locate --offset/--line --column --format json` on a sample, the
              printed expression evaluated by `succinctly jq`, `at_offset`/`at_position` through
              `succinctly jq`; the observations are turned into the same events and validated
              by the same Trace_Locate.tla.

Interpretation decisions (weaker reading wherever the statement is silent):
 * only offsets inside a scalar or key token or on a container's OPENING bracket are constrained;
   whitespace, `,`, `:`, closing brackets are never asserted on (their outcomes are only counted);
 * "evaluates to that node's value": JSON value equality -- objects compared as unordered maps,
   numbers by their printed text (the generator only emits plain integers);
 * "the expression printed" is judged only by what it evaluates to, never by its spelling;
 * line/column pairs: 1-based line, 1-based BYTE column; LF, lone CR and CRLF are one break each
   (the C12 specification LineIndex.tla).
"""
import json
import os
import re

import vlib

LEVEL = "model_checking"

KW_LEADING = re.compile(r"^\.(and|or|as|then|elif|else|end|catch)(?![A-Za-z0-9_])")
NONASCII_AFTER_BRACKET = re.compile(r"\]\.[^\x00-\x7f]")


def classify(e, doc=None):
    """Class of a loc event from its own content (used for known-finding signatures)."""
    if e.get("found") != 1:
        return "not-located"
    if e.get("via") == "cli" and "ao" in e and doc is not None and doc[:1] in (" ", "\t", "\n", "\r"):
        # position builtins through `succinctly jq` on a file that starts with whitespace
        return "cli-position-builtins-relative-to-value-start"
    x = e.get("expr", "")
    # the two input classes of the known findings are recognisable from the printed expression alone:
    # such an expression can never be parsed as the path it spells (`.or[0]` even evaluates -- to
    # `. or [0]` = true), so every event of the class belongs to the finding
    if KW_LEADING.search(x):
        return "expr-unparsable:leading-dot-key-is-keyword"
    if NONASCII_AFTER_BRACKET.search(x):
        return "expr-parser-panic:non-ascii-dot-key-after-bracket"
    if e.get("val", {}).get("t") == "err":
        return "expr-does-not-evaluate"
    return "other"


def make_sig_of(fmt):
    def sig_of(e, events, k):
        if e.get("e") != "loc":
            return {"event": e.get("e")}
        doc = None
        if e.get("via") == "cli":
            for i in range(k, -1, -1):
                if events[i].get("e") == "build":
                    doc = events[i].get("doc")
                    break
        return {"event": "loc", "fmt": fmt, "via": e.get("via", "lib"), "class": classify(e, doc)}
    return sig_of


def tag(v):
    """plain JSON value -> value encoding of Locate.tla"""
    if v is None:
        return {"t": "null"}
    if v is True or v is False:
        return {"t": "bool", "b": 1 if v else 0}
    if isinstance(v, (int, float)):
        return {"t": "num", "lit": json.dumps(v)}
    if isinstance(v, str):
        return {"t": "str", "cp": [ord(c) for c in v]}
    if isinstance(v, list):
        return {"t": "arr", "v": [tag(x) for x in v]}
    return {"t": "obj", "kv": [[{"cp": [ord(c) for c in k]}, tag(x)] for k, x in v.items()]}


def cli_value(cli, args, timeout=60):
    """Run the CLI; exactly one JSON value on stdout -> its encoding, anything else -> err."""
    import subprocess
    try:
        p = subprocess.run([cli] + args, stdout=subprocess.PIPE, stderr=subprocess.PIPE, timeout=timeout)
    except subprocess.TimeoutExpired:
        raise vlib.ToolError("CLI timeout: %s" % " ".join(args))
    if p.returncode != 0:
        return {"t": "err", "msg": "exit %d: %s" % (p.returncode, p.stderr.decode("utf-8", "replace")[:200])}
    out = p.stdout.decode("utf-8", "replace").strip()
    try:
        return tag(json.loads(out))
    except ValueError:
        return {"t": "err", "msg": "not one JSON value: " + out[:200]}


def cli_locate(cli, sub, path, where):
    import subprocess
    p = subprocess.run([cli, sub, path] + where + ["--format", "json"], stdout=subprocess.PIPE,
                       stderr=subprocess.PIPE, timeout=60)
    if p.returncode != 0:
        return None, p.stderr.decode("utf-8", "replace")[:200]
    try:
        return json.loads(p.stdout.decode("utf-8")), ""
    except ValueError:
        return None, "unparsable output"


def cli_stage(ctx, fmt, sample_dir, sig_of):
    """CLI observations on the sampled documents, as Trace_Locate events."""
    import time
    t0 = time.time()
    cli = vlib.cli_bin(hooks=True)
    sub = "jq-locate" if fmt == "json" else "yq-locate"
    samples = vlib.read_ndjson(os.path.join(sample_dir, "samples.ndjson"))
    events = []      # locate + evaluation of the printed expression
    events_pos = []  # the same plus the position builtins at_offset / at_position through the CLI
    runs = 0
    for s in samples:
        path = s["file"]
        events.append(s["build"])
        events_pos.append(s["build"])
        n = npos = 0
        for o in sorted(s["offs"], key=lambda x: x["off"]):
            off, ln, col = o["off"], o["ln"], o["col"]
            loc, err = cli_locate(cli, sub, path, ["--offset", str(off)])
            # --line/--column must give the same answer (asserted for JSON: the C29 statement is silent)
            loc2 = cli_locate(cli, sub, path, ["--line", str(ln), "--column", str(col)])[0] if fmt == "json" else loc
            runs += 2 if fmt == "json" else 1
            ev = {"e": "loc", "via": "cli", "off": off, "ln": ln, "col": col}
            if loc is None:
                ev.update({"expr": "", "found": 0, "rs": -1, "re": -1, "val": {"t": "err", "msg": err}})
                events.append(ev)
                n += 1
                continue
            expr = loc["expression"]
            ev.update({"expr": expr, "found": 1, "rs": loc["byte_range"][0], "re": loc["byte_range"][1]})
            if loc2 != loc:
                ev["found"] = 0
                ev["note"] = "--line/--column answer differs: %s" % json.dumps(loc2)
            if fmt == "json":
                ev["val"] = cli_value(cli, ["jq", "-c", expr, path])
                runs += 1
            else:
                # the stream's documents collected into an array: --slurp
                ev["val"] = cli_value(cli, ["yq", "-o", "json", "-I", "0", "--slurp", expr, path])
                runs += 1
            events.append(ev)
            n += 1
            evp = dict(ev)
            if fmt == "json":
                evp["ao"] = cli_value(cli, ["jq", "-c", "at_offset(%d)" % off, path])
                evp["ap"] = cli_value(cli, ["jq", "-c", "at_position(%d; %d)" % (ln, col), path])
                runs += 2
            elif len(s["build"]["tree"]["v"]) == 1:
                # (a multi-document stream is evaluated once per document by yq: at_offset would be
                # printed once per document; the library-level at_offset is bound by the trace stage)
                evp["ao"] = cli_value(cli, ["yq", "-o", "json", "-I", "0", "at_offset(%d)" % off, path])
                runs += 1
            if "ao" in evp:
                events_pos.append(evp)
                npos += 1
        events.append({"e": "end", "n": n, "all": 0})
        events_pos.append({"e": "end", "n": npos, "all": 0})
    ctx.stage("cli observations", time.time() - t0, documents=len(samples), cli_runs=runs,
              events=len(events), events_pos=len(events_pos))
    ctx.add("cli_runs", runs)
    n = 0
    for name, evs in (("trace-cli.ndjson", events), ("trace-cli-pos.ndjson", events_pos)):
        tp = ctx.path(name)
        vlib.write_ndjson(tp, evs)
        before = ctx.cov.get("known_finding_hits", 0)
        vlib.check_trace(ctx, "Trace_Locate.tla", "Trace.cfg", tp, sig_of,
                         group_key=lambda e: e.get("e") == "build", timeout=900, selftest=False)
        if ctx.violations:
            break
        # validated loc events of this trace (events of known-finding classes were dropped)
        known = {json.dumps(f.get("signature", {}).get("class")) for f in vlib.load_known() if f.get("property") == ctx.prop}
        n += sum(1 for i, e in enumerate(evs) if e.get("e") == "loc"
                 and json.dumps(sig_of(e, evs, i).get("class")) not in known)
    return n


def value_selftest(ctx, events, fmt):
    """Binding self-test on VALUES (vlib's own self-test corrupts an integer field): corrupt the
    evaluated value / the at_offset value of one event; the trace spec must reject exactly there."""
    cands = [i for i, e in enumerate(events) if e.get("e") == "loc" and classify(e) == "other"
             and e["val"].get("t") in ("num", "str") and e["ao"].get("t") in ("num", "str")]
    if not cands:
        raise vlib.ToolError("no event to corrupt for the value self-test")
    res = {}
    for field in ("val", "ao"):
        k = ctx.rng.choice(cands)
        start = max(i for i in range(k + 1) if events[i].get("e") == "build")
        # (events of the known-finding classes were dropped during validation: leave them out)
        pref = [json.loads(json.dumps(e)) for e in events[start:k + 1]
                if e.get("e") != "loc" or classify(e) == "other"]
        v = pref[-1][field]
        if v["t"] == "num":
            v["lit"] = v["lit"] + "0"
        else:
            v["cp"] = v["cp"] + [120]
        p = ctx.path("selftest-%s.ndjson" % field)
        vlib.write_ndjson(p, pref)
        matched, total = vlib.validate_trace(ctx, "Trace_Locate.tla", "Trace.cfg", p)
        ok = matched == total - 1
        res[field] = {"rejected_at": matched + 1, "expected": total, "ok": ok}
        if not ok:
            raise vlib.ToolError("value self-test failed for %s: corrupted value accepted or rejected "
                                 "elsewhere (matched=%d total=%d)" % (field, matched, total))
    ctx.cov["value_selftest"] = res


def model_stage(ctx, fmt):
    q = ctx.quick
    if os.environ.get("VERIF_SKIP_MODEL") == "1":
        # development aid for mutation runs (the model stage does not depend on /repo); never set
        # by ./check itself, and recorded in the evidence when used
        ctx.assumptions.append("VERIF_SKIP_MODEL=1: model stage skipped (development run)")
        return
    vlib.model_check(ctx, "MC_Locate.tla", "MC_Locate_%s_%s.cfg" % (fmt, "quick" if q else "thorough"),
                     workers=4, timeout=3000)
    # negative control: with duplicate keys the path lemma must fail
    r = vlib.tlc(ctx, "MC_Locate.tla", "MC_Locate_dup.cfg", workers=2, timeout=600)
    if "InvPath" not in r.violated:
        raise vlib.ToolError("negative control MC_Locate_dup.cfg did not violate InvPath:\n" + r.out[-3000:])
    ctx.stage("model MC_Locate_dup.cfg (negative control)", r.wall, violated=r.violated)
    if fmt == "json":
        # second negative control: the implementation-shaped model with the Appendix A mutant
        # (`<` -> `<=` in count_siblings_before) must NOT refine the abstract locate
        r = vlib.tlc(ctx, "MC_Locate.tla", "MC_Locate_implmut.cfg", workers=2, timeout=600)
        if "InvImpl" not in r.violated:
            raise vlib.ToolError("negative control MC_Locate_implmut.cfg did not violate InvImpl:\n" + r.out[-3000:])
        ctx.stage("model MC_Locate_implmut.cfg (negative control)", r.wall, violated=r.violated)


def trace_stage(ctx, fmt, binname, ndocs, extra=()):
    sig_of = make_sig_of(fmt)
    b = vlib.harness_bin(binname)
    tp = ctx.path("trace.ndjson")
    sample_dir = ctx.path("sample")
    os.makedirs(sample_dir, exist_ok=True)
    for f in os.listdir(sample_dir):
        os.unlink(os.path.join(sample_dir, f))
    rc, out, wall = vlib.sh([b, "record", tp, "seed=%d" % ctx.seed, "docs=%d" % ndocs,
                             "sample=" + sample_dir, "nsample=%d" % (10 if ctx.quick else 40)] + list(extra),
                            timeout=1800)
    stats = json.loads(out.strip().splitlines()[-1])
    ctx.stage("record", wall, **stats)
    ctx.cov["generator"] = stats
    if stats.get("loc", 0) == 0:
        raise vlib.ToolError("harness produced no locate events")
    n = vlib.check_trace(ctx, "Trace_Locate.tla", "Trace.cfg", tp, sig_of,
                         group_key=lambda e: e.get("e") == "build", timeout=2400,
                         selftest=True, result_field="re" if fmt == "json" else "found",
                         # `re` / `found` are RESULTS of the locate call in loc events only
                         selftest_filter=lambda e: e.get("e") == "loc" and e.get("found") == 1)
    evs = vlib.read_ndjson(tp)
    if not ctx.violations:
        value_selftest(ctx, evs, fmt)
    doc = None
    classes = {}
    seen_expr = set()
    for e in evs:
        if e["e"] == "build":
            doc = e["doc"]
        elif e["e"] == "loc":
            c = classify(e)
            classes[c] = classes.get(c, 0) + 1
            if e["expr"] not in (".", ""):
                ctx.note_distinct(("expr", e["expr"]))
            if c == "other" and len(e["expr"]) > 6 and len(doc) < 160 and e["expr"] not in seen_expr:
                seen_expr.add(e["expr"])
                ctx.sample({"doc": doc, "offset": e["off"], "expression": e["expr"],
                            "byte_range": [e["rs"], e["re"]], "at_offset": e["ao"]})
    ctx.cov["event_classes"] = classes
    # evaluations = validated loc events (build / end events and dropped known-finding events not counted)
    return (classes.get("other", 0) if not ctx.violations else 0), sample_dir, sig_of


def run(ctx):
    q = ctx.quick
    model_stage(ctx, "json")
    n, sample_dir, sig_of = trace_stage(ctx, "json", "c28", 110 if q else 1000)
    ncli = 0
    if not ctx.violations:
        ncli = cli_stage(ctx, "json", sample_dir, sig_of)
    ctx.cov["evaluations"] = n + ncli
    ctx.cov["rule"] = ("one evaluation = one validated trace event (a qualifying offset of a generated document: "
                       "locate + 2 evaluations of the printed expression + at_offset + at_position, or the same "
                       "through the CLI); distinct_nontrivial = number of distinct non-root expressions printed")
    ctx.assumptions += [
        "the JSON renderer's recorded spans are trusted (self-checked: every token span re-parses with serde_json "
        "to the intended value; TLC checks the spans form a layout)",
        "numbers are plain integers; values are compared as JSON values (objects unordered)",
        "model stage: trees <= 4 value nodes, keys {a,b}, <= 1-2 whitespace bytes; it checks the specification's own "
        "lemmas, the real code is bound by traces only",
    ]


# MUTANTS (scratch worktree /tmp/wt-c28, VERIF_REPO=/tmp/wt-c28 VERIF_SKIP_MODEL=1 ./check C28, quick tier, the three
# known findings listed; every one printed VIOLATION and exited 1, rejected by Trace_Locate.tla at the event shown):
#  M1 json/locate.rs count_siblings_before `<` -> `<=` (DESIGN Appendix A)        -> caught, event 26: `[1,[2,[],{}],"x"]`
#     offset 1 (the `1`) printed `.[1]`, evaluates to the inner array.  The same mutant is also rejected at MODEL level:
#     MC_Locate_implmut.cfg (LocateImpl with ImplMutant = "sib_le") violates InvImpl.
#  M2 json/locate.rs can_use_dot_notation allows `-` (DESIGN Appendix A)          -> caught, event 442: key "foo-bar" printed
#     `.foo-bar`, evaluation error `undefined function: bar/0`
#  M3 json/light.rs text_range: string end `i + 1` -> `i` (range end off by one)  -> caught, event 3: reported range (5,10)
#     for the key token [5,11)
#  M4 json/light.rs cursor_at_offset: inside a token `rank - 1` -> `rank`         -> caught, event 4: at_offset / at_position
#     inside the key "name" return the value "Alice" (locate itself unaffected)
#  M5 json/locate.rs escape_jq_string: backslash not escaped                       -> caught, event 518: key `back\slash`,
#     printed expression does not parse (invalid escape)
#  M6 json/locate.rs find_key_for_value: the key test replaced (key/value confusion: a key token is no longer found,
#     the value after a pair is attributed to it)                                  -> caught, event 3: key offset not located
#  M7 json/locate.rs find_node_at_offset: exact-structural-position case uses rank-1 -> caught, event 3: first byte of a
#     key located as the enclosing object (`.`, range of the object)
#  model-level negative controls run by every check: MC_Locate_dup.cfg (duplicate keys) must violate InvPath,
#  MC_Locate_implmut.cfg must violate InvImpl; both do.
#  binding self-tests run by every check: corrupted `re`, corrupted evaluated value, corrupted at_offset value are each
#  rejected exactly at the corrupted event.
