"""C06 — JSON index navigation reproduces every valid document's value (DESIGN.md §4 C06).

model stage : MC_JsonDoc — for every tree of <= 5 nodes (3-key alphabet, duplicated keys) the flat
              cursor machine of spec/JsonDoc.tla simulates path navigation on the nested tree for
              every walk of <= 6 moves; TreeLaws (Parent(FirstChild(c)) = c, sibling chain =
              children in source order, key/value alternation) and last-duplicate-wins lookup hold.
trace stage : harness generator (tree, layout) -> JSON text with recorded token spans (cross-checked
              by an independent hand-written reader before use); the real JsonIndex is walked by a
              full move-only DFS and by seeded random walks; every call is one event validated by
              Trace_JsonDoc.tla against the document carried by the build event.

Interpretation decisions (no false alarms):
 * Strings containing a lone surrogate escape (\\ud800 not followed by a low surrogate) are not
   generated: RFC 8259 leaves their value open, so "the value a conforming parser reads" is undefined.
 * Values returned WITHOUT a cursor (elements.get(i), fields.find(name)) are identified by kind and,
   where the API exposes it, by start offset (strings, numbers, non-empty containers); for
   booleans/null/empty containers only the kind is observable and only the kind is required.
 * Numeric value equality is outside TLA+: the harness logs num_ok = (as_f64 bits == Rust
   parse::<f64> bits of the literal) and the spec requires 1 (assumption: Rust's float parser).
"""
import hashlib
import json
import os
import vlib

LEVEL = "model_checking"


def sig_of(e, events, k):
    if e.get("e") == "build":
        return {"event": "build", "panic": e.get("r") == -2}
    return {"event": "op", "op": e.get("op"), "panic": e.get("r") == -2}


def run(ctx):
    q = ctx.quick
    if not os.environ.get("VERIF_DEV_SKIP_MODEL"):   # development only (mutation runs): the model stage does not depend on /repo
        vlib.model_check(ctx, "MC_JsonDoc.tla", "MC_JsonDoc.cfg", workers=6, timeout=1200)
    b = vlib.harness_bin("c06")
    tp = ctx.path("trace.ndjson")
    docs, large, nlarge = (240, 30000, 2) if q else (1200, 1000000, 2)
    rc, out, wall = vlib.sh([b, "record", tp, "seed=%d" % ctx.seed, "docs=%d" % docs, "large=%d" % large,
                             "nlarge=%d" % nlarge], timeout=900)
    stats = json.loads(out.strip().splitlines()[-1])
    ctx.stage("record", wall, **stats)
    n = vlib.check_trace(ctx, "Trace_JsonDoc.tla", "Trace.cfg", tp, sig_of,
                         group_key=lambda e: e.get("e") == "build", timeout=3000, xmx="8g")
    fams = {}
    shown = 0
    with open(tp) as f:
        prev_build = None
        for ln in f:
            if ln.startswith('{"e":"build"'):
                e = json.loads(ln)
                fams[e["family"]] = fams.get(e["family"], 0) + 1
                ctx.note_distinct(("doc", e["family"], e["len"], e["r"], hashlib.sha1(ln.encode()).hexdigest()[:16]))
                prev_build = e if (e["r"] <= 8 and e["r"] >= 3 and shown < 3) else None
                if prev_build is not None:
                    shown += 1
                    ctx.sample({"build": {k: prev_build[k] for k in ("family", "len", "nodes")}})
    ctx.cov["evaluations"] = n
    ctx.cov["documents_by_family"] = fams
    ctx.cov["generator"] = stats
    ctx.cov["rule"] = ("one evaluation = one recorded API call on the real index (cursor move or observation) accepted by "
                       "TLC as a step of the JsonDoc cursor machine; distinct_nontrivial = number of distinct generated documents")
    ctx.assumptions += [
        "the renderer (tree, layout) -> text is the trusted inverse; each case is cross-checked by an independent minimal JSON reader and dropped on disagreement (dropped_by_selfcheck in coverage.generator)",
        "numeric value equality delegated to Rust's f64 parser: num_ok = (as_f64 bits == literal.parse::<f64>() bits) must be 1",
        "cursor identity = bp().rank1(bp_pos) with is_open(bp_pos) (BalancedParens rank is C04's subject)",
        "lone-surrogate escapes are not generated (value undefined by RFC 8259)",
        "flat preorder listings are validated against Preorder(nested tree) by TLC only for documents of <= 40 nodes; larger documents rely on the same harness code plus the local WellFormed conditions",
    ]

# MUTANTS (scratch worktree of /repo, VERIF_REPO=..., quick tier; "caught" = VIOLATION + exit 1):
#  1 light.rs JsonFields::find_cursor keeps the FIRST duplicate            caught (find at a duplicated key, r differs)
#  2 light.rs JsonFields::find keeps the FIRST duplicate                   caught (find: kind/start of the value differs)
#  3 light.rs decode_escapes surrogate guard `i + 6 < len` -> `i + 7 < len` caught (string ending in a surrogate pair: as_str Err)
#    (the Appendix-A form `<` -> `<=` is equivalent on valid JSON: it only changes an out-of-range read
#     that valid text never reaches)
#  4 light.rs text_range string arm `i += 2` -> `i += 1` after a backslash caught (range of a string containing \")
#  5 light.rs nested_number_span drops `E`                                 caught (range/num of 1E5)
#  6 light.rs JsonElements::get_fast loop `0..index` -> `1..index`         caught (get fast=1)
#  7 light.rs text_range container arm: `i += 1` after a backslash         caught (range of a container holding "\"]")
#  8 light.rs parse_hex4 upper-case digits off by one                      caught (str with \uXXXX upper-case hex)
#  9 bp.rs next_sibling `close + 1 < len` -> `close + 2 < len`             not caught: EQUIVALENT on balanced BP (an open
#    parenthesis is never the last bit), no observable difference through JsonCursor
# 10 light.rs JsonFields::uncons rest = key.next_sibling()                 caught (fields)
# 11 light.rs children() starts at the second child                        caught (children)
# 12 light.rs value(): "false" reported as Bool(true)                      caught (value kind)
# 13 light.rs decode_escapes maps \u2028 to U+2029 (single code point)    MISSED by the first generator (random code points)
#    -> strengthened: families usweep-u / usweep-lit put EVERY BMP scalar value (and samples of every
#    astral plane) once in \uXXXX form and once literally into each run; re-run: caught (str).
