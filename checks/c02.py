"""C02 — word-level bit kernels exact on every word (DESIGN.md §4 C02).

model stage : MC_WordKernels — the three select algorithms of the code (PDEP deposit, CTZ
              clear-lowest loop, broadword byte counts + prefix scan + byte table), the SWAR
              popcount and the byte table, transcribed step by step (WordKernelsImpl), equal the
              set definitions (WordKernels) for EVERY word: W=8 / 4-bit bytes exhaustive
              (thorough: W=12, and W=16 / 8-bit bytes -- real table size, real SWAR depth -- on
              the structured families); plus: the linear-time evaluators used by the trace spec equal
              the set definitions.
trace stage : every available path of the REAL code driven directly and validated result by
              result by Trace_WordKernels.tla at W=64: dispatcher select_in_word, popcount_word,
              popcount_word_portable, popcount_words, block_popcount_portable, scan_select,
              scan_select_scalar, select_from, find_close_in_word, find_unmatched_close_in_word;
              with hook H1 (hooks/H1-kernel-reexports.patch) also select_in_word_ctz /
              _broadword / _pdep, select_in_byte + the whole SELECT_IN_BYTE_TABLE,
              block_popcount_avx2 and find_close_in_word_fast.  Builds default, simd and
              portable-popcount are traced for the popcount dispatch.
              If the hooked binary (c02h) cannot be built (patch not applied) the check runs the
              public paths only and says so in evidence (coverage.hook_paths = "skipped").

Interpretation decisions (weaker reading where the statement is silent):
 * select with k >= popcount returns 64 for every k incl. 65, 2^31, u32::MAX ("or 64 when there
   are fewer than k+1 set bits"); a trace logs every k >= 2^30 as -1 and the spec evaluates it as
   "some k >= 2^30" (the definition gives the same answer for all of them).
 * find_close_in_word(w, p): documented contract of bp.rs — p >= 64 -> None, a close at p
   matches itself, None when the match is in a later word.
 * find_close_in_word_fast is only called inside its documented domain (initial_excess >= 1,
   valid_bits <= 64).
 * scan_select / select_from with start_word >= len -> None (documented).
"""
import json
import vlib

LEVEL = "exploration"

STD_KS = list(range(0, 66)) + [-1]
STD_PS = list(range(0, 67)) + [-1]


def _sel(bits, k):
    k = 1 << 30 if k < 0 else k
    return bits[k] if k < len(bits) else 64


def _fc(bits, p):
    p = 1 << 30 if p < 0 else p
    if p >= 64:
        return -1
    s = set(bits)
    if p not in s:
        return p
    e = 0
    for q in range(p, 64):
        e += 1 if q in s else -1
        if e == 0:
            return q
    return -1


def make_sig(info):
    """Signature of a rejected event: which kernel / path disagrees.  The little oracle below is
    used ONLY to name the failing kernel in the signature, never for the verdict (TLC decides)."""
    sel_paths = info.get("select_paths", [])
    pc_paths = info.get("popcount_paths", [])
    blk_paths = info.get("block_paths", [])

    def sig_of(e, events, k):
        t = e.get("e")
        s = {"event": t}
        if t == "w":
            bits = e["w"]
            if e.get("std") == 1:
                exp = [_sel(bits, kk) for kk in STD_KS]
                for i, r in enumerate(e["sel"]):
                    if r != exp:
                        s.update(kernel="select", path=sel_paths[i] if i < len(sel_paths) else i,
                                 panic=-2 in r)
                        return s
                if e["fc"] != [_fc(bits, p) for p in STD_PS]:
                    s.update(kernel="find_close_in_word", panic=-2 in e["fc"])
                    return s
            for i, r in enumerate(e["pc"]):
                if r != len(bits):
                    s.update(kernel="popcount", path=pc_paths[i] if i < len(pc_paths) else i, panic=r == -2)
                    return s
            s.update(kernel="find_unmatched_close_in_word", panic=e.get("r") == -2)
        elif t == "blk":
            exp = sum(len(w) for w in e["ws"])
            bad = [blk_paths[i] if i < len(blk_paths) else i for i, r in enumerate(e["rr"]) if r != exp]
            s.update(kernel="block_popcount", path=bad[0] if bad else "?")
        elif t == "sb":
            s.update(kernel="select_in_byte")
        elif t == "scan":
            s.update(kernel="scan_select", differ=e.get("rs") != e.get("rc"))
        elif t == "ff":
            s.update(kernel="find_close_in_word_fast")
        return s
    return sig_of


def list_selftest(ctx, tla, events, kind, field, nested):
    """Binding self-test for list-valued results (vlib's built-in one corrupts only the scalar
    field `r`): corrupt one element of `field` in one event of kind `kind`; TLC must reject it."""
    cands = [e for e in events if e.get("e") == kind and e.get(field)]
    if not cands:
        return
    e = json.loads(json.dumps(ctx.rng.choice(cands)))
    lst = e[field]
    if nested:
        lst = lst[ctx.rng.randrange(len(lst))]
    if not lst:
        return
    i = ctx.rng.randrange(len(lst))
    if isinstance(lst[i], list):
        lst[i][-1] += 1
    else:
        lst[i] += 1
    p = ctx.path("selftest-%s-%s.ndjson" % (kind, field))
    vlib.write_ndjson(p, [e])
    matched, total = vlib.validate_trace(ctx, tla, "Trace.cfg", p, timeout=600)
    ok = matched == 0 and total == 1
    ctx.cov.setdefault("binding_selftest_lists", []).append({"event": kind, "field": field, "rejected": ok})
    if not ok:
        raise vlib.ToolError("list self-test: corrupted %s.%s accepted" % (kind, field))


def run(ctx):
    q = ctx.quick
    vlib.model_check(ctx, "MC_WordKernels.tla", "MC_WordKernels_quick.cfg" if q else "MC_WordKernels_thorough.cfg",
                     workers=4, timeout=3000)
    if not q:
        vlib.model_check(ctx, "MC_WordKernels.tla", "MC_WordKernels_byte8.cfg", workers=4, timeout=3000)

    # the hooked recorder needs hooks/H1-kernel-reexports.patch in the repo; degrade gracefully
    hooked = True
    try:
        b = vlib.harness_bin("c02h", ("hooks",))
    except vlib.ToolError as ex:
        msg = str(ex)
        if "verif_hooks" not in msg:
            raise
        hooked = False
        vlib.log("[C02] hooked recorder c02h does not build (H1 patch not applied): public paths only")
        b = vlib.harness_bin("c02", ())
    ctx.cov["hook_paths"] = "driven" if hooked else "skipped (H1-kernel-reexports.patch not applied to the repo)"

    tp = ctx.path("trace.ndjson")
    rc, out, wall = vlib.sh([b, "record", tp, "seed=%d" % ctx.seed, "random=%d" % (1500 if q else 20000),
                             "blocks=%d" % (1200 if q else 20000), "scans=%d" % (250 if q else 2500)], timeout=900)
    info = json.loads(out.strip().splitlines()[-1])
    ctx.stage("record", wall, **{k: v for k, v in info.items() if k not in ("families",)})
    sig_of = make_sig(info)
    n = vlib.check_trace(ctx, "Trace_WordKernels.tla", "Trace.cfg", tp, sig_of, group_key=lambda e: True,   # events are self-contained
                         selftest_filter=lambda e: e.get("e") in ("w", "blk"),   # r = a kernel result there
                         timeout=3000, xmx="6g")
    total_results = info["results"]
    evs = vlib.read_ndjson(tp)
    if not ctx.violations:
        tests = [("w", "sel", True), ("w", "fc", False), ("w", "pc", False), ("blk", "rr", False), ("scan", "rs", False)]
        if hooked:
            tests += [("sb", "tab", False), ("ff", "fr", False)]
        # each self-test is one TLC start-up: the quick tier draws three of them (seeded)
        for kind, field, nested in (ctx.rng.sample(tests, 3) if q else tests):
            list_selftest(ctx, "Trace_WordKernels.tla", evs, kind, field, nested)
    for e in evs:
        if e["e"] == "w":
            ctx.note_distinct(("w", tuple(e["w"])))
        elif e["e"] == "blk":
            ctx.note_distinct(("b", json.dumps(e["ws"])))
    for e in evs[70:72]:
        s = dict(e)
        s["sel"] = [x[:8] for x in s.get("sel", [])]
        s["fc"] = s.get("fc", [])[:8]
        ctx.sample(s)
    blk = next((e for e in evs if e["e"] == "blk" and e["r"] > 0), None)
    if blk:
        ctx.sample(blk)
    del evs

    ctx.cov["rule"] = ("one evaluation = one result of one call of one path of the real code, compared by TLC with the "
                       "WordKernels definition (events batch all ranks / start bits / paths of one word); "
                       "distinct_nontrivial = distinct 64-bit words plus distinct 8-word blocks driven")
    ctx.cov["evaluations"] = total_results
    if ctx.violations:
        return      # already reported; the other feature builds would add nothing

    # popcount dispatch under the other two popcount strategies (public paths only)
    for feat in ("simd", "portable-popcount"):
        bb = vlib.harness_bin("c02", (feat,))
        tpf = ctx.path("trace-%s.ndjson" % feat)
        rc, out, wall = vlib.sh([bb, "record", tpf, "seed=%d" % (ctx.seed + 1), "random=%d" % (1500 if q else 20000),
                                 "mode=pop"], timeout=900)
        inf = json.loads(out.strip().splitlines()[-1])
        ctx.stage("record " + feat, wall, events=inf["events"], results=inf["results"])
        n += vlib.check_trace(ctx, "Trace_WordKernels.tla", "Trace.cfg", tpf, make_sig(inf), group_key=lambda e: True,
                              timeout=3000, selftest=False)
        total_results += inf["results"]

    ctx.cov["evaluations"] = total_results
    ctx.cov["events"] = n
    ctx.cov["paths"] = {"select": info["select_paths"], "popcount": info["popcount_paths"], "block": info["block_paths"],
                        "byte_table_entries": info["table_entries"], "fast_close_queries": info["fast_close_queries"],
                        "scan_queries": info["scan_queries"], "host": info["host"]}
    ctx.cov["word_families"] = info["families"]
    ctx.assumptions += [
        "2^64 words are sampled by structured families (ALL words with <=2 and >=62 set bits, byte-/nibble-periodic, "
        "single-byte-populated, masks, Dyck-like, random); the byte table and the scaled algorithms are exhaustive",
        "model stage uses scaled widths (W=8/12 with 4-bit bytes exhaustive; W=16 with 8-bit bytes on structured families); "
        "real W=64 is exercised by traces",
        "trace evaluation uses the linear-time evaluators of WordKernels Part 2 (model-checked equal to the set definitions); "
        "the set definitions themselves are also evaluated on a sample of sparse words (d=1)",
    ]
    if not hooked:
        ctx.assumptions.append("non-dispatched paths (ctz, broadword, pdep direct, select_in_byte/table, block_popcount_avx2, "
                               "find_close_in_word_fast) NOT driven: hook patch H1 not applied")


# MUTANTS (scratch worktree /tmp/wt-c02 = HEAD + hooks/H1-kernel-reexports.patch,
#          `VERIF_REPO=/tmp/wt-c02 ./check C02`, quick tier, seed 20260921):
#  M1 broadword.rs select_in_word_broadword: `cumulative + byte_pop > k` -> `>=`        -> VIOLATION exit 1
#     (w=[0,9]: sig kernel=select path=broadword; only reachable through hook H1)
#  M2 x86.rs select_in_word_pdep: mask guard `k >= 63` -> `k > 63`                       -> VIOLATION exit 1
#     (w=u64::MAX, k=63: shift overflow panic (-2) on paths dispatch and pdep)
#  M3 scan.rs block_popcount_avx2: `for i in 0..2` -> `0..1` (second 256-bit lane lost) -> VIOLATION exit 1
#     (blk event with only word 4..7 populated: sig kernel=block_popcount path=block_popcount_avx2)
#  M4 bp.rs find_close_in_word: `remaining_bits = 63 - p` -> `64 - p`                    -> VIOLATION exit 1
#     (w=[0,63]: Some(64) reported for the open at 63: sig kernel=find_close_in_word)
#  Three more, run with a shortened procedure (same worktree; c02h rebuilt with the three changes together,
#  recorded, and the trace split by event kind so each change is judged by its own Trace_WordKernels run):
#  M5 popcount.rs popcount_word_portable: `((x >> 2) & M2)` -> `& M1`      -> "w" events rejected at event 6 of 400
#  M6 table.rs select_in_byte: `if k >= 8` -> `if k > 8`                    -> "sb" events rejected at event 1 of 256
#  M7 scan.rs scan_select block loop: `if total > rem` -> `>=`              -> "scan" events rejected at event 3 of 250
#  Not run: find_unmatched_close_in_word `0..64` -> `0..63` (changes `r` of the words whose first unmatched
#  close is bit 63).
