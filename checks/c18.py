"""C18 — Strict YAML validation never rejects a well-formed document (DESIGN.md §4 C18).

model stage : MC_YamlBytes — LineCol (the validator's documented position convention: LF, lone
              CR, CRLF as one break; 1-based line, 1-based byte column) equals a step-by-step
              scanner on every string <= 7 over {LF, CR, 'a'}; the presentation grammar itself
              is model-checked under C14 (same spec/YamlPresentation.tla).
spec -> impl: every behaviour of the C14 generation (Gen_YamlPresentation, same bounded scopes +
              simulation) is rendered and must be ACCEPTED by yaml::validate::validate; a sample
              goes through the CLI `succinctly yq --validate`.
impl -> spec: validate() on random bytes, YAML-indicator token soups and mutated valid
              documents: every call must return (no panic) accept or a positioned error, and
              Trace_YamlValidate.tla checks position.(line,column) = LineCol(position.offset).

Interpretation decisions (no false alarms):
* "well-formed document in the generated presentation space" = exactly the C14 space (constructs
  the compliance pages list as divergent are not generated).  Whether the loader reads the
  document correctly is C14's business, not checked here.
* An offset strictly inside a CRLF pair may be reported on either side (the convention is silent).
* Termination is bounded by wall clock per call (2 s for inputs <= 160 bytes); an overrun is
  reported as a tool error (exit 2, inconclusive), never as a violation.
"""
import json
import vlib
from checks import c14

LEVEL = "exploration"


def sig_of_trace(e, events, k):
    return {"stage": "position", "r": e.get("r"), "bytes": e.get("bytes")}


def run(ctx):
    q = ctx.quick
    vlib.model_check(ctx, "MC_YamlBytes.tla", "MC_YamlBytes.cfg", workers=2, timeout=900)
    # block-only small random documents WITHOUT avoiding the validator's known-defect triggers (V1, V2): they are
    # exhibited as KNOWN-FINDING, anything else there is still a violation
    known_scope = ("simk18", c14.cfg_text("{1, 7, 11}", 9, 1, styles='{"plain", "double"}', coll='{"block"}', decor=1000,
                                          indents="{1, 2, 4}", breaks='{"LF", "CR"}', flags=c14.ALL_FLAGS, avoid="{}", sim=True),
                   "num=%d" % (1500 if q else 10000))
    path, total = c14.generate(ctx, q, '{"V1", "V2", "V3"}', extra=[known_scope])
    b = vlib.harness_bin("c14")
    mp = ctx.path("mismatches.ndjson")
    # the replay's amplification stage (streams of 62..320 collections concatenated from accepted behaviours, see
    # checks/c14.py) is submitted to the validator as well
    rc, out, wall = vlib.sh([b, "replay", path, mp, "validate=1", "samples=%d" % (40 if q else 200), "seed=%d" % ctx.seed,
                             "amplify=%d" % (2 if q else 25)], timeout=3000)
    summ = json.loads(out.strip().splitlines()[-1])
    ctx.stage("replay validate", wall, **summ)
    if summ["behaviours"] != total or summ["distinct_documents"] < 1000 or summ["max_nodes"] < 20:
        raise vlib.ToolError("replay is vacuous: %s" % summ)
    ctx.cov["amplified_streams"] = summ.get("amplified_streams", 0)
    c14.report_mismatches(ctx, mp, ("validate", "validate-panic"))
    ncli = c14.cli_stage(ctx, mp + ".samples", validate=True, limit=40 if q else 200)

    # impl -> spec: arbitrary bytes
    tp = ctx.path("validate-trace.ndjson")
    ncalls = 4000 if q else 40000
    rc, out, wall = vlib.sh([b, "vrecord", path, tp, "seed=%d" % ctx.seed, "n=%d" % ncalls, "budget_ms=2000"], timeout=3000)
    vs = json.loads(out.strip().splitlines()[-1])
    ctx.stage("record validate", wall, **vs)
    if vs["over_budget"] > 0:
        raise vlib.ToolError("validate() exceeded the 2 s wall-clock bound on %d inputs (inconclusive)" % vs["over_budget"])
    if vs["rejected"] < ncalls // 10 or vs["accepted"] < ncalls // 20 or len(vs["error_kinds"]) < 8:
        raise vlib.ToolError("validate trace is vacuous: %s" % vs)
    nev = vlib.check_trace(ctx, "Trace_YamlValidate.tla", "Trace.cfg", tp, sig_of_trace, group_key=lambda e: True,
                           timeout=3000, result_field="line", selftest_filter=lambda e: e.get("r") == 1)
    ctx.cov["evaluations"] = summ["distinct_documents"] + nev + ncli
    ctx.cov["distinct_nontrivial"] = summ["feature_classes"]
    ctx.cov["validator_error_kinds_seen"] = vs["error_kinds"]
    ctx.cov["rule"] = ("one evaluation = one distinct generated YAML stream submitted to validate(), or one recorded validate() call "
                       "on arbitrary bytes whose verdict/position TLC validated, or one CLI run; distinct_nontrivial = distinct "
                       "construct sets among the generated streams")
    for s in vlib.read_ndjson(mp + ".samples")[:3]:
        ctx.sample({"yaml": s["yaml"]})
    for e in vlib.read_ndjson(tp)[:400]:
        if e["r"] == 1 and e["line"] > 1:
            ctx.sample(e)
            break
    ctx.assumptions += [
        "the generated space is the C14 space (trusted renderer, unambiguous constructs only)",
        "arbitrary-byte inputs are <= 160 bytes; termination is observed (wall-clock bound), not proved",
    ]


# MUTANTS (scratch worktree, `VERIF_REPO=... VERIF_DEV_REUSE=1 VERIF_DEV_NOCLI=1 ./check C18`) -- all CAUGHT (exit 1):
#   V1 validate.rs consume_line_break: a lone CR does not bump `line`      -> Trace_YamlValidate rejects (line 1 col 9 at offset 9 after a CR)
#   V2 validate.rs record_anchor: recorded name one byte short             -> `- &a2 a\n- *a2\n` rejected (UnknownAnchor) in the replay stage
#   V3 validate.rs skip_block_scalar_body: `indent > parent_indent + 1`    -> width-1 block scalars with `[` / `'` / `&a` content rejected
#   V4 validate.rs scan_anchor_name: column not advanced over the name     -> Trace_YamlValidate rejects (col 3 reported, LineCol says 4)
