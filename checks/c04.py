"""C04 — balanced-parentheses navigation = linear-scan definition (DESIGN.md §4 C04).

model stage : MC_BpRuns   (run-length evaluation BpRuns = definitional BalancedParens.tla, which is
                           itself checked against its textbook characterisations)
              MC_RangeMin (scaled implementation-shaped RangeMinImpl.tla: L0/L1/L2 min-excess
                           hierarchy, find_close_from automaton, byte-table word scan, backward
                           find_open/enclose, rank directory, WithSelect / WithCsPoppy select,
                           select0 — refines the definitional spec on every bit string of the scaled
                           size, every length incl. stray bits and surplus words, every position)
              MC_FcAutomaton (find_close_from as a TLC state machine, ONE ACTION PER CODE ARM: correct,
                           terminates by a decreasing measure, carries the scan excess; `-coverage 1`
                           per-action counts prove every live arm fires; 10 arms are unreachable
                           (defensive `return None` arms and the two `is_close(pos) && excess <= 1` arms))
trace stage : real BalancedParens, 6 constructions (owned/borrowed x NoSelect/WithSelect/WithCsPoppy,
              CsPoppy rates {0,1,2,3,64,255,256,257,4096}), default and `simd` builds, free
              find_close/find_open/enclose, in-word kernels — every recorded call validated by
              Trace_BP.tla.

Interpretation decisions (weaker reading where the statement is silent):
  * excess(p) is compared only for p < len (the code's 0 for out-of-range is unspecified);
    depth(p) only for p >= len (None) or where the scan excess is >= 0 (the `as usize` of a negative
    excess is unspecified).  The harness does not record the other cases.
  * select1 on NoSelect is documented to return None always; it is not recorded (neither demanded to
    be None nor to be the scan answer).
  * A bit vector "with stray bits past len" includes storage with SURPLUS WHOLE WORDS past the word
    holding bit len-1 (DESIGN.md §7 F6): the statement quantifies over stray bits without limiting
    them to the final word.  The calls the two known defects can touch (by INPUT CLASS, see
    defect_prone) are validated in a separate small trace file so that the known-finding skipping
    re-validates only that file; they are validated by the same specification.
  * Development-only environment switches (mutation testing; never set by ./check or the coordinator):
    C04_DEV_SKIP_MODEL (skip the /repo-independent model stage), C04_DEV_ONLY_BUILD=default|simd,
    C04_DEV_FAST (skip the side file once a violation is already reported).
  * find_close_in_word on a close returns Some(p) ("matches itself", documented): demanded as documented.
"""
import json
import os
import re
import vlib

LEVEL = "model_checking"

CFGS = [("default", ()), ("simd", ("simd",))]

COUNT_OPS = ("total_ones", "total_zeros", "select0")


def _build_of(events, k):
    for i in range(k, -1, -1):
        if events[i].get("e") == "build":
            return events[i]
    return {}


def sig_of(e, events, k):
    if e.get("e") == "build":
        return {"event": "build", "panic": e.get("rlen") == -2, "st": e.get("st"), "sel": e.get("sel")}
    if e.get("e") == "w":
        return {"event": "w", "op": e.get("op"), "panic": e.get("r") == -2}
    b = _build_of(events, k)
    op = e.get("op")
    if op in COUNT_OPS:
        # 1-bits past len in a storage with surplus whole words (finding F6)
        return {"event": "q", "op": op, "surplus_ones": b.get("sw1", 0) > 0, "panic": e.get("r") == -2}
    sig = {"event": "q", "op": op, "panic": e.get("r") == -2, "surplus_words": b.get("sw", 0) > 0}
    if op == "f_find_close":
        sig["partial_last"] = b.get("len", 0) % 64 != 0
    return sig


def defect_prone(b, e):
    """Calls whose answer the two known defects can touch (input class only, never the answer):
    counts / select0 when 1-bits lie past len in a storage with surplus whole words; the free
    find_close when there are surplus whole words and len % 64 != 0."""
    if e["op"] in COUNT_OPS:
        return b.get("sw1", 0) > 0
    if e["op"] == "f_find_close":
        return b.get("sw", 0) > 0 and b.get("len", 0) % 64 != 0
    return False


def split_groups(events):
    """main: everything except the defect-prone calls; side: the defect-prone calls, each group opened
    by a copy of its build event.  Both files are validated by the same Trace_BP.tla; the split only
    keeps the known-finding skipping (which re-validates the file once per signature) on a small file."""
    main, side = [], []
    b = None
    opened = False
    for e in events:
        if e["e"] == "build":
            b, opened = e, False
            main.append(e)
        elif e["e"] == "q" and b is not None and defect_prone(b, e):
            if not opened:
                side.append(b)
                opened = True
            side.append(e)
        else:
            main.append(e)
    return main, side


LIVE_ARMS = ["ScanWordFound", "ScanWordNextWord", "CheckL0Descend", "CheckL0SkipWord", "CheckL1Descend",
             "CheckL1SkipBlock", "CheckL2Descend", "CheckL2SkipBlock", "FromL0WordAligned", "FromL0InsideWord",
             "FromL1BlockAligned", "FromL1BlockAlignedPastLen", "FromL1InsideBlock", "FromL1PastLen",
             "FromL2BlockAligned", "FromL2BlockAlignedPastLen", "FromL2InsideBlock"]


def automaton_stage(ctx, workers):
    """find_close_from with one TLC action per code arm; -coverage 1 gives the per-arm firing counts.
    Non-vacuity: every arm that can fire must have fired.  Arms that never fire in the explored scope
    (defensive `return None` arms and the two `is_close(pos) && excess <= 1` arms) are recorded, not failed."""
    r = vlib.model_check(ctx, "MC_FcAutomaton.tla",
                         "MC_FcAutomaton_quick.cfg" if ctx.quick else "MC_FcAutomaton_thorough.cfg",
                         workers=workers, timeout=3000, extra=("-coverage", "1"))
    last = r.out[r.out.rindex("The coverage statistics at"):] if "The coverage statistics at" in r.out else ""
    fired = {}
    for m in re.finditer(r"^<(\w+) line \d+, col \d+ to line \d+, col \d+ of module MC_FcAutomaton>: (\d+):(\d+)", last, re.M):
        fired[m.group(1)] = int(m.group(2))
    missing = [a for a in LIVE_ARMS if fired.get(a, 0) == 0]
    if missing:
        raise vlib.ToolError("find_close_from automaton arms never fired in the model: %s" % missing)
    arms = {k: v for k, v in fired.items() if k not in ("Init", "AddWord", "Start")}
    ctx.cov["automaton_arm_firings"] = arms
    ctx.cov["automaton_dead_arms_in_scope"] = sorted(k for k, v in arms.items() if v == 0)


def run(ctx):
    q = ctx.quick
    W = 6
    # development only (mutation testing): the model stage does not depend on /repo
    if not os.environ.get("C04_DEV_SKIP_MODEL"):
        vlib.model_check(ctx, "MC_BpRuns.tla", "MC_BpRuns_quick.cfg" if q else "MC_BpRuns_thorough.cfg",
                         workers=W, timeout=1800)
        for cfg in (["MC_RangeMin_quick.cfg", "MC_RangeMin_quick2.cfg"] if q else
                    ["MC_RangeMin_thorough.cfg", "MC_RangeMin_thorough2.cfg"]):
            vlib.model_check(ctx, "MC_RangeMin.tla", cfg, workers=W, timeout=3000)
        automaton_stage(ctx, W)

    nvec = 36 if q else 250
    maxbits = 200000 if q else 1000000
    total = 0
    ops_seen = set()
    for i, (name, feats) in enumerate(CFGS):
        if os.environ.get("C04_DEV_ONLY_BUILD") not in (None, "", name):
            continue
        b = vlib.harness_bin("c04", feats)
        tp = ctx.path("trace-%s.ndjson" % name)
        rc, out, wall = vlib.sh([b, "record", tp, "seed=%d" % (ctx.seed + i), "vectors=%d" % nvec, "cfg=" + name,
                                 "maxbits=%d" % maxbits, "npos=%d" % (40 if q else 64),
                                 "kwords=%d" % (150 if q else 1500)], timeout=900)
        ctx.stage("record " + name, wall, **json.loads(out.strip().splitlines()[-1]))
        evs = vlib.read_ndjson(tp)
        gmain, gside = split_groups(evs)
        pm, ps = ctx.path("trace-%s-main.ndjson" % name), ctx.path("trace-%s-side.ndjson" % name)
        vlib.write_ndjson(pm, gmain)
        vlib.write_ndjson(ps, gside)
        total += vlib.check_trace(ctx, "Trace_BP.tla", "Trace.cfg", pm, sig_of,
                                  group_key=lambda e: e.get("e") == "build", timeout=2400, selftest=(i == 0),
                                  # "r" is a recorded RESULT in every q / w event (build events carry rlen)
                                  selftest_filter=lambda e: e.get("e") in ("q", "w"))
        if gside and not (os.environ.get("C04_DEV_FAST") and ctx.violations):
            total += vlib.check_trace(ctx, "Trace_BP.tla", "Trace.cfg", ps, sig_of,
                                      group_key=lambda e: e.get("e") == "build", timeout=2400, selftest=False)
            ctx.add("defect_prone_calls_validated_separately", sum(1 for e in gside if e["e"] == "q"))
        for e in evs:
            if e["e"] == "build":
                ctx.note_distinct(("v", json.dumps(e["rl"]), e["len"], e["st"], e["sel"], e["rate"]))
                ctx.add("builds_surplus_words" if e["sw"] else "builds_exact_words")
                if e["len"] > 65536:
                    ctx.add("builds_over_one_L2_block")
            else:
                ops_seen.add(e["op"])
        if i == 0:
            bi = [j for j, e in enumerate(evs) if e["e"] == "build"]
            for j in (bi[30:31] + bi[120:121] + bi[200:201]):
                s = dict(evs[j]); s["rl"] = s["rl"][:10]
                ctx.sample({"build": s, "first_queries": evs[j + 3:j + 7]})
    need = {"find_close", "find_open", "enclose", "parent", "first_child", "next_sibling", "excess", "depth",
            "subtree_size", "rank1", "rank0", "select1", "select0", "is_open", "is_close", "total_ones",
            "total_zeros", "f_find_close", "f_find_open", "f_enclose", "fuc", "fciw"}
    if not need <= ops_seen:
        raise vlib.ToolError("vacuous trace: ops never recorded: %s" % sorted(need - ops_seen))
    ctx.cov["evaluations"] = total
    ctx.cov["ops"] = sorted(ops_seen)
    ctx.cov["rule"] = ("one evaluation = one recorded API call validated by TLC against BpRuns/BitRuns; "
                       "distinct_nontrivial = number of distinct (storage bits, len, storage kind, select variant, "
                       "sample rate) constructions built")
    ctx.assumptions += [
        "BpRuns (run-length evaluation) equals the definitional BalancedParens.tla only checked exhaustively for "
        "<=5 runs of length <=3 (thorough: <=6 runs of length <=4), every len and position",
        "scaled constants stand for (W,BYTE,F1,F2,RB,BLK,PRO)=(64,8,32,32,8,8,8) in the model stage; the real "
        "constants, integer widths (i8/i16/i32 summaries) and the SSE4.1 builders are exercised by traces only",
        "excess compared for p<len only; depth where excess>=0 or p>=len only; NoSelect.select1 not compared",
    ]


# MUTANTS (scratch worktree /tmp/wt-c04 of /repo HEAD, src/trees/bp.rs; all mutations compiled into ONE worktree
# behind a runtime selector `mutant() == N` read from env C04_MUTANT, so one alt build serves every mutant;
# `VERIF_REPO=/tmp/wt-c04 C04_MUTANT=N ./check C04` with C04_DEV_SKIP_MODEL=1 (the model stage does not read
# /repo) and the default build only, except M9 (simd build).  C04_MUTANT=0 (instrumented, unmutated): exit 0.
#   M1  CheckL1 `excess + min_e <= 0` -> `< 0`                              caught  find_close(0) -> None
#   M2  l2_min_excess / l2_block_excess narrowed to i16 (all builders)      caught  find_close(48129) -> None (depth > 32767)
#   M3  WithCsPoppy partition_point `r <= k` -> `r < k`                     caught  select1(513) = 1024
#   M4  free enclose: `excess + word_excess >= 1` instead of max_excess     caught  enclose(205) -> None
#   M5  build_bp_index: tail mask on read removed (borrowed stray bits)     caught  total_ones inflated
#   M6  find_close_in_word_fast: byte test `<= 0` -> `< 0`                  caught  find_close(32256) -> None
#   M7  CheckL0 `excess + min_e <= 0` -> `< 0`                              caught  find_close(32256) -> None
#   M8  select0 binary search `rank0(mid+1) > k` -> `>= k`                  caught  select0(0) = 0
#   M9  SSE4.1 L1 builder: running excess not inserted into lane 0 (simd)   caught  find_close(11809) wrong (simd build only)
#   M10 CheckL2 skip advances 31 instead of 32 L1 blocks                    caught  find_close(1) wrong position
#   M11 WithSelect: `result < len` backstop dropped                         caught  select1(94) = 208 >= len (surplus words)
#   M12 free find_open starts with excess 0 instead of -1                   caught  find_open(1) -> None
#   M13 build_l0_index: partial last word summarised over all 64 bits       NOT caught -- equivalent: a summary over a
#       longer prefix only lowers the minimum, so no word/block is skipped that the code would scan; ScanWord itself
#       honours valid_bits; the wrong word excess is only added when pos already passes len
#   M14 rank1: rank_l2 offset read at (i+1)*9 instead of i*9                caught  rank1(128384)
#   M16 WithCsPoppy build: sample block of word_idx+1                       caught  select1 panics (slice index)
#   M17 mask_final_word_in_place clears one valid bit too many (owned)      caught  total_ones
#   M18 next_sibling: is_open(close+1) test dropped                         caught  next_sibling(24063)
#   M19 subtree_size off by one                                             caught  subtree_size(0)
# Specification-level teeth (copy of spec/ in /tmp): RangeMinImpl CheckL0 guard `<= 0` -> `< 0` => MC_RangeMin
# violated with raw=<<0,1,0,1>>, len=3; BpRuns.FwdSearch without the `- 1` => MC_BpRuns violated with rl=<<<<0,1>>>>.
# Two first-draft mutants were equivalent and replaced (byte loop `pos+8 <= valid` -> `<`: the tail scan covers the
# byte; ScanWord `word_idx*64+64 <= len` -> `<`: the else branch yields 64 as well).
