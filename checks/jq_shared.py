"""Helpers shared by checks/c23.py, c24.py, c25.py (jq family)."""
import json
import re
import vlib


def dec(v):
    """tagged value -> plain python (display only; duplicate keys collapse)"""
    t = v["t"]
    if t == "null":
        return None
    if t == "bool":
        return v["b"]
    if t == "num":
        return "".join(map(chr, v["a"])) if v["a"] else v["n"]
    if t == "str":
        return "".join(map(chr, v["cp"]))
    if t == "arr":
        return [dec(x) for x in v["v"]]
    return {"".join(map(chr, k)): dec(x) for k, x in v["kv"]}


def show_outcome(o):
    return {"out": [dec(x) for x in o["out"]], "end": o["end"]["k"], "err": dec(o["end"]["v"]),
            "label": o["end"]["l"], "code": o["end"]["c"]}


# program features that name a known defect class (signature key "cause")
FEATURES = [
    ("bare_flatten", re.compile(r"\bflatten\b(?!\()")),
    ("leaf_paths", re.compile(r"\bleaf_paths\b")),
    ("reverse", re.compile(r"\breverse\b")),
    ("paths_filter_in", re.compile(r"\bpaths\(.*\bin\(")),
    ("paths_filter_on_root", re.compile(r"\bpaths\(")),
]


def features(prog):
    return [name for name, rx in FEATURES if rx.search(prog)]


def scan(ctx, trace_path, tla="Scan_Jq.tla", timeout=1500):
    """One TLC pass over the whole trace that does not stop at a mismatch: returns
    (mismatching 0-based indexes, skipped 0-based indexes, total)."""
    r = vlib.tlc(ctx, tla, "Trace.cfg", workers=1, timeout=timeout, env={"TRACE": trace_path}, xss="1g", deque=True)
    lines = r.printed("VERIF_TRACE")
    if not lines:
        raise vlib.ToolError("scan produced no verdict:\n" + r.out[-4000:])
    m = re.match(r'<<"VERIF_TRACE", (-?\d+), (-?\d+)>>', lines[-1])
    matched, total = int(m.group(1)), int(m.group(2))
    if matched != total:
        raise vlib.ToolError("scan pass stopped early (%d of %d): spec evaluation error?\n%s" % (matched, total, r.out[-3000:]))
    mis = [int(x) - 1 for x in re.findall(r'<<"MIS", (\d+)>>', r.out)]
    skip = [int(x) - 1 for x in re.findall(r'<<"JQSKIP", (\d+)>>', r.out)]
    ctx.stage("scan %s" % tla, r.wall, mismatches=len(mis), spec_silent=len(skip), total=total)
    return mis, skip, total


def summary_of(out):
    """the harness prints `SUMMARY {json}` (programs such as halt_error write to the same stream)"""
    for ln in reversed(out.splitlines()):
        if ln.startswith("SUMMARY "):
            return json.loads(ln[8:])
    raise vlib.ToolError("harness printed no SUMMARY line:\n" + out[-2000:])
