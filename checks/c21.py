"""C21 — DSV rows and fields follow quote-aware splitting (DESIGN.md §4 C21).

model stage : MC_Dsv — on every class string (delimiter/quote/newline/other) of length <= 6
              (thorough 8) the iteration / random-access / column-access protocols written over
              the spec's cursor machine equal the definitional split (Rows/Fields), the
              append-a-separator lemma holds, and every cursor step from every reachable position
              agrees with the definitional rows.
trace stage : real Dsv / DsvRef / DsvRows / DsvRow / DsvFields / DsvCursor on class-rich texts
              (stock + seeded configurations incl. bytes 0x00/0x7F/0x80/0xFF), each text with and
              without an appended separator, all row / column indices incl. out of range,
              validated event by event by Trace_Dsv.tla.
replay stage: Gen_Dsv enumerates every class string <= 5 (thorough 7) with the predicted rows;
              `c21 replay` runs them under 5 configurations, on `text` and (when the lemma's
              premises hold) on `text + newline` with the SAME expected rows.

Interpretation decisions (weaker reading where the statement is silent):
 * the empty text has no rows; an empty line is a row with one empty field;
 * a quote byte toggles the quote state wherever it stands (no RFC-4180 "quote only at field
   start" rule) — this is what every engine implements and what C20 fixes;
 * DsvCursor's boolean results are specified as "bytes remain at the new position" (what the
   rustdoc says: false at end of data); the statement's words about rows/fields are applied to
   DsvRows / DsvFields / DsvRow::get / Dsv::row only;
 * Dsv::row_count() (number of separators) is not part of the statement and is not checked here.
"""
import json
import os
import vlib

LEVEL = "model_checking"

# ---------------------------------------------------------------------------------------------
# Plain-Python reading of the statement, used ONLY to classify an event that TLC has already
# rejected (or a replay mismatch the harness has already printed), so that the known defect F1
# gets a specific signature.  It never decides pass/fail.
# ---------------------------------------------------------------------------------------------
def py_rows(b, d, q, n):
    rows, row, field, inq, open_row = [], [], [], False, False
    for x in b:
        open_row = True
        if x == q:
            inq = not inq
            field.append(x)
        elif not inq and x == d:
            row.append(field)
            field = []
        elif not inq and x == n:
            row.append(field)
            rows.append(row)
            row, field, open_row = [], [], False
        else:
            field.append(x)
    if open_row:
        row.append(field)
        rows.append(row)
    return rows


def ends_with_unquoted_delimiter(b, d, q, n):
    inq = False
    last = False
    for x in b:
        if x == q:
            inq = not inq
        last = (not inq) and x == d
    return last


F1_INPUT = "no_final_separator_and_last_field_empty"
F1_DEV = "trailing_empty_field_lost"


def classify(api, text, got, n=None, i=None):
    """api: rows|row|get; text: (b,d,q,n); got: rows list | fields list or None | field or None.
    Returns a signature dict."""
    b, d, q, nl = text
    exp = py_rows(b, d, q, nl)
    f1_text = ends_with_unquoted_delimiter(b, d, q, nl)
    group = "DsvFields" if api in ("rows", "row") else "DsvRow::get"
    dev = "other"
    if api == "rows":
        if got == exp:
            dev = "none"
        elif f1_text and exp and got == exp[:-1] + [exp[-1][:-1]] and exp[-1][-1] == []:
            dev = F1_DEV
    elif api == "row":
        want = exp[n] if (n is not None and 0 <= n < len(exp)) else None
        if got == want:
            dev = "none"
        elif f1_text and want is not None and n == len(exp) - 1 and got == want[:-1] and want[-1] == []:
            dev = F1_DEV
    elif api == "get":
        row = exp[n] if (n is not None and 0 <= n < len(exp)) else None
        want = row[i] if (row is not None and i is not None and 0 <= i < len(row)) else None
        if got == want:
            dev = "none"
        elif f1_text and n == len(exp) - 1 and row is not None and i == len(row) - 1 and want == [] and got is None:
            dev = F1_DEV
    sig = {"api": group, "deviation": dev}
    if dev == F1_DEV:
        sig["input"] = F1_INPUT
    elif dev == "other":
        sig["input"] = "ends_with_unquoted_delimiter" if f1_text else "general"
        sig["event"] = api
    return sig


def _text_of(events, k):
    for j in range(k, -1, -1):
        if events[j].get("e") == "text":
            t = events[j]
            return (t["b"], t["d"], t["q"], t["n"])
    return ([], 44, 34, 10)


def sig_of(e, events, k):
    kind = e.get("e")
    if e.get("r") == -2:
        return {"api": kind, "deviation": "panic"}
    if kind in ("rows", "row", "get"):
        text = _text_of(events, k)
        if kind == "rows":
            return classify("rows", text, e["rows"])
        if kind == "row":
            return classify("row", text, e["fields"] if e["some"] == 1 else None, n=e["n"])
        return classify("get", text, e["f"] if e["some"] == 1 else None, n=e["n"], i=e["i"])
    if kind == "cur":
        return {"api": "DsvCursor", "op": e.get("op"), "deviation": "other"}
    return {"api": kind, "deviation": "other"}


def run(ctx):
    q = ctx.quick
    if not os.environ.get("VERIF_DEV_SKIP_MODEL"):      # development only (mutation runs against the code)
        vlib.model_check(ctx, "MC_Dsv.tla", "MC_Dsv_quick.cfg" if q else "MC_Dsv_thorough.cfg", workers=6,
                         timeout=3000)

    # ---- impl -> spec: trace validation
    b = vlib.harness_bin("c21")
    tp = ctx.path("trace.ndjson")
    rc, out, wall = vlib.sh([b, "record", tp, "seed=%d" % ctx.seed, "texts=%d" % (120 if q else 900)], timeout=600)
    ctx.stage("record", wall, **json.loads(out.strip().splitlines()[-1]))
    n = vlib.check_trace(ctx, "Trace_Dsv.tla", "Trace.cfg", tp, sig_of,
                         group_key=lambda e: e.get("e") == "text", timeout=2400)
    evs = vlib.read_ndjson(tp)
    kinds = {}
    for e in evs:
        kinds[e["e"]] = kinds.get(e["e"], 0) + 1
        if e["e"] == "text":
            ctx.note_distinct(("t", json.dumps(e["b"]), e["d"], e["q"], e["n"]))
    ctx.cov["trace_event_kinds"] = kinds
    ti = [j for j, e in enumerate(evs) if e["e"] == "text"]
    for j in ti[:2]:
        ctx.sample({"text": evs[j], "rows": evs[j + 1]})

    # ---- spec -> impl: replay of TLC-enumerated class strings
    res = vlib.tlc(ctx, "Gen_Dsv.tla", "Gen_Dsv_quick.cfg" if q else "Gen_Dsv_thorough.cfg", workers=4, timeout=900)
    if not res.completed:
        raise vlib.ToolError("Gen_Dsv did not complete:\n" + res.out[-3000:])
    lines = res.printed("REPLAY")
    beh = [json.loads(json.loads(ln[len('<<"REPLAY", '):-2])) for ln in lines]
    ctx.stage("generate Gen_Dsv", res.wall, behaviours=len(beh), states=res.distinct)
    gp = ctx.path("gen.ndjson")
    vlib.write_ndjson(gp, beh)
    mp = ctx.path("replay-mismatches.ndjson")
    rc, out, wall = vlib.sh([b, "replay", gp, mp, "seed=%d" % ctx.seed], timeout=1200)
    st = json.loads(out.strip().splitlines()[-1])
    ctx.stage("replay", wall, **st)
    known = 0
    for m in vlib.read_ndjson(mp):
        text = (m["text"], m["d"], m["q"], m["nl"])
        got = m["got"]
        if got == "PANIC":
            sig = {"api": m["api"], "deviation": "panic"}
        elif m["api"] == "rows":
            sig = classify("rows", text, got)
        elif m["api"] == "row":
            sig = classify("row", text, got["fields"] if got["some"] == 1 else None, n=m["n"])
        else:
            sig = classify("get", text, got["f"] if got["some"] == 1 else None, n=m["n"], i=m["i"])
        if sig["deviation"] == "none":      # the classifier and the spec disagree: never silently pass
            sig = {"api": m["api"], "deviation": "spec_vs_classifier"}
        sig["stage"] = "replay"
        if not ctx.report(sig, "replay mismatch %s variant=%s cfg=(%d,%d,%d) text=%s n=%s i=%s got=%s want=%s" % (
                m["api"], m["variant"], m["d"], m["q"], m["nl"], m["text"], m["n"], m["i"],
                json.dumps(m["got"])[:200], json.dumps(m["want"])[:200]), replay_events=[m]):
            known += 1
        if len(ctx.violations) >= 5:
            break
    ctx.cov["replay_known_finding_mismatches"] = known
    for bb in beh:
        ctx.note_distinct(("g", json.dumps(bb["cls"])))
    ctx.cov["evaluations"] = n + st["calls"]
    ctx.cov["rule"] = ("one evaluation = one recorded API call validated by TLC (trace) or one API call compared "
                       "with the TLC-predicted answer (replay); distinct_nontrivial = distinct (text, configuration) "
                       "traced + distinct class strings replayed")
    ctx.assumptions += [
        "model stage bounded: class strings <= %d" % (6 if q else 8),
        "the byte alphabet enters only through its class under the configuration (the code compares bytes for "
        "equality with the three special bytes only); traces use real bytes incl. 0x00/0x7F/0x80/0xFF",
        "DsvCursor booleans specified as 'bytes remain at the new position'",
    ]

# MUTANTS (scratch worktree, VERIF_REPO=..., quick tier, model stage skipped, F1 listed as known; all exit 1):
#  M6  cursor.rs goto_row: newlines_select1(n - 1) -> (n)                  -> caught (trace row n=1 + replay)
#  M7  cursor.rs DsvRow::get: `at_newline() ||` check dropped               -> caught (trace get + replay)
#  M9  cursor.rs next_row navigates with markers instead of newlines        -> caught (trace rows, event 2 + replay)
#  M17 cursor.rs goto_row returns true even when it lands at the end        -> caught (trace row n=nrows + replay)
#  M8b index_lightweight.rs markers_select1 picks the FIRST of equal rank entries (issue-#196 shape)
#      -> caught (trace: slice panic inside iteration over a text with a >64-byte field, logged as r=-2);
#      first run exposed an unguarded current_field() call in the harness (fixed: every call is guarded)
#  M8  (partition_point -> binary_search) is equivalent on rustc 1.95, see checks/c20.py
#  FIX hooks/FIX-C21-trailing-empty-field.patch applied -> trace 18957/18957 events accepted with NO known-finding
#      skips, replay 0 mismatches (so F1 is the only deviation the check sees, and the patch removes it)
#  spec-level sanity: IterFields that stops when NextField reports 0 (the F1 protocol) -> MC_Dsv SplitInv violated
#      at t = <<D>> (",").
