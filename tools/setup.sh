#!/bin/sh
# Build everything the checks need from files on disk only (offline).
set -e
cd "$(dirname "$0")/.."
export CARGO_NET_OFFLINE=true
mkdir -p .build work evidence
( cd harness && cargo build --offline --bins 2>&1 | tail -3 )
if grep -q 'cli_bin' checks/*.py 2>/dev/null; then
  cargo build --offline --manifest-path /repo/Cargo.toml --features cli,verif-hooks --bin succinctly --target-dir .build/cli-target 2>&1 | tail -3
fi
echo setup done
