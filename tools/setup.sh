#!/bin/sh
# Build everything the checks need from files on disk only (offline), so that the quick
# commands only pay for incremental rebuilds of what changed under /repo.  Failures here are
# not fatal: every check builds what it needs itself and reports a tool error if it cannot.
cd "$(dirname "$0")/.."
export CARGO_NET_OFFLINE=true
mkdir -p .build work evidence
cd harness
for f in src/bin/*.rs; do b=$(basename "$f" .rs); cargo build --offline --bin "$b" 2>&1 | tail -1; done
for b in c02h c03 c12 c17; do cargo build --offline --features hooks --bin $b 2>&1 | tail -1; done
for b in c01 c02 c04; do cargo build --offline --features simd --bin $b 2>&1 | tail -1; done
for b in c01 c02; do cargo build --offline --features portable-popcount --bin $b 2>&1 | tail -1; done
cargo build --offline --features scalar-yaml --bin c16 2>&1 | tail -1
cd ..
cargo build --offline --manifest-path /repo/Cargo.toml --features cli,verif-hooks --bin succinctly --target-dir .build/cli-target 2>&1 | tail -2
echo setup done
exit 0
