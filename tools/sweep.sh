#!/bin/sh
# usage: tools/sweep.sh "<seeds>" "<checks>" [tier]   — run checks over seeds, one summary line each
cd "$(dirname "$0")/.."
SEEDS="$1"; CHECKS="$2"; TIER="${3:-quick}"
[ -d .build/target ] || ./tools/setup.sh > work-setup.log 2>&1
mkdir -p work
for s in $SEEDS; do
  for c in $CHECKS; do
    start=$(date +%s)
    VERIF_SEED=$s ./check $c --tier $TIER > work/sweep-$c-$s.log 2>&1
    rc=$?
    end=$(date +%s)
    echo "SWEEP check=$c seed=$s tier=$TIER rc=$rc wall=$((end-start))s $(grep -c KNOWN-FINDING work/sweep-$c-$s.log) known $(grep -m1 -E 'VIOLATION:|TOOL ERROR' work/sweep-$c-$s.log | cut -c1-300)"
  done
done
