#!/usr/bin/env python3
"""Print a markdown table of /verif/seeded/*/meta.json (which checks catch which seeded changes)."""
import glob, json, os
HERE = os.path.dirname(os.path.dirname(os.path.abspath(__file__)))
rows = []
for p in sorted(glob.glob(os.path.join(HERE, "seeded", "*", "meta.json"))):
    m = json.load(open(p))
    c = m.get("confirmed", {})
    det = c.get("detection", {})
    d = "; ".join("%s: %s" % (k, v["verdict"]) for k, v in det.items())
    hist = m.get("history", "")
    rows.append("| %s | %s | %s | %s | %s |" % (os.path.basename(os.path.dirname(p)), m.get("breaks_property", ""),
                (m.get("summary", "") or "").replace("|", "/").replace("\n", " ")[:230],
                (m.get("needs", "") or "").replace("|", "/").replace("\n", " ")[:200], d + (" — " + hist if hist else "")))
print("| Seeded change | Property | What it changes | Needs | Detection |")
print("|---|---|---|---|---|")
print("\n".join(rows))
