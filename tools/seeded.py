#!/usr/bin/env python3
"""Confirm and file a seeded breaking change produced by an independent sub-agent.

usage: tools/seeded.py <PROP> <name> <patch.diff> <demo.rs> <meta.json> [--checks C01,C31] [--skip-suite]

Steps (all in a scratch worktree /tmp/sv-<name>, removed at the end):
  1. demo test on the unmodified tree must PASS
  2. apply patch; crate must build; demo test must FAIL
  3. the repository's existing test suite (baseline command) must still pass with the patch
  4. run our check(s) with VERIF_REPO=<worktree>: exit 1 = caught, 0 = missed
  5. on success of 1-3, store /verif/seeded/<name>/{patch.diff,demo.rs,meta.json}
"""
import hashlib
import json
import os
import re
import shutil
import subprocess
import sys
import time

VERIF = os.path.dirname(os.path.dirname(os.path.abspath(__file__)))


def run(cmd, cwd=None, env=None, timeout=7200):
    e = dict(os.environ, CARGO_NET_OFFLINE="true", CARGO_TERM_COLOR="never")
    if env:
        e.update(env)
    p = subprocess.run(cmd, cwd=cwd, env=e, stdout=subprocess.PIPE, stderr=subprocess.STDOUT, text=True, timeout=timeout)
    return p.returncode, p.stdout


def main():
    args = [a for a in sys.argv[1:] if not a.startswith("--")]
    opts = [a for a in sys.argv[1:] if a.startswith("--")]
    prop, name, patch, demo, meta = args[:5]
    checks = [prop]
    for o in opts:
        if o.startswith("--checks="):
            checks = o.split("=", 1)[1].split(",")
    skip_suite = "--skip-suite" in opts
    if os.path.exists(os.path.join(VERIF, "seeded", name, "meta.json")) and "--force" not in opts:
        print("already confirmed: " + name)
        return 0
    if os.path.exists("/tmp/sv-" + name):
        print("in progress elsewhere: " + name)
        return 0
    wt = "/tmp/sv-" + name
    if os.path.exists(wt):
        run(["git", "-C", "/repo", "worktree", "remove", "--force", wt])
    rc, out = run(["git", "-C", "/repo", "worktree", "add", "-q", "--detach", wt, "HEAD"])
    assert rc == 0, out
    result = {"property": prop, "name": name}
    try:
        demo_name = "seed_demo_" + re.sub(r"[^a-z0-9_]", "_", name.lower())
        shutil.copy(demo, os.path.join(wt, "tests", demo_name + ".rs"))
        # a PRIVATE target dir per confirmation: cargo's artifact hash of the root package does not
        # include its path, so two worktrees building concurrently into one target dir overwrite
        # each other's libsuccinctly rlib and link tests against the wrong patch.  Seeded from a
        # warm template (external crates prebuilt) to keep the rebuild short.
        tdir = "/tmp/sv-target-" + name
        if not os.path.exists(tdir) and os.path.exists("/tmp/sv-template"):
            run(["cp", "-a", "--reflink=auto", "/tmp/sv-template", tdir])
        tgt = {"CARGO_TARGET_DIR": tdir}
        feats = []
        m = json.load(open(meta))
        if m.get("demo_features"):
            feats = ["--features", m["demo_features"]]
        t0 = time.time()
        rc, out = run(["cargo", "test", "--offline", "-j", "8", "--test", demo_name] + feats, cwd=wt, env=tgt)
        result["demo_on_clean"] = "pass" if rc == 0 else "FAIL"
        if rc != 0:
            print(out[-3000:])
            print("REJECT: demo does not pass on the unmodified tree")
            return 1
        rc, out = run(["git", "apply", os.path.abspath(patch)], cwd=wt)
        if rc != 0:
            print("REJECT: patch does not apply\n" + out)
            return 1
        rc, out = run(["cargo", "test", "--offline", "-j", "8", "--test", demo_name] + feats, cwd=wt, env=tgt)
        compiled = ("error: could not compile" not in out and "error[E" not in out) or "test result: FAILED" in out
        result["demo_with_patch"] = "fail" if (rc != 0 and compiled) else ("COMPILE-ERROR" if not compiled else "PASS")
        if rc == 0 or not compiled:
            print(out[-3000:])
            print("REJECT: demo does not fail (or does not compile) with the patch")
            return 1
        # existing suite (without the demo file)
        os.remove(os.path.join(wt, "tests", demo_name + ".rs"))
        if not skip_suite:
            rc, out = run(["cargo", "nextest", "run", "--workspace", "--no-fail-fast", "--test-threads", "8", "--offline",
                           "--cargo-quiet", "--status-level", "fail", "--final-status-level", "fail",
                           "--failure-output", "never", "--success-output", "never"], cwd=wt, env=tgt)
            if rc != 0 and ("Broken pipe" in out or "due to signal" in out or "SIGTERM" in out or
                            not re.search(r"\b4\d\d\d tests run", out)):
                # the run was interrupted from outside (shared machine): retry once
                rc, out = run(["cargo", "nextest", "run", "--workspace", "--no-fail-fast", "--test-threads", "8", "--offline",
                               "--cargo-quiet", "--status-level", "fail", "--final-status-level", "fail",
                               "--failure-output", "never", "--success-output", "never"], cwd=wt, env=tgt)
            if rc != 0:
                # tests that use fixed /tmp paths race with other suite runs on this shared machine:
                # re-run just the failed tests (at most 6) alone; the verdict is theirs
                failed = sorted(set(re.findall(r"^\s*(?:FAIL|SIGABRT|TIMEOUT)\s+\[[^\]]*\]\s+\S+\s+(\S+)\s*$", out, re.M)))
                if 0 < len(failed) <= 6:
                    flt = " | ".join("test(=%s)" % t for t in failed)
                    rc2, out2 = run(["cargo", "nextest", "run", "--workspace", "--no-fail-fast", "--offline", "--cargo-quiet",
                                     "--test-threads", "1", "-E", flt], cwd=wt, env=tgt)
                    result["suite_retry"] = {"tests": failed, "rc": rc2}
                    if rc2 == 0:
                        rc = 0
            mm = re.search(r"(\d+) tests run: (\d+) passed(?: \((\d+) \w+\))?,? ?(?:(\d+) failed)?", out)
            summ = [l for l in out.splitlines() if "tests run" in l or "Summary" in l]
            result["suite"] = summ[-1].strip() if summ else out[-300:]
            result["suite_rc"] = rc
            if rc != 0:
                fails = [l for l in out.splitlines() if l.strip().startswith("FAIL")][:10]
                print("\n".join(fails))
                print("REJECT: existing test suite fails with the patch: %s" % result["suite"])
                return 1
        else:
            result["suite"] = "skipped"
        result["confirm_wall_s"] = round(time.time() - t0)
        # our checks
        det = {}
        for c in checks:
            t1 = time.time()
            rc, out = run(["./check", c], cwd=VERIF, env={"VERIF_REPO": wt})
            v = [l for l in out.splitlines() if "VIOLATION" in l][:2]
            det[c] = {"exit": rc, "verdict": "caught" if rc == 1 else ("missed" if rc == 0 else "tool-error"),
                      "wall_s": round(time.time() - t1), "first": v[-1][:400] if v else ""}
            if rc == 2:
                det[c]["tail"] = out[-1500:]
        result["detection"] = det
        d = os.path.join(VERIF, "seeded", name)
        os.makedirs(d, exist_ok=True)
        shutil.copy(patch, os.path.join(d, "patch.diff"))
        shutil.copy(demo, os.path.join(d, "demo.rs"))
        m["confirmed"] = result
        m["breaks_property"] = prop
        json.dump(m, open(os.path.join(d, "meta.json"), "w"), indent=1)
        print(json.dumps(result, indent=1))
        return 0
    finally:
        run(["git", "-C", "/repo", "worktree", "remove", "--force", wt])
        shutil.rmtree("/tmp/sv-target-" + name, ignore_errors=True)
        h = hashlib.sha1(wt.encode()).hexdigest()[:10]
        shutil.rmtree("/tmp/verif-alt-build-" + h, ignore_errors=True)


if __name__ == "__main__":
    sys.exit(main())
