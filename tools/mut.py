#!/usr/bin/env python3
"""Development tool: run a check against small source mutations in a scratch worktree.

usage: tools/mut.py <PROP> <worktree-name> <file>::<old>::<new> [...]
       tools/mut.py <PROP> <worktree-name> --patch <diff> [...]
Each mutation is applied alone to a fresh checkout of /repo HEAD under /tmp/<worktree-name>,
the check is run with VERIF_REPO pointing there, and the worktree is reverted.  At the end the
worktree and its build tree are removed (keep with --keep)."""
import hashlib
import os
import subprocess
import sys

prop, name = sys.argv[1], sys.argv[2]
rest = sys.argv[3:]
keep = "--keep" in rest
rest = [r for r in rest if r != "--keep"]
wt = "/tmp/" + name
if not os.path.exists(wt):
    subprocess.check_call(["git", "-C", "/repo", "worktree", "add", "-q", "--detach", wt, "HEAD"])
env = dict(os.environ, VERIF_REPO=wt)
results = []
i = 0
while i < len(rest):
    m = rest[i]
    subprocess.check_call(["git", "-C", wt, "checkout", "-q", "--", "."])
    if m == "--patch":
        i += 1
        subprocess.check_call(["git", "-C", wt, "apply", rest[i]])
        label = rest[i]
    else:
        f, old, new = m.split("::")
        old, new = old.replace("\\n", "\n"), new.replace("\\n", "\n")
        p = os.path.join(wt, f)
        s = open(p).read()
        if s.count(old) != 1:
            print("MUTANT %s: pattern occurs %d times, skipped" % (m, s.count(old)))
            results.append((m, "bad-pattern"))
            i += 1
            continue
        open(p, "w").write(s.replace(old, new))
        label = m
    r = subprocess.run(["./check", prop] + (["--tier", os.environ["MUT_TIER"]] if "MUT_TIER" in os.environ else []),
                       cwd=os.path.dirname(os.path.dirname(os.path.abspath(__file__))), env=env,
                       stdout=subprocess.PIPE, stderr=subprocess.STDOUT, text=True)
    viol = [l for l in r.stdout.splitlines() if l.startswith("VIOLATION") or "VIOLATION:" in l]
    print("MUTANT %s -> exit %d %s" % (label, r.returncode, "CAUGHT" if r.returncode == 1 else ("MISSED" if r.returncode == 0 else "TOOL-ERROR")))
    for l in viol[:2]:
        print("    " + l[:300])
    if r.returncode == 2:
        print("    " + "\n    ".join(r.stdout.splitlines()[-8:]))
    results.append((label, r.returncode))
    i += 1
subprocess.check_call(["git", "-C", wt, "checkout", "-q", "--", "."])
if not keep:
    subprocess.call(["git", "-C", "/repo", "worktree", "remove", "--force", wt])
    h = hashlib.sha1(wt.encode()).hexdigest()[:10]
    subprocess.call(["rm", "-rf", "/tmp/verif-alt-build-" + h])
