#!/usr/bin/env python3
"""Assemble /verif/MANIFEST.json from manifest.d/*.json fragments (one per property) plus
manifest.d/_base.json (setup, hooks, engines, not_applicable, notes)."""
import glob
import json
import os
import subprocess

HERE = os.path.dirname(os.path.dirname(os.path.abspath(__file__)))
base = json.load(open(os.path.join(HERE, "manifest.d", "_base.json")))
checks = []
enabled = set(open(os.path.join(HERE, "manifest.d", "_enabled.txt")).read().split())
for p in sorted(glob.glob(os.path.join(HERE, "manifest.d", "C*.json"))):
    c = json.load(open(p))
    if c["property_id"] not in enabled:
        continue
    pid = c["property_id"]
    c.setdefault("quick_cmd", "./check %s --tier quick" % pid)
    c.setdefault("thorough_cmd", "./check %s --tier thorough" % pid)
    c.setdefault("evidence_file", "/verif/evidence/%s.json" % pid)
    c.setdefault("replay_cmd_template", "./check %s --replay {path}" % pid)
    c.setdefault("engine", "tla-model-and-conformance")
    checks.append(c)
claimed = {c["property_id"] for c in checks}
props = [json.loads(l)["id"] for l in open(os.path.join(HERE, "properties.jsonl"))]
na = [n for n in base.get("not_applicable", []) if n["property_id"] not in claimed]
listed = {n["property_id"] for n in na}
for pid in props:
    if pid not in claimed and pid not in listed:
        na.append({"property_id": pid, "reason": "no check built yet for this property in this round (planned, see DESIGN.md section 4); not claimed"})
try:
    commits = subprocess.check_output(["git", "-C", "/repo", "log", "--format=%H %s"], text=True).splitlines()
    base["hooks"]["source_commits"] = [l.split()[0] for l in commits if l.split(" ", 1)[1].startswith("verif hooks:")]
except Exception:
    pass
m = dict(base)
m["checks"] = checks
m["not_applicable"] = sorted(na, key=lambda n: n["property_id"])
json.dump(m, open(os.path.join(HERE, "MANIFEST.json"), "w"), indent=1)
# known findings: one committed file assembled from known_findings.d/*.json
kf = []
for p in sorted(glob.glob(os.path.join(HERE, "known_findings.d", "*.json"))):
    kf += json.load(open(p)).get("findings", [])
json.dump({"comment": "assembled by tools/mkmanifest.py from known_findings.d/*.json; read-only at run time. status=known suppresses exactly the listed signature (KNOWN-FINDING line, exit 0); status=fixed suppresses nothing.",
           "findings": kf}, open(os.path.join(HERE, "known_findings.json"), "w"), indent=1)
print("MANIFEST.json: %d checks, %d not_applicable" % (len(checks), len(na)))
