CONSTANTS
  MaxNodes = 18
  MaxArity = 3
  NKeys = 10
  MaxDocs = 4
SPECIFICATION Spec
INVARIANT Emit
CHECK_DEADLOCK FALSE
