CONSTANTS
  MaxNodes = 9
  MaxArity = 3
  NKeys = 10
SPECIFICATION Spec
INVARIANT Emit
CHECK_DEADLOCK FALSE
