------------------------- MODULE Trace_YamlKernels -------------------------
(* C16, impl -> spec.  Three recordings of the same deterministic driver -   *)
(* default build (AVX2 dispatch), the same binary under SUCCINCTLY_SIMD=sse2 *)
(* and the scalar-yaml feature build - are concatenated.  No clause consults *)
(* `cfg`: that IS "the answer does not depend on the dispatch level".        *)
(*   k   : a scanning kernel call; the buffer is given structurally (length, *)
(*         fill byte, marked positions); r must equal the kernel's one-line  *)
(*         definition (YamlKernels)                                          *)
(*   c   : classify_yaml_chars: each mask, as a set of positions < width,    *)
(*         equals ClassMask; nothing set at or beyond width                  *)
(*   idx : hash of the canonical dump of every public index table + JSON +   *)
(*         YAML output of a document: single-valued per document id          *)
(*         (Agreement: the first recording fixes the value)                  *)
EXTENDS TraceBase, YamlKernels

VARIABLES l, seen

Buf(e) == [i \in 1..e.n |->
             IF \E j \in 1..Len(e.marks) : e.marks[j][1] = i - 1
             THEN e.marks[CHOOSE j \in 1..Len(e.marks) : e.marks[j][1] = i - 1][2]
             ELSE e.fill]

Expected(e, b) ==
  CASE e.k = "fqe" -> FindQuoteOrEscape(b, e.s, e.x)
    [] e.k = "fsq" -> FindSingleQuote(b, e.s, e.x)
    [] e.k = "cls" -> CountLeadingSpaces(b, e.s)
    [] e.k = "fnl" -> FindNewline(b, e.s)
    [] e.k = "pan" -> ParseAnchorName(b, e.s)
    [] e.k = "fje" -> FindJsonEscape(b, e.s)
    [] e.k = "fbe" -> FindBlockScalarEnd(b, e.s, e.x)
    [] OTHER -> -99

Kernel(e) == e.e = "k" /\ e.r = Expected(e, Buf(e)) /\ UNCHANGED seen

SetOf(q) == {q[i] : i \in 1..Len(q)}

Classify(e) ==
  /\ e.e = "c"
  /\ IF e.s + 16 > e.n THEN e.w = 0
     ELSE LET b == Buf(e) IN
          /\ e.w \in {16, 32} /\ e.s + e.w <= e.n /\ e.junk = 0
          /\ SetOf(e.nl) = ClassMask(b, e.s, e.w, LF)
          /\ SetOf(e.cr) = (IF e.hascr = 1 THEN ClassMask(b, e.s, e.w, CR) ELSE {})
          /\ SetOf(e.co) = ClassMask(b, e.s, e.w, COLON)
          /\ SetOf(e.hy) = ClassMask(b, e.s, e.w, 45)
          /\ SetOf(e.sp) = ClassMask(b, e.s, e.w, SP)
          /\ SetOf(e.dq) = ClassMask(b, e.s, e.w, DQ)
          /\ SetOf(e.sq) = ClassMask(b, e.s, e.w, SQ)
          /\ SetOf(e.bs) = ClassMask(b, e.s, e.w, BSL)
          /\ SetOf(e.ha) = ClassMask(b, e.s, e.w, 35)
  /\ UNCHANGED seen

Index(e) ==
  /\ e.e = "idx"
  /\ IF e.doc \in DOMAIN seen THEN seen[e.doc] = e.h /\ UNCHANGED seen
     ELSE seen' = [d \in DOMAIN seen \cup {e.doc} |-> IF d = e.doc THEN e.h ELSE seen[d]]

Init == l = 1 /\ seen = <<>>

Next == /\ l <= NRec
        /\ LET e == Rec[l] IN Kernel(e) \/ Classify(e) \/ Index(e)
        /\ l' = l + 1

Spec == Init /\ [][Next]_<<l, seen>>
=============================================================================
