--------------------------- MODULE WordKernelsImpl ---------------------------
(***************************************************************************)
(* C02 -- the algorithms of the code, transcribed step by step on machine  *)
(* words (integers 0..2^W-1 with wrapping W-bit arithmetic):               *)
(*   SelectPdep       src/util/simd/x86.rs   select_in_word_pdep           *)
(*   SelectCtz        src/util/broadword.rs  select_in_word_ctz            *)
(*   SelectBroadword  src/util/broadword.rs  select_in_word_broadword      *)
(*   ByteTable / SelectInByteImpl  src/util/table.rs                       *)
(*   PopcountPortable src/bits/popcount.rs   popcount_word_portable        *)
(* W and B are scaled (W=8,B=4 and W=16,B=8 in MC_WordKernels); the shape  *)
(* of every step (masks, shifts, the k = W-1 overflow guard of the PDEP    *)
(* mask, the prefix scan, the table layout byte*B+k) is the code's.        *)
(***************************************************************************)
EXTENDS WordKernels

Pow2(n) == 2 ^ n
Full == Pow2(W) - 1

Bit(x, i) == (x \div Pow2(i)) % 2
BitsOf(x) == {i \in 0..(W - 1) : Bit(x, i) = 1}

\* W-bit machine operations
RECURSIVE AndR(_, _, _)
AndR(x, y, i) == IF i = W THEN 0 ELSE Bit(x, i) * Bit(y, i) * Pow2(i) + AndR(x, y, i + 1)
And(x, y) == AndR(x, y, 0)
Shr(x, n) == x \div Pow2(n)
Shl(x, n) == (x * Pow2(n)) % Pow2(W)
AddW(x, y) == (x + y) % Pow2(W)
SubW(x, y) == (x - y + Pow2(W)) % Pow2(W)
MulW(x, y) == (x * y) % Pow2(W)

\* hardware primitives, specified by their definition
CountOnes(x) == Cardinality(BitsOf(x))
TrailingZeros(x) == IF x = 0 THEN W ELSE MinOf(BitsOf(x))
Ilog2(x) == CHOOSE m \in BitsOf(x) : \A y \in BitsOf(x) : y <= m          \* x # 0

\* PDEP (Intel SDM pseudo-code): deposit the low bits of src at the set positions of msk
RECURSIVE PdepR(_, _, _, _, _)
PdepR(src, msk, m, k, dest) ==
  IF m = W THEN dest
  ELSE IF Bit(msk, m) = 1 THEN PdepR(src, msk, m + 1, k + 1, dest + Bit(src, k) * Pow2(m))
  ELSE PdepR(src, msk, m + 1, k, dest)
Pdep(src, msk) == PdepR(src, msk, 0, 0, 0)

(* select_in_word_pdep *)
SelectPdep(x, k) ==
  IF x = 0 THEN W
  ELSE IF k >= CountOnes(x) THEN W
  ELSE LET mask == IF k >= W - 1 THEN Full ELSE Shl(1, k + 1) - 1      \* (1 << (k+1)) - 1, k = 63 guarded
           scattered == Pdep(mask, x)
       IN IF scattered = 0 THEN W ELSE Ilog2(scattered)

(* select_in_word_ctz: loop { if val == 0 {64}; t = tz; if remaining == 0 {t}; remaining -= 1; val &= val-1 } *)
RECURSIVE CtzLoop(_, _)
CtzLoop(val, remaining) ==
  IF val = 0 THEN W
  ELSE IF remaining = 0 THEN TrailingZeros(val)
  ELSE CtzLoop(And(val, SubW(val, 1)), remaining - 1)
SelectCtz(x, k) == CtzLoop(x, k)

\* repeating W-bit constants
RECURSIVE MaskR(_, _, _)
MaskR(period, low, i) ==      \* bits i with (i % period) < low
  IF i = W THEN 0 ELSE (IF i % period < low THEN Pow2(i) ELSE 0) + MaskR(period, low, i + 1)
M1 == MaskR(2, 1, 0)     \* 0x5555...
M2 == MaskR(4, 2, 0)     \* 0x3333...
M4 == MaskR(8, 4, 0)     \* 0x0F0F...
H01 == MaskR(8, 1, 0)    \* 0x0101...

\* per-byte popcounts via SWAR; with 4-bit "bytes" the last folding step does not exist
SwarT1(x) == SubW(x, And(Shr(x, 1), M1))
SwarT2(x) == LET t == SwarT1(x) IN AddW(And(t, M2), And(Shr(t, 2), M2))
SwarT3(x) == LET t == SwarT2(x) IN And(AddW(t, Shr(t, 4)), M4)
ByteCounts(x) == IF B = 4 THEN SwarT2(x) ELSE SwarT3(x)

\* table.rs: SELECT_IN_BYTE_TABLE[byte*B + count] = pos for each set bit, else B
TableRow(byte) ==
  FoldLeft(LAMBDA acc, pos :
             IF Bit(byte, pos - 1) = 1
             THEN [row |-> [acc.row EXCEPT ![acc.count + 1] = pos - 1], count |-> acc.count + 1]
             ELSE acc,
           [row |-> [i \in 1..B |-> B], count |-> 0],
           [i \in 1..B |-> i]).row
\* entry i of the flat table (the table itself is ByteTable; lookups go through TableAt so
\* that TLC does not rebuild all 2^B * B entries for every lookup)
TableAt(i) == TableRow(i \div B)[(i % B) + 1]
ByteTable == [i \in 0..(Pow2(B) * B - 1) |-> TableAt(i)]
SelectInByteImpl(byte, k) == IF k >= B THEN B ELSE TableAt(byte * B + k)

(* select_in_word_broadword *)
\* the prefix scan; <<byte_idx, cumulative>>, byte_idx stays 0 when the loop never breaks
RECURSIVE BwScan(_, _, _, _)
BwScan(bc, k, i, cumulative) ==
  IF i = W \div B THEN <<0, cumulative>>
  ELSE LET bytePop == And(Shr(bc, i * B), Pow2(B) - 1)
       IN IF cumulative + bytePop > k THEN <<i, cumulative>>
          ELSE BwScan(bc, k, i + 1, cumulative + bytePop)

SelectBroadword(x, k) ==
  IF x = 0 THEN W
  ELSE IF k >= CountOnes(x) THEN W
  ELSE LET sc == BwScan(ByteCounts(x), k, 0, 0)
           byteOffset == sc[1] * B
           targetByte == And(Shr(x, byteOffset), Pow2(B) - 1)
           kInByte == k - sc[2]
       IN byteOffset + SelectInByteImpl(targetByte, kInByte)

(* popcount_word_portable (8-bit groups whatever B is; needs 8 | W) *)
PopcountPortable(x) == Shr(MulW(SwarT3(x), H01), W - 8)

=============================================================================
