------------------------------ MODULE YqWrite ------------------------------
(* C15: yq never emits YAML it cannot read back.                             *)
(*                                                                           *)
(* Extends the C14 presentation grammar (YamlPresentation) with              *)
(*  (1) a PROGRAM grammar for the write fragment of `succinctly yq`, chosen  *)
(*      after the input stream is complete (action ChooseProg):              *)
(*        id        .                                                        *)
(*        get       <path>                 (container targets only, see      *)
(*                                          below)                           *)
(*        assign    <path> = <lit>         newkey  <path>[<key lit>] = <lit> *)
(*        update    <path> |= <lit>        updid   <path> |= .               *)
(*        add       <path> += <lit>        del     del(<path>)               *)
(*        merge     <path> * <path2>       mergeas <path> *= <path2>         *)
(*      and pipes  step | step  of those, plus the indentation option        *)
(*      -I 0..7 (what the CLI accepts).  A path is given abstractly by its   *)
(*      target node in the input tree (tn), optionally continued THROUGH an  *)
(*      alias into the aliased subtree (sub); literals come from the table   *)
(*      LITS (strings that stress the emitter's quoting decisions: leading / *)
(*      trailing space, indicators, reserved words, numbers-in-strings,      *)
(*      newlines, control and non-ASCII characters; small collections).      *)
(*      The harness renders paths as .["key"][i] and literals as JSON.       *)
(*  (2) the property as two-observation AGREEMENT (Agreement.tla): for one   *)
(*      run, the value of reloading the printed YAML and the value printed   *)
(*      with -o json are observations of the same register;                  *)
(*  (3) the ALIAS-SOUNDNESS AUTOMATON over the node events of the printed    *)
(*      YAML in text order: DocStart resets; Anchor(name, value) defines     *)
(*      (a repeated name shadows); Alias(name, value) is enabled only if     *)
(*      name is defined earlier in the same document with an equal value.    *)
(*                                                                           *)
(* Interpretation: a result that is a SCALAR at the document root is printed *)
(* raw by yq (documented, `stream_yaml_as_document`: "a quoted "- foo" root  *)
(* prints bare `- foo`"), like real yq; such outputs are not YAML-quoted by  *)
(* design, so `get` targets are containers only and the other steps return   *)
(* the whole document.  --sort-keys is outside the property's option set     *)
(* (CLAUDE.md, #1350).                                                       *)
EXTENDS YamlPresentation, AliasSoundness

CONSTANTS MaxSteps,      \* 1 or 2 steps in a pipe
          Ops,           \* subset of the operation names above
          LitUse,        \* indices of LITS in use
          IndentOpts     \* subset of 0..7

S(s) == [k |-> "str", s |-> s, key |-> <<>>]
LITS == <<
  (*  1 *) S(<<"n", "e", "w">>),
  (*  2 *) S(<<" ", "l", "e", "a", "d">>),
  (*  3 *) S(<<"t", "r", "a", "i", "l", " ">>),
  (*  4 *) S(<<"-", " ", "x">>),
  (*  5 *) S(<<"a", ":", " ", "b">>),
  (*  6 *) S(<<"#", "h">>),
  (*  7 *) S(<<"a", " ", "#", "b">>),
  (*  8 *) S(<<"t", "r", "u", "e">>),
  (*  9 *) S(<<"n", "u", "l", "l">>),
  (* 10 *) S(<<"1", "2">>),
  (* 11 *) S(<<"0", "x", "1">>),
  (* 12 *) S(<<"1", "e", "3">>),
  (* 13 *) S(<<>>),
  (* 14 *) S(<<"~">>),
  (* 15 *) S(<<"*", "a">>),
  (* 16 *) S(<<"&", "a">>),
  (* 17 *) S(<<"!", "t">>),
  (* 18 *) S(<<"|">>),
  (* 19 *) S(<<"[">>),
  (* 20 *) S(<<"{", "k", "}">>),
  (* 21 *) S(<<"i", "t", "'", "s">>),
  (* 22 *) S(<<"\"", "q", "\"">>),
  (* 23 *) S(<<"a", "LF", "b", "LF">>),
  (* 24 *) S(<<"a", "LF", "b">>),
  (* 25 *) S(<<" ", "a", "LF", "b", "LF">>),
  (* 26 *) S(<<"a", "TAB", "b">>),
  (* 27 *) S(<<"U+00E9">>),
  (* 28 *) S(<<"U+0001">>),
  (* 29 *) S(<<"%">>),
  (* 30 *) S(<<":">>),
  (* 31 *) S(<<"-">>),
  (* 32 *) S(<<"?">>),
  (* 33 *) S(<<"-", "-", "-">>),
  (* 34 *) S(<<"a", ":">>),
  (* 35 *) S(<<">">>),
  (* 36 *) S(<<",">>),
  (* 37 *) S(<<"1", "_", "0">>),
  (* 38 *) S(<<".", "5">>),
  (* 39 *) S(<<"N", "u", "l", "l">>),
  (* 40 *) S(<<"a", "\\", "b">>),
  (* 41 *) S(<<"<", "<">>),
  (* 42 *) S(<<"a", "U+000D", "b">>),
  (* 43 *) S(<<"U+0085">>),
  (* 44 *) S(<<"U+1F600">>),
  (* 45 *) S(<<"LF">>),
  (* 46 *) S(<<" ">>),
  (* 47 *) S(<<"y", "e", "s">>),
  (* 48 *) S(<<"@">>),
  (* 49 *) S(<<"`">>),
  (* 50 *) S(<<"a", "LF", "LF", "b", "LF", "LF">>),
  (* 51 *) [k |-> "int", s |-> <<"7">>, key |-> <<>>],
  (* 52 *) [k |-> "null", s |-> <<>>, key |-> <<>>],
  (* 53 *) [k |-> "bool", s |-> <<>>, key |-> <<>>],
  (* 54 *) [k |-> "map", s |-> <<" ", "l", "e", "a", "d">>, key |-> <<"z", " ", "z">>],
  (* 55 *) [k |-> "map", s |-> <<"a", "LF", "b", "LF">>, key |-> <<"-", " ", "k">>],
  (* 56 *) [k |-> "seq", s |-> <<"-", " ", "x">>, key |-> <<>>],
  (* 57 *) [k |-> "seq", s |-> <<"a", "LF", "b", "LF">>, key |-> <<>>],
  (* 58 *) [k |-> "emptymap", s |-> <<>>, key |-> <<>>],
  (* 59 *) [k |-> "emptyseq", s |-> <<>>, key |-> <<>>],
  (* 60 *) [k |-> "map", s |-> <<"#", "h">>, key |-> <<"#", "k">>]
>>
NLit == Len(LITS)

AllOps == {"id", "get", "assign", "newkey", "update", "updid", "add", "del", "merge", "mergeas"}

VARIABLE prog          \* [steps: sequence of step records, I: indent]; <<>> until chosen

wvars == <<docs, nodes, stack, dec, phase, br, prog>>

Step(op, tn, sub, tn2, lit, klit) == [op |-> op, tn |-> tn, sub |-> sub, tn2 |-> tn2, lit |-> lit, klit |-> klit]

\* targets are value nodes of the first document (the program is applied to every document)
D1 == docs[1].nodes
Targets == {i \in 1..Len(D1) : D1[i].r # "key"}
Containers == {i \in Targets : D1[i].k \in {"map", "seq"} \/ (D1[i].k = "alias" /\ D1[D1[i].tg].k \in {"map", "seq"})}
\* continuation of a path through an alias: a value node strictly inside the aliased subtree
RECURSIVE Under(_, _, _)
Under(ns, a, i) == IF i = 0 THEN FALSE ELSE IF ns[i].p = a THEN TRUE ELSE Under(ns, a, ns[i].p)
Subs(tn) == IF D1[tn].k = "alias" THEN {0} \cup {i \in Targets : Under(D1, D1[tn].tg, i)} ELSE {0}
StrLits == {l \in LitUse : LITS[l].k = "str"}

StepOK(s) ==
  /\ s.op \in Ops /\ s.tn \in Targets /\ s.sub \in Subs(s.tn)
  /\ (s.op = "get" => s.tn \in Containers /\ s.sub = 0)
  /\ ("SA" \in Avoid /\ s.op = "get" =>
        \A i \in 1..Len(D1) : (D1[i].k = "alias" /\ (i = s.tn \/ Under(D1, s.tn, i))) => Under(D1, s.tn, D1[i].tg))
  /\ (s.op \in {"merge", "mergeas"} => s.tn2 \in Targets) /\ (s.op \notin {"merge", "mergeas"} => s.tn2 = 0)
  /\ (s.op \in {"assign", "newkey", "update", "add"} => s.lit \in LitUse) /\ (s.op \notin {"assign", "newkey", "update", "add"} => s.lit = 0)
  /\ (s.op = "newkey" => s.klit \in StrLits) /\ (s.op # "newkey" => s.klit = 0)

ProgOK(p) ==
  /\ Len(p.steps) \in 1..MaxSteps /\ p.I \in IndentOpts /\ p.I \in 0..7
  /\ \A j \in 1..Len(p.steps) : StepOK(p.steps[j])
  \* a step that narrows the result (get, merge) can only come last
  /\ \A j \in 1..(Len(p.steps) - 1) : p.steps[j].op \notin {"get", "merge", "id"}

OneStep(s) ==
  \E op \in Pick(Ops) :
  \E tn \in Pick(IF op = "get" THEN Containers ELSE Targets) :
  \E sub \in Pick(IF op = "get" THEN {0} ELSE Subs(tn)) :
  \E tn2 \in Pick(IF op \in {"merge", "mergeas"} THEN Targets ELSE {0}) :
  \E lit \in Pick(IF op \in {"assign", "newkey", "update", "add"} THEN LitUse ELSE {0}) :
  \E klit \in Pick(IF op = "newkey" THEN StrLits ELSE {0}) :
    s = Step(op, tn, sub, tn2, lit, klit)

\* the general form (any number of steps; one random draw per component under -simulate)
RECURSIVE StepSeqs(_)
StepSeqs(n) == IF n = 0 THEN {<<>>}
               ELSE {Append(q, s) : q \in StepSeqs(n - 1),
                                    s \in {x \in [op : Ops, tn : Targets, sub : {0} \cup Targets, tn2 : {0} \cup Targets,
                                                  lit : {0} \cup LitUse, klit : {0} \cup StrLits] : StepOK(x)}}

ChooseProg ==
  /\ phase = "done"
  /\ IF Sim
     THEN \E I \in Pick(IndentOpts), n \in Pick(1..MaxSteps) :
          \E op1 \in Pick(Ops \ (IF n = 1 THEN {} ELSE {"get", "merge", "id"})), op2 \in Pick(Ops) :
          \E t1 \in Pick(IF op1 = "get" THEN Containers ELSE Targets), t2 \in Pick(IF op2 = "get" THEN Containers ELSE Targets) :
          \E sb1 \in Pick(IF op1 = "get" THEN {0} ELSE Subs(t1)), sb2 \in Pick(IF op2 = "get" THEN {0} ELSE Subs(t2)) :
          \E m1 \in Pick(Targets), m2 \in Pick(Targets), l1 \in Pick(LitUse), l2 \in Pick(LitUse),
             k1 \in Pick(StrLits), k2 \in Pick(StrLits) :
            LET mk(op, t, sb, m, l, k) ==
                  Step(op, t, sb, IF op \in {"merge", "mergeas"} THEN m ELSE 0,
                       IF op \in {"assign", "newkey", "update", "add"} THEN l ELSE 0, IF op = "newkey" THEN k ELSE 0)
                p == [steps |-> IF n = 1 THEN <<mk(op1, t1, sb1, m1, l1, k1)>>
                                ELSE <<mk(op1, t1, sb1, m1, l1, k1), mk(op2, t2, sb2, m2, l2, k2)>>, I |-> I]
            IN ProgOK(p) /\ prog' = p
     ELSE \E I \in IndentOpts, n \in 1..MaxSteps : \E q \in StepSeqs(n) :
            LET p == [steps |-> q, I |-> I] IN ProgOK(p) /\ prog' = p
  /\ phase' = "prog"
  /\ UNCHANGED <<docs, nodes, stack, dec, br>>

WInit == Init /\ prog = <<>>
WNext == (Next /\ UNCHANGED prog) \/ ChooseProg
WSpec == WInit /\ [][WNext]_wvars

WriteInv == phase = "prog" => ProgOK(prog)

CaseOut ==
  [br |-> br, I |-> prog.I,
   steps |-> [j \in 1..Len(prog.steps) |->
                LET s == prog.steps[j]
                IN [op |-> s.op, tn |-> s.tn, sub |-> s.sub, tn2 |-> s.tn2,
                    lit |-> IF s.lit = 0 THEN [k |-> "none", s |-> <<>>, key |-> <<>>] ELSE LITS[s.lit],
                    klit |-> IF s.klit = 0 THEN <<>> ELSE LITS[s.klit].s]],
   docs |-> StreamOut.docs]

\* the alias-soundness automaton (3) is module AliasSoundness (model-checked by MC_YqWrite,
\* used by Trace_YqWrite)
=============================================================================
