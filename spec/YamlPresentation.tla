-------------------------- MODULE YamlPresentation --------------------------
(* A generative grammar of YAML *presentations* with a denotation (C14/C18). *)
(*                                                                           *)
(* A stream is 1..MaxDocs documents; a document is a tree of mappings,       *)
(* sequences, scalars and aliases held as a pre-order node list.  The tree   *)
(* is built one node per step (AddScalar / AddAlias / Open / Close) and each *)
(* node carries its presentation choices:                                    *)
(*   st   collection style "block" | "flow" (flow is hereditary) or scalar   *)
(*        style "plain" | "single" | "double" | "lit" | "fold"               *)
(*   ch   chomping indicator of a block scalar: "-" | "" (clip) | "+"        *)
(*   vr   variant: double-quoted = numeric escapes, folded = break lines at  *)
(*        every foldable space                                               *)
(*   an   node carries an anchor (&a<index>);  tg  alias target (node index) *)
(*   cm   trailing comment 0 | 1 simple | 2 indicator-looking text           *)
(*   pre  line before the entry: 0 | 1 blank | 2 comment | 3 hard comment    *)
(* per document (EndDoc): ds `---`, de `...`, w indent width, zi zero-       *)
(* indented sequence under a key, cmp compact nested collections in a        *)
(* sequence (`- k: v`, `- - x`), fsp padded flow punctuation; per stream:    *)
(* br line-break kind.                                                       *)
(*                                                                           *)
(* Scalars come from the palette PAL.  Each entry declares by hand in which  *)
(* styles/contexts YAML 1.2 can present that text faithfully AND             *)
(* unambiguously (flags):                                                    *)
(*   pb plain as block value / sequence item     pr plain as root at col 0   *)
(*   pk plain as implicit block key              pf / pfk plain in flow      *)
(*   sq single-quoted (one line)    lit / fold block scalars (no indentation *)
(*   indicator needed, no space-only lines, folding inverse is simple)       *)
(* Double-quoted is always admissible (everything can be escaped).           *)
(*                                                                           *)
(* Denotation: Val(nodes, i).  A PLAIN scalar denotes what the core schema   *)
(* (YamlCoreSchema) resolves its text to; every other style denotes the      *)
(* string.  Aliases denote the value of their target.  The property's trees  *)
(* have string/int/bool/null leaves and string keys, so a plain style is     *)
(* admissible only if it does not resolve to a float, and for a key only if  *)
(* it resolves to a string.                                                  *)
(*                                                                           *)
(* Deliberately NOT generated (docs/compliance/yaml/limitations.md lists     *)
(* them as divergent, or their YAML 1.2 meaning is debatable): explicit `?`  *)
(* keys, complex keys, alias keys, tags and bare `!`, multi-line plain and   *)
(* quoted scalars, explicit indentation indicators, zero-indented block      *)
(* scalars, space-only lines in block scalars, empty block scalars, block    *)
(* scalar header on the `---` line, bare documents after `...`, directives,  *)
(* anchors containing `:`, merge keys (`<<`), duplicate keys, the empty      *)
(* stream, a blank line right after a keep-chomped block scalar.             *)
EXTENDS Integers, Sequences, FiniteSets, TLC, YamlCoreSchema

CONSTANTS
  PalUse,        \* palette indices in use
  MaxNodes,      \* nodes in the whole stream
  MaxDocs,
  ScalarStyles,  \* subset of {"plain","single","double","lit","fold"}
  CollStyles,    \* subset of {"block","flow"}
  MaxDecor,      \* budget of non-default choices per stream (anchor, alias, comment, pre-line,
                 \* variant, document flag, non-minimal indent, non-LF break): each costs 1
  Indents,       \* indent widths
  Breaks,        \* subset of {"LF","CRLF","CR"}
  DocFlags,      \* doc-level flags allowed to be 1: subset of {"ds","de","zi","cmp","fsp"}
  Avoid,         \* known loader / validator defects (known_findings.d/C14.json, C18.json) whose
                 \* trigger is NOT generated, so that larger random documents are not all masked
                 \* by them: subset of {"K1","K2","V1","V2","V3"} (C14/C18) and of
                 \* {"AK" no anchors on keys, "HC" no indicator-looking comment text, "BC" no comment on a block scalar header, "DA" no anchor name declared in two documents, "SA" (YqWrite) no `get` of a
                 \* subtree that holds an alias to an anchor outside it} (C15, known_findings.d/C15.json); {} in the exhaustive small-scope runs
  Sim            \* TRUE under -simulate: every choice inside an action is drawn at random
                 \* (one successor per action kind), so random walks are cheap and the tree
                 \* shape is not dominated by the many scalar alternatives

AllPlain == {"pb", "pr", "pk", "pf", "pfk"}
All == AllPlain \cup {"sq", "lit", "fold"}
Blk == {"sq", "lit", "fold"}           \* indicator-looking: never plain
E(s, f) == [s |-> s, f |-> f]

PAL == <<
  (*  1 *) E(<<"a">>, All),
  (*  2 *) E(<<"b", " ", "c">>, All),
  (*  3 *) E(<<>>, {"pb", "sq"}),                         \* plain empty = null
  (*  4 *) E(<<"n", "u", "l", "l">>, All),
  (*  5 *) E(<<"~">>, All),
  (*  6 *) E(<<"t", "r", "u", "e">>, All),
  (*  7 *) E(<<"N", "o">>, All),
  (*  8 *) E(<<"0", "x", "1">>, All),
  (*  9 *) E(<<"1", "e", "3">>, All),
  (* 10 *) E(<<".", "5">>, All),
  (* 11 *) E(<<"1", "2">>, All),
  (* 12 *) E(<<"-", "7">>, All),
  (* 13 *) E(<<"-", " ", "x">>, Blk),
  (* 14 *) E(<<"a", ":", " ", "b">>, Blk),
  (* 15 *) E(<<"#", "h">>, Blk),
  (* 16 *) E(<<"a", " ", "#", "b">>, Blk),
  (* 17 *) E(<<"a", "#", "b">>, All),
  (* 18 *) E(<<"[">>, Blk),
  (* 19 *) E(<<"a", ",", "b">>, {"pb", "pr", "pk", "sq", "lit", "fold"}),
  (* 20 *) E(<<"&", "a">>, Blk),
  (* 21 *) E(<<"*", "a">>, Blk),
  (* 22 *) E(<<"!", "t">>, Blk),
  (* 23 *) E(<<"|">>, Blk),
  (* 24 *) E(<<"%">>, Blk),
  (* 25 *) E(<<" ", "a">>, {"sq"}),
  (* 26 *) E(<<"a", " ">>, {"sq"}),
  (* 27 *) E(<<"U+00E9">>, All),
  (* 28 *) E(<<"U+65E5", "U+1F600">>, All),
  (* 29 *) E(<<"a", "TAB", "b">>, AllPlain \cup {"sq"}),
  (* 30 *) E(<<"a", "LF", "b">>, {"lit", "fold"}),
  (* 31 *) E(<<"a", "LF", "b", "LF">>, {"lit", "fold"}),
  (* 32 *) E(<<"a", "LF", "LF", "b", "LF">>, {"lit", "fold"}),
  (* 33 *) E(<<"a", "LF", " ", " ", "b", "LF", "c", "LF">>, {"lit"}),
  (* 34 *) E(<<"a", "LF", "LF">>, {"lit", "fold"}),
  (* 35 *) E(<<"U+0001">>, {}),
  (* 36 *) E(<<"i", "t", "'", "s">>, All),
  (* 37 *) E(<<"\"", "q", "\"">>, Blk),
  (* 38 *) E(<<"a", "\\", "b">>, All),
  (* 39 *) E(<<"{", "k", "}">>, Blk),
  (* 40 *) E(<<"0", "o", "1", "7">>, All),
  (* 41 *) E(<<"N", "u", "l", "l">>, All),
  (* 42 *) E(<<"T", "R", "U", "E">>, All),
  (* 43 *) E(<<"F", "a", "l", "s", "e">>, All),
  (* 44 *) E(<<"+", "1">>, All),
  (* 45 *) E(<<"a", ":", "b">>, {"pb", "pr", "pk", "sq", "lit", "fold"}),
  (* 46 *) E(<<"U+0085", "U+2028">>, {}),
  (* 47 *) E(<<"?">>, Blk),
  (* 48 *) E(<<"-">>, Blk),
  (* 49 *) E(<<"w", "1", " ", "w", "2", " ", "w", "3">>, All),
  (* 50 *) E(<<"LF", "a", "LF">>, {"lit"}),
  (* 51 *) E(<<"-", "-", "-">>, {"sq", "lit"}),
  (* 52 *) E(<<"a", "U+000D", "b">>, {}),
  (* 53 *) E(<<"'">>, Blk),
  (* 54 *) E(<<"y", "e", "s">>, All),
  (* 55 *) E(<<"1", "_", "0">>, All),
  (* 56 *) E(<<"0", "0", "7">>, All),
  (* 57 *) E(<<"n", "a", "n">>, All),
  (* 58 *) E(<<".", "i", "n", "f">>, All),
  (* 59 *) E(<<"U+007F", "x">>, {}),
  (* 60 *) E(<<":">>, {"sq", "lit"})
>>

NPal == Len(PAL)

\* ---------------------------------------------------------------- helpers
KidsOf(ns, c) == SelectSeq([j \in 1..Len(ns) |-> j], LAMBDA j : ns[j].p = c)
NK(ns, c) == Cardinality({j \in 1..Len(ns) : ns[j].p = c})

RECURSIVE TrailNL(_)
TrailNL(s) == IF s # <<>> /\ s[Len(s)] = "LF" THEN 1 + TrailNL(SubSeq(s, 1, Len(s) - 1)) ELSE 0

ChompOK(s) == IF TrailNL(s) = 0 THEN {"-"} ELSE IF TrailNL(s) = 1 THEN {"", "+"} ELSE {"+"}

PlainFlag(ctx) ==
  CASE ctx = "root" -> "pr" [] ctx = "bv" -> "pb" [] ctx = "bk" -> "pk"
    [] ctx = "fv" -> "pf" [] ctx = "fk" -> "pfk"

AdmissibleDef(ctx, e, st) ==
  CASE st = "plain" -> /\ PlainFlag(ctx) \in e.f
                       /\ CoreType(e.s) # "float"
                       /\ (ctx \in {"bk", "fk"} => CoreType(e.s) = "str")
    [] st = "single" -> "sq" \in e.f
    [] st = "double" -> TRUE
    [] st = "lit" -> "lit" \in e.f /\ ctx \in {"root", "bv"}
    [] st = "fold" -> "fold" \in e.f /\ ctx \in {"root", "bv"}

\* constant tables (TLC evaluates a constant definition once)
Ctxs == {"root", "bv", "bk", "fv", "fk"}
AllStyles == {"plain", "single", "double", "lit", "fold"}
AdmT == [ctx \in Ctxs, t \in 1..NPal, st \in AllStyles |-> AdmissibleDef(ctx, PAL[t], st)]
Admissible(ctx, t, st) == AdmT[ctx, t, st]
ChompT == [t \in 1..NPal |-> ChompOK(PAL[t].s)]
ValT == [t \in 1..NPal |->
          LET s == PAL[t].s
              ty == CoreType(s)
          IN IF ty = "null" THEN [t |-> "null"]
             ELSE IF ty = "bool" THEN [t |-> "bool", b |-> CoreBool(s)]
             ELSE IF ty = "int" THEN [t |-> "int", i |-> CoreInt(s)]
             ELSE [t |-> "str", s |-> s]]

SCtx(role, flow) ==
  IF role = "root" THEN "root"
  ELSE IF flow THEN (IF role = "key" THEN "fk" ELSE "fv")
  ELSE IF role = "key" THEN "bk" ELSE "bv"

\* nodes still needed to close everything that is open
RECURSIVE NeedFrom(_, _, _)
NeedFrom(ns, stk, k) ==
  IF k > Len(stk) THEN 0
  ELSE LET c == stk[k]
           n == NK(ns, c)
       IN (IF ns[c].k = "map" /\ n % 2 = 1 THEN 1 ELSE 0)
          + (IF ns[c].st = "block" /\ n = 0 THEN (IF ns[c].k = "map" THEN 2 ELSE 1) ELSE 0)
          + NeedFrom(ns, stk, k + 1)
Need(ns, stk) == NeedFrom(ns, stk, 1)

\* ---------------------------------------------------------------- denotation
ScalarVal(n) == IF n.st = "plain" THEN ValT[n.t] ELSE [t |-> "str", s |-> PAL[n.t].s]

RECURSIVE Val(_, _)
Val(ns, i) ==
  LET n == ns[i]
      kids == KidsOf(ns, i)
  IN CASE n.k = "str" -> ScalarVal(n)
       [] n.k = "alias" -> Val(ns, n.tg)
       [] n.k = "seq" -> [t |-> "seq", v |-> [j \in 1..Len(kids) |-> Val(ns, kids[j])]]
       [] n.k = "map" -> [t |-> "map",
                          kv |-> [j \in 1..(Len(kids) \div 2) |->
                                    <<PAL[ns[kids[2 * j - 1]].t].s, Val(ns, kids[2 * j])>>]]

\* ---------------------------------------------------------------- state
VARIABLES docs, nodes, stack, dec, phase, br

vars == <<docs, nodes, stack, dec, phase, br>>

Node(k, p, r, t, st, ch, vr, an, tg, cm, pre) ==
  [k |-> k, p |-> p, r |-> r, t |-> t, st |-> st, ch |-> ch, vr |-> vr, an |-> an, tg |-> tg,
   cm |-> cm, pre |-> pre]

Top == stack[Len(stack)]
InFlow == stack # <<>> /\ nodes[Top].st = "flow"
Role == IF stack = <<>> THEN "root"
        ELSE IF nodes[Top].k = "seq" THEN "item"
        ELSE IF NK(nodes, Top) % 2 = 0 THEN "key" ELSE "val"
Par == IF stack = <<>> THEN 0 ELSE Top
CanAdd == phase = "build" /\ (stack = <<>> => nodes = <<>>)
Used == Len(nodes) + (IF docs = <<>> THEN 0 ELSE docs[Len(docs)].used)

AfterKeep == nodes # <<>> /\ nodes[Len(nodes)].st \in {"lit", "fold"} /\ nodes[Len(nodes)].ch = "+"

\* K1: a root block scalar whose header line carries a comment, or whose content has `: `
HasColonSpace(s) == \E i \in 1..(Len(s) - 1) : s[i] = ":" /\ s[i + 1] = " "
\* K2: in a root-level block mapping, an entry with an empty value followed by a quoted key
AfterEmptyTop == /\ stack = <<1>> /\ nodes[1].st = "block" /\ nodes # <<>>
                 /\ LET l == nodes[Len(nodes)]
                    IN l.p = 1 /\ l.k = "str" /\ l.st = "plain" /\ PAL[l.t].s = <<>> /\ l.an = 0

\* V1: a compact collection in a sequence (`- k: ...` / `- - ...`) one of whose entries other than
\* the last has a block collection as its value (a later entry then dedents to a column no line
\* started at)
CompactDedent(ns) ==
  \E c \in 1..Len(ns) :
    /\ ns[c].k \in {"map", "seq"} /\ ns[c].st = "block" /\ ns[c].r = "item" /\ ns[c].an = 0 /\ ns[c].cm = 0
    /\ LET kids == KidsOf(ns, c)
           vals == IF ns[c].k = "seq" THEN kids ELSE [j \in 1..(Len(kids) \div 2) |-> kids[2 * j]]
       IN \E j \in 1..(Len(vals) - 1) : ns[vals[j]].k \in {"map", "seq"} /\ ns[vals[j]].st = "block"

\* V3: a compact collection in a sequence one of whose entries other than the last has a BLOCK
\* SCALAR as its value: the validator takes the dash line's indentation as the scalar's parent
\* indentation and swallows the following entries (at dash column + 2) as scalar body, so an
\* anchor declared there is never recorded (UnknownAnchor for a later alias)
CompactBlockScalar(ns) ==
  \E c \in 1..Len(ns) :
    /\ ns[c].k \in {"map", "seq"} /\ ns[c].st = "block" /\ ns[c].r = "item" /\ ns[c].an = 0 /\ ns[c].cm = 0
    /\ LET kids == KidsOf(ns, c)
           vals == IF ns[c].k = "seq" THEN kids ELSE [j \in 1..(Len(kids) \div 2) |-> kids[2 * j]]
       IN \E j \in 1..(Len(vals) - 1) : ns[vals[j]].st \in {"lit", "fold"}

\* V2: a block mapping whose first key carries an anchor (its first line starts with `&`, which
\* the validator does not take as establishing the mapping's level) and in which an entry other
\* than the last has a block collection as its value
AnchoredFirstKey(ns) ==
  \E c \in 1..Len(ns) :
    /\ ns[c].k = "map" /\ ns[c].st = "block"
    /\ LET kids == KidsOf(ns, c)
       IN /\ Len(kids) >= 4 /\ ns[kids[1]].an = 1
          /\ \E j \in 1..((Len(kids) \div 2) - 1) : ns[kids[2 * j]].k \in {"map", "seq"} /\ ns[kids[2 * j]].st = "block"

Cms(isBlockColl) == IF InFlow \/ Role = "key" \/ (Role = "root" /\ isBlockColl) THEN {0} ELSE {0, 1, 2}
Pres == IF InFlow \/ Role \notin {"key", "item"} THEN {0}
        ELSE IF AfterKeep THEN {0, 2, 3} ELSE {0, 1, 2, 3}
Cost(an, cm, pre, vr) == an + (IF cm > 0 THEN 1 ELSE 0) + (IF pre > 0 THEN 1 ELSE 0) + vr

KeyTexts(c) == {nodes[j].t : j \in {x \in 1..Len(nodes) : nodes[x].p = c /\ nodes[x].r = "key"}}

Push(n, open) ==
  /\ nodes' = Append(nodes, n)
  /\ stack' = IF open THEN Append(stack, Len(nodes) + 1) ELSE stack
  /\ Used + 1 + Need(nodes', stack') <= MaxNodes
  \* "DA": no anchor NAME (= node index) is declared in two documents of the stream
  /\ ("DA" \in Avoid /\ n.an = 1 =>
        \A d \in 1..Len(docs) :
           IF Len(nodes) + 1 \in DOMAIN docs[d].nodes THEN docs[d].nodes[Len(nodes) + 1].an = 0 ELSE TRUE)
  /\ UNCHANGED <<docs, phase, br>>

MoreDocs == Len(docs) < MaxDocs
Budget == MaxDecor - dec
B(S) == IF Budget > 0 THEN S ELSE {0}
Pick(S) == IF Sim /\ S # {} THEN {RandomElement(S)} ELSE S
\* simulation only: bias random walks towards larger trees (an action guarded by Rarely(k)
\* is taken with probability 1/k); never restricts model checking
Rarely(k) == ~Sim \/ RandomElement(1..k) = 1
Full == Used + Need(nodes, stack) >= MaxNodes

AddScalar ==
  /\ CanAdd
  /\ (stack = <<>> => Rarely(5))
  /\ LET ctx == SCtx(Role, InFlow)
         role == Role
         par == Par
         keys == IF role = "key" THEN KeyTexts(Top) ELSE {}
         cms == B(Cms(FALSE))
         pres == B(Pres)
     IN \E t \in Pick(PalUse \ keys) :
        \E st \in Pick({x \in ScalarStyles : Admissible(ctx, t, x)}) :
        \E an \in Pick(B({0, 1})), vr \in Pick(IF st \in {"double", "fold"} THEN B({0, 1}) ELSE {0}),
           cm \in Pick(cms), pre \in Pick(pres) :
          /\ Cost(an, cm, pre, vr) <= Budget
          \* documented loader limitation (limitations.md, KeyWithoutValue `b #c: d`): a plain or
          \* block scalar (or alias) that starts a line's content - document root or sequence item -
          \* followed by a comment that contains `: ` is not generated
          /\ (role \in {"root", "item"} /\ st \in {"plain", "lit", "fold"} => cm # 2)
          /\ ("K1" \in Avoid /\ role = "root" /\ st \in {"lit", "fold"} => cm = 0 /\ ~HasColonSpace(PAL[t].s))
          /\ ("AK" \in Avoid /\ role = "key" => an = 0)
          /\ ("BC" \in Avoid /\ st \in {"lit", "fold"} => cm = 0)
          /\ ("HC" \in Avoid => cm # 2 /\ pre # 3)
          /\ ("K2" \in Avoid /\ role = "key" /\ st \in {"single", "double"} => ~AfterEmptyTop)
          /\ dec' = dec + Cost(an, cm, pre, vr)
          /\ \E ch \in Pick(IF st \in {"lit", "fold"} THEN ChompT[t] ELSE {""}) :
               Push(Node("str", par, role, t, st, ch, vr, an, 0, cm, pre), FALSE)

\* an alias names an anchored, COMPLETED (hence not enclosing) earlier node of the same document
AddAlias ==
  /\ CanAdd
  /\ Budget > 0
  /\ Role \in {"item", "val"}
  /\ \E tg \in Pick({x \in 1..Len(nodes) : nodes[x].an = 1 /\ \A k \in 1..Len(stack) : stack[k] # x}) :
     \E cm \in Pick(Cms(FALSE)), pre \in Pick(Pres) :
       /\ 1 + Cost(0, cm, pre, 0) <= Budget
       /\ (Role = "item" => cm # 2)      \* same documented limitation as for plain scalars
       /\ ("HC" \in Avoid => cm # 2 /\ pre # 3)
       /\ dec' = dec + 1 + Cost(0, cm, pre, 0)
       /\ Push(Node("alias", Par, Role, 0, "alias", "", 0, 0, tg, cm, pre), FALSE)

Open ==
  /\ CanAdd
  /\ Role # "key"
  /\ \E k \in Pick({"map", "seq"}), st \in Pick(IF InFlow THEN CollStyles \cap {"flow"} ELSE CollStyles),
        an \in Pick(B({0, 1})), pre \in Pick(B(Pres)) :
       \E cm \in Pick(B(Cms(st = "block"))) :
            /\ Cost(an, cm, pre, 0) <= Budget
            /\ ("HC" \in Avoid => cm # 2 /\ pre # 3)
            /\ dec' = dec + Cost(an, cm, pre, 0)
            /\ Push(Node(k, Par, Role, 0, st, "", 0, an, 0, cm, pre), TRUE)

Close ==
  /\ phase = "build" /\ stack # <<>>
  /\ (Full \/ Rarely(4))
  /\ LET n == NK(nodes, Top)
     IN /\ (nodes[Top].k = "map" => n % 2 = 0)
        /\ (nodes[Top].st = "block" => n > 0)
  /\ stack' = SubSeq(stack, 1, Len(stack) - 1)
  /\ UNCHANGED <<docs, nodes, dec, phase, br>>

Flag(name) == IF name \in DocFlags THEN B({0, 1}) ELSE {0}
MinIndent == CHOOSE w \in Indents : \A v \in Indents : w <= v

\* document- and stream-level choices draw on the same decoration budget: each flag set,
\* a non-minimal indent width and a non-LF break kind cost 1
EndDoc ==
  /\ phase = "build" /\ stack = <<>> /\ nodes # <<>>
  /\ \E ds \in Pick(IF docs # <<>> THEN {1} ELSE Flag("ds")), de \in Pick(Flag("de")), w \in Pick(Indents),
        zi \in Pick(Flag("zi")), cmp \in Pick(Flag("cmp")), fsp \in Pick(Flag("fsp")) :
       LET cost == (IF docs # <<>> THEN 0 ELSE ds) + de + zi + cmp + fsp + (IF w = MinIndent THEN 0 ELSE 1)
       IN /\ cost <= Budget
          /\ ("V1" \in Avoid /\ cmp = 1 => ~CompactDedent(nodes))
          /\ ("V2" \in Avoid => ~AnchoredFirstKey(nodes))
          /\ ("V3" \in Avoid /\ cmp = 1 => ~CompactBlockScalar(nodes))
          /\ dec' = dec + cost
          /\ docs' = Append(docs, [nodes |-> nodes, used |-> Used,
                                   o |-> [ds |-> ds, de |-> de, w |-> w, zi |-> zi, cmp |-> cmp, fsp |-> fsp]])
  /\ nodes' = <<>>
  /\ UNCHANGED <<stack, phase, br>>

Finish ==
  /\ phase = "build" /\ nodes = <<>> /\ docs # <<>>
  /\ (Full \/ ~MoreDocs \/ Rarely(2))
  /\ phase' = "done"
  /\ br' \in Pick(IF Budget > 0 THEN Breaks ELSE Breaks \cap {"LF"})
  /\ UNCHANGED <<docs, nodes, stack, dec>>

Init == docs = <<>> /\ nodes = <<>> /\ stack = <<>> /\ dec = 0 /\ phase = "build" /\ br = "LF"

Next == \/ (MoreDocs /\ (AddScalar \/ AddAlias \/ Open))
        \/ Close \/ EndDoc \/ Finish

Spec == Init /\ [][Next]_vars

\* ---------------------------------------------------------------- output
NodeOut(n) ==
  [k |-> n.k, p |-> n.p, r |-> n.r, s |-> IF n.k = "str" THEN PAL[n.t].s ELSE <<>>, st |-> n.st,
   ch |-> n.ch, vr |-> n.vr, an |-> n.an, tg |-> n.tg, cm |-> n.cm, pre |-> n.pre]

StreamOut ==
  [br |-> br,
   docs |-> [d \in 1..Len(docs) |->
               [o |-> docs[d].o,
                nodes |-> [i \in 1..Len(docs[d].nodes) |-> NodeOut(docs[d].nodes[i])],
                val |-> Val(docs[d].nodes, 1)]]]

\* ---------------------------------------------------------------- the grammar's own invariants
\* (stated on the finished tree, independently of the stack discipline that built it)
Anc(ns, a, i) == \* a is a proper ancestor of i
  LET RECURSIVE Up(_)
      Up(j) == IF j = 0 THEN FALSE ELSE IF ns[j].p = a THEN TRUE ELSE Up(ns[j].p)
  IN Up(i)

FlowParent(ns, i) == ns[i].p # 0 /\ ns[ns[i].p].st = "flow"

TreeOK(ns) ==
  \A i \in 1..Len(ns) :
    LET n == ns[i] IN
    /\ n.p < i /\ (n.p = 0 <=> i = 1) /\ (n.p # 0 => ns[n.p].k \in {"map", "seq"})
    \* alias targets precede use, are anchored, are not enclosing nodes
    /\ (n.k = "alias" => n.tg < i /\ ns[n.tg].an = 1 /\ ns[n.tg].k # "alias" /\ ~Anc(ns, n.tg, i) /\ n.an = 0)
    \* flow heredity
    /\ (FlowParent(ns, i) => /\ (n.k \in {"map", "seq"} => n.st = "flow")
                             /\ n.st \notin {"lit", "fold"} /\ n.cm = 0 /\ n.pre = 0)
    \* a style is chosen only when admissible
    /\ (n.k = "str" => /\ AdmissibleDef(SCtx(n.r, FlowParent(ns, i)), PAL[n.t], n.st)
                       /\ (n.st \in {"lit", "fold"} => n.ch \in ChompOK(PAL[n.t].s)))
    \* keys are scalars, not aliases, distinct within their mapping
    /\ (n.r = "key" => /\ n.k = "str" /\ n.cm = 0
                       /\ \A j \in 1..Len(ns) : (j # i /\ ns[j].p = n.p /\ ns[j].r = "key") => ns[j].t # n.t)
    /\ (n.r \in {"key", "val"} <=> (n.p # 0 /\ ns[n.p].k = "map"))

ClosedOK(ns) ==
  \A i \in 1..Len(ns) :
    /\ (ns[i].k = "map" => NK(ns, i) % 2 = 0)
    /\ (ns[i].k \in {"map", "seq"} /\ ns[i].st = "block" => NK(ns, i) > 0)
    \* key/value alternate
    /\ (ns[i].k = "map" =>
          LET kids == KidsOf(ns, i)
          IN \A j \in 1..Len(kids) : ns[kids[j]].r = (IF j % 2 = 1 THEN "key" ELSE "val"))

RECURSIVE NoAlias(_)
NoAlias(v) == CASE v.t = "seq" -> \A j \in 1..Len(v.v) : NoAlias(v.v[j])
                [] v.t = "map" -> \A j \in 1..Len(v.kv) : NoAlias(v.kv[j][2])
                [] OTHER -> v.t \in {"str", "int", "bool", "null"}

GrammarInv ==
  /\ TreeOK(nodes)
  /\ Used <= MaxNodes /\ dec <= MaxDecor
  /\ \A d \in 1..Len(docs) : /\ TreeOK(docs[d].nodes) /\ ClosedOK(docs[d].nodes)
                             /\ NoAlias(Val(docs[d].nodes, 1))
                             /\ (d > 1 => docs[d].o.ds = 1)
=============================================================================
