CONSTANTS BS = 1024  Blocks = "edges"  MaxLen = 3
SPECIFICATION Spec
INVARIANT FormsRoundTrip
INVARIANT BodiesRoundTrip
INVARIANT StepsExact
INVARIANT ScanTableExact
CHECK_DEADLOCK FALSE
