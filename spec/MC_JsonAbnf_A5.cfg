CONSTANTS
  Cap = 128
  Alphabet = {123, 125, 91, 93, 58, 44, 34, 48, 49, 45, 46, 101, 32}
  MaxLen = 5
SPECIFICATION Spec
INVARIANT Inv
CHECK_DEADLOCK FALSE
