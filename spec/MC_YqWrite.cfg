CONSTANTS MaxEvents = 6
SPECIFICATION Spec
INVARIANT Inv
CHECK_DEADLOCK FALSE
