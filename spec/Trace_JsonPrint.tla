--------------------------- MODULE Trace_JsonPrint ---------------------------
(* Trace validation for C11.  One event per run of the real `succinctly jq`:  *)
(*   o    option vector (JsonPrint.OptSpace)                                  *)
(*   in   the input documents (trees as flat preorder lists, see JsonPrint;   *)
(*        duplicates kept, source order)                                      *)
(*   out  what an independent strict JSON reader found on stdout: one frame   *)
(*        per printed value [pre, v, post] (pre/post = raw framing bytes)     *)
(*   r    number of frames that held one well-formed JSON value               *)
(*   rc   exit code;  ascii  1 iff every stdout byte is < 128                 *)
(*   rt   route reported by hook H5 ("" when the hook is not compiled in)     *)
(* The event is accepted iff every frame carries exactly the expected value   *)
(* (first position / last value; sorted under -S) with the expected framing.  *)
EXTENDS TraceBase, JsonPrint

VARIABLES l

FrameOK(f, flatin, o) ==
  /\ f.pre = Pre(o)
  /\ f.post = Post(o)
  /\ WellFormedFlat(f.v) /\ WellFormedFlat(flatin)
  /\ LET v == FTree(f.v)
     IN /\ v = ExpectedValue(FTree(flatin), o)
        /\ (o.S = 1 => AllSorted(v))
        /\ NoDup(v)

Case(e) ==
  /\ e.e = "case"
  /\ e.o \in OptSpace
  /\ \A i \in 1..Len(e.in) : InScope(e.in[i][1], e.o)
  /\ e.rc = 0
  /\ e.r = Len(e.in)
  /\ Len(e.out) = Len(e.in)
  /\ \A i \in 1..Len(e.in) : FrameOK(e.out[i], e.in[i], e.o)
  /\ (e.o.a = 1 => e.ascii = 1)

Init == l = 1

Next == /\ l <= NRec
        /\ LET e == Rec[l] IN Case(e)
        /\ l' = l + 1

Spec == Init /\ [][Next]_l
=============================================================================
