------------------------------- MODULE JqCore -------------------------------
(***************************************************************************)
(* Executable reference semantics of a core fragment of jq 1.7.1, written  *)
(* as (recursive) TLA+ operators that TLC evaluates.                       *)
(*                                                                         *)
(* VALUES (tagged records, the JSON form the harness emits is identical):  *)
(*   [t |-> "null"]   [t |-> "bool", b |-> TRUE]                           *)
(*   [t |-> "num", n |-> Int, fr |-> Nat, a |-> CodePoints]                *)
(*        fr = 0, a = <<>>  : the small integer n (|n| < 2^30)             *)
(*        otherwise an OPAQUE ATOM: a = the printed spelling, n = floor of *)
(*        the value clamped to +-2^30, fr = rank that orders atoms with    *)
(*        the same n (computed by the harness from the f64); the spec      *)
(*        orders numbers by (n, fr), prints atoms by `a`, and NEVER        *)
(*        computes with atoms (result "skip").                             *)
(*   [t |-> "str", cp |-> <<code points>>]                                 *)
(*   [t |-> "arr", v |-> <<values>>]                                       *)
(*   [t |-> "obj", kv |-> << <<key code points, value>>, ... >>] insertion *)
(*        ordered, duplicate free after Norm (first position, last value). *)
(*                                                                         *)
(* RESULTS  [out |-> Seq(Value), end |-> End]  with jq's streaming          *)
(* semantics: the outputs produced before an error/break are kept.         *)
(*   End = [k |-> "ok" | "err" | "brk" | "halt" | "skip", v, l, c]          *)
(*   "skip" = the program left the calibrated fragment (atom arithmetic,   *)
(*   a construct whose jq 1.7.1 behaviour is not pinned by a recording,    *)
(*   ...).  It propagates like an uncatchable error and makes the caller   *)
(*   (trace spec) accept any observation: outside the fragment the spec    *)
(*   is silent, never wrong.                                               *)
(*                                                                         *)
(* Error messages are the vocabulary of jq 1.7.1 (219 recorded probes in   *)
(* tests/data/jq-error-messages.tsv), built from JqMsg fragments, with the *)
(* `<type> (<json>)` dump truncated to 11 bytes + "..." beyond 14 bytes.   *)
(***************************************************************************)
EXTENDS Integers, Sequences, FiniteSets, SequencesExt, TLC, JqMsg

BIG == 1073741824

Null == [t |-> "null"]
Bool(b) == [t |-> "bool", b |-> b]
NumI(n) == [t |-> "num", n |-> n, fr |-> 0, a |-> <<>>]
Str(cp) == [t |-> "str", cp |-> cp]
Arr(s) == [t |-> "arr", v |-> s]
Obj(kv) == [t |-> "obj", kv |-> kv]

IsInt(v) == v.t = "num" /\ v.fr = 0 /\ v.a = <<>> /\ v.n > -BIG /\ v.n < BIG
Truthy(v) == ~(v.t = "null" \/ (v.t = "bool" /\ ~v.b))

\* ------------------------------------------------------------------ ends
MkEnd(k, v, l, c) == [k |-> k, v |-> v, l |-> l, c |-> c]
OK == MkEnd("ok", Null, "", 0)
ErrE(v) == MkEnd("err", v, "", 0)
BrkE(l) == MkEnd("brk", Null, l, 0)
HaltE(c) == MkEnd("halt", Null, "", c)
SkipE == MkEnd("skip", Null, "", 0)

R(out, end) == [out |-> out, end |-> end]
R1(v) == R(<<v>>, OK)
REmpty == R(<<>>, OK)
RSkip == R(<<>>, SkipE)
RErrV(v) == R(<<>>, ErrE(v))
RErr(cp) == R(<<>>, ErrE(Str(cp)))

\* ------------------------------------------------------------ small utils
Abs(n) == IF n < 0 THEN -n ELSE n
MinOf(S) == CHOOSE x \in S : \A y \in S : x <= y
MaxOf(S) == CHOOSE x \in S : \A y \in S : x >= y

RECURSIVE NatCP(_)
NatCP(n) == IF n < 10 THEN <<48 + n>> ELSE NatCP(n \div 10) \o <<48 + (n % 10)>>
IntCP(n) == IF n < 0 THEN <<45>> \o NatCP(-n) ELSE NatCP(n)

TypeCP(v) == CASE v.t = "null" -> T_null [] v.t = "bool" -> T_boolean [] v.t = "num" -> T_number
               [] v.t = "str" -> T_string [] v.t = "arr" -> T_array [] v.t = "obj" -> T_object

TypeRank(v) == CASE v.t = "null" -> 0 [] v.t = "bool" -> (IF v.b THEN 2 ELSE 1) [] v.t = "num" -> 3
                 [] v.t = "str" -> 4 [] v.t = "arr" -> 5 [] v.t = "obj" -> 6

\* ----------------------------------------------------- jq's total order
CmpI(a, b) == IF a < b THEN -1 ELSE IF a > b THEN 1 ELSE 0

RECURSIVE CmpCP(_, _, _)
CmpCP(a, b, i) ==
  IF i > Len(a) THEN (IF i > Len(b) THEN 0 ELSE -1)
  ELSE IF i > Len(b) THEN 1
  ELSE IF a[i] # b[i] THEN CmpI(a[i], b[i]) ELSE CmpCP(a, b, i + 1)

\* stable insertion sort of code-point strings
RECURSIVE SortCPR(_, _, _)
InsCP(s, x) == LET P == {i \in 1..Len(s) : CmpCP(s[i], x, 1) > 0}
               IN IF P = {} THEN Append(s, x) ELSE InsertAt(s, MinOf(P), x)
SortCPR(s, i, acc) == IF i > Len(s) THEN acc ELSE SortCPR(s, i + 1, InsCP(acc, s[i]))
SortCP(s) == SortCPR(s, 1, <<>>)

ObjKeys(o) == [i \in 1..Len(o.kv) |-> o.kv[i][1]]
ObjVals(o) == [i \in 1..Len(o.kv) |-> o.kv[i][2]]
KvHas(kv, k) == \E i \in 1..Len(kv) : kv[i][1] = k
KvGet(kv, k) == IF KvHas(kv, k) THEN kv[MaxOf({i \in 1..Len(kv) : kv[i][1] = k})][2] ELSE Null
KvPut(kv, k, v) == IF KvHas(kv, k)
                   THEN LET j == MinOf({i \in 1..Len(kv) : kv[i][1] = k})
                        IN [i \in 1..Len(kv) |-> IF i = j THEN <<k, v>> ELSE kv[i]]
                   ELSE Append(kv, <<k, v>>)
KvDel(kv, k) == SelectSeq(kv, LAMBDA e : e[1] # k)

RECURSIVE Cmp(_, _), CmpArr(_, _, _), CmpByKeys(_, _, _, _)
Cmp(x, y) ==
  IF TypeRank(x) # TypeRank(y) THEN CmpI(TypeRank(x), TypeRank(y))
  ELSE CASE x.t = "num" -> IF x.n # y.n THEN CmpI(x.n, y.n) ELSE CmpI(x.fr, y.fr)
         [] x.t = "str" -> CmpCP(x.cp, y.cp, 1)
         [] x.t = "arr" -> CmpArr(x.v, y.v, 1)
         [] x.t = "obj" ->
              LET kx == SortCP(ObjKeys(x))  ky == SortCP(ObjKeys(y))
                  ck == CmpArr([i \in 1..Len(kx) |-> Str(kx[i])], [i \in 1..Len(ky) |-> Str(ky[i])], 1)
              IN IF ck # 0 THEN ck ELSE CmpByKeys(x.kv, y.kv, kx, 1)
         [] OTHER -> 0
CmpArr(a, b, i) ==
  IF i > Len(a) THEN (IF i > Len(b) THEN 0 ELSE -1)
  ELSE IF i > Len(b) THEN 1
  ELSE LET c == Cmp(a[i], b[i]) IN IF c # 0 THEN c ELSE CmpArr(a, b, i + 1)
CmpByKeys(kva, kvb, ks, i) ==
  IF i > Len(ks) THEN 0
  ELSE LET c == Cmp(KvGet(kva, ks[i]), KvGet(kvb, ks[i])) IN IF c # 0 THEN c ELSE CmpByKeys(kva, kvb, ks, i + 1)

Eq(x, y) == Cmp(x, y) = 0

\* stable insertion sort of <<key, item>> pairs by key under Cmp
RECURSIVE SortPairsR(_, _, _)
InsPair(s, x) == LET P == {i \in 1..Len(s) : Cmp(s[i][1], x[1]) > 0}
                 IN IF P = {} THEN Append(s, x) ELSE InsertAt(s, MinOf(P), x)
SortPairsR(s, i, acc) == IF i > Len(s) THEN acc ELSE SortPairsR(s, i + 1, InsPair(acc, s[i]))
SortPairs(s) == SortPairsR(s, 1, <<>>)
SortVals(s) == LET p == SortPairs([i \in 1..Len(s) |-> <<s[i], s[i]>>]) IN [i \in 1..Len(p) |-> p[i][2]]

\* groups of a key-sorted pair list: sequence of sequences of items
RECURSIVE GroupR(_, _, _)
GroupR(p, i, acc) ==
  IF i > Len(p) THEN acc
  ELSE IF acc # <<>> /\ Eq(p[i - 1][1], p[i][1])
       THEN GroupR(p, i + 1, [acc EXCEPT ![Len(acc)] = Append(@, p[i][2])])
       ELSE GroupR(p, i + 1, Append(acc, <<p[i][2]>>))
Groups(p) == GroupR(p, 1, <<>>)

\* ------------------------------------------- documents with duplicate keys
RECURSIVE Norm(_), NormKv(_, _, _)
Norm(v) == CASE v.t = "arr" -> Arr([i \in 1..Len(v.v) |-> Norm(v.v[i])])
             [] v.t = "obj" -> Obj(NormKv(v.kv, 1, <<>>))
             [] OTHER -> v
NormKv(kv, i, acc) == IF i > Len(kv) THEN acc ELSE NormKv(kv, i + 1, KvPut(acc, kv[i][1], Norm(kv[i][2])))

\* ---------------------------------------------------------------- tojson
HexD(d) == IF d < 10 THEN 48 + d ELSE 87 + d
EscCP(c) == CASE c = 34 -> <<92, 34>> [] c = 92 -> <<92, 92>> [] c = 10 -> <<92, 110>> [] c = 9 -> <<92, 116>>
              [] c = 13 -> <<92, 114>> [] c = 8 -> <<92, 98>> [] c = 12 -> <<92, 102>>
              [] c < 32 \/ c = 127 -> M_bs_u00 \o <<HexD(c \div 16), HexD(c % 16)>>
              [] OTHER -> <<c>>
QuoteCP(cp) == <<34>> \o FlattenSeq([i \in 1..Len(cp) |-> EscCP(cp[i])]) \o <<34>>
NumCP(v) == IF v.a # <<>> THEN v.a ELSE IntCP(v.n)

RECURSIVE ToJsonCP(_), JoinCP(_, _, _)
JoinCP(parts, i, acc) == IF i > Len(parts) THEN acc
                         ELSE JoinCP(parts, i + 1, IF i = 1 THEN parts[i] ELSE acc \o M_comma \o parts[i])
ToJsonCP(v) ==
  CASE v.t = "null" -> T_null
    [] v.t = "bool" -> (IF v.b THEN T_true ELSE T_false)
    [] v.t = "num" -> NumCP(v)
    [] v.t = "str" -> QuoteCP(v.cp)
    [] v.t = "arr" -> M_lbr \o JoinCP([i \in 1..Len(v.v) |-> ToJsonCP(v.v[i])], 1, <<>>) \o M_rbr
    [] v.t = "obj" -> M_lcb \o JoinCP([i \in 1..Len(v.kv) |-> QuoteCP(v.kv[i][1]) \o M_colon \o ToJsonCP(v.kv[i][2])], 1, <<>>) \o M_rcb

\* --------------------------------------------------------- error messages
BAD == <<-1>>
U8(c) == IF c < 128 THEN 1 ELSE IF c < 2048 THEN 2 ELSE IF c < 65536 THEN 3 ELSE 4
RECURSIVE U8Len(_, _, _)
U8Len(cp, i, acc) == IF i > Len(cp) THEN acc ELSE U8Len(cp, i + 1, acc + U8(cp[i]))
\* longest prefix of at most 11 bytes; BAD when the cut would split a character
RECURSIVE Cut11(_, _, _)
Cut11(cp, i, bytes) ==
  IF bytes = 11 THEN SubSeq(cp, 1, i - 1)
  ELSE IF bytes + U8(cp[i]) > 11 THEN BAD ELSE Cut11(cp, i + 1, bytes + U8(cp[i]))
Trunc(j) == IF U8Len(j, 1, 0) <= 14 THEN j
            ELSE LET c == Cut11(j, 1, 0) IN IF c = BAD THEN BAD ELSE c \o M_dots
\* an atom's spelling in a message is the implementation's business (documented divergence
\* "Float literals lose their source spelling"): BAD => skip
RECURSIVE HasAtom(_)
HasAtom(v) == CASE v.t = "num" -> v.a # <<>>
                [] v.t = "arr" -> \E i \in 1..Len(v.v) : HasAtom(v.v[i])
                [] v.t = "obj" -> \E i \in 1..Len(v.kv) : HasAtom(v.kv[i][2])
                [] OTHER -> FALSE
Dump(v) == IF HasAtom(v) THEN BAD
           ELSE LET t == Trunc(ToJsonCP(v)) IN IF t = BAD THEN BAD ELSE TypeCP(v) \o M_lp \o t \o M_rp
MCat(parts) == IF \E i \in 1..Len(parts) : parts[i] = BAD THEN BAD ELSE FlattenSeq(parts)
RMsg(parts) == LET m == MCat(parts) IN IF m = BAD THEN RSkip ELSE RErr(m)

ECannotIndex(v, k) ==
  IF k.t = "str" THEN RMsg(<<M_cannot_index, TypeCP(v), M_with_string, k.cp, M_quote>>)
  ELSE RMsg(<<M_cannot_index, TypeCP(v), M_with, TypeCP(k)>>)
ECannotIterate(v) == RMsg(<<M_cannot_iterate, Dump(v)>>)
EBinop(a, b, what) == RMsg(<<Dump(a), M_and, Dump(b), what>>)

\* ------------------------------------------------------------ primitives
IndexV(v, k) ==
  CASE v.t = "obj" /\ k.t = "str" -> R1(KvGet(v.kv, k.cp))
    [] v.t = "arr" /\ k.t = "num" ->
         IF k.n <= -BIG \/ k.n >= BIG THEN R1(Null)
         ELSE LET i == IF k.n < 0 THEN Len(v.v) + k.n ELSE k.n
              IN IF i >= 0 /\ i < Len(v.v) THEN R1(v.v[i + 1]) ELSE R1(Null)
    [] v.t = "null" /\ k.t \in {"str", "num", "null"} -> R1(Null)
    [] v.t = "null" /\ k.t = "obj" -> RSkip        \* slice of null
    [] v.t = "arr" /\ k.t \in {"obj", "arr"} -> RSkip   \* slices / indices-of: outside the fragment
    [] v.t = "str" /\ k.t = "obj" -> RSkip
    [] OTHER -> ECannotIndex(v, k)

IterV(v) == CASE v.t = "arr" -> R(v.v, OK)
              [] v.t = "obj" -> R(ObjVals(v), OK)
              [] OTHER -> ECannotIterate(v)

MkInt(n) == IF n > -BIG /\ n < BIG THEN R1(NumI(n)) ELSE RSkip

RECURSIVE MergeObj(_, _, _)
\* jq's recursive object merge `*`
MergeObj(akv, bkv, i) ==
  IF i > Len(bkv) THEN akv
  ELSE LET k == bkv[i][1]  bv == bkv[i][2]  av == KvGet(akv, k)
       IN MergeObj(IF KvHas(akv, k) /\ av.t = "obj" /\ bv.t = "obj"
                   THEN KvPut(akv, k, Obj(MergeObj(av.kv, bv.kv, 1)))
                   ELSE KvPut(akv, k, bv), bkv, i + 1)

RECURSIVE AddKv(_, _, _)
AddKv(akv, bkv, i) == IF i > Len(bkv) THEN akv ELSE AddKv(KvPut(akv, bkv[i][1], bkv[i][2]), bkv, i + 1)

Arith(o, a, b) ==
  CASE o = "+" ->
        (CASE a.t = "null" -> R1(b)
           [] b.t = "null" -> R1(a)
           [] a.t = "num" /\ b.t = "num" -> IF IsInt(a) /\ IsInt(b) THEN MkInt(a.n + b.n) ELSE RSkip
           [] a.t = "str" /\ b.t = "str" -> R1(Str(a.cp \o b.cp))
           [] a.t = "arr" /\ b.t = "arr" -> R1(Arr(a.v \o b.v))
           [] a.t = "obj" /\ b.t = "obj" -> R1(Obj(AddKv(a.kv, b.kv, 1)))
           [] OTHER -> EBinop(a, b, M_added))
    [] o = "-" ->
        (CASE a.t = "num" /\ b.t = "num" -> IF IsInt(a) /\ IsInt(b) THEN MkInt(a.n - b.n) ELSE RSkip
           [] a.t = "arr" /\ b.t = "arr" -> R1(Arr(SelectSeq(a.v, LAMBDA x : ~\E j \in 1..Len(b.v) : Eq(x, b.v[j]))))
           [] OTHER -> EBinop(a, b, M_subtracted))
    [] o = "*" ->
        (CASE a.t = "num" /\ b.t = "num" ->
                IF IsInt(a) /\ IsInt(b) /\ Abs(a.n) < 32768 /\ Abs(b.n) < 32768 /\ ~(a.n * b.n = 0 /\ (a.n < 0 \/ b.n < 0))
                THEN MkInt(a.n * b.n) ELSE RSkip      \* 0 * -1 is the float -0
           [] a.t = "obj" /\ b.t = "obj" -> R1(Obj(MergeObj(a.kv, b.kv, 1)))
           [] (a.t = "str" /\ b.t = "num") \/ (a.t = "num" /\ b.t = "str") -> RSkip   \* string repetition
           [] OTHER -> EBinop(a, b, M_multiplied))
    [] o = "/" ->
        (CASE a.t = "num" /\ b.t = "num" ->
                IF ~(IsInt(a) /\ IsInt(b)) THEN RSkip
                ELSE IF b.n = 0 THEN RMsg(<<Dump(a), M_and, Dump(b), M_divided, M_divzero>>)
                ELSE IF Abs(a.n) % Abs(b.n) # 0 \/ (a.n = 0 /\ b.n < 0) THEN RSkip
                ELSE MkInt((Abs(a.n) \div Abs(b.n)) * (IF (a.n < 0) # (b.n < 0) THEN -1 ELSE 1))
           [] a.t = "str" /\ b.t = "str" -> RSkip   \* split
           [] OTHER -> EBinop(a, b, M_divided))
    [] o = "%" ->
        (CASE a.t = "num" /\ b.t = "num" ->
                IF ~(IsInt(a) /\ IsInt(b)) THEN RSkip
                ELSE IF b.n = 0 THEN RMsg(<<Dump(a), M_and, Dump(b), M_remainder, M_divzero>>)
                ELSE MkInt((Abs(a.n) % Abs(b.n)) * (IF a.n < 0 THEN -1 ELSE 1))   \* C remainder: sign of the dividend
           [] OTHER -> EBinop(a, b, M_remainder))

CmpOp(o, a, b) ==
  LET c == Cmp(a, b)
  IN R1(Bool(CASE o = "==" -> c = 0 [] o = "!=" -> c # 0 [] o = "<" -> c < 0
               [] o = "<=" -> c <= 0 [] o = ">" -> c > 0 [] o = ">=" -> c >= 0))

\* ------------------------------------------------------------------ paths
RECURSIVE PathsOf(_, _), RecurseAll(_)
\* pre-order list of the paths (sequences of key values) of all proper descendants
PathsOf(v, p) ==
  CASE v.t = "arr" -> FlattenSeq([i \in 1..Len(v.v) |-> <<Append(p, NumI(i - 1))>> \o PathsOf(v.v[i], Append(p, NumI(i - 1)))])
    [] v.t = "obj" -> FlattenSeq([i \in 1..Len(v.kv) |-> <<Append(p, Str(v.kv[i][1]))>> \o PathsOf(v.kv[i][2], Append(p, Str(v.kv[i][1])))])
    [] OTHER -> <<>>
RecurseAll(v) ==
  <<v>> \o (CASE v.t = "arr" -> FlattenSeq([i \in 1..Len(v.v) |-> RecurseAll(v.v[i])])
              [] v.t = "obj" -> FlattenSeq([i \in 1..Len(v.kv) |-> RecurseAll(v.kv[i][2])])
              [] OTHER -> <<>>)

RECURSIVE GetPathV(_, _, _)
GetPathV(v, p, i) ==
  IF i > Len(p) THEN R1(v)
  ELSE IF v.t = "null" THEN R1(Null)
  ELSE LET r == IndexV(v, p[i]) IN IF r.end.k # "ok" THEN r ELSE GetPathV(r.out[1], p, i + 1)

PadTo(s, n) == [i \in 1..n |-> IF i <= Len(s) THEN s[i] ELSE Null]

RECURSIVE SetPathV(_, _, _, _)
SetPathV(v, p, i, nv) ==
  IF i > Len(p) THEN R1(nv)
  ELSE LET k == p[i] IN
    CASE k.t = "str" /\ v.t \in {"obj", "null"} ->
           LET kv == IF v.t = "null" THEN <<>> ELSE v.kv
               s == SetPathV(KvGet(kv, k.cp), p, i + 1, nv)
           IN IF s.end.k # "ok" THEN s ELSE R1(Obj(KvPut(kv, k.cp, s.out[1])))
      [] k.t = "num" /\ v.t \in {"arr", "null"} ->
           IF k.fr # 0 \/ k.n <= -BIG \/ k.n > 64 THEN RSkip
           ELSE LET el == IF v.t = "null" THEN <<>> ELSE v.v
                    j == IF k.n < 0 THEN Len(el) + k.n ELSE k.n
                IN IF j < 0 THEN RErr(M_oob_neg)
                   ELSE LET s == SetPathV(IF j < Len(el) THEN el[j + 1] ELSE Null, p, i + 1, nv)
                        IN IF s.end.k # "ok" THEN s
                           ELSE R1(Arr([PadTo(el, IF j + 1 > Len(el) THEN j + 1 ELSE Len(el)) EXCEPT ![j + 1] = s.out[1]]))
      [] k.t \in {"obj", "arr"} -> RSkip
      [] k.t = "null" /\ v.t = "null" -> RSkip
      [] OTHER -> ECannotIndex(v, k)

RECURSIVE DelPathV(_, _, _)
\* delete one path; anything not pinned by a recording is "skip"
DelPathV(v, p, i) ==
  IF i > Len(p) THEN R1(Null)
  ELSE IF v.t = "null" THEN R1(Null)
  ELSE LET k == p[i] IN
    IF i = Len(p) THEN
     (CASE v.t = "obj" /\ k.t = "str" -> R1(Obj(KvDel(v.kv, k.cp)))
        [] v.t = "arr" /\ k.t = "num" /\ k.fr = 0 ->
             LET j == IF k.n < 0 THEN Len(v.v) + k.n ELSE k.n
             IN IF j < 0 THEN RSkip
                ELSE IF j >= Len(v.v) THEN R1(v)
                ELSE R1(Arr(RemoveAt(v.v, j + 1)))
        [] OTHER -> RSkip)
    ELSE
      LET g == IndexV(v, k) IN
      IF g.end.k # "ok" THEN g
      ELSE IF g.out[1].t = "null" THEN R1(v)
      ELSE LET d == DelPathV(g.out[1], p, i + 1)
           IN IF d.end.k # "ok" THEN d ELSE SetPathV(v, <<k>>, 1, d.out[1])

RECURSIVE DelPathsR(_, _, _)
DelPathsR(v, ps, i) ==   \* ps sorted ascending, deleted from the last to the first
  IF i < 1 THEN R1(v)
  ELSE LET d == DelPathV(v, ps[i].v, 1)
       IN IF d.end.k # "ok" THEN d ELSE DelPathsR(d.out[1], ps, i - 1)

DelPathsV(v, ps) ==
  IF ps.t # "arr" THEN RErr(M_path_array)
  ELSE IF \E i \in 1..Len(ps.v) : ps.v[i].t # "arr" THEN RErr(M_path_array)
  ELSE LET s == SortVals(ps.v)
       IN IF s # <<>> /\ s[1].v = <<>> THEN R1(Null)        \* jv_delpaths: the root path among them => null
          ELSE IF \E i \in 1..Len(s) - 1 : Eq(s[i], s[i + 1]) THEN RSkip   \* duplicate paths: not pinned
          \* jq resolves all keys into one array against its ORIGINAL length and deletes them in one
          \* pass ([-1] and [2] may name the same element): with a negative index among several paths
          \* the one-by-one model below is not faithful => skip
          ELSE IF Len(s) > 1 /\ \E i \in 1..Len(s) : \E j \in 1..Len(s[i].v) : s[i].v[j].t = "num" /\ s[i].v[j].n < 0 THEN RSkip
          \* with several paths jq groups them by leading key (delpaths_sorted), so WHICH deletion
          \* fails first is not the last-to-first order modelled here: an error among several paths
          \* is not pinned by a recording => skip (the error of a single path is)
          ELSE LET d == DelPathsR(v, s, Len(s))
               IN IF Len(s) > 1 /\ d.end.k # "ok" THEN RSkip ELSE d

\* tostream events of v located at path p (sequence of key values)
RECURSIVE StreamOf(_, _)
StreamOf(v, p) ==
  LET leaf == <<Arr(<<Arr(p), v>>)>>
  IN CASE v.t = "arr" /\ v.v # <<>> ->
            FlattenSeq([i \in 1..Len(v.v) |-> StreamOf(v.v[i], Append(p, NumI(i - 1)))])
              \o <<Arr(<<Arr(Append(p, NumI(Len(v.v) - 1)))>>)>>
       [] v.t = "obj" /\ v.kv # <<>> ->
            FlattenSeq([i \in 1..Len(v.kv) |-> StreamOf(v.kv[i][2], Append(p, Str(v.kv[i][1])))])
              \o <<Arr(<<Arr(Append(p, Str(v.kv[Len(v.kv)][1])))>>)>>
       [] OTHER -> leaf

RECURSIVE FlattenV(_, _)
FlattenV(s, d) ==   \* d < 0: unlimited
  FlattenSeq([i \in 1..Len(s) |-> IF s[i].t = "arr" /\ d # 0 THEN FlattenV(s[i].v, d - 1) ELSE <<s[i]>>])

LowerCP(cp) == [i \in 1..Len(cp) |-> IF cp[i] >= 65 /\ cp[i] <= 90 THEN cp[i] + 32 ELSE cp[i]]
UpperCP(cp) == [i \in 1..Len(cp) |-> IF cp[i] >= 97 /\ cp[i] <= 122 THEN cp[i] - 32 ELSE cp[i]]

CpPrefix(p, s) == Len(p) <= Len(s) /\ SubSeq(s, 1, Len(p)) = p
CpSuffix(p, s) == Len(p) <= Len(s) /\ SubSeq(s, Len(s) - Len(p) + 1, Len(s)) = p

RevSeq(s) == [i \in 1..Len(s) |-> s[Len(s) - i + 1]]

ToEntries(v) ==
  CASE v.t = "obj" -> R1(Arr([i \in 1..Len(v.kv) |-> Obj(<<<<M_key_k, Str(v.kv[i][1])>>, <<M_value_k, v.kv[i][2]>>>>)]))
    [] v.t = "arr" -> R1(Arr([i \in 1..Len(v.v) |-> Obj(<<<<M_key_k, NumI(i - 1)>>, <<M_value_k, v.v[i]>>>>)]))
    [] OTHER -> RMsg(<<Dump(v), M_no_keys>>)

\* from_entries of jq 1.7.1:
\*   map({(.key // .Key // .name // .Name): (if has("value") then .value else .Value end)}) | add | . //= {}
AliasKey(kv) ==
  LET a == KvGet(kv, M_key_k)  b == KvGet(kv, M_Key_k)  c == KvGet(kv, M_name_k)
  IN IF Truthy(a) THEN a ELSE IF Truthy(b) THEN b ELSE IF Truthy(c) THEN c ELSE KvGet(kv, M_Name_k)
RECURSIVE FromEntriesR(_, _, _)
FromEntriesR(es, i, acc) ==
  IF i > Len(es) THEN R1(Obj(acc))
  ELSE LET e == es[i] IN
    CASE e.t = "obj" ->
           LET k == AliasKey(e.kv)
               v == IF KvHas(e.kv, M_value_k) THEN KvGet(e.kv, M_value_k) ELSE KvGet(e.kv, M_Value_k)
           IN IF k.t = "str" THEN FromEntriesR(es, i + 1, KvPut(acc, k.cp, v))
              ELSE RMsg(<<M_cannot_use, Dump(k), M_as_object_key>>)
      [] e.t = "null" -> RMsg(<<M_cannot_use, M_null_null, M_as_object_key>>)
      [] OTHER -> ECannotIndex(e, Str(M_key_k))
FromEntries(v) ==
  CASE v.t = "arr" -> FromEntriesR(v.v, 1, <<>>)
    [] v.t = "obj" -> FromEntriesR(ObjVals(v), 1, <<>>)
    [] OTHER -> ECannotIterate(v)

\* --------------------------------------------------------------- evaluator
EmptyEnv == [vars |-> <<>>, strict |-> FALSE]
StrictEnv == [vars |-> <<>>, strict |-> TRUE]
BindVar(env, x, v) == [env EXCEPT !.vars = Append(@, <<x, v>>)]
HasVar(env, x) == \E i \in 1..Len(env.vars) : env.vars[i][1] = x
GetVar(env, x) == env.vars[MaxOf({i \in 1..Len(env.vars) : env.vars[i][1] = x})][2]

Take(r, n) == IF Len(r.out) >= n THEN R(SubSeq(r.out, 1, n), OK) ELSE r

RECURSIVE Eval(_, _, _), Apply(_, _), Bind(_, _, _, _), ObjBuild(_, _, _, _, _), Call(_, _, _, _),
          ReduceR(_, _, _, _, _), ForeachR(_, _, _, _, _, _), KeysFor(_, _, _, _, _),
          AnyAll(_, _, _, _, _, _), JoinR(_, _, _, _), FromStreamR(_, _, _, _, _), AddR(_, _, _),
          B0(_, _, _), CallF(_, _, _, _)

\* run continuation K on every value of outs (in order), concatenating; stop at the first non-ok end
Bind(outs, i, K, acc) ==
  IF i > Len(outs) THEN R(acc, OK)
  ELSE LET r == Apply(K, outs[i])
       IN IF r.end.k = "ok" THEN Bind(outs, i + 1, K, acc \o r.out) ELSE R(acc \o r.out, r.end)
BindR(rl, K) == LET b == Bind(rl.out, 1, K, <<>>) IN IF b.end.k = "ok" THEN R(b.out, rl.end) ELSE b

\* [e] : collect
Collect(r) == IF r.end.k = "ok" THEN R1(Arr(r.out)) ELSE R(<<>>, r.end)

AddR(vs, i, acc) == IF i > Len(vs) THEN R1(acc)
                    ELSE LET s == Arith("+", acc, vs[i]) IN IF s.end.k # "ok" THEN s ELSE AddR(vs, i + 1, s.out[1])

Apply(K, v) ==
  CASE K.k = "pipe" -> Eval(K.ast, v, K.env)
    [] K.k = "as" -> Eval(K.ast, K.input, BindVar(K.env, K.x, v))
    [] K.k = "binR" -> BindR(Eval(K.l, K.input, K.env), [k |-> "binL", o |-> K.o, rv |-> v])
    [] K.k = "binL" -> Arith(K.o, v, K.rv)
    [] K.k = "cmpR" -> BindR(Eval(K.l, K.input, K.env), [k |-> "cmpL", o |-> K.o, rv |-> v])
    [] K.k = "cmpL" -> CmpOp(K.o, v, K.rv)
    [] K.k = "neg" -> IF v.t = "num" THEN (IF IsInt(v) /\ v.n # 0 THEN R1(NumI(-v.n)) ELSE RSkip)   \* -(0) is the float -0
                      ELSE RMsg(<<Dump(v), M_negated>>)
    [] K.k = "and" -> IF ~Truthy(v) THEN R1(Bool(FALSE)) ELSE BindR(Eval(K.r, K.input, K.env), [k |-> "tobool"])
    [] K.k = "or" -> IF Truthy(v) THEN R1(Bool(TRUE)) ELSE BindR(Eval(K.r, K.input, K.env), [k |-> "tobool"])
    [] K.k = "tobool" -> R1(Bool(Truthy(v)))
    [] K.k = "if" -> IF Truthy(v) THEN Eval(K.th, K.input, K.env) ELSE Eval(K.el, K.input, K.env)
    [] K.k = "idxK" -> BindR(Eval(K.tg, K.input, K.env), [k |-> "idxT", key |-> v])
    [] K.k = "idxT" -> IndexV(v, K.key)
    [] K.k = "iter" -> IterV(v)
    [] K.k = "err" -> RErrV(v)
    [] K.k = "sel" -> IF Truthy(v) THEN R1(K.input) ELSE REmpty
    \* jq evaluates the key, then the value, and only then checks the key's type (INSERT):
    \* {(<non-string>): empty} yields nothing, it does not raise
    [] K.k = "objK" -> BindR(Eval(K.es[K.i][2], K.input, K.env),
                             [k |-> "objV", es |-> K.es, i |-> K.i, key |-> v, acc |-> K.acc, input |-> K.input, env |-> K.env])
    [] K.k = "objV" -> IF K.key.t # "str" THEN RMsg(<<M_cannot_use, Dump(K.key), M_as_object_key>>)
                       ELSE ObjBuild(K.es, K.i + 1, KvPut(K.acc, K.key.cp, v), K.input, K.env)
    [] K.k = "limit" ->
         IF v.t # "num" THEN RSkip
         ELSE IF v.n = 0 /\ v.fr = 0 THEN REmpty
         ELSE IF v.n < 0 THEN Eval(K.ast, K.input, K.env)       \* jq 1.7.1: negative count = no limit
         ELSE IF v.fr # 0 THEN RSkip
         ELSE Take(Eval(K.ast, K.input, K.env), v.n)
    [] K.k = "reduceI" -> ReduceR(K.src, 1, v, K.ast, K)
    [] K.k = "foreachI" -> ForeachR(K.src, 1, v, K, <<>>, 0)
    [] K.k = "call1" -> Call(K.f, <<v>>, K.input, K.env)
    [] K.k = "call2a" -> BindR(K.second, [k |-> "call2b", f |-> K.f, first |-> v, input |-> K.input, env |-> K.env])
    [] K.k = "call2b" -> Call(K.f, <<K.first, v>>, K.input, K.env)
    [] K.k = "wrap" -> R1(Arr(<<v>>))
    [] K.k = "pathsel" -> LET g == GetPathV(K.input, v.v, 1)
                          IN IF g.end.k # "ok" THEN g
                             ELSE BindR(Eval(K.ast, g.out[1], K.env), [k |-> "sel", input |-> v])
    [] K.k = "range1" -> Call("range", <<NumI(0), v>>, K.input, K.env)

ObjBuild(es, i, acc, input, env) ==
  IF i > Len(es) THEN R1(Obj(acc))
  ELSE LET kr == Eval(es[i][1], input, env) IN
       \* documented divergence (#354): an object key that yields other than exactly one value
       IF env.strict /\ kr.end.k = "ok" /\ Len(kr.out) # 1 THEN RSkip
       ELSE BindR(kr, [k |-> "objK", es |-> es, i |-> i, acc |-> acc, input |-> input, env |-> env])

\* reduce: K carries x, env; state s; src = outputs of the source
ReduceR(src, i, s, upd, K) ==
  IF i > Len(src.out) THEN (IF src.end.k = "ok" THEN R1(s) ELSE R(<<>>, src.end))
  ELSE LET r == Eval(upd, s, BindVar(K.env, K.x, src.out[i]))
       \* jq streams: an UPDATE error on an early item wins over a later SOURCE error (jq 1.6:
       \* `reduce (1, error("src")) as $y (0; error("upd"))` -> upd); the implementation evaluates
       \* SOURCE to completion first and reports src.  No 1.7.1 recording pins it => skip.
       IN IF r.end.k # "ok" THEN (IF src.end.k # "ok" THEN RSkip ELSE R(<<>>, r.end))
          ELSE ReduceR(src, i + 1, IF r.out = <<>> THEN Null ELSE r.out[Len(r.out)], upd, K)

\* foreach: K carries x, env, upd, ext (has = TRUE when an extract expression is given)
ForeachR(src, i, s, K, acc, dummy) ==
  IF i > Len(src.out) THEN R(acc, src.end)
  ELSE LET env2 == BindVar(K.env, K.x, src.out[i])
           r == Eval(K.upd, s, env2)
           e == IF K.has THEN BindR(R(r.out, OK), [k |-> "pipe", ast |-> K.ext, env |-> env2]) ELSE R(r.out, OK)
       IN IF e.end.k # "ok" THEN R(acc \o e.out, e.end)
          ELSE IF r.end.k # "ok" THEN R(acc \o e.out, r.end)
          \* an update that yields nothing leaves the state variable null (jq moves the state out
          \* with LOADVN; recording foreach_empty_step_skip: [1,3], not [1,4])
          ELSE ForeachR(src, i + 1, IF r.out = <<>> THEN Null ELSE r.out[Len(r.out)], K, acc \o e.out, 0)

\* keys [f] of every element for sort_by / group_by / unique_by / min_by / max_by
\* returns R(<<pairs>>, OK) as a one-element out holding nothing: encoded as [ok, pairs, end]
KeysFor(els, i, f, env, acc) ==
  IF i > Len(els) THEN [ok |-> TRUE, pairs |-> acc, end |-> OK]
  ELSE LET r == Eval(f, els[i], env)
       IN IF r.end.k # "ok" THEN [ok |-> FALSE, pairs |-> <<>>, end |-> r.end]
          ELSE KeysFor(els, i + 1, f, env, Append(acc, <<Arr(r.out), els[i]>>))

\* any(gen; cond) / all(gen; cond) with short circuit: stop (and forget later errors) at the first
\* decisive value.  want = TRUE for any, FALSE for all.
AnyAll(gouts, gend, i, K, want, dummy) ==
  IF i > Len(gouts) THEN (IF gend.k = "ok" THEN R1(Bool(~want)) ELSE R(<<>>, gend))
  ELSE LET c == Eval(K.ast, gouts[i], K.env)
           hit == {j \in 1..Len(c.out) : Truthy(c.out[j]) = want}
       IN IF hit # {} THEN R1(Bool(want))
          ELSE IF c.end.k # "ok" THEN R(<<>>, c.end)
          ELSE AnyAll(gouts, gend, i + 1, K, want, 0)

\* join($x): reduce .[] as $i (null; (if .==null then "" else .+$x end) +
\*            ($i | if .==null then "" elif (type=="boolean" or type=="number") then tojson else . end)) // ""
JoinR(els, i, acc, x) ==
  IF i > Len(els) THEN R1(IF Truthy(acc) THEN acc ELSE Str(<<>>))
  ELSE LET e == els[i]
           pre == IF acc.t = "null" THEN R1(Str(<<>>)) ELSE Arith("+", acc, x)
           conv == CASE e.t = "null" -> Str(<<>>)
                     [] e.t \in {"bool", "num"} -> Str(ToJsonCP(e))
                     [] OTHER -> e
       IN IF pre.end.k # "ok" THEN pre
          ELSE LET s == Arith("+", pre.out[1], conv) IN IF s.end.k # "ok" THEN s ELSE JoinR(els, i + 1, s.out[1], x)

\* fromstream(f) of jq 1.7.1 (foreach over {x, e}); events outside the well-formed shape: skip
FromStreamR(evs, evend, i, st, acc) ==
  IF i > Len(evs) THEN R(acc, evend)
  ELSE LET ev == evs[i]
           s0 == IF st.e THEN [x |-> Null, e |-> FALSE] ELSE st
       IN IF ~(ev.t = "arr" /\ Len(ev.v) \in {1, 2} /\ ev.v[1].t = "arr") THEN R(acc, SkipE)
          ELSE LET p == ev.v[1].v IN
            IF Len(ev.v) = 2
            THEN LET sp == SetPathV(s0.x, p, 1, ev.v[2])
                 IN IF sp.end.k # "ok" THEN R(acc, SkipE)
                    ELSE IF Len(p) = 0 THEN FromStreamR(evs, evend, i + 1, [x |-> sp.out[1], e |-> TRUE], Append(acc, sp.out[1]))
                    ELSE FromStreamR(evs, evend, i + 1, [x |-> sp.out[1], e |-> FALSE], acc)
            ELSE IF Len(p) = 1 THEN FromStreamR(evs, evend, i + 1, [x |-> s0.x, e |-> TRUE], Append(acc, s0.x))
                 ELSE FromStreamR(evs, evend, i + 1, [x |-> s0.x, e |-> FALSE], acc)

TypeSel(f, v) ==
  CASE f = "values" -> v.t # "null" [] f = "nulls" -> v.t = "null" [] f = "booleans" -> v.t = "bool"
    [] f = "numbers" -> v.t = "num" [] f = "strings" -> v.t = "str" [] f = "arrays" -> v.t = "arr"
    [] f = "objects" -> v.t = "obj" [] f = "iterables" -> v.t \in {"arr", "obj"}
    [] f = "scalars" -> v.t \notin {"arr", "obj"}

TypeSels == {"values", "nulls", "booleans", "numbers", "strings", "arrays", "objects", "iterables", "scalars"}

\* builtins whose arguments are VALUES (already evaluated, cartesian product done by the caller)
Call(f, a, in, env) ==
  CASE f = "has" ->
         LET k == a[1] IN
        (CASE in.t = "obj" /\ k.t = "str" -> R1(Bool(KvHas(in.kv, k.cp)))
           [] in.t = "arr" /\ k.t = "num" -> IF k.fr # 0 THEN RSkip ELSE R1(Bool(k.n >= 0 /\ k.n < Len(in.v)))
           \* null | has(k): false in jq 1.6 and in both evaluators; no 1.7.1 recording => skip when strict
           [] in.t = "null" -> IF k.t \in {"str", "num"} /\ ~env.strict THEN R1(Bool(FALSE)) ELSE RSkip
           [] OTHER -> RMsg(<<M_check_has, TypeCP(in), M_has_a, TypeCP(k), M_key>>))
    [] f = "in" -> Call("has", <<in>>, a[1], env)
    [] f = "getpath" -> IF a[1].t # "arr" THEN RErr(M_path_array) ELSE GetPathV(in, a[1].v, 1)
    [] f = "setpath" -> IF a[1].t # "arr" THEN RErr(M_path_array) ELSE SetPathV(in, a[1].v, 1, a[2])
    [] f = "delpaths" -> DelPathsV(in, a[1])
    [] f = "join" ->
        (CASE in.t = "arr" -> JoinR(in.v, 1, Null, a[1])
           [] in.t = "obj" -> JoinR(ObjVals(in), 1, Null, a[1])
           [] OTHER -> ECannotIterate(in))
    [] f = "flatten" ->
         LET d == a[1] IN
         IF d.t # "num" THEN RSkip                       \* documented divergence (#929)
         ELSE IF ~IsInt(d) THEN RSkip
         ELSE IF d.n < 0 THEN RErr(M_flatten_neg)
         ELSE (CASE in.t = "arr" -> R1(Arr(FlattenV(in.v, d.n)))
                [] in.t = "obj" -> R1(Arr(FlattenV(ObjVals(in), d.n)))
                [] OTHER -> ECannotIterate(in))
    [] f = "range" ->
         LET lo == a[1]  hi == a[2] IN
         IF lo.t # "num" \/ hi.t # "num" THEN RErr(M_range)
         ELSE IF ~(IsInt(lo) /\ IsInt(hi)) \/ hi.n - lo.n > 200 THEN RSkip
         ELSE R([i \in 1..(IF hi.n > lo.n THEN hi.n - lo.n ELSE 0) |-> NumI(lo.n + i - 1)], OK)
    [] f = "startswith" -> IF in.t = "str" /\ a[1].t = "str" THEN R1(Bool(CpPrefix(a[1].cp, in.cp))) ELSE RErr(M_startswith)
    [] f = "endswith" -> IF in.t = "str" /\ a[1].t = "str" THEN R1(Bool(CpSuffix(a[1].cp, in.cp))) ELSE RErr(M_endswith)
    [] f = "ltrimstr" -> IF in.t = "str" /\ a[1].t = "str" /\ CpPrefix(a[1].cp, in.cp)
                         THEN R1(Str(SubSeq(in.cp, Len(a[1].cp) + 1, Len(in.cp)))) ELSE R1(in)
    [] f = "rtrimstr" -> IF in.t = "str" /\ a[1].t = "str" /\ CpSuffix(a[1].cp, in.cp)
                         THEN R1(Str(SubSeq(in.cp, 1, Len(in.cp) - Len(a[1].cp)))) ELSE R1(in)
    [] OTHER -> RSkip

\* zero-argument builtins
B0(f, in, env) ==
  CASE f = "empty" -> REmpty
    [] f = "not" -> R1(Bool(~Truthy(in)))
    [] f = "type" -> R1(Str(TypeCP(in)))
    [] f = "length" ->
        (CASE in.t = "null" -> R1(NumI(0))
           [] in.t = "bool" -> RMsg(<<Dump(in), M_no_length>>)
           [] in.t = "num" -> IF IsInt(in) THEN R1(NumI(Abs(in.n))) ELSE RSkip
           [] in.t = "str" -> R1(NumI(Len(in.cp)))
           [] in.t = "arr" -> R1(NumI(Len(in.v)))
           [] in.t = "obj" -> R1(NumI(Len(in.kv))))
    [] f = "utf8bytelength" -> IF in.t = "str" THEN R1(NumI(U8Len(in.cp, 1, 0))) ELSE RMsg(<<Dump(in), M_utf8len>>)
    [] f \in {"keys", "keys_unsorted"} ->
        (CASE in.t = "obj" -> LET ks == IF f = "keys" THEN SortCP(ObjKeys(in)) ELSE ObjKeys(in)
                              IN R1(Arr([i \in 1..Len(ks) |-> Str(ks[i])]))
           [] in.t = "arr" -> R1(Arr([i \in 1..Len(in.v) |-> NumI(i - 1)]))
           [] OTHER -> RMsg(<<Dump(in), M_no_keys>>))
    [] f \in TypeSels -> IF TypeSel(f, in) THEN R1(in) ELSE REmpty
    [] f = "add" ->
        (CASE in.t = "arr" -> AddR(in.v, 1, Null)
           [] in.t = "obj" -> AddR(ObjVals(in), 1, Null)
           [] OTHER -> ECannotIterate(in))
    [] f \in {"any", "all"} ->
         LET it == IterV(in)
         IN AnyAll(it.out, it.end, 1, [ast |-> [op |-> "id"], env |-> env], f = "any", 0)
    [] f = "reverse" ->
         \* jq 1.6/1.7 def reverse: [.[length - 1 - range(0;length)]].  Only the array case and the
         \* recorded probe reverse_on_number (5 -> "Cannot index number with number") are pinned for
         \* 1.7.1; null / "" / {} / 0 (def: []), strings and booleans are not => skip
        (CASE in.t = "arr" -> R1(Arr(RevSeq(in.v)))
           [] in.t = "num" /\ IsInt(in) /\ in.n # 0 -> ECannotIndex(in, NumI(0))
           [] OTHER -> RSkip)
    [] f = "sort" -> IF in.t = "arr" THEN R1(Arr(SortVals(in.v))) ELSE RMsg(<<Dump(in), M_not_sorted>>)
    [] f = "unique" ->
        (CASE in.t = "arr" -> LET g == Groups(SortPairs([i \in 1..Len(in.v) |-> <<in.v[i], in.v[i]>>]))
                              IN R1(Arr([i \in 1..Len(g) |-> g[i][1]]))
           [] in.t = "obj" -> RSkip
           [] OTHER -> ECannotIterate(in))
    [] f \in {"min", "max"} ->
        (CASE in.t = "arr" ->
                IF in.v = <<>> THEN R1(Null)
                ELSE LET s == SortVals(in.v)
                     IN IF f = "min" THEN R1(s[1]) ELSE R1(s[Len(s)])
           [] in.t = "obj" -> RSkip
           [] OTHER -> RMsg(<<Dump(in), M_and, Dump(in), M_iterated_over>>))
    [] f = "to_entries" -> ToEntries(in)
    [] f = "from_entries" -> FromEntries(in)
    [] f = "paths" -> LET ps == PathsOf(in, <<>>) IN R([i \in 1..Len(ps) |-> Arr(ps[i])], OK)
    [] f = "leaf_paths" ->
         LET ps == PathsOf(in, <<>>)
             lf == SelectSeq(ps, LAMBDA p : GetPathV(in, p, 1).out[1].t \notin {"arr", "obj"})
         IN R([i \in 1..Len(lf) |-> Arr(lf[i])], OK)
    [] f \in {"recurse", ".."} -> R(RecurseAll(in), OK)
    [] f = "tostream" -> R(StreamOf(in, <<>>), OK)
    [] f = "flatten" ->
        (CASE in.t = "arr" -> R1(Arr(FlattenV(in.v, -1)))
           [] in.t = "obj" -> R1(Arr(FlattenV(ObjVals(in), -1)))
           [] OTHER -> ECannotIterate(in))
    [] f = "tojson" -> R1(Str(ToJsonCP(in)))
    [] f = "tostring" -> IF in.t = "str" THEN R1(in) ELSE R1(Str(ToJsonCP(in)))
    [] f = "ascii_downcase" -> IF in.t = "str" THEN R1(Str(LowerCP(in.cp))) ELSE RErr(M_explode)
    [] f = "ascii_upcase" -> IF in.t = "str" THEN R1(Str(UpperCP(in.cp))) ELSE RErr(M_explode)
    [] f = "explode" -> IF in.t = "str" THEN R1(Arr([i \in 1..Len(in.cp) |-> NumI(in.cp[i])])) ELSE RErr(M_explode)
    [] f = "implode" ->
         IF in.t # "arr" THEN RErr(M_implode)
         ELSE IF \A i \in 1..Len(in.v) : IsInt(in.v[i]) /\ in.v[i].n >= 32 /\ in.v[i].n < 55296
              THEN R1(Str([i \in 1..Len(in.v) |-> in.v[i].n])) ELSE RSkip
    [] f = "first" -> IndexV(in, NumI(0))
    [] f = "last" -> IndexV(in, NumI(-1))
    [] f = "error" -> RErrV(in)
    [] f \in {"floor", "ceil", "round", "trunc", "fabs", "abs"} -> RSkip
    [] OTHER -> RSkip

\* builtins taking FILTER arguments (a = sequence of ASTs)
CallF(f, a, in, env) ==
  CASE f = "map" ->
         LET it == IterV(in) IN
         IF it.end.k # "ok" THEN it ELSE Collect(BindR(it, [k |-> "pipe", ast |-> a[1], env |-> env]))
    [] f = "select" -> BindR(Eval(a[1], in, env), [k |-> "sel", input |-> in])
    [] f = "recurse_down" -> RSkip
    [] f \in {"sort_by", "group_by", "unique_by", "min_by", "max_by"} ->
        (CASE in.t = "arr" ->
                LET ks == KeysFor(in.v, 1, a[1], env, <<>>) IN
                IF ~ks.ok THEN R(<<>>, ks.end)
                ELSE LET sp == SortPairs(ks.pairs)  g == Groups(sp) IN
                 (CASE f = "sort_by" -> R1(Arr([i \in 1..Len(sp) |-> sp[i][2]]))
                    [] f = "group_by" -> R1(Arr([i \in 1..Len(g) |-> Arr(g[i])]))
                    [] f = "unique_by" -> R1(Arr([i \in 1..Len(g) |-> g[i][1]]))
                    [] f = "min_by" -> IF sp = <<>> THEN R1(Null) ELSE R1(sp[1][2])
                    [] f = "max_by" -> IF sp = <<>> THEN R1(Null) ELSE R1(sp[Len(sp)][2]))
           [] in.t = "obj" -> RSkip
           [] OTHER -> ECannotIterate(in))
    [] f = "with_entries" ->
         LET te == ToEntries(in) IN
         IF te.end.k # "ok" THEN te
         ELSE LET m == Collect(BindR(R(te.out[1].v, OK), [k |-> "pipe", ast |-> a[1], env |-> env]))
              IN IF m.end.k # "ok" THEN m ELSE FromEntries(m.out[1])
    [] f \in {"any", "all"} ->
         IF Len(a) = 1
         THEN LET it == IterV(in) IN AnyAll(it.out, it.end, 1, [ast |-> a[1], env |-> env], f = "any", 0)
         ELSE LET g == Eval(a[1], in, env) IN AnyAll(g.out, g.end, 1, [ast |-> a[2], env |-> env], f = "any", 0)
    [] f = "limit" -> BindR(Eval(a[1], in, env), [k |-> "limit", ast |-> a[2], input |-> in, env |-> env])
    [] f = "first" -> Take(Eval(a[1], in, env), 1)
    [] f = "last" -> LET r == Eval(a[1], in, env)
                     IN IF r.end.k # "ok" THEN R(<<>>, r.end)
                        ELSE IF r.out = <<>> THEN REmpty ELSE R1(r.out[Len(r.out)])
    [] f = "isempty" -> LET r == Eval(a[1], in, env)
                        IN IF r.out # <<>> THEN R1(Bool(FALSE))
                           ELSE IF r.end.k = "ok" THEN R1(Bool(TRUE)) ELSE RSkip
    [] f = "fromstream" -> LET r == Eval(a[1], in, env) IN FromStreamR(r.out, r.end, 1, [x |-> Null, e |-> FALSE], <<>>)
    [] f = "paths" ->
         \* def paths(node_filter): . as $dot | paths | select(. as $p | $dot | getpath($p) | node_filter);
         LET ps == PathsOf(in, <<>>)
         IN BindR(R([i \in 1..Len(ps) |-> Arr(ps[i])], OK),
                  [k |-> "pathsel", ast |-> a[1], input |-> in, env |-> env])
    [] f = "range" ->
         IF Len(a) = 1 THEN BindR(Eval(a[1], in, env), [k |-> "range1", input |-> in, env |-> env])
         ELSE IF Len(a) = 2 THEN BindR(Eval(a[1], in, env), [k |-> "call2a", f |-> "range", second |-> Eval(a[2], in, env), input |-> in, env |-> env])
         ELSE RSkip
    [] f = "error" -> BindR(Eval(a[1], in, env), [k |-> "err"])
    [] f = "in" -> BindR(Eval(a[1], in, env), [k |-> "call1", f |-> "in", input |-> in, env |-> env])
    [] f \in {"has", "getpath", "delpaths", "join", "flatten", "startswith", "endswith", "ltrimstr", "rtrimstr"} /\ Len(a) = 1 ->
         BindR(Eval(a[1], in, env), [k |-> "call1", f |-> f, input |-> in, env |-> env])
    [] f = "setpath" /\ Len(a) = 2 ->
         LET r1 == Eval(a[1], in, env)  r2 == Eval(a[2], in, env)
         IN IF r1.end.k = "ok" /\ r2.end.k = "ok" /\ Len(r1.out) = 1 /\ Len(r2.out) = 1
            THEN Call("setpath", <<r1.out[1], r2.out[1]>>, in, env)
            ELSE RSkip     \* argument evaluation order of multi-output C-function arguments: not pinned
    [] OTHER -> RSkip

Eval(ast, in, env) ==
  LET op == ast.op IN
  CASE op = "id" -> R1(in)
    [] op = "field" -> IndexV(in, Str(ast.name))
    [] op = "idx" -> BindR(Eval(ast.k, in, env), [k |-> "idxK", tg |-> ast.t, input |-> in, env |-> env])
    [] op = "iter" -> IterV(in)
    [] op = "opt" ->
         LET r == Eval(ast.e, in, env)
         IN (CASE r.end.k = "err" -> R(r.out, OK)
              [] r.end.k = "brk" -> R(r.out, SkipE)      \* `(break $x)?` : not pinned by a recording
              [] OTHER -> r)
    [] op = "pipe" -> BindR(Eval(ast.l, in, env), [k |-> "pipe", ast |-> ast.r, env |-> env])
    [] op = "comma" ->
         LET rl == Eval(ast.l, in, env) IN
         IF rl.end.k # "ok" THEN rl ELSE LET rr == Eval(ast.r, in, env) IN R(rl.out \o rr.out, rr.end)
    [] op = "lit" -> R1(ast.v)
    [] op = "arr0" -> R1(Arr(<<>>))
    [] op = "arr" -> Collect(Eval(ast.e, in, env))
    [] op = "obj" -> ObjBuild(ast.kv, 1, <<>>, in, env)
    [] op = "neg" -> BindR(Eval(ast.e, in, env), [k |-> "neg"])
    [] op = "bin" -> BindR(Eval(ast.r, in, env), [k |-> "binR", o |-> ast.o, l |-> ast.l, input |-> in, env |-> env])
    [] op = "cmp" -> BindR(Eval(ast.r, in, env), [k |-> "cmpR", o |-> ast.o, l |-> ast.l, input |-> in, env |-> env])
    [] op = "and" -> BindR(Eval(ast.l, in, env), [k |-> "and", r |-> ast.r, input |-> in, env |-> env])
    [] op = "or" -> BindR(Eval(ast.l, in, env), [k |-> "or", r |-> ast.r, input |-> in, env |-> env])
    [] op = "alt" ->
         LET rl == Eval(ast.l, in, env)
             tr == SelectSeq(rl.out, Truthy)
         IN (CASE rl.end.k = "ok" -> IF tr # <<>> THEN R(tr, OK) ELSE Eval(ast.r, in, env)
              [] rl.end.k = "err" ->
                   \* jq 1.7.1 recording alt_error_after_output: an error after a truthy output
                   \* propagates.  An error before any truthy output: both evaluators propagate it
                   \* (as jq 1.6 does); not pinned by a 1.7.1 recording => skip in strict mode.
                   IF tr = <<>> /\ env.strict THEN RSkip ELSE R(tr, rl.end)
              [] OTHER -> R(tr, rl.end))
    [] op = "if" -> BindR(Eval(ast.c, in, env), [k |-> "if", th |-> ast.t, el |-> ast.e, input |-> in, env |-> env])
    [] op = "try" ->
         LET r == Eval(ast.b, in, env)
         IN (CASE r.end.k = "err" ->
                   LET h == Eval(ast.c, r.end.v, env) IN R(r.out \o h.out, h.end)
              [] r.end.k = "brk" -> R(r.out, SkipE)   \* catch sees jq's internal {"__jq":n}: skip
              [] OTHER -> r)
    [] op = "try0" ->
         LET r == Eval(ast.b, in, env)
         IN (CASE r.end.k = "err" -> R(r.out, OK)
              [] r.end.k = "brk" -> R(r.out, SkipE)
              [] OTHER -> r)
    [] op = "err0" -> RErrV(in)
    [] op = "err" -> BindR(Eval(ast.e, in, env), [k |-> "err"])
    [] op = "reduce" ->
         \* jq evaluates INIT before SOURCE and SOURCE once per INIT output: with an INIT that yields
         \* nothing (empty or an error) a failing SOURCE is never reached (jq 1.6:
         \* `null | foreach .[] as $x (empty; 1; 2)` -> no output); the implementation evaluates
         \* SOURCE first and reports its error.  Not pinned by a 1.7.1 recording: skip
         IF Eval(ast.i, in, env).out = <<>> /\ Eval(ast.s, in, env).end.k # "ok" THEN RSkip ELSE
         BindR(Eval(ast.i, in, env),
               [k |-> "reduceI", src |-> Eval(ast.s, in, env), ast |-> ast.u, x |-> ast.x, env |-> env])
    [] op = "foreach" ->
         IF Eval(ast.i, in, env).out = <<>> /\ Eval(ast.s, in, env).end.k # "ok" THEN RSkip ELSE
         BindR(Eval(ast.i, in, env),
               [k |-> "foreachI", src |-> Eval(ast.s, in, env), upd |-> ast.u, x |-> ast.x, env |-> env,
                has |-> ("e" \in DOMAIN ast), ext |-> IF "e" \in DOMAIN ast THEN ast.e ELSE [op |-> "id"]])
    [] op = "as" -> BindR(Eval(ast.s, in, env), [k |-> "as", ast |-> ast.b, input |-> in, env |-> env, x |-> ast.x])
    [] op = "var" -> IF HasVar(env, ast.x) THEN R1(GetVar(env, ast.x)) ELSE RSkip
    [] op = "label" ->
         LET r == Eval(ast.b, in, env)
         IN IF r.end.k = "brk" /\ r.end.l = ast.x THEN R(r.out, OK) ELSE r
    [] op = "break" -> R(<<>>, BrkE(ast.x))
    [] op = "call" -> IF ast.a = <<>> THEN B0(ast.f, in, env) ELSE CallF(ast.f, ast.a, in, env)
    [] OTHER -> RSkip

=============================================================================
