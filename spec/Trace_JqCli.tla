----------------------------- MODULE Trace_JqCli -----------------------------
(* C24: what an observer of the jq command line sees (stdout values, error     *)
(* message, failed or not) must equal the calibrated reference semantics.      *)
(*   "cal" events carry the RECORDED jq-1.7.1 observation of a golden case /   *)
(*   error probe of the repository: the spec itself is validated against them; *)
(*   "cli" events carry what `succinctly jq -c` printed for a generated        *)
(*   core-fragment program.  Eval runs in STRICT mode: every rule that is not  *)
(*   pinned by a recording answers "skip", and a skipped event constrains      *)
(*   nothing.  full = 0 (error probes): only the message is recorded.          *)
EXTENDS TraceBase, JqCore

VARIABLE l

\* the CLI-observable form of an end: an uncaught error prints its message (a string payload
\* verbatim, anything else as JSON with the "(not a string)" marker, logged as c = 1)
ObsEnd(end) ==
  CASE end.k = "ok" -> OK
    [] end.k = "err" -> IF end.v.t = "str" THEN MkEnd("err", end.v, "", 0)
                        ELSE MkEnd("err", Str(ToJsonCP(end.v)), "", 1)
    [] OTHER -> end

Matches(e) ==
  LET r == Eval(e.ast, Norm(e.in), StrictEnv)
  IN IF r.end.k \in {"skip", "brk", "halt"} \/ (r.end.k = "err" /\ HasAtom(r.end.v))
     THEN PrintT(<<"JQSKIP", l>>)
     ELSE IF e.full = 1 THEN e.oe.out = r.out /\ e.oe.end = ObsEnd(r.end)
          ELSE e.oe.end = ObsEnd(r.end)

Ev(e) == e.e \in {"cal", "cli"} /\ e.r = Len(e.oe.out) /\ Matches(e)

Init == l = 1
Next == /\ l <= NRec
        /\ Ev(Rec[l])
        /\ l' = l + 1
Spec == Init /\ [][Next]_l
=============================================================================
