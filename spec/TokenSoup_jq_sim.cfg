CONSTANTS Which = "jq"  MaxLen = 9
SPECIFICATION SimSpec
INVARIANT Emit
CHECK_DEADLOCK FALSE
