CONSTANTS Which = "jq"  MaxLen = 9
SPECIFICATION Spec
INVARIANT Emit
CHECK_DEADLOCK FALSE
