CONSTANTS DELIM = 44  MaxArr = 2  MaxStr = 3
SPECIFICATION Spec
INVARIANT Inv
CHECK_DEADLOCK FALSE
