CONSTANTS DELIM = 44  MaxArr = 2  MaxStr = 3  Alphabet = {44, 34, 13, 10, 32, 97}
SPECIFICATION Spec
INVARIANT Inv
CHECK_DEADLOCK FALSE
