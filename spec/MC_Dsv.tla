------------------------------- MODULE MC_Dsv -------------------------------
(* Bounded exhaustive check of Dsv.tla (C21 model stage):                    *)
(*   every class string of length <= MaxLen (built one class per step)       *)
(*   - iteration / random access protocols over the cursor machine equal the *)
(*     definitional split (IterationIsSplit, SplitShape)                     *)
(*   - the append-a-separator lemma                                          *)
(*   - every cursor walk (NextField / NextRow / GotoRow(n) from every        *)
(*     reachable position; `last` remembers the step just taken, so each     *)
(*     single step of every walk of any length is checked against the        *)
(*     definitional rows)                                                    *)
EXTENDS Dsv, TLC

CONSTANTS MaxLen, MaxWalkLen

VARIABLES t, pos, last

vars == <<t, pos, last>>

NoStep == [op |-> "none", a |-> 0, from |-> 0, ok |-> 0]

Init == t = <<>> /\ pos = -1 /\ last = NoStep

Grow == /\ pos = -1
        /\ Len(t) < MaxLen
        /\ \E c \in Classes : t' = Append(t, c)
        /\ UNCHANGED <<pos, last>>

NewCursor == /\ pos = -1
             /\ Len(t) <= MaxWalkLen
             /\ pos' = 0
             /\ last' = [op |-> "new", a |-> 0, from |-> 0, ok |-> 0]
             /\ UNCHANGED t

Walk == /\ pos >= 0
        /\ LET ix == Index(t)
           IN \/ LET r == NextField(ix, pos)
                 IN pos' = r.pos /\ last' = [op |-> "nf", a |-> 0, from |-> pos, ok |-> r.ok]
              \/ LET r == NextRow(ix, pos)
                 IN pos' = r.pos /\ last' = [op |-> "nr", a |-> 0, from |-> pos, ok |-> r.ok]
              \/ \E n \in 0..(Len(ix.ns) + 1) :
                   LET r == GotoRow(ix, pos, n)
                   IN pos' = r.pos /\ last' = [op |-> "goto", a |-> n, from |-> pos, ok |-> r.ok]
        /\ UNCHANGED t

Next == Grow \/ NewCursor \/ Walk

Spec == Init /\ [][Next]_vars

-----------------------------------------------------------------------------
SplitInv == pos = -1 => LET ix == Index(t)
                        IN IterationIsSplit(ix) /\ SplitShape(ix) /\ AppendLemma(t)

\* all field starts of the definitional rows in document order
Flat(rows) == FoldLeft(LAMBDA acc, r : acc \o r, <<>>, rows)

IndexOfStart(spans, p) == CHOOSE k \in 1..Len(spans) : spans[k][1] = p

RowOfPos(rows, p) == CHOOSE r \in 1..Len(rows) : rows[r][1][1] <= p /\ p <= rows[r][Len(rows[r])][2]

CursorInv ==
  pos >= 0 =>
    LET ix == Index(t)
        rows == Rows(ix)
        flat == Flat(rows)
        starts == {flat[k][1] : k \in 1..Len(flat)}
    IN \* the cursor only ever rests on a field start or at the end
       /\ pos \in starts \cup {0, ix.len}
       /\ AtEnd(ix, pos) = (pos = ix.len)
       \* the field under the cursor is the definitional one
       /\ (pos \in starts => CurrentField(ix, pos) = flat[IndexOfStart(flat, pos)])
       /\ (pos = ix.len /\ pos \notin starts => CurrentField(ix, pos) = <<pos, pos>>)
       \* the step just taken, against the definitional rows
       /\ CASE last.op = "nf" ->
                 IF last.from \in starts /\ last.from < ix.len
                 THEN LET k == IndexOfStart(flat, last.from)
                      IN /\ pos = (IF k < Len(flat) THEN flat[k + 1][1] ELSE ix.len)
                         /\ last.ok = (IF pos < ix.len THEN 1 ELSE 0)
                 ELSE pos = last.from /\ last.ok = 0
            [] last.op = "nr" ->
                 IF last.from < ix.len
                 THEN LET r == RowOfPos(rows, last.from)
                      IN /\ pos = (IF r < Len(rows) THEN rows[r + 1][1][1] ELSE ix.len)
                         /\ last.ok = (IF pos < ix.len THEN 1 ELSE 0)
                 ELSE pos = last.from /\ last.ok = 0
            [] last.op = "goto" ->
                 IF last.a < Len(rows)
                 THEN pos = rows[last.a + 1][1][1] /\ last.ok = 1
                 ELSE last.ok = 0
            [] OTHER -> TRUE
=============================================================================
