--------------------------- MODULE Trace_SimpleNav ---------------------------
(* Trace validation for C32: every answer of the real SimpleJsonIndex on a    *)
(* generated valid document must equal SimpleNav's definition on the TEXT.    *)
(*  doc   bytes, the generator's value/key spans [start, end, kind], the      *)
(*        index's structural_count() and the list structural_positions()      *)
(*        yields.  The spans bind SimpleNav!SkipValue / FindClose to the      *)
(*        grammar-level notion of "value": for every span the spec's          *)
(*        SkipValue(start) must be the span's end (and FindClose(start) the   *)
(*        last byte of a container span) -- else the trace is rejected AT THE *)
(*        DOC EVENT (a generator/spec disagreement, not an index fault).      *)
(*  q     op in pos | idx | close | skip, argument a, result r                *)
(*        (-1 None, -2 panic; a = -1 stands for a huge argument).             *)
(* cfg (which construction route built the index) is logged, never consulted. *)
EXTENDS TraceBase, SimpleNav

\* Per-document tables (text, structurals, bracket matches), computed once per document
\* event.  They are constants of the recorded trace, so the state is just <<l, d>> (d = line
\* of the current document); keeping kilobyte texts in state variables made TLC hash them
\* at every event.
DocIdx == {i \in 1..NRec : Rec[i].e = "doc"}

DocTab == [i \in DocIdx |->
             LET t == Rec[i].bytes
                 st == Structurals(t)
             IN [text |-> t, S |-> st, M |-> MatchTable(t, st)]]

VARIABLES l, d

vars == <<l, d>>

Doc(e) ==
  /\ e.e = "doc"
  /\ d' = l
  /\ LET D == DocTab[l]
     IN /\ e.n = Len(D.text)
        /\ \A i \in 1..Len(e.spans) :
             LET sp == e.spans[i]
             IN /\ SkipValueT(D.text, D.S, D.M, sp[1]) = sp[2]
                /\ (sp[3] = 0 => FindCloseT(D.text, D.S, D.M, sp[1]) = sp[2] - 1)
        /\ e.sp = D.S
        /\ e.cnt = Len(D.S)

Expected(op, a) ==
  LET D == DocTab[d]
  IN CASE op = "pos" -> StructuralPos(D.S, a)
       [] op = "idx" -> IF a < 0 THEN None ELSE StructuralIndex(D.S, a)
       [] op = "close" -> FindCloseT(D.text, D.S, D.M, a)
       [] op = "skip" -> SkipValueT(D.text, D.S, D.M, a)
       [] OTHER -> -99

Query(e) ==
  /\ e.e = "q"
  /\ d > 0
  /\ e.r = Expected(e.op, e.a)
  /\ UNCHANGED d

Init == l = 1 /\ d = 0

Next == /\ l <= NRec
        /\ LET e == Rec[l] IN Doc(e) \/ Query(e)
        /\ l' = l + 1

Spec == Init /\ [][Next]_vars
=============================================================================
