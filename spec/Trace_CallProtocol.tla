------------------------- MODULE Trace_CallProtocol -------------------------
(* Trace validation for C19 / C30: the recorded call events of the real       *)
(* library (in-process calls in a supervised worker process) and of the real  *)
(* CLI (exit status / signal) must be a behaviour of CallProtocol.            *)
(*                                                                            *)
(*   {"e":"inv","api":A,"id":I,"len":L}            the call was started       *)
(*   {"e":"ret","api":A,"id":I,"r":R, ...}         how it ended               *)
(*        R =  0  a value            + "w": amount of work / output produced  *)
(*        R =  1  a reported error   + "m": length of the message (library)   *)
(*                                         or the non-zero exit status (CLI)  *)
(*                                   + "pos": [offset, line, column, breaks]  *)
(*                                     when the error type carries a position *)
(*        R = -2  Rust panic (library: caught unwind; CLI: exit status 101)   *)
(*        R = -3  the process died (signal / abort)                           *)
(*                                                                            *)
(* CallProtocol has Return actions for "value" and "error" only, so an event  *)
(* with R = -2 / -3 (or an "inv" that is not answered before the next "inv")  *)
(* is rejected.  For errors that carry a position only what the error types   *)
(* document is demanded (weak reading): offset is a byte offset of the input  *)
(* (0 <= offset <= len), line and column are 1-based, the line is at most one *)
(* more than the number of LF/CR bytes before the offset and the column at    *)
(* most offset + 1.  (Exact positions are C08 / C13.)                         *)
EXTENDS TraceBase

VARIABLES l, pending, done, last

vars == <<l, pending, done, last>>

CP == INSTANCE CallProtocol WITH Apis <- STRING, Inputs <- Int, MaxCalls <- -1

Kind(e) ==
  CASE e.r = 0 -> "value"
    [] e.r = 1 -> "error"
    [] e.r = -2 -> "panic"
    [] e.r = -3 -> "abort"
    [] OTHER -> "unknown"

Detail(e) ==
  /\ e.r = 0 => Has(e, "w") /\ e.w >= 0 /\ ~Has(e, "m") /\ ~Has(e, "pos")
  /\ e.r = 1 => Has(e, "m") /\ e.m >= 1 /\ ~Has(e, "w")

PosOK(e) ==
  Has(e, "pos") =>
    LET p == e.pos IN
      /\ Len(p) = 4
      /\ p[1] >= 0 /\ (e.len >= 0 => p[1] <= e.len)
      /\ p[2] >= 1 /\ p[2] <= p[4] + 1
      /\ p[3] >= 1 /\ p[3] <= p[1] + 1

Inv(e) ==
  /\ e.e = "inv"
  /\ CP!Invoke(e.api, e.id)

Ret(e) ==
  /\ e.e = "ret"
  /\ CP!Return(e.api, e.id, Kind(e))
  /\ Detail(e)
  /\ PosOK(e)

Init == l = 1 /\ CP!Init

Next == /\ l <= NRec
        /\ LET e == Rec[l] IN Inv(e) \/ Ret(e)
        /\ l' = l + 1

Spec == Init /\ [][Next]_vars
=============================================================================
