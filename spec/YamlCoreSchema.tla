--------------------------- MODULE YamlCoreSchema ---------------------------
(* Tag resolution of PLAIN scalars under the YAML 1.2 core schema            *)
(* (YAML 1.2.2 section 10.3.2), which is the schema src/yaml/scalar.rs and   *)
(* docs/compliance/yaml/1.2.md document for the loader (NOT the yq / YAML    *)
(* 1.1 legacy forms: `1_000`, `0X2A`, `0b1`, `-0x1`, `yes`, bare `nan`/`inf` *)
(* are strings).  A scalar is a sequence of one-character strings (TLC       *)
(* strings cannot be indexed); characters outside printable ASCII are named  *)
(* tokens ("LF", "TAB", "U+00E9") and never match any class below.           *)
(*                                                                           *)
(*   null  : null | Null | NULL | ~ | (empty)                                *)
(*   bool  : true | True | TRUE | false | False | FALSE                      *)
(*   int   : [-+]? [0-9]+   |  0o [0-7]+  |  0x [0-9a-fA-F]+                 *)
(*   float : [-+]? ( \. [0-9]+ | [0-9]+ ( \. [0-9]* )? ) ( [eE] [-+]? [0-9]+ )? *)
(*           | [-+]? \.(inf|Inf|INF) | \.(nan|NaN|NAN)                       *)
(*   str   : everything else                                                 *)
(* The table is ordered: the first matching row wins (every decimal int also *)
(* matches the float expression; lemma IntWithinFloat below).                *)
(*                                                                           *)
(* Documented deviations of the loader that lie outside the bounded scope    *)
(* explored with this module (values < 2^31): a 0x/0o literal that overflows *)
(* i64 and a float literal that overflows to infinity are strings.           *)
EXTENDS Integers, Sequences

Dec == {"0", "1", "2", "3", "4", "5", "6", "7", "8", "9"}
Oct == {"0", "1", "2", "3", "4", "5", "6", "7"}
Hex == Dec \cup {"a", "b", "c", "d", "e", "f", "A", "B", "C", "D", "E", "F"}
Sign == {"-", "+"}

DigitVal(c) ==
  CASE c = "0" -> 0 [] c = "1" -> 1 [] c = "2" -> 2 [] c = "3" -> 3 [] c = "4" -> 4
    [] c = "5" -> 5 [] c = "6" -> 6 [] c = "7" -> 7 [] c = "8" -> 8 [] c = "9" -> 9
    [] c \in {"a", "A"} -> 10 [] c \in {"b", "B"} -> 11 [] c \in {"c", "C"} -> 12
    [] c \in {"d", "D"} -> 13 [] c \in {"e", "E"} -> 14 [] c \in {"f", "F"} -> 15

AllIn(s, S) == \A i \in 1..Len(s) : s[i] \in S
Digits1(s) == Len(s) > 0 /\ AllIn(s, Dec)           \* [0-9]+
From(s, i) == SubSeq(s, i, Len(s))
Unsigned(s) == IF Len(s) > 0 /\ s[1] \in Sign THEN From(s, 2) ELSE s

IsNull(s) == s \in {<<>>, <<"~">>, <<"n", "u", "l", "l">>, <<"N", "u", "l", "l">>, <<"N", "U", "L", "L">>}
IsTrue(s) == s \in {<<"t", "r", "u", "e">>, <<"T", "r", "u", "e">>, <<"T", "R", "U", "E">>}
IsFalse(s) == s \in {<<"f", "a", "l", "s", "e">>, <<"F", "a", "l", "s", "e">>, <<"F", "A", "L", "S", "E">>}
IsBool(s) == IsTrue(s) \/ IsFalse(s)

IsDecInt(s) == Digits1(Unsigned(s))
IsOctInt(s) == Len(s) > 2 /\ s[1] = "0" /\ s[2] = "o" /\ AllIn(From(s, 3), Oct)
IsHexInt(s) == Len(s) > 2 /\ s[1] = "0" /\ s[2] = "x" /\ AllIn(From(s, 3), Hex)
IsInt(s) == IsDecInt(s) \/ IsOctInt(s) \/ IsHexInt(s)

\* position of the first e/E, or 0
ExpPos(s) == IF \E i \in 1..Len(s) : s[i] \in {"e", "E"}
             THEN CHOOSE i \in 1..Len(s) : s[i] \in {"e", "E"} /\ \A j \in 1..(i - 1) : s[j] \notin {"e", "E"}
             ELSE 0
\* \. [0-9]+  |  [0-9]+ ( \. [0-9]* )?
IsMantissa(m) ==
  \/ Len(m) > 1 /\ m[1] = "." /\ Digits1(From(m, 2))
  \/ Digits1(m)
  \/ \E d \in 2..Len(m) : m[d] = "." /\ Digits1(SubSeq(m, 1, d - 1)) /\ AllIn(From(m, d + 1), Dec)
\* [eE] [-+]? [0-9]+   (x starts at the e/E)
IsExponent(x) == Len(x) > 1 /\ x[1] \in {"e", "E"} /\ Digits1(Unsigned(From(x, 2)))
IsNumFloat(s) ==
  LET u == Unsigned(s)
      p == ExpPos(u)
  IN IF p = 0 THEN IsMantissa(u)
     ELSE IsMantissa(SubSeq(u, 1, p - 1)) /\ IsExponent(From(u, p))
IsInf(s) == Unsigned(s) \in {<<".", "i", "n", "f">>, <<".", "I", "n", "f">>, <<".", "I", "N", "F">>}
IsNan(s) == s \in {<<".", "n", "a", "n">>, <<".", "N", "a", "N">>, <<".", "N", "A", "N">>}
IsFloat(s) == IsNumFloat(s) \/ IsInf(s) \/ IsNan(s)

CoreType(s) ==
  CASE IsNull(s) -> "null"
    [] IsBool(s) -> "bool"
    [] IsInt(s) -> "int"
    [] IsFloat(s) -> "float"
    [] OTHER -> "str"

RECURSIVE Radix(_, _, _)
Radix(s, b, acc) == IF s = <<>> THEN acc ELSE Radix(Tail(s), b, acc * b + DigitVal(Head(s)))

\* value of an int literal (defined when IsInt(s) and the magnitude is < 2^31)
CoreInt(s) ==
  IF IsOctInt(s) THEN Radix(From(s, 3), 8, 0)
  ELSE IF IsHexInt(s) THEN Radix(From(s, 3), 16, 0)
  ELSE IF s[1] = "-" THEN 0 - Radix(From(s, 2), 10, 0)
  ELSE Radix(Unsigned(s), 10, 0)

CoreBool(s) == IsTrue(s)

(* Lemmas checked by MC_YamlCoreSchema on all strings of the bounded scope. *)
IntWithinFloat(s) == IsDecInt(s) => IsNumFloat(s)
BasedIntNotFloat(s) == (IsOctInt(s) \/ IsHexInt(s)) /\ ~IsDecInt(s) => ~IsFloat(s)
KeywordsDisjoint(s) == ~(IsNull(s) /\ IsBool(s)) /\ ((IsNull(s) \/ IsBool(s)) => ~IsInt(s) /\ ~IsFloat(s))
=============================================================================
