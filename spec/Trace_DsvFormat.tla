--------------------------- MODULE Trace_DsvFormat ---------------------------
(* Trace validation for C22: one event per CLI pair                           *)
(*    succinctly jq -r '@csv' | '@dsv("d")'   then                            *)
(*    succinctly jq -c --input-dsv d .        on the printed line.            *)
(*   rt: d (delimiter code), fs (the array: strings as code-point lists),     *)
(*       back (every value printed by the second command, decoded the same    *)
(*       way), r = number of values printed (-2: a command failed)            *)
(* The property is only the composition: exactly one row comes back and it is *)
(* the original array.  (That the specification's own Format/Read compose to   *)
(* the identity on these very arrays is checked by the generator side.)        *)
EXTENDS TraceBase, DsvFormat

VARIABLES l

RoundTripEv(e) ==
  /\ e.e = "rt"
  /\ e.d \in (32..126) \ {QUOTE}
  /\ Len(e.fs) >= 1
  /\ e.r = 1
  /\ e.back = <<e.fs>>

Init == l = 1

Next == /\ l <= NRec
        /\ LET e == Rec[l] IN RoundTripEv(e)
        /\ l' = l + 1

Spec == Init /\ [][Next]_l
=============================================================================
