--------------------------- MODULE BalancedParens ---------------------------
(***************************************************************************)
(* Definitional semantics of balanced-parentheses navigation (property     *)
(* C04) on a finite bit sequence b (1 = open, 0 = close; position p of the *)
(* implementation is element p+1).  b is ALWAYS the first `len` bits of    *)
(* the caller's storage, so "stray bits past len" do not exist here.       *)
(*                                                                         *)
(* Every operator is written as the literal left-to-right / right-to-left  *)
(* excess scan the property statement names; nothing here knows about      *)
(* words, blocks or indexes.  Balancedness is NOT assumed.                 *)
(* None (= -1, from BitSeq) stands for Rust's `None`.                      *)
(***************************************************************************)
EXTENDS BitSeq

InRange(b, p) == p >= 0 /\ p < Len(b)

IsOpen(b, p) == InRange(b, p) /\ b[p + 1] = 1
IsClose(b, p) == InRange(b, p) /\ b[p + 1] = 0

Step(v) == IF v = 1 THEN 1 ELSE -1

\* excess of the first i bits (opens minus closes in positions [0, i)), 0 <= i <= Len(b)
RECURSIVE PExc(_, _)
PExc(b, i) == IF i = 0 THEN 0 ELSE PExc(b, i - 1) + Step(b[i])

\* excess(p) of the code: opens minus closes in positions [0, p]; defined for p < Len(b)
Excess(b, p) == PExc(b, p + 1)

\* left-to-right scan: q is the next position to read, e >= 1 the running excess;
\* answer = first position where the running excess becomes 0
RECURSIVE ScanFwd(_, _, _)
ScanFwd(b, q, e) ==
  IF q >= Len(b) THEN None
  ELSE LET e2 == e + Step(b[q + 1])
       IN IF e2 = 0 THEN q ELSE ScanFwd(b, q + 1, e2)

\* right-to-left scan: q is the next position to read, e the running excess (opens minus
\* closes read so far); answer = first position where the running excess becomes `goal`
RECURSIVE ScanBack(_, _, _, _)
ScanBack(b, q, e, goal) ==
  IF q < 0 THEN None
  ELSE LET e2 == e + Step(b[q + 1])
       IN IF e2 = goal THEN q ELSE ScanBack(b, q - 1, e2, goal)

\* matching close of the open at p
FindClose(b, p) == IF IsOpen(b, p) THEN ScanFwd(b, p + 1, 1) ELSE None

\* matching open of the close at p (the close itself counts -1)
FindOpen(b, p) == IF IsClose(b, p) THEN ScanBack(b, p - 1, -1, 0) ELSE None

\* nearest enclosing open of the open at p: first unmatched open to the left
Enclose(b, p) == IF IsOpen(b, p) THEN ScanBack(b, p - 1, 0, 1) ELSE None

Parent(b, p) == Enclose(b, p)

FirstChild(b, p) == IF IsOpen(b, p) /\ IsOpen(b, p + 1) THEN p + 1 ELSE None

NextSibling(b, p) ==
  LET c == FindClose(b, p)
  IN IF c = None THEN None ELSE IF IsOpen(b, c + 1) THEN c + 1 ELSE None

\* depth(p): the excess at p.  Compared with the code only where it is >= 0 (a negative
\* excess has no meaning as a depth and the code's `as usize` of it is unspecified).
Depth(b, p) == IF InRange(b, p) THEN Excess(b, p) ELSE None

SubtreeSize(b, p) ==
  LET c == FindClose(b, p)
  IN IF c = None THEN None ELSE (c - p) \div 2

\* in-word kernel semantics (a word is a bit sequence of the word width):
\* first close that has no open to its left; Len(w) when there is none
FindUnmatchedClose(w) ==
  LET c == ScanFwd(w, 0, 1) IN IF c = None THEN Len(w) ELSE c
\* find_close_in_word: a close "matches itself"; an open is matched inside the word or None
FindCloseInWord(w, p) ==
  IF ~InRange(w, p) THEN None ELSE IF w[p + 1] = 0 THEN p ELSE FindClose(w, p)

(***************************************************************************)
(* Characterisations (checked by MC_BpRuns on every small sequence): they  *)
(* tie the scans to the textbook "excess returns to its level" reading, so *)
(* a slip in the scan definitions above cannot go unnoticed.               *)
(***************************************************************************)
MinOf(S) == CHOOSE x \in S : \A y \in S : x <= y
MaxOf(S) == CHOOSE x \in S : \A y \in S : x >= y

FindCloseAlt(b, p) ==
  IF ~IsOpen(b, p) THEN None
  ELSE LET S == {q \in (p + 1)..(Len(b) - 1) : PExc(b, q + 1) = PExc(b, p)}
       IN IF S = {} THEN None ELSE MinOf(S)

FindOpenAlt(b, p) ==
  IF ~IsClose(b, p) THEN None
  ELSE LET S == {q \in 0..(p - 1) : PExc(b, q) = PExc(b, p + 1)}
       IN IF S = {} THEN None ELSE MaxOf(S)

EncloseAlt(b, p) ==
  IF ~IsOpen(b, p) THEN None
  ELSE LET S == {q \in 0..(p - 1) : PExc(b, q) = PExc(b, p) - 1}
       IN IF S = {} THEN None ELSE MaxOf(S)

Characterised(b) ==
  \A p \in -1..(Len(b) + 1) :
     /\ FindClose(b, p) = FindCloseAlt(b, p)
     /\ FindOpen(b, p) = FindOpenAlt(b, p)
     /\ Enclose(b, p) = EncloseAlt(b, p)
     /\ (FindClose(b, p) # None => FindOpen(b, FindClose(b, p)) = p)
     /\ (FindOpen(b, p) # None => FindClose(b, FindOpen(b, p)) = p)
     /\ (Enclose(b, p) # None =>
           /\ IsOpen(b, Enclose(b, p))
           /\ (FindClose(b, Enclose(b, p)) = None \/ FindClose(b, Enclose(b, p)) > p))
=============================================================================
