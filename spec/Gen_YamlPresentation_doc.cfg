CONSTANTS
  PalUse = {1, 31}
  MaxNodes = 4
  MaxDocs = 2
  ScalarStyles = {"plain", "lit"}
  CollStyles = {"block", "flow"}
  MaxDecor = 0
  Indents = {1, 2, 4}
  Breaks = {"LF", "CRLF", "CR"}
  DocFlags = {"ds", "de", "zi", "cmp", "fsp"}
SPECIFICATION Spec
INVARIANT Emit
CHECK_DEADLOCK FALSE
