CONSTANTS MaxLen = 7
SPECIFICATION Spec
INVARIANT Emit
CHECK_DEADLOCK FALSE
