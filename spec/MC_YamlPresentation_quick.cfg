CONSTANTS
  PalUse = {1, 9, 31}
  MaxNodes = 3
  MaxDocs = 1
  ScalarStyles = {"plain", "single", "double", "lit", "fold"}
  CollStyles = {"block", "flow"}
  MaxDecor = 1
  Indents = {2}
  Breaks = {"LF", "CR"}
  DocFlags = {"ds", "cmp"}
  Avoid = {}
  Sim = FALSE
SPECIFICATION Spec
INVARIANT Inv
CHECK_DEADLOCK FALSE
