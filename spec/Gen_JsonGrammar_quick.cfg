CONSTANTS
  Cap = 128
  A1 = {123, 125, 91, 93, 58, 44, 34, 48, 49, 45, 46, 101, 32}
  L1 = 5
  A2 = {91, 93, 34, 92, 117, 110, 116, 114, 101, 108, 48, 10, 44}
  L2 = 4
  A3 = {34, 91, 93, 97, 194, 128, 224, 160, 237, 240, 144, 31, 13}
  L3 = 4
SPECIFICATION Spec
INVARIANT Emit
CHECK_DEADLOCK FALSE
