--------------------------------- MODULE Dsv ---------------------------------
(***************************************************************************)
(* Quote-aware delimiter-separated-values: marker/newline index (C20) and  *)
(* the row / field structure read through it (C21).                        *)
(*                                                                         *)
(* A configuration is three DISTINCT bytes (delimiter, quote, newline).    *)
(* Everything below is defined on the CLASS string of a text: class of a   *)
(* byte = which of the three special bytes it is, or "other".  Positions   *)
(* are 0-based byte offsets like in the implementation; element i of a     *)
(* TLA+ sequence is offset i-1.                                            *)
(*                                                                         *)
(*  1. QuoteStep / Scan / Index   bit-serial definition of the two bitmaps *)
(*  2. RankIn / SelectIn          rank/select on a sorted position list    *)
(*  3. Rows / RowSpans / FieldSpans   DEFINITIONAL split of the text       *)
(*  4. cursor machine (position; NextField NextRow GotoRow CurrentField    *)
(*     AtEnd) and the iteration protocols written over it (IterRows,       *)
(*     IterFields, GetRow, GetCol) -- model-checked equal to 3 (MC_Dsv)    *)
(***************************************************************************)
EXTENDS Integers, Sequences, SequencesExt, FiniteSets

None == -1

\* byte classes
O == 0      \* other
D == 1      \* delimiter
Q == 2      \* quote
N == 3      \* newline (record separator)
Classes == {O, D, Q, N}

ClassOf(b, d, q, n) == IF b = q THEN Q ELSE IF b = d THEN D ELSE IF b = n THEN N ELSE O

ClassesOf(bytes, d, q, n) == [i \in 1..Len(bytes) |-> ClassOf(bytes[i], d, q, n)]

(***************************************************************************)
(* 1. The index.  The quote state toggles ON the quote byte; a byte is a   *)
(* marker iff it is a delimiter or newline and the (toggled) state is      *)
(* outside; it is a newline mark iff additionally it is a newline.         *)
(***************************************************************************)
QuoteStep(inq, c) ==
  LET s == IF c = Q THEN 1 - inq ELSE inq
  IN [inq |-> s,
      m  |-> IF s = 0 /\ c \in {D, N} THEN 1 ELSE 0,
      nl |-> IF s = 0 /\ c = N THEN 1 ELSE 0]

Scan0 == [inq |-> 0, pos |-> 0, ms |-> <<>>, ns |-> <<>>]

ScanStep(acc, c) ==
  LET r == QuoteStep(acc.inq, c)
  IN [inq |-> r.inq, pos |-> acc.pos + 1,
      ms |-> IF r.m = 1 THEN Append(acc.ms, acc.pos) ELSE acc.ms,
      ns |-> IF r.nl = 1 THEN Append(acc.ns, acc.pos) ELSE acc.ns]

\* t: class string.  Result: final quote state, length, ascending marker / newline offsets
Scan(t) == FoldLeft(ScanStep, Scan0, t)

Markers(t) == Scan(t).ms
Newlines(t) == Scan(t).ns

\* the "index" every later operator works on
Index(t) == LET s == Scan(t) IN [len |-> Len(t), ms |-> s.ms, ns |-> s.ns, inq |-> s.inq]

(***************************************************************************)
(* 2. rank / select on an ascending sequence of positions                  *)
(***************************************************************************)
\* number of elements of ps that are < i   (binary search; ps ascending)
RECURSIVE CountBelow(_, _, _, _)
CountBelow(ps, i, lo, hi) ==        \* invariant: ps[1..lo] < i, ps[hi+1..] >= i
  IF lo >= hi THEN lo
  ELSE LET mid == (lo + hi + 1) \div 2
       IN IF ps[mid] < i THEN CountBelow(ps, i, mid, hi) ELSE CountBelow(ps, i, lo, mid - 1)

RankIn(ps, i) == CountBelow(ps, i, 0, Len(ps))

SelectIn(ps, k) == IF k >= 0 /\ k < Len(ps) THEN ps[k + 1] ELSE None

\* first element of ps that is >= p, None when there is none
NextAt(ps, p) == SelectIn(ps, RankIn(ps, p))

IsIn(ps, p) == LET k == RankIn(ps, p) IN k < Len(ps) /\ ps[k + 1] = p

IsNewlineAt(ix, p) == IsIn(ix.ns, p)
IsDelimAt(ix, p) == IsIn(ix.ms, p) /\ ~IsIn(ix.ns, p)

(***************************************************************************)
(* 3. Definitional split.  Pieces(lo, hi, seps): the k+1 half-open spans   *)
(* <<start, end>> into which the k separators cut [lo, hi).                *)
(*   rows  : cut the whole text at the newline marks; a final separator    *)
(*           starts no extra row; the empty text has no rows               *)
(*   fields: cut a row at its delimiter marks, every piece kept (empty     *)
(*           ones too, also at the end of the row)                         *)
(***************************************************************************)
Pieces(lo, hi, seps) ==
  [j \in 1..(Len(seps) + 1) |->
      << IF j = 1 THEN lo ELSE seps[j - 1] + 1,
         IF j = Len(seps) + 1 THEN hi ELSE seps[j] >>]

RowSpans(ix) ==
  IF ix.len = 0 THEN <<>>
  ELSE LET p == Pieces(0, ix.len, ix.ns)
           k == Len(p)
       IN IF k > 1 /\ p[k][1] = ix.len THEN SubSeq(p, 1, k - 1) ELSE p

Delims(ix) == SelectSeq(ix.ms, LAMBDA p : ~IsIn(ix.ns, p))

FieldSpans(ix, row) ==
  Pieces(row[1], row[2], SelectSeq(Delims(ix), LAMBDA p : row[1] <= p /\ p < row[2]))

\* sequence of rows, each a sequence of field spans <<start, end>>
Rows(ix) == LET rs == RowSpans(ix) IN [r \in 1..Len(rs) |-> FieldSpans(ix, rs[r])]

Raw(bytes, span) == SubSeq(bytes, span[1] + 1, span[2])

RawRow(bytes, row) == [i \in 1..Len(row) |-> Raw(bytes, row[i])]

RawRows(bytes, rows) == [r \in 1..Len(rows) |-> RawRow(bytes, rows[r])]

(***************************************************************************)
(* 4. Cursor machine: the state is one byte offset.  `ok` is what the      *)
(* moving operations report: 1 iff bytes remain at the new position.       *)
(***************************************************************************)
AtEnd(ix, p) == p >= ix.len

NextField(ix, p) ==
  IF AtEnd(ix, p) THEN [pos |-> p, ok |-> 0]
  ELSE LET m == NextAt(ix.ms, p)
       IN IF m # None THEN [pos |-> m + 1, ok |-> IF m + 1 < ix.len THEN 1 ELSE 0]
          ELSE [pos |-> ix.len, ok |-> 0]

NextRow(ix, p) ==
  IF AtEnd(ix, p) THEN [pos |-> p, ok |-> 0]
  ELSE LET m == NextAt(ix.ns, p)
       IN IF m # None THEN [pos |-> m + 1, ok |-> IF m + 1 < ix.len THEN 1 ELSE 0]
          ELSE [pos |-> ix.len, ok |-> 0]

GotoRow(ix, p, n) ==
  IF n = 0 THEN [pos |-> 0, ok |-> IF ix.len > 0 THEN 1 ELSE 0]
  ELSE LET s == SelectIn(ix.ns, n - 1)
       IN IF s # None THEN [pos |-> s + 1, ok |-> IF s + 1 < ix.len THEN 1 ELSE 0]
          ELSE [pos |-> p, ok |-> 0]

\* span of the field starting at p (empty at or past the end)
CurrentField(ix, p) ==
  IF AtEnd(ix, p) THEN <<p, p>>
  ELSE LET m == NextAt(ix.ms, p) IN <<p, IF m # None THEN m ELSE ix.len>>

\* An (empty) field starts AT the end of the text exactly when the last byte is a
\* delimiter mark: "a," has the fields "a" and "".
TrailingField(ix, p) == p = ix.len /\ p > 0 /\ IsDelimAt(ix, p - 1)

HasField(ix, p) == p < ix.len \/ TrailingField(ix, p)

\* DsvFields: the fields of the row whose first field starts at p
RECURSIVE IterFields(_, _)
IterFields(ix, p) ==
  LET f == CurrentField(ix, p)
      e == f[2]
  IN IF e >= ix.len \/ IsNewlineAt(ix, e) THEN <<f>>
     ELSE <<f>> \o IterFields(ix, NextField(ix, p).pos)

\* DsvRows: first row at 0 unless the text is empty, then NextRow while it reports ok
RECURSIVE IterRowsFrom(_, _)
IterRowsFrom(ix, p) ==
  LET r == NextRow(ix, p)
  IN <<IterFields(ix, p)>> \o (IF r.ok = 1 THEN IterRowsFrom(ix, r.pos) ELSE <<>>)

IterRows(ix) == IF AtEnd(ix, 0) THEN <<>> ELSE IterRowsFrom(ix, 0)

\* Dsv::row(n): start offset of row n, None when there is no such row
RowStart(ix, n) == LET g == GotoRow(ix, 0, n) IN IF g.ok = 1 THEN g.pos ELSE None

\* DsvRow::get(i) for the row starting at p: walk i fields, never past the row's end
RECURSIVE GetCol(_, _, _)
GetCol(ix, p, i) ==
  IF i = 0 THEN CurrentField(ix, p)
  ELSE LET e == CurrentField(ix, p)[2]
       IN IF e >= ix.len \/ IsNewlineAt(ix, e) THEN <<None, None>>
          ELSE GetCol(ix, NextField(ix, p).pos, i - 1)

NoSpan == <<None, None>>

(***************************************************************************)
(* Statements checked by MC_Dsv on every class string of bounded length    *)
(***************************************************************************)
\* iteration and random access agree with the definitional split
IterationIsSplit(ix) ==
  LET rows == Rows(ix)
  IN /\ IterRows(ix) = rows
     /\ \A n \in 0..(Len(rows) + 1) :
          LET s == RowStart(ix, n)
          IN IF n < Len(rows)
             THEN /\ s = rows[n + 1][1][1]
                  /\ IterFields(ix, s) = rows[n + 1]
                  /\ \A i \in 0..(Len(rows[n + 1]) + 1) :
                       GetCol(ix, s, i) = (IF i < Len(rows[n + 1]) THEN rows[n + 1][i + 1] ELSE NoSpan)
             ELSE s = None

\* appending a record separator to a non-empty text with balanced quotes that does not
\* end with one changes neither the rows nor their fields (spans, hence raw bytes)
AppendLemma(t) ==
  LET ix == Index(t)
  IN (Len(t) > 0 /\ ix.inq = 0 /\ t[Len(t)] # N) => Rows(Index(Append(t, N))) = Rows(ix)

\* every row has at least one field, fields tile the row, rows tile the text
SplitShape(ix) ==
  LET rows == Rows(ix)
  IN /\ \A r \in 1..Len(rows) :
          /\ Len(rows[r]) >= 1
          /\ \A i \in 1..Len(rows[r]) : rows[r][i][1] <= rows[r][i][2]
          /\ \A i \in 1..(Len(rows[r]) - 1) : rows[r][i][2] + 1 = rows[r][i + 1][1]
     /\ (Len(rows) > 0 => rows[1][1][1] = 0)
     /\ \A r \in 1..(Len(rows) - 1) : rows[r][Len(rows[r])][2] + 1 = rows[r + 1][1][1]
=============================================================================
