----------------------------- MODULE Gen_YqAgree -----------------------------
(* C26 generator: a data tree (TreeGen) plus one presentation-blind program.   *)
EXTENDS TreeGen, Json, TLC

CONSTANT Programs

VARIABLE prog
vars == <<stack, nodes, done, prog>>

Init == TreeInit /\ prog = ""
Finish == /\ Complete
          /\ \E p \in Programs : prog' = p
          /\ done' = TRUE /\ UNCHANGED <<stack, nodes>>
Next == \/ (AddLeaf /\ UNCHANGED prog) \/ (Open /\ UNCHANGED prog) \/ (Close /\ UNCHANGED prog) \/ Finish
Spec == Init /\ [][Next]_vars

LeavesSmall == {[t |-> "str", v |-> "a"], [t |-> "str", v |-> "true"], [t |-> "str", v |-> "x: y"], [t |-> "int", v |-> 12], [t |-> "bool", v |-> FALSE], [t |-> "null"]}
LeavesFull == {[t |-> "str", v |-> "a"],
   [t |-> "str", v |-> ""],
   [t |-> "str", v |-> "true"],
   [t |-> "str", v |-> "null"],
   [t |-> "str", v |-> "12"],
   [t |-> "str", v |-> "~"],
   [t |-> "str", v |-> "a b"],
   [t |-> "str", v |-> "x: y"],
   [t |-> "str", v |-> "- z"],
   [t |-> "str", v |-> "#c"],
   [t |-> "str", v |-> " lead"],
   [t |-> "str", v |-> "trail "],
   [t |-> "str", v |-> "@E9@"],
   [t |-> "str", v |-> "l1\nl2"],
   [t |-> "str", v |-> "'q'"],
   [t |-> "str", v |-> "\"dq\""],
   [t |-> "str", v |-> "0x1F"],
   [t |-> "str", v |-> "1e3"],
   [t |-> "str", v |-> "no"],
   [t |-> "str", v |-> "[x]"],
   [t |-> "str", v |-> "{y}"],
   [t |-> "str", v |-> "*s"],
   [t |-> "str", v |-> "&t"],
   [t |-> "str", v |-> "!u"],
   [t |-> "str", v |-> "|"],
   [t |-> "str", v |-> ">"],
   [t |-> "str", v |-> "%v"],
   [t |-> "str", v |-> "@w"],
   [t |-> "str", v |-> "?"],
   [t |-> "str", v |-> ":"],
   [t |-> "str", v |-> "-"],
   [t |-> "str", v |-> "yes"],
   [t |-> "str", v |-> "Null"],
   [t |-> "str", v |-> "1.0"],
   [t |-> "str", v |-> "007"],
   [t |-> "int", v |-> 0],
   [t |-> "int", v |-> 1],
   [t |-> "int", v |-> -7],
   [t |-> "int", v |-> 123456789],
   [t |-> "bool", v |-> TRUE],
   [t |-> "bool", v |-> FALSE],
   [t |-> "null"]}
KeysSmall == {"k", "n"}
KeysFull == {"k", "n", "k k", "@E9@", "true", "1"}
ProgSmall == {".", ".k", ".[0]", ".[]", "keys", "length", "[..]", "tojson", "to_entries"}
ProgFull == {".",
   ".k",
   ".[\"k k\"]",
   ".[0]",
   ".[1]",
   ".[]",
   "keys",
   "length",
   "type",
   "to_entries",
   "[.[]]",
   "[..]",
   "tojson",
   "[paths]",
   "map(type)",
   ".k.n",
   ".[0].k",
   "[.[] | length]",
   "map(.)",
   "has(\"k\")?",
   "[.. | scalars]",
   "first(.[])",
   ".[-1]",
   "keys_unsorted",
   "add",
   "sort",
   "tostring",
   "[.[] | tostring]",
   "del(.k)",
   "to_entries | from_entries",
   "with_entries(.)",
   ".[1:]",
   "map(select(type == \"string\"))",
   "any",
   "all",
   "min",
   "max",
   "unique",
   "reverse",
   "flatten",
   "join(\",\")"}

Emit == done => PrintT(<<"REPLAY", ToJson([tree |-> Root, prog |-> prog])>>)
=============================================================================
