---------------------------- MODULE Trace_BitVec ----------------------------
(* Trace validation for C01: every recorded answer of the real BitVec (and   *)
(* of the RankSelect trait) must equal the run-length evaluation (BitRuns,   *)
(* itself checked against BitSeq) on the first `len` bits of the recorded    *)
(* words.  The events carry no configuration-dependent clause: rate and cfg  *)
(* are logged but never consulted -- that IS "answers do not depend on the   *)
(* sample rate or popcount strategy".                                        *)
(*   build: rl (all word bits, run-length), len, rate, cfg,                  *)
(*          rlen/ones/zeros/empty = len()/count_ones()/count_zeros()/is_empty *)
(*   q:     op, a (argument; -1 = any integer >= 2^30), r (result; -1 None,  *)
(*          -2 panic)                                                        *)
EXTENDS TraceBase, BitRuns

VARIABLES l, tab, len

vars == <<l, tab, len>>

Panic == -2

Expected(op, a) ==
  CASE op = "rank1" -> RRank1(tab, len, a)
    [] op = "rank0" -> RRank0(tab, len, a)
    [] op = "select1" -> IF a < 0 THEN None ELSE RSelect1(tab, len, a)
    [] op = "select0" -> IF a < 0 THEN None ELSE RSelect0(tab, len, a)
    [] op = "get" -> IF a < 0 \/ a >= len THEN Panic ELSE RGet(tab, a)   \* documented contract
    [] OTHER -> -99

Build(e) ==
  /\ e.e = "build"
  /\ tab' = Tab(e.rl)
  /\ len' = e.len
  /\ e.len <= tab'.tot
  /\ e.rlen = e.len
  /\ e.ones = RCountOnes(tab', e.len)
  /\ e.zeros = RCountZeros(tab', e.len)
  /\ e.empty = (IF e.len = 0 THEN 1 ELSE 0)

Query(e) ==
  /\ e.e = "q"
  /\ e.r = Expected(e.op, e.a)
  /\ UNCHANGED <<tab, len>>

Init == l = 1 /\ tab = Tab(<<>>) /\ len = 0

Next == /\ l <= NRec
        /\ LET e == Rec[l] IN Build(e) \/ Query(e)
        /\ l' = l + 1

Spec == Init /\ [][Next]_vars
=============================================================================
