----------------------------- MODULE Scan_JqCli -----------------------------
(* Development / pre-pass aid for C24: list ALL events on which the strict     *)
(* reference semantics and the observation differ, without stopping.          *)
EXTENDS TraceBase, JqCore
VARIABLE l
ObsEnd(end) ==
  CASE end.k = "ok" -> OK
    [] end.k = "err" -> IF end.v.t = "str" THEN MkEnd("err", end.v, "", 0)
                        ELSE MkEnd("err", Str(ToJsonCP(end.v)), "", 1)
    [] OTHER -> end
Chk(e) ==
  LET r == Eval(e.ast, Norm(e.in), StrictEnv)
  IN IF r.end.k \in {"skip", "brk", "halt"} \/ (r.end.k = "err" /\ HasAtom(r.end.v))
     THEN PrintT(<<"JQSKIP", l>>)
     ELSE IF (IF e.full = 1 THEN e.oe.out = r.out /\ e.oe.end = ObsEnd(r.end) ELSE e.oe.end = ObsEnd(r.end))
          THEN TRUE ELSE PrintT(<<"MIS", l>>)
Init == l = 1
Next == l <= NRec /\ Chk(Rec[l]) /\ l' = l + 1
Spec == Init /\ [][Next]_l
=============================================================================
