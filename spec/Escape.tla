------------------------------- MODULE Escape -------------------------------
(***************************************************************************)
(* C09 -- JSON string-body escaping under the four conventions of          *)
(* src/jq/escape.rs (jq, jq --ascii-output, yq, yq ASCII mode) and the      *)
(* escape scanner of src/util/simd/escape.rs.                               *)
(*                                                                         *)
(*  MustEscape(c, cp)   the REQUIRED escape set of convention c             *)
(*  Form(c, cp)         the canonical written form of one code point        *)
(*  Render(form)        its characters                                      *)
(*  DecodeBody(chars)   RFC 8259 reading of a string body: the sequence of  *)
(*                      <<escaped?, code point>> it denotes, or Invalid     *)
(*  FirstEscapable      the scanner contract                                *)
(*                                                                         *)
(* Code points and characters are integers; a string is a sequence of code *)
(* points.  The property is stated through DecodeBody, i.e. on what a body *)
(* MEANS, so it does not depend on which of several legal spellings of an  *)
(* escape (\b or \u0008, hex digit case) a writer picks.                    *)
(***************************************************************************)
EXTENDS Integers, Sequences, FiniteSets, SequencesExt

Conventions == {"jq", "jqAscii", "yq", "yqAscii"}
IsJq(c) == c \in {"jq", "jqAscii"}
IsAscii(c) == c \in {"jqAscii", "yqAscii"}

MaxCp == 1114111                                   \* 0x10FFFF
IsSurrogate(cp) == 55296 <= cp /\ cp <= 57343       \* D800..DFFF
IsScalar(cp) == 0 <= cp /\ cp <= MaxCp /\ ~IsSurrogate(cp)

QUOTE == 34
BSLASH == 92
DEL == 127

\* the set each convention REQUIRES to be escaped (and nothing else may be)
MustEscape(c, cp) ==
  \/ cp < 32
  \/ cp = QUOTE
  \/ cp = BSLASH
  \/ (IsJq(c) /\ cp = DEL)
  \/ (IsAscii(c) /\ cp > 127)

\* The code points at which MustEscape(c, .) changes value (cp differs from cp - 1).
\* MC_Escape checks that this is exactly the set of change points over all scalar values;
\* it lets a trace validate a long interval without visiting every code point.
Steps(c) ==
  {32, 34, 35, 92, 93} \cup (IF IsJq(c) THEN {127} ELSE {})
                       \cup (IF IsJq(c) /\ ~IsAscii(c) THEN {128} ELSE {})
                       \cup (IF ~IsJq(c) /\ IsAscii(c) THEN {128} ELSE {})
ConstantOn(c, lo, hi) == \A b \in Steps(c) : ~(lo < b /\ b <= hi)

(****************************** written forms ******************************)
\* a form is <<kind, a, b>>:
\*   <<"lit", cp, 0>>   <<"short", letter, 0>>   <<"u4", h, 0>>   <<"pair", hi, lo>>
Lit(cp) == <<"lit", cp, 0>>
Short(ch) == <<"short", ch, 0>>
U4(h) == <<"u4", h, 0>>
Pair(hi, lo) == <<"pair", hi, lo>>
IsLit(f) == f[1] = "lit"

\* letter of the two-character escape of cp in convention c, or -1
ShortLetter(c, cp) ==
  CASE cp = QUOTE -> QUOTE
    [] cp = BSLASH -> BSLASH
    [] cp = 10 -> 110            \* \n
    [] cp = 13 -> 114            \* \r
    [] cp = 9 -> 116             \* \t
    [] cp = 8 /\ IsJq(c) -> 98   \* \b   (jq only; yq writes \u0008)
    [] cp = 12 /\ IsJq(c) -> 102 \* \f   (jq only; yq writes \u000c)
    [] OTHER -> -1

Form(c, cp) ==
  IF ~MustEscape(c, cp) THEN Lit(cp)
  ELSE IF ShortLetter(c, cp) >= 0 THEN Short(ShortLetter(c, cp))
  ELSE IF cp <= 65535 THEN U4(cp)
  ELSE LET adj == cp - 65536
       IN Pair(55296 + (adj \div 1024), 56320 + (adj % 1024))

\* value denoted by a form (the arithmetic reading)
ShortValue(ch) ==
  CASE ch = 34 -> 34 [] ch = 92 -> 92 [] ch = 47 -> 47 [] ch = 98 -> 8 [] ch = 102 -> 12
    [] ch = 110 -> 10 [] ch = 114 -> 13 [] ch = 116 -> 9 [] OTHER -> -1
Decode(f) ==
  CASE f[1] = "lit" -> f[2]
    [] f[1] = "short" -> ShortValue(f[2])
    [] f[1] = "u4" -> IF IsSurrogate(f[2]) THEN -1 ELSE f[2]
    [] f[1] = "pair" -> IF 55296 <= f[2] /\ f[2] <= 56319 /\ 56320 <= f[3] /\ f[3] <= 57343
                        THEN 65536 + (f[2] - 55296) * 1024 + (f[3] - 56320) ELSE -1

HexDigit(d) == IF d < 10 THEN 48 + d ELSE 87 + d                 \* lower case
U4Chars(h) == <<BSLASH, 117, HexDigit(h \div 4096), HexDigit((h \div 256) % 16),
                HexDigit((h \div 16) % 16), HexDigit(h % 16)>>
Render(f) ==
  CASE f[1] = "lit" -> <<f[2]>>
    [] f[1] = "short" -> <<BSLASH, f[2]>>
    [] f[1] = "u4" -> U4Chars(f[2])
    [] f[1] = "pair" -> U4Chars(f[2]) \o U4Chars(f[3])

(************************ reading a string body back ***********************)
HexVal(ch) ==
  IF 48 <= ch /\ ch <= 57 THEN ch - 48
  ELSE IF 97 <= ch /\ ch <= 102 THEN ch - 87
  ELSE IF 65 <= ch /\ ch <= 70 THEN ch - 55
  ELSE -1

Invalid == <<<<-1, -1>>>>

\* lexical pass: code units <<escaped, value>> (a \uXXXX escape is one unit, surrogates
\* not yet combined).  m: "n" normal, "e" after backslash, "u" inside \uXXXX.
LexStep(st, ch) ==
  IF ~st.ok THEN st
  ELSE CASE st.m = "n" ->
              IF ch = BSLASH THEN [st EXCEPT !.m = "e"]
              ELSE IF ch = QUOTE \/ ch < 32 THEN [st EXCEPT !.ok = FALSE]     \* illegal raw character
              ELSE [st EXCEPT !.u = Append(@, <<0, ch>>)]
         [] st.m = "e" ->
              IF ch = 117 THEN [st EXCEPT !.m = "u", !.k = 0, !.v = 0]
              ELSE IF ShortValue(ch) >= 0 THEN [st EXCEPT !.m = "n", !.u = Append(@, <<1, ShortValue(ch)>>)]
              ELSE [st EXCEPT !.ok = FALSE]
         [] st.m = "u" ->
              IF HexVal(ch) < 0 THEN [st EXCEPT !.ok = FALSE]
              ELSE IF st.k = 3 THEN [st EXCEPT !.m = "n", !.u = Append(@, <<1, st.v * 16 + HexVal(ch)>>)]
              ELSE [st EXCEPT !.k = @ + 1, !.v = @ * 16 + HexVal(ch)]

Lex(chars) == FoldLeft(LexStep, [m |-> "n", k |-> 0, v |-> 0, u |-> <<>>, ok |-> TRUE], chars)

\* second pass: an escaped high surrogate must be followed by an escaped low surrogate
IsHi(x) == 55296 <= x /\ x <= 56319
IsLo(x) == 56320 <= x /\ x <= 57343
CombStep(st, unit) ==
  IF ~st.ok THEN st
  ELSE IF st.hi >= 0 THEN
         IF unit[1] = 1 /\ IsLo(unit[2])
         THEN [st EXCEPT !.hi = -1, !.out = Append(@, <<1, 65536 + (st.hi - 55296) * 1024 + (unit[2] - 56320)>>)]
         ELSE [st EXCEPT !.ok = FALSE]
       ELSE IF unit[1] = 1 /\ IsHi(unit[2]) THEN [st EXCEPT !.hi = unit[2]]
       ELSE IF IsSurrogate(unit[2]) THEN [st EXCEPT !.ok = FALSE]
       ELSE [st EXCEPT !.out = Append(@, unit)]

DecodeBody(chars) ==
  LET lx == Lex(chars)
  IN IF ~lx.ok \/ lx.m # "n" THEN Invalid
     ELSE LET cb == FoldLeft(CombStep, [hi |-> -1, out |-> <<>>, ok |-> TRUE], lx.u)
          IN IF ~cb.ok \/ cb.hi >= 0 THEN Invalid ELSE cb.out

\* what the body of string s must denote under convention c
Expected(c, s) == [i \in 1..Len(s) |-> <<IF MustEscape(c, s[i]) THEN 1 ELSE 0, s[i]>>]

\* THE PROPERTY for one string and one written body
BodyOK(c, s, body) == DecodeBody(body) = Expected(c, s)

\* canonical body
Body(c, s) == FoldLeft(LAMBDA acc, cp : acc \o Render(Form(c, cp)), <<>>, s)

(******************************* the scanner *******************************)
Escapable(byte) == byte = QUOTE \/ byte = BSLASH \/ byte < 32

\* min index (0-based) >= start of an escapable byte, else the length
FirstEscapable(bytes, start) ==
  LET C == {i \in start..(Len(bytes) - 1) : Escapable(bytes[i + 1])}
  IN IF C = {} THEN Len(bytes) ELSE CHOOSE m \in C : \A y \in C : m <= y

\* the same for every start at once: T[i+1] = FirstEscapable(bytes, i) for i \in 0..Len(bytes),
\* built right to left (MC_Escape checks it against the definition)
ScanTable(bytes) ==
  LET n == Len(bytes)
  IN FoldLeft(LAMBDA acc, j : LET i == n - j
                              IN <<IF Escapable(bytes[i + 1]) THEN i ELSE acc[1]>> \o acc,
              <<n>>, [j \in 1..n |-> j])
FirstEscapableT(T, n, start) == IF start >= n THEN n ELSE T[start + 1]

=============================================================================
