CONSTANTS MaxInputs = 3  MaxOuts = 2  Codes = {0, 3, 5}
SPECIFICATION Spec
INVARIANT Emit
INVARIANT Laws
CHECK_DEADLOCK FALSE
