CONSTANTS MaxLen = 5  Reps = {91, 93, 44, 49, 34, 92, 32}  PadBytes = {32, 10, 0, 255, 47, 64, 96}  MaxPad = 2
SPECIFICATION Spec
INVARIANT Inv
CHECK_DEADLOCK FALSE
