CONSTANTS DELIM = 44  MaxArr = 3  MaxStr = 3  Alphabet = {44, 34, 10, 97}
SPECIFICATION Spec
INVARIANT Inv
CHECK_DEADLOCK FALSE
