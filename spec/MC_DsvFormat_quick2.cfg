CONSTANTS DELIM = 44  MaxArr = 3  MaxStr = 2  Alphabet = {44, 34, 13, 10, 32, 97}
SPECIFICATION Spec
INVARIANT Inv
CHECK_DEADLOCK FALSE
