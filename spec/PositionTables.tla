--------------------------- MODULE PositionTables ---------------------------
(***************************************************************************)
(* C17 -- abstract specification of the YAML position tables               *)
(* (YamlIndex::{text_pos_by_open_idx, text_end_pos_by_open_idx,            *)
(*  bp_to_text_pos, bp_to_text_end_pos} over OpenPositions / EndPositions).*)
(*                                                                         *)
(* The recorded data are two sequences with one entry per node (BP open),  *)
(* node i of the implementation (0-based) is element i+1 here:             *)
(*    starts[i]  the node's start position                                 *)
(*    ends[i]    the node's end position, 0 = "no end recorded"            *)
(*                                                                         *)
(* Answers are FUNCTIONS of (starts, ends, i): the abstract machine below  *)
(* has no state besides the recorded tables, so "answers do not depend on  *)
(* the order or repetition of earlier lookups" is true of it by            *)
(* construction; an implementation refines it iff each of its answers, in  *)
(* every lookup history, is one the abstract machine can give.             *)
(*                                                                         *)
(*   Start(i)  = starts[i]                         (None outside 0..n-1)   *)
(*   End(i)    = ends[i]             if ends[i] # 0                        *)
(*             = None, or an end recorded for an EARLIER node; when the    *)
(*               producer kept its invariant for node i (the most recently *)
(*               recorded end is at or before the node's start -- the      *)
(*               debug assertion in parser.rs write_bp_open_seq_item) the  *)
(*               inherited end must lie at or before starts[i].            *)
(*                                                                         *)
(* Interpretation decision (no false alarms): the statement's clause "that *)
(* lies at or before its start" is a consequence of the producer invariant *)
(* documented in end_positions.rs; for tables that break that invariant    *)
(* (possible through YamlIndex::from_parts) only "None or an earlier       *)
(* node's recorded end" is demanded.                                       *)
(***************************************************************************)
EXTENDS Integers, Sequences, FiniteSets, BitSeq      \* BitSeq: None == -1

\* ----- answers as functions of the recorded tables -------------------------------------

InRange(seq, i) == i >= 0 /\ i < Len(seq)

Start(starts, i) == IF InRange(starts, i) THEN starts[i + 1] ELSE None

\* the end most recently recorded for a node before node i (0 = none yet)
RECURSIVE LastRecordedBefore(_, _)
LastRecordedBefore(ends, i) ==
  IF i <= 0 THEN 0
  ELSE IF ends[i] # 0 THEN ends[i]                   \* element i = node i-1
  ELSE LastRecordedBefore(ends, i - 1)

\* r is an end recorded for a node before node i
RecordedEarlier(ends, i, r) == r # 0 /\ \E d \in 1..i : ends[i + 1 - d] = r

ProducerInvAt(starts, ends, i) ==
  InRange(starts, i) /\ LastRecordedBefore(ends, i) <= starts[i + 1]

\* is r an admissible answer to End(i)?
EndOk(starts, ends, i, r) ==
  IF ~InRange(ends, i) THEN r = None
  ELSE IF ends[i + 1] # 0 THEN r = ends[i + 1]
  ELSE \/ r = None
       \/ /\ RecordedEarlier(ends, i, r)
          /\ ProducerInvAt(starts, ends, i) => r <= starts[i + 1]

\* the set form (used by the model checker on small instances)
EndAnswers(starts, ends, i) ==
  IF ~InRange(ends, i) THEN {None}
  ELSE IF ends[i + 1] # 0 THEN {ends[i + 1]}
  ELSE {None} \cup {r \in {ends[j] : j \in 1..i} \ {0} :
                       ProducerInvAt(starts, ends, i) => r <= starts[i + 1]}

\* ----- the abstract machine ------------------------------------------------------------
\* phase "record": nodes are appended; phase "look": lookups in any order, any number of
\* times, each leaving the machine exactly as it was (out is the observation only).

CONSTANTS MaxPos,        \* positions are 0..MaxPos
          MaxNodes,      \* at most this many nodes
          Indices        \* lookup arguments tried (includes out-of-range ones)

VARIABLES starts, ends, phase, out

absvars == <<starts, ends, phase, out>>

NoOut == <<"-", 0, 0>>

AbsInit == starts = <<>> /\ ends = <<>> /\ phase = "record" /\ out = NoOut

Record == /\ phase = "record"
          /\ Len(starts) < MaxNodes
          /\ \E s \in 0..MaxPos, e \in 0..MaxPos :
                starts' = Append(starts, s) /\ ends' = Append(ends, e)
          /\ UNCHANGED <<phase, out>>

\* the tables may also be handed over as a whole (from_parts): any pair of equally long
\* sequences is reachable through Record, so Seal alone suffices
Seal == phase = "record" /\ phase' = "look" /\ UNCHANGED <<starts, ends, out>>

LookupStart(i) == /\ phase = "look"
                  /\ out' = <<"start", i, Start(starts, i)>>
                  /\ UNCHANGED <<starts, ends, phase>>

LookupEnd(i) == /\ phase = "look"
                /\ \E r \in EndAnswers(starts, ends, i) : out' = <<"end", i, r>>
                /\ UNCHANGED <<starts, ends, phase>>

AbsNext == Record \/ Seal \/ \E i \in Indices : LookupStart(i) \/ LookupEnd(i)

AbsSpec == AbsInit /\ [][AbsNext]_absvars

\* EndOk (predicate form used by trace validation) and EndAnswers (set form) agree
EndFormsAgree ==
  \A i \in Indices, r \in (-1)..MaxPos :
     EndOk(starts, ends, i, r) <=> r \in EndAnswers(starts, ends, i)
=============================================================================
