CONSTANT Cap = 128
SPECIFICATION Spec
POSTCONDITION Verdict
CHECK_DEADLOCK FALSE
