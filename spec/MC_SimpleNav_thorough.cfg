CONSTANTS MaxLen = 7  Reps = {123, 93, 58, 34, 92, 49}
SPECIFICATION Spec
INVARIANT Inv
CHECK_DEADLOCK FALSE
