------------------------- MODULE MC_YamlPresentation -------------------------
(* Model-checks the presentation grammar's own invariants (alias targets     *)
(* precede use and never enclose it; flow heredity; a style is chosen only   *)
(* where the palette entry declares it admissible; keys are distinct         *)
(* scalars; closed collections are well-formed; Val is alias-free) on every  *)
(* reachable state of a bounded instance.                                    *)
EXTENDS YamlPresentation

Inv == GrammarInv
=============================================================================
