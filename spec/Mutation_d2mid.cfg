CONSTANTS SeedNames = {"yamlflow", "dsv"}  MaxSteps = 2  SwapSpan = 1
SPECIFICATION Spec
INVARIANT Emit
CHECK_DEADLOCK FALSE
