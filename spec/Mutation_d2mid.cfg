CONSTANTS SeedNames = {"yamlflow", "yamlmerge", "dsv"}  MaxSteps = 2  SwapSpan = 2
SPECIFICATION Spec
INVARIANT Emit
CHECK_DEADLOCK FALSE
