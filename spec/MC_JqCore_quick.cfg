CONSTANTS Deep = FALSE  Small = TRUE
SPECIFICATION Spec
INVARIANT Inv
CHECK_DEADLOCK FALSE
