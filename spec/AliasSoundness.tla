-------------------------- MODULE AliasSoundness --------------------------
(* The alias-soundness automaton of C15 over the node events of a printed  *)
(* YAML stream in text order.  State: def, the set of <<name, value>>      *)
(* pairs in force in the current document (at most one per name).          *)
(*   DocStart            : def' = {}                                       *)
(*   Anchor(name, value) : defines / shadows                               *)
(*   Alias(name, value)  : ENABLED only if name is defined earlier in the  *)
(*                         same document with an equal value               *)
ADocStart(def) == {}
AAnchor(def, name, v) == {d \in def : d[1] # name} \cup {<<name, v>>}
AliasEnabled(def, name, v) == <<name, v>> \in def
=============================================================================
