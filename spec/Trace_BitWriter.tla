--------------------------- MODULE Trace_BitWriter ---------------------------
(* Trace validation of the real json::BitWriter (W = 64) against the abstract  *)
(* "append bits" machine.  The written bits are kept as a normalised           *)
(* run-length list.  Events:                                                   *)
(*   new                                                                       *)
(*   op: op = "bit" (v = 0/1) | "bits" (ones = set-bit positions of the u64,   *)
(*       c = count) | "zeros" (c = count);  len = len() after, empty = 0/1     *)
(*   finish: rl = run-length of the returned words, nwords                     *)
EXTENDS TraceBase, SequencesExt

VARIABLES l, rl, n

vars == <<l, rl, n>>

\* append a run <<b, k>> to a normalised run list
Push(r, b, k) ==
  IF k = 0 THEN r
  ELSE IF Len(r) > 0 /\ r[Len(r)][1] = b THEN [r EXCEPT ![Len(r)] = <<b, r[Len(r)][2] + k>>]
  ELSE Append(r, <<b, k>>)

\* runs of the lowest c bits of the word whose set-bit positions are `ones` (ascending)
BitAt(ones, p) == IF \E i \in 1..Len(ones) : ones[i] = p THEN 1 ELSE 0
PushBits(r, ones, c) ==
  FoldLeft(LAMBDA acc, p : Push(acc, BitAt(ones, p - 1), 1), r, [p \in 1..c |-> p])

New(e) == e.e = "new" /\ rl' = <<>> /\ n' = 0

Op(e) ==
  /\ e.e = "op"
  /\ \/ e.op = "bit" /\ rl' = Push(rl, e.v, 1) /\ n' = n + 1
     \/ e.op = "bits" /\ rl' = PushBits(rl, e.ones, e.c) /\ n' = n + e.c
     \/ e.op = "zeros" /\ rl' = Push(rl, 0, e.c) /\ n' = n + e.c
  /\ e.len = n'
  /\ e.empty = (IF n' = 0 THEN 1 ELSE 0)

Finish(e) ==
  /\ e.e = "finish"
  /\ e.nwords = (n + 63) \div 64
  /\ e.rl = Push(rl, 0, (64 - (n % 64)) % 64)
  /\ UNCHANGED <<rl, n>>

Init == l = 1 /\ rl = <<>> /\ n = 0
Next == /\ l <= NRec
        /\ LET e == Rec[l] IN New(e) \/ Op(e) \/ Finish(e)
        /\ l' = l + 1
Spec == Init /\ [][Next]_vars
=============================================================================
