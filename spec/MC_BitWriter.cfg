CONSTANTS W = 4  MaxBits = 9
SPECIFICATION Spec
INVARIANT Refines
CHECK_DEADLOCK FALSE
