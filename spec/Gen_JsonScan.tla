---------------------------- MODULE Gen_JsonScan ----------------------------
(* spec -> impl generator for C05.  TLC enumerates                            *)
(*   kind 0: every class string of length <= MaxLen (classes 1..7 in the      *)
(*           order of JsonScan!ClassNames); each is instantiated NVar times   *)
(*           with concrete bytes of the class, rotating through EdgeBytes     *)
(*           (range edges of the SIMD range tricks and their neighbours);     *)
(*   kind 1: every single byte value 0..255 in every state (reached by the    *)
(*           shortest prefix: "", `"`, `"\`, `1`), followed by a probe suffix *)
(*           that makes the state after the byte visible in IB/BP as well;    *)
(* and prints, for each, the bytes and the semi-indexes JsonScan predicts for *)
(* both encodings.  The harness embeds each at offsets 0..70 (MC_JsonScan's   *)
(* PadLemma) and runs every engine.                                           *)
EXTENDS JsonScan, TLC, Json

CONSTANTS MaxLen, NVar

VARIABLES kind, cs, sb

vars == <<kind, cs, sb>>

EdgeBytes == <<
  <<91, 123>>,                                          \* open
  <<93, 125>>,                                          \* close
  <<44, 58>>,                                           \* delim
  <<48, 57, 65, 90, 97, 122, 43, 45, 46, 101, 77>>,     \* value: 0 9 A Z a z + - . e M
  <<34>>,                                               \* quote
  <<92>>,                                               \* backslash
  <<32, 47, 64, 96, 59, 124, 10, 0, 128, 255, 42, 126, 94, 127, 33, 35, 60, 95, 9, 13, 251, 219, 220, 162>>  \* other
>>

ASSUME \A k \in 1..7 : \A j \in 1..Len(EdgeBytes[k]) : ClassOf(EdgeBytes[k][j]) = ClassNames[k]

Inst(v) == [i \in 1..Len(cs) |->
              LET eb == EdgeBytes[cs[i]] IN eb[((v * 5 + i * 3 + v * i) % Len(eb)) + 1]]

Prefix(s) == CASE s = InJson -> <<>> [] s = InString -> <<34>> [] s = InEscape -> <<34, 92>> [] OTHER -> <<49>>

\* probe after the byte under test: a value char, a quote, a bracket, a quote
Probe == <<97, 34, 91, 34, 93>>

Pred(r) == [s |-> r.s, ib |-> r.ib, bp |-> r.bp, bpn |-> r.bpn]

Behaviour(bytes, tag) ==
  [cls |-> tag, bytes |-> bytes, std |-> Pred(RunStd(bytes)), simple |-> Pred(RunSimple(bytes))]

Init == \/ kind = 0 /\ cs = <<>> /\ sb = <<0, 0>>
        \/ kind = 1 /\ cs = <<>> /\ sb \in (StdStates \X Bytes)

Next == /\ kind = 0
        /\ Len(cs) < MaxLen
        /\ \E k \in 1..7 : cs' = Append(cs, k)
        /\ UNCHANGED <<kind, sb>>

Spec == Init /\ [][Next]_vars

Emit ==
  IF kind = 0
  THEN \A v \in 0..(IF Len(cs) = 0 THEN 0 ELSE NVar - 1) :
         PrintT(<<"REPLAY", ToJson(Behaviour(Inst(v), cs))>>)
  ELSE /\ PrintT(<<"REPLAY", ToJson(Behaviour(Prefix(sb[1]) \o <<sb[2]>>, <<100 + sb[1], sb[2]>>))>>)
       /\ PrintT(<<"REPLAY", ToJson(Behaviour(Prefix(sb[1]) \o <<sb[2]>> \o Probe, <<200 + sb[1], sb[2]>>))>>)
=============================================================================
