--------------------------- MODULE Trace_IbIndex ---------------------------
(* Trace validation for C07 (and, on rebuilt indexes, C31): every recorded   *)
(* ib_rank1 / ib_select1 / ib_select1_from / text_position /                 *)
(* cursor_at_offset / cursor_at_position answer of the real JsonIndex must   *)
(* equal the IbIndex definitions evaluated on the interest bits the index    *)
(* holds (logged as the sorted list of set-bit positions of ALL its words).  *)
(* The hint of select_from is logged and never consulted.                    *)
(* The vectors are large, so they are not state: `b` indexes the build       *)
(* record.  Arguments -1 stand for integers >= 2^30.                         *)
EXTENDS TraceBase, IbIndex

VARIABLES l, b

vars == <<l, b>>

B == Rec[b]

Sorted(s) == \A i \in 1..(Len(s) - 1) : s[i] < s[i + 1]

Build(e) ==
  /\ e.e = "build"
  /\ b' = l
  /\ e.r = Len(e.ones)
  /\ Sorted(e.ones)
  /\ (Len(e.ones) > 0 => e.ones[1] >= 0 /\ e.ones[Len(e.ones)] < 64 * e.words)
  /\ (e.strays = 0 => e.len = e.tlen /\ (Len(e.ones) > 0 => e.ones[Len(e.ones)] < e.len))
  /\ Sorted(e.ls) /\ e.ls[1] = 0
  /\ (Has(e, "bytes") => Len(e.bytes) = e.tlen /\ LineStarts(e.bytes) = e.ls)
  \* valid documents: node n starts exactly at the n-th interest bit
  /\ (Has(e, "starts") => e.starts = e.ones)

Expected(e) ==
  CASE e.op = "rank" -> PRank(B.ones, e.a)
    [] e.op = "select" -> PSelect(B.ones, B.len, e.a)
    [] e.op = "select_from" -> PSelect(B.ones, B.len, e.a)          \* whatever e.h is
    [] e.op = "text_position" -> PSelect(B.ones, B.len, e.a)
    [] e.op = "cao" -> PCursorAtOffset(B.ones, B.len, e.a)
    [] e.op = "cap" -> PCursorAtPosition(B.ones, B.len, B.ls, e.l, e.c)
    [] OTHER -> -99

Query(e) ==
  /\ e.e = "q"
  /\ UNCHANGED b
  /\ e.r = Expected(e)
  \* a logged (line, column) that the harness derived from an offset is that offset's pair
  /\ (e.op = "cap" /\ e.a >= 0 => ToOffset(B.ls, B.len, e.l, e.c) = e.a)
  /\ (e.op \in {"cao", "cap"} => B.nodes_ok = 1 /\ B.strays = 0)
  /\ (e.op = "text_position" => e.a >= 0)

Init == l = 1 /\ b = 0

Next == /\ l <= NRec
        /\ LET e == Rec[l] IN Build(e) \/ Query(e)
        /\ l' = l + 1

Spec == Init /\ [][Next]_vars
=============================================================================
