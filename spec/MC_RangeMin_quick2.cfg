CONSTANTS W = 4  BYTE = 2  F1 = 2  F2 = 2  B = 2  BLK = 2  PRO = 1  SR = 3  MaxWords = 2  Rates = {0, 1, 2, 5}
SPECIFICATION Spec
INVARIANT Inv
CHECK_DEADLOCK FALSE
