CONSTANTS MaxLen = 5  NVar = 4
SPECIFICATION Spec
INVARIANT Emit
CHECK_DEADLOCK FALSE
