CONSTANTS
  MaxNodes = 4
  MaxArity = 3
  NKeys = 2
  MCLays = {9, 10}
SPECIFICATION Spec
INVARIANT Algebra
INVARIANT PerOption
CHECK_DEADLOCK FALSE
