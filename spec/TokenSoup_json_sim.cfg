CONSTANTS Which = "json"  MaxLen = 12
SPECIFICATION SimSpec
INVARIANT Emit
CHECK_DEADLOCK FALSE
