----------------------------- MODULE MC_JsonDoc -----------------------------
(* Small-scope validation of the algebra of JsonDoc: for EVERY tree with at  *)
(* most MaxNodes nodes (keys and string leaves over a 3-letter alphabet,     *)
(* duplicated keys allowed) the flat cursor machine of JsonDoc simulates     *)
(* navigation by PATHS on the nested tree (an independent definition: a path *)
(* is the sequence of child indices from the root), for every walk of at     *)
(* most MaxSteps moves, and the listing satisfies TreeLaws / StructWF /      *)
(* last-duplicate-wins lookup.                                               *)
EXTENDS JsonDoc, FiniteSets, TLC

CONSTANTS MaxNodes, MaxSteps

VARIABLES tree, path, steps

vars == <<at, tree, path, steps>>

KeyCps == {<<97>>, <<98>>, <<99>>}
StrNode(c) == [t |-> "str", s |-> 0, e |-> 0, cp |-> c]
Leaves == {StrNode(c) : c \in KeyCps}
          \cup {[t |-> "num", s |-> 0, e |-> 0, lit |-> "0", atom |-> "0"],
                [t |-> "null", s |-> 0, e |-> 0]}
EmptyArr == [t |-> "arr", s |-> 0, e |-> 0, v |-> <<>>]
EmptyObj == [t |-> "obj", s |-> 0, e |-> 0, kv |-> <<>>]

RECURSIVE T(_), Forest(_), KVs(_)
\* trees with exactly n nodes (a key counts as a node)
T(n) == IF n = 1 THEN Leaves \cup {EmptyArr, EmptyObj}
        ELSE {[t |-> "arr", s |-> 0, e |-> 0, v |-> f] : f \in Forest(n - 1)}
             \cup {[t |-> "obj", s |-> 0, e |-> 0, kv |-> f] : f \in KVs(n - 1)}
Forest(n) == IF n = 0 THEN {<<>>}
             ELSE UNION {{<<x>> \o rest : x \in T(k), rest \in Forest(n - k)} : k \in 1..n}
KVs(n) == IF n = 0 THEN {<<>>}
          ELSE IF n = 1 THEN {}
          ELSE UNION {{<< <<StrNode(c), x>> >> \o rest : c \in KeyCps, x \in T(k), rest \in KVs(n - 1 - k)}
                      : k \in 1..(n - 1)}

Trees == UNION {T(n) : n \in 1..MaxNodes}

----------------------------------------------------------------------------
(* independent semantics: navigation by paths on the nested tree *)
RECURSIVE Sub(_, _)
Sub(t, p) == IF p = <<>> THEN t ELSE Sub(Kids(t)[Head(p)], Tail(p))

RECURSIVE Size(_), SumSizes(_, _)
Size(t) == 1 + SumSizes(Kids(t), Len(Kids(t)))
SumSizes(ks, k) == IF k = 0 THEN 0 ELSE Size(ks[k]) + SumSizes(ks, k - 1)

RECURSIVE IdOf(_, _)
\* preorder number of the node at path p
IdOf(t, p) == IF p = <<>> THEN 0
              ELSE 1 + SumSizes(Kids(t), Head(p) - 1) + IdOf(Kids(t)[Head(p)], Tail(p))

PFirst(t, p) == IF Len(Kids(Sub(t, p))) > 0 THEN Append(p, 1) ELSE <<>>
HasFirst(t, p) == Len(Kids(Sub(t, p))) > 0
Front(p) == SubSeq(p, 1, Len(p) - 1)
HasNext(t, p) == p # <<>> /\ p[Len(p)] < Len(Kids(Sub(t, Front(p))))
PNext(t, p) == Append(Front(p), p[Len(p)] + 1)

----------------------------------------------------------------------------
N == Preorder(tree)

Init == tree \in Trees /\ at = None /\ path = <<>> /\ steps = 0

StepRoot == Root(N, 0) /\ path' = <<>>
StepFirst == /\ at # None
             /\ LET r == IF HasFirst(tree, path) THEN IdOf(tree, Append(path, 1)) ELSE None
                IN DoFirstChild(N, r)       \* the flat machine must give the path machine's answer
             /\ path' = IF HasFirst(tree, path) THEN Append(path, 1) ELSE path
StepNext == /\ at # None
            /\ LET r == IF HasNext(tree, path) THEN IdOf(tree, PNext(tree, path)) ELSE None
               IN DoNextSibling(N, r)
            /\ path' = IF HasNext(tree, path) THEN PNext(tree, path) ELSE path
StepParent == /\ at # None
              /\ LET r == IF path # <<>> THEN IdOf(tree, Front(path)) ELSE None
                 IN DoParent(N, r)
              /\ path' = IF path # <<>> THEN Front(path) ELSE path

Next == /\ steps < MaxSteps
        /\ steps' = steps + 1
        /\ UNCHANGED tree
        /\ (StepRoot \/ StepFirst \/ StepNext \/ StepParent)

Spec == Init /\ [][Next]_vars

\* the flat machine can always follow the path machine (no move is refused):
\* checked as "every non-final state has all four successors" through the invariant below
Simulates == at # None => /\ at = IdOf(tree, path)
                          /\ Nd(N, at).t = Sub(tree, path).t
                          /\ Nd(N, at).d = Len(path)
                          /\ FirstChild(N, at) = (IF HasFirst(tree, path) THEN IdOf(tree, Append(path, 1)) ELSE None)
                          /\ NextSibling(N, at) = (IF HasNext(tree, path) THEN IdOf(tree, PNext(tree, path)) ELSE None)
                          /\ Parent(N, at) = (IF path # <<>> THEN IdOf(tree, Front(path)) ELSE None)
                          /\ Len(Children(N, at)) = Len(Kids(Sub(tree, path)))
                          /\ \A i \in 1..Len(Kids(Sub(tree, path))) :
                                /\ GetAt(N, at, i - 1) = IdOf(tree, Append(path, i))
                                /\ Children(N, at)[i] = IdOf(tree, Append(path, i))
                          /\ GetAt(N, at, Len(Kids(Sub(tree, path)))) = None
                          /\ GetAt(N, at, -1) = None

\* last duplicate wins, stated on the nested tree
FindLaw ==
  (at # None /\ Sub(tree, path).t = "obj") =>
     LET kv == Sub(tree, path).kv
     IN \A c \in KeyCps \cup {<<100>>} :
          LET hits == {i \in 1..Len(kv) : kv[i][1].cp = c}
          IN FindIn(N, at, c) = (IF hits = {} THEN None
                                 ELSE LET i == CHOOSE j \in hits : \A h \in hits : h <= j
                                      IN IdOf(tree, Append(path, 2 * i)))

Laws == steps = 0 => /\ Len(N) = Size(tree)
                     /\ TreeLaws(N)
                     /\ \A n \in 0..(Len(N) - 1) : StructWF(N, n)

Inv == Simulates /\ FindLaw /\ Laws
=============================================================================
