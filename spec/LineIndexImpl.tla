---------------------------- MODULE LineIndexImpl ----------------------------
(***************************************************************************)
(* Implementation-shaped specification of LineIndex::to_line_column        *)
(* (src/text/lines.rs): the one-entry cache and the bounded forward walk.  *)
(*   CAP  = FORWARD_WALK_CAP (code: 16)                                    *)
(* cache is NoCache or <<offset, line_idx (0-based), line_start>>.         *)
(* Step(cache, q) returns <<line, col, cache'>>, one IF-arm per code arm.  *)
(***************************************************************************)
EXTENDS LineIndex

CONSTANT CAP

NoCache == <<-1, -1, -1>>

\* EliasFano::get(i) on the starts (0-based), None past the end
StartAt(starts, i) == IF i >= 0 /\ i < Len(starts) THEN starts[i + 1] ELSE None

RECURSIVE Walk(_, _, _, _, _)
\* walk_forward_from: at most CAP steps; result <<found, line_idx, line_start>>
Walk(starts, q, lineIdx, lineStart, fuel) ==
  IF fuel = 0 THEN <<0, lineIdx, lineStart>>
  ELSE LET nxt == StartAt(starts, lineIdx + 1)
       IN IF nxt # None /\ nxt <= q THEN Walk(starts, q, lineIdx + 1, nxt, fuel - 1)
          ELSE <<1, lineIdx, lineStart>>

\* fall-through arm: predecessor search + cache update
Cold(starts, q) ==
  LET ln == LineOf(starts, q)
  IN <<ln, q - starts[ln] + 1, <<q, ln - 1, starts[ln]>>>>

Step(starts, cache, q) ==
  IF cache # NoCache /\ q = cache[1]
  THEN <<cache[2] + 1, q - cache[3] + 1, cache>>                     \* exact repeat
  ELSE IF cache # NoCache /\ q > cache[1]
  THEN LET w == Walk(starts, q, cache[2], cache[3], CAP)
       IN IF w[1] = 1 THEN <<w[2] + 1, q - w[3] + 1, <<q, w[2], w[3]>>>>   \* forward walk
          ELSE Cold(starts, q)                                         \* walk cap exceeded
  ELSE Cold(starts, q)                                                 \* first / backward

\* the cache invariant stated in the code comments
CacheInv(starts, cache) ==
  cache # NoCache =>
     /\ cache[2] >= 0 /\ cache[2] < Len(starts)
     /\ cache[3] = starts[cache[2] + 1]
     /\ cache[3] <= cache[1]
     /\ (cache[2] + 1 < Len(starts) => cache[1] < starts[cache[2] + 2])
=============================================================================
