------------------------- MODULE Trace_YamlValidate -------------------------
(* C18, impl -> spec: every recorded call of succinctly::yaml::validate::    *)
(* validate on an arbitrary byte string follows the call protocol            *)
(*   Invoke(bytes) ; Return(ok) | Return(error at position)                  *)
(* (a panic, logged as r = -2, matches no action), and a returned position   *)
(* is inside the input with (line, column) = LineCol(offset) under the       *)
(* validator's documented line-break convention (YamlBytes).                 *)
(*   {"e":"validate","bytes":[..],"r":0|1|-2,"off":o,"line":l,"col":c}       *)
EXTENDS TraceBase, YamlBytes

VARIABLES l

Accept(e) == e.r = 0

Reject(e) ==
  /\ e.r = 1
  /\ e.off >= 0 /\ e.off <= Len(e.bytes)
  /\ <<e.line, e.col>> \in LineColAny(e.bytes, e.off)

Init == l = 1

Next == /\ l <= NRec
        /\ LET e == Rec[l] IN e.e = "validate" /\ (Accept(e) \/ Reject(e))
        /\ l' = l + 1

Spec == Init /\ [][Next]_l
=============================================================================
