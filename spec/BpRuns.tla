------------------------------- MODULE BpRuns -------------------------------
(***************************************************************************)
(* Balanced-parentheses navigation evaluated on the RUN-LENGTH form of a   *)
(* bit sequence (BitRuns.Tab), so that trace validation costs time         *)
(* proportional to the number of runs (a depth-40 000 spine is two runs).  *)
(* MC_BpRuns checks exhaustively, for small run lists and every logical    *)
(* length, that each operator equals the definitional one of               *)
(* BalancedParens.tla applied to the first `len` expanded bits.            *)
(*                                                                         *)
(* t = Tab(rl) describes ALL storage bits; `len` is the logical length     *)
(* (bits at positions >= len are stray and must not matter).  A position   *)
(* argument -1 stands for "any integer >= 2^30" (out of range).            *)
(***************************************************************************)
EXTENDS BitRuns

\* excess of the first m bits, 0 <= m <= t.tot
RPE(t, m) == 2 * OnesBefore(t, m) - m

\* excess at the start of run j
PEs(t, j) == 2 * t.o[j] - t.s[j]

RunOf(t, p) == LastLE(t.s, p, 1, NRuns(t))

RIn(t, len, p) == p >= 0 /\ p < RLen(t, len)
RIsOpen(t, len, p) == RIn(t, len, p) /\ RGet(t, p) = 1
RIsClose(t, len, p) == RIn(t, len, p) /\ RGet(t, p) = 0

\* first run j' >= j of zeros whose end excess is <= goal: the excess reaches `goal`
\* after PEs - goal zeros of that run
RECURSIVE FwdSearch(_, _, _)
FwdSearch(t, j, goal) ==
  IF j > NRuns(t) THEN None
  ELSE IF t.b[j] = 0 /\ PEs(t, j) - t.n[j] <= goal THEN t.s[j] + (PEs(t, j) - goal) - 1
  ELSE FwdSearch(t, j + 1, goal)

\* last run j' <= j of ones that starts before p and whose start excess is <= goal: going
\* right to left the prefix excess first equals `goal` inside that run
RECURSIVE BackSearch(_, _, _, _)
BackSearch(t, j, p, goal) ==
  IF j < 1 THEN None
  ELSE IF t.b[j] = 1 /\ t.s[j] < p /\ PEs(t, j) <= goal THEN t.s[j] + (goal - PEs(t, j))
  ELSE BackSearch(t, j - 1, p, goal)

RFindClose(t, len, p) ==
  IF ~RIsOpen(t, len, p) THEN None
  ELSE LET q == FwdSearch(t, RunOf(t, p) + 1, RPE(t, p))
       IN IF q = None \/ q >= RLen(t, len) THEN None ELSE q

RFindOpen(t, len, p) ==
  IF ~RIsClose(t, len, p) THEN None
  ELSE BackSearch(t, RunOf(t, p), p, RPE(t, p + 1))

REnclose(t, len, p) ==
  IF ~RIsOpen(t, len, p) THEN None
  ELSE BackSearch(t, RunOf(t, p), p, RPE(t, p) - 1)

RFirstChild(t, len, p) ==
  IF RIsOpen(t, len, p) /\ RIsOpen(t, len, p + 1) THEN p + 1 ELSE None

RNextSibling(t, len, p) ==
  LET c == RFindClose(t, len, p)
  IN IF c = None THEN None ELSE IF RIsOpen(t, len, c + 1) THEN c + 1 ELSE None

\* defined for p in range only
RExcess(t, len, p) == RPE(t, p + 1)

RDepth(t, len, p) == IF RIn(t, len, p) THEN RExcess(t, len, p) ELSE None

RSubtreeSize(t, len, p) ==
  LET c == RFindClose(t, len, p)
  IN IF c = None THEN None ELSE (c - p) \div 2

\* in-word kernels on the run-length form of one word of `w` bits
RFindUnmatchedClose(rl, w) ==
  LET t == Tab(<<<<1, 1>>>> \o rl)
      c == RFindClose(t, w + 1, 0)
  IN IF c = None THEN w ELSE c - 1

RFindCloseInWord(rl, w, p) ==
  LET t == Tab(rl)
  IN IF p < 0 \/ p >= w THEN None
     ELSE IF RGet(t, p) = 0 THEN p
     ELSE RFindClose(t, w, p)
=============================================================================
