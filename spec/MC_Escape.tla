------------------------------- MODULE MC_Escape -------------------------------
(* Model stage of C09.                                                           *)
(*  (a) For every scalar value cp of every selected block of BS code points and  *)
(*      every convention c: the canonical written form Form(c,cp) decodes to cp  *)
(*      (arithmetically, Decode, and lexically, DecodeBody o Render), and it is  *)
(*      a literal exactly when the convention does not require escaping.  With   *)
(*      Blocks = "all" this is all 1 112 064 scalar values x 4 conventions.      *)
(*  (b) For every string of length <= MaxLen over a boundary alphabet (incl. the *)
(*      characters that make bodies ambiguous to a naive reader: backslash, u,   *)
(*      digits, astral characters next to each other) the canonical body reads   *)
(*      back as the string with exactly the required characters escaped.         *)
(* States: the block index grows as a binary heap (so that workers share the     *)
(* blocks), strings grow by one character per step.                              *)
EXTENDS Escape, TLC

CONSTANTS BS,        \* block size
          Blocks,    \* "all" or "edges"
          MaxLen

VARIABLES blk, s
vars == <<blk, s>>

NB == (MaxCp + BS) \div BS

Alphabet == {8, 12, 10, 34, 92, 117, 48, 65, 127, 128, 233, 8232, 65535, 65536, 128512, 1114111}
SmallAlphabet == {8, 34, 92, 117, 48, 127, 233, 128512}

Init == blk = 0 /\ s = <<>>

GrowBlk == /\ s = <<>>
           /\ \E b \in {2 * blk + 1, 2 * blk + 2} : b < NB /\ blk' = b
           /\ UNCHANGED s

GrowStr == /\ blk = 0
           /\ Len(s) < MaxLen
           /\ \E a \in (IF Len(s) < 2 THEN Alphabet ELSE SmallAlphabet) : s' = Append(s, a)
           /\ UNCHANGED blk

Next == GrowBlk \/ GrowStr
Spec == Init /\ [][Next]_vars

\* code points at which some convention changes behaviour (and their neighbours)
Edges == {0, 7, 8, 9, 10, 12, 13, 31, 32, 33, 34, 35, 91, 92, 93, 126, 127, 128, 159, 160, 255, 256,
          2047, 2048, 4095, 4096, 55295, 57344, 65533, 65535, 65536, 66559, 66560, 131071, 131072,
          1113087, 1113088, 1114111}

InScope(b) == Blocks = "all" \/ \E cp \in Edges : cp \div BS = b

CpOK(c, cp) ==
  LET f == Form(c, cp)
      esc == IF MustEscape(c, cp) THEN 1 ELSE 0
  IN /\ Decode(f) = cp
     /\ IsLit(f) = ~MustEscape(c, cp)
     /\ DecodeBody(Render(f)) = <<<<esc, cp>>>>
     /\ (IsLit(f) => Render(f) = <<cp>>)

FormsRoundTrip ==
  (s = <<>> /\ InScope(blk)) =>
     \A cp \in (blk * BS)..(blk * BS + BS - 1) :
        IsScalar(cp) => \A c \in Conventions : CpOK(c, cp)

\* Steps(c) is exactly the set of change points of MustEscape(c, .)
StepsExact ==
  (s = <<>> /\ InScope(blk)) =>
     \A cp \in (blk * BS)..(blk * BS + BS - 1) :
        (cp >= 1 /\ cp <= MaxCp) =>
           \A c \in Conventions : (MustEscape(c, cp) # MustEscape(c, cp - 1)) = (cp \in Steps(c))

BodiesRoundTrip ==
  blk = 0 => \A c \in Conventions : BodyOK(c, s, Body(c, s))

\* the one-pass scanner table used by Trace_Escape equals the definition (strings as bytes)
ScanTableExact ==
  blk = 0 => LET T == ScanTable(s)
             IN \A st \in 0..(Len(s) + 2) : FirstEscapableT(T, Len(s), st) = FirstEscapable(s, st)

\* the reader rejects what is not a string body (non-vacuity of DecodeBody)
ASSUME ReaderRejects ==
  /\ DecodeBody(<<34>>) = Invalid               \* raw quote
  /\ DecodeBody(<<10>>) = Invalid               \* raw control
  /\ DecodeBody(<<92>>) = Invalid               \* dangling backslash
  /\ DecodeBody(<<92, 120>>) = Invalid          \* \x
  /\ DecodeBody(<<92, 117, 48, 48, 52>>) = Invalid                         \* short \u
  /\ DecodeBody(<<92, 117, 100, 56, 48, 48>>) = Invalid                    \* lone high surrogate
  /\ DecodeBody(<<92, 117, 100, 99, 48, 48>>) = Invalid                    \* lone low surrogate
  /\ DecodeBody(<<92, 117, 48, 48, 52, 49>>) = <<<<1, 65>>>>               \* A
  /\ DecodeBody(<<92, 117, 48, 48, 69, 57>>) = <<<<1, 233>>>>              \* é upper-case hex
  /\ DecodeBody(<<92, 117, 100, 56, 51, 100, 92, 117, 100, 101, 48, 48>>) = <<<<1, 128512>>>>
  /\ FirstEscapable(<<97, 128, 34, 97, 31>>, 0) = 2
  /\ FirstEscapable(<<97, 128, 34, 97, 31>>, 3) = 4
  /\ FirstEscapable(<<97, 128, 34, 97, 31>>, 5) = 5
  /\ FirstEscapable(<<97, 128, 34, 97, 31>>, 9) = 5
=============================================================================
