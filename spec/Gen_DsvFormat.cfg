CONSTANTS MaxStr = 6
SPECIFICATION Spec
INVARIANT Emit
CHECK_DEADLOCK FALSE
