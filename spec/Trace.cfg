SPECIFICATION Spec
POSTCONDITION Verdict
CHECK_DEADLOCK FALSE
