CONSTANTS
  Cap = 128
  Alphabet = {34, 91, 93, 97, 194, 128, 224, 160, 237, 240, 144, 31, 13}
  MaxLen = 4
SPECIFICATION Spec
INVARIANT Inv
CHECK_DEADLOCK FALSE
