---------------------------- MODULE MC_EliasFano ----------------------------
(* Bounded exhaustive refinement check for C03: the implementation-shaped     *)
(* EliasFanoImpl (scaled W, R, T) against the abstract EliasFano machine, for *)
(* every non-decreasing sequence in scope and EVERY order of cursor           *)
(* operations (states are <<vals, concrete cursor, abstract cursor>>; the     *)
(* search is closed under all operations, so all finite histories are covered *)
(* in the bounded scope).                                                     *)
EXTENDS EliasFanoImpl, TLC

CONSTANTS MaxLen, MaxV, MaxArg

NatLeq(a, b) == a <= b
A == INSTANCE EliasFano WITH Leq <- NatLeq, NoKey <- -1

VARIABLES vals, phase, c, a

vars == <<vals, phase, c, a>>

Init == vals = <<>> /\ phase = "build" /\ c = Cur(0, 0, 0, Zero) /\ a = 0

Append1 == /\ phase = "build"
           /\ Len(vals) < MaxLen
           /\ \E v \in (IF Len(vals) = 0 THEN 0 ELSE vals[Len(vals)])..MaxV : vals' = Append(vals, v)
           /\ UNCHANGED <<phase, c, a>>

Start == /\ phase = "build"
         /\ phase' = "ops"
         /\ c' = ImplCursor(vals)
         /\ a' = A!CCursor(vals)
         /\ UNCHANGED vals

OpCursorFrom == \E j \in 0..MaxArg : c' = ImplCursorFrom(vals, j) /\ a' = A!CCursorFrom(vals, j)
OpAdvanceOne == c' = ImplAdvanceOne(vals, c) /\ a' = A!CAdvanceOne(vals, a)
OpAdvanceBy == \E k \in 0..MaxArg : c' = ImplAdvanceBy(vals, c, k) /\ a' = A!CAdvanceBy(vals, a, k)
OpSeek == \E j \in 0..MaxArg : c' = ImplSeek(vals, c, j) /\ a' = A!CSeek(vals, j)
OpCursor == c' = ImplCursor(vals) /\ a' = A!CCursor(vals)

Ops == /\ phase = "ops"
       /\ (OpCursor \/ OpCursorFrom \/ OpAdvanceOne \/ OpAdvanceBy \/ OpSeek)
       /\ UNCHANGED <<vals, phase>>

Next == Append1 \/ Start \/ Ops

Spec == Init /\ [][Next]_vars

\* refinement of the cursor: same index, same reported element, representation invariant
CursorRefines ==
  phase = "ops" =>
     /\ c.idx = a
     /\ ImplCurrent(vals, c) = A!Current(vals, a)
     /\ (c.idx >= Len(vals)) = A!IsExhausted(vals, a)
     /\ CursorInv(vals, c)

\* static answers (checked once per sequence, when the cursor is created)
StaticRefines ==
  (phase = "ops" /\ a = 0 /\ c = ImplCursor(vals)) =>
     /\ \A i \in 0..(Len(vals) + 1) : ImplGet(vals, i) = A!Get(vals, i)
     /\ \A v \in 0..(MaxV + 1) :
          LET p == ImplPredecessor(vals, v)
              d == A!PredecessorDef(vals, v)
          IN /\ p[1] = d
             /\ A!PredecessorIdx(vals, v) = d
             /\ (d # None => p[2] = vals[d + 1])
     /\ (Len(vals) > 0 => CountOnes(HighBits(vals)) = Len(vals))
=============================================================================
