----------------------------- MODULE MC_BitRuns -----------------------------
(* Exhaustive small-scope check that the run-length operators of BitRuns    *)
(* equal the definitional operators of BitSeq on the expanded bit sequence. *)
EXTENDS BitRuns, TLC

CONSTANTS MaxRuns, MaxRun

VARIABLES rl, len

Pairs == {<<b, n>> : b \in {0, 1}, n \in 1..MaxRun}

Init == rl = <<>> /\ len = 0
Next == \/ /\ Len(rl) < MaxRuns
           /\ \E p \in Pairs : rl' = Append(rl, p)
           /\ len' = 0
        \/ /\ len = 0
           /\ \E l \in 1..(Tab(rl).tot + 1) : len' = l
           /\ UNCHANGED rl

Agree ==
  LET t == Tab(rl)
      bits == Take(Expand(rl), len)
      L == Len(bits)
  IN /\ RLen(t, len) = L
     /\ RCountOnes(t, len) = CountOnes(bits)
     /\ RCountZeros(t, len) = CountZeros(bits)
     /\ \A i \in 0..(L + 2) : /\ RRank1(t, len, i) = Rank1(bits, i)
                              /\ RRank0(t, len, i) = Rank0(bits, i)
     /\ RRank1(t, len, -1) = CountOnes(bits)
     /\ RRank0(t, len, -1) = CountZeros(bits)
     /\ \A i \in 0..(L - 1) : RGet(t, i) = Get(bits, i)
     /\ \A k \in 0..(L + 1) : /\ RSelect1(t, len, k) = Select1(bits, k)
                              /\ RSelect0(t, len, k) = Select0(bits, k)
=============================================================================
