------------------------------ MODULE MC_Bytes ------------------------------
(* The fold form of both line/column conventions equals the definitional    *)
(* form on every string of length <= MaxLen over Alphabet and every offset. *)
EXTENDS Bytes, TLC
CONSTANTS Alphabet, MaxLen
VARIABLE s
Init == s = <<>>
Next == Len(s) < MaxLen /\ \E b \in Alphabet : s' = Append(s, b)
Spec == Init /\ [][Next]_s

Inv == \A off \in 0..Len(s) :
         /\ LineColLF(s, off) = LineColLFDef(s, off)
         /\ LineColAny(s, off) = LineColAnyDef(s, off)
         \* both depend on the prefix only
         /\ LineColAny(s, off) = LineColAny(Prefix(s, off), off)
         \* a text without CR has the same position under both conventions
         /\ (\A i \in 1..off : s[i] # CR) => LineColAny(s, off) = LineColLF(s, off)
=============================================================================
