CONSTANTS
  Cap = 3
  MaxLen = 14
  Reps = {123, 125, 91, 93, 58, 44, 34, 92, 47, 32, 10, 48, 49, 45, 43, 46, 101, 69, 116, 114, 117, 97, 108, 115, 102, 110, 98, 100, 68, 56, 99, 67, 55, 120, 31, 127, 128, 191, 194, 224, 160, 159, 237, 240, 144, 143, 244, 245, 255}
SPECIFICATION Spec
INVARIANT ViableInv
INVARIANT CapInv
INVARIANT PairInv
INVARIANT CountInv
CHECK_DEADLOCK FALSE
