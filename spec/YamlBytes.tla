----------------------------- MODULE YamlBytes -----------------------------
(* Line/column of a byte offset under the line-break convention the strict  *)
(* YAML validator documents (src/yaml/validate.rs `Position`: offset         *)
(* 0-indexed, line 1-indexed, column 1-indexed IN BYTES; src/yaml/           *)
(* line_break.rs: YAML 1.2 section 5.4 - LF, a lone CR, and CRLF as ONE      *)
(* break).  A byte string is a sequence of ints 0..255; offset o addresses   *)
(* b[o + 1].                                                                 *)
EXTENDS Integers, Sequences, FiniteSets

LF == 10
CR == 13

\* a line break ENDS at offset i (the next line starts at offset i)
BreakEndsAt(b, i) ==
  /\ i >= 1 /\ i <= Len(b)
  /\ \/ b[i] = LF
     \/ b[i] = CR /\ ~(i < Len(b) /\ b[i + 1] = LF)

LineOf(b, off) == 1 + Cardinality({i \in 1..off : BreakEndsAt(b, i)})

LineStart(b, off) ==
  IF \E i \in 1..off : BreakEndsAt(b, i)
  THEN CHOOSE i \in 1..off : BreakEndsAt(b, i) /\ \A j \in (i + 1)..off : ~BreakEndsAt(b, j)
  ELSE 0

LineCol(b, off) == <<LineOf(b, off), off - LineStart(b, off) + 1>>

\* offset strictly inside a CRLF pair: the convention does not say which side it is on
InsideCrLf(b, off) == off >= 1 /\ off < Len(b) /\ b[off] = CR /\ b[off + 1] = LF

\* the readings a positioned error may take (weaker reading where the convention is silent)
LineColAny(b, off) ==
  IF InsideCrLf(b, off) THEN {LineCol(b, off), <<LineOf(b, off) + 1, 1>>} ELSE {LineCol(b, off)}
=============================================================================
