CONSTANTS W = 12  B = 4  Scope = "all"
SPECIFICATION Spec
INVARIANT SelectAlgorithmsExact
INVARIANT PopcountExact
INVARIANT ByteTableExact
INVARIANT EvaluatorsExact
INVARIANT DefinitionsSane
CHECK_DEADLOCK FALSE
