--------------------------- MODULE MC_DsvChunked ---------------------------
(* C20 model stage, part 2: the chunked index builders (whole chunks + the   *)
(* zero-padded masked tail, either quote-mask algorithm, any class of the    *)
(* padding byte) produce exactly the bit-serial index on EVERY class string  *)
(* of length <= MaxLen at chunk width W (strings span up to MaxLen/W chunks). *)
EXTENDS QuoteMaskImpl, TLC

CONSTANT MaxLen

VARIABLE t

Init == t = <<>>

Next == Len(t) < MaxLen /\ \E c \in Classes : t' = Append(t, c)

Spec == Init /\ [][Next]_t

Inv == ChunkedIsWhole(t)
=============================================================================
