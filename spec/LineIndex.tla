------------------------------ MODULE LineIndex ------------------------------
(***************************************************************************)
(* Abstract specification of line/column mapping (property C12,            *)
(* src/text/lines.rs).  A text is a sequence of byte CLASSES:              *)
(*    0 = any other byte, 1 = LF, 2 = CR.                                  *)
(* LF, a lone CR and CRLF are each ONE line break.  Lines and columns are  *)
(* 1-based, offsets 0-based.  Everything is a pure function of the text:   *)
(* that purity IS "independent of query history".                          *)
(***************************************************************************)
EXTENDS Integers, Sequences, SequencesExt

None == -1

\* width of the break at 0-based position p (0 if none)
BreakLen(t, p) ==
  IF p >= Len(t) THEN 0
  ELSE IF t[p + 1] = 2 THEN (IF p + 1 < Len(t) /\ t[p + 2] = 1 THEN 2 ELSE 1)
  ELSE IF t[p + 1] = 1 THEN 1 ELSE 0

\* naive scan: sequence of line-start offsets; 0, and the byte after every break that has
\* text after it
RECURSIVE ScanStarts(_, _, _)
ScanStarts(t, p, acc) ==
  IF p >= Len(t) THEN acc
  ELSE LET w == BreakLen(t, p)
       IN IF w = 0 THEN ScanStarts(t, p + 1, acc)
          ELSE ScanStarts(t, p + w, IF p + w < Len(t) THEN Append(acc, p + w) ELSE acc)

\* same, iteratively (for long texts in trace validation): state <<skip, acc>>
StartsOf(t) ==
  LET step(st, i) ==   \* i = 1-based index of the byte being visited
        IF st[1] > 0 THEN <<st[1] - 1, st[2]>>
        ELSE LET w == BreakLen(t, i - 1)
             IN IF w = 0 THEN st
                ELSE <<w - 1, IF i - 1 + w < Len(t) THEN Append(st[2], i - 1 + w) ELSE st[2]>>
      r == FoldLeft(step, <<0, <<0>>>>, [i \in 1..Len(t) |-> i])
  IN r[2]

Starts(t) == ScanStarts(t, 0, <<0>>)

\* index (1-based into starts) of the last start <= off ; starts[1] = 0 so it exists
RECURSIVE LastStartLE(_, _, _, _)
LastStartLE(starts, off, lo, hi) ==
  IF lo >= hi THEN lo
  ELSE LET mid == (lo + hi + 1) \div 2
       IN IF starts[mid] <= off THEN LastStartLE(starts, off, mid, hi)
          ELSE LastStartLE(starts, off, lo, mid - 1)

LineOf(starts, off) == LastStartLE(starts, off, 1, Len(starts))

\* to_line_column: offsets past the end are reported against the last line (documented)
ToLineCol(starts, off) ==
  LET ln == LineOf(starts, off) IN <<ln, off - starts[ln] + 1>>

\* to_offset: None for line/column 0, a missing line, or a result at or past the end
ToOffset(starts, len, line, col) ==
  IF line <= 0 \/ col <= 0 \/ line > Len(starts) THEN None
  ELSE LET o == starts[line] + col - 1 IN IF o < len THEN o ELSE None

LineStart(starts, line) == IF line <= 0 \/ line > Len(starts) THEN None ELSE starts[line]
=============================================================================
