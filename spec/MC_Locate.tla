----------------------------- MODULE MC_Locate -----------------------------
(***************************************************************************)
(* Model stage of C28 / C29: a layout machine writes a document token by   *)
(* token (optional whitespace byte before every token, one byte for every  *)
(* `:` `,` and bracket) and builds the tree with the spans of what it      *)
(* wrote; every tree with at most MaxNodes value nodes is reached.  On     *)
(* every finished document TLC checks the lemmas the trace binding relies  *)
(* on:                                                                     *)
(*   InvLayout    the recorded spans are a well-formed layout              *)
(*   InvUnique    at most one token is located at any offset               *)
(*   InvInnermost NodeAt(off) is the innermost node containing off, and a  *)
(*                position qualifies exactly when it lies inside the       *)
(*                innermost key/scalar or on the innermost container's     *)
(*                opening bracket                                          *)
(*   InvPath      ValueAtPath(tree, PathOf(n)) is n (for a key: the value  *)
(*                the key names) -- holds only WITHOUT duplicate keys:     *)
(*                MC_Locate_dup.cfg (AllowDup = TRUE) must violate it      *)
(*   InvImpl      (JSON) the implementation-shaped transcription of         *)
(*                locate.rs (LocateImpl.tla: IB rank -> node, parent walk   *)
(*                with count_siblings_before / find_key_for_value) returns  *)
(*                NodeAt / PathOf on every qualifying offset;               *)
(*                MC_Locate_implmut.cfg (`<` -> `<=`) must violate it       *)
(* Yaml = TRUE: the root is the virtual array of documents, collections    *)
(* may be virtual (block style: no brackets), containers do not qualify.   *)
(***************************************************************************)
EXTENDS LocateImpl, TLC

CONSTANTS MaxNodes,   \* value nodes per document (stream)
          MaxGap,     \* whitespace bytes per document
          KeyCps,     \* set of key strings (as code point sequences)
          Yaml,       \* BOOLEAN
          AllowDup    \* BOOLEAN: duplicate keys allowed (negative control)

VARIABLES stack,  \* open containers, innermost last
          pos,    \* bytes written so far
          root,   \* the finished tree, or NoRoot
          nn,     \* value nodes created
          gaps    \* whitespace bytes written

vars == <<stack, pos, root, nn, gaps>>

\* key palette for the .cfg files (tuples cannot be written in a cfg): "a", "b"
KeysAB == {<<97>>, <<98>>}

NoRoot == [t |-> "none"]
NoKey == [s |-> -2, e |-> -2, cp |-> <<>>]

\* frame of an open container: items = kv pairs (obj) or values (arr); pk = pending key
Frame(t, s) == [t |-> t, s |-> s, items |-> <<>>, pk |-> NoKey]

Top == stack[Len(stack)]
Done == stack = <<>> /\ root.t # "none"

CQ == ~Yaml

\* a value may be written here: at the root, in an array, after a key
WantsValue ==
  IF stack = <<>> THEN root.t = "none"
  ELSE Top.t = "arr" \/ Top.pk # NoKey
WantsKey == stack # <<>> /\ Top.t = "obj" /\ Top.pk = NoKey

\* bytes of separator written before the next item of the innermost container
Sep == IF stack # <<>> /\ Top.pk = NoKey /\ Top.items # <<>> THEN 1 ELSE 0

\* deliver a finished value to the innermost open container (or make it the root)
Deliver(stk, val) ==
  IF stk = <<>> THEN <<stk, val>>
  ELSE LET f == stk[Len(stk)]
           g == IF f.t = "obj"
                THEN [f EXCEPT !.items = Append(@, <<f.pk, val>>), !.pk = NoKey]
                ELSE [f EXCEPT !.items = Append(@, val)]
       IN <<[stk EXCEPT ![Len(stk)] = g], NoRoot>>

Ws == /\ gaps < MaxGap
      /\ pos' = pos + 1 /\ gaps' = gaps + 1
      /\ UNCHANGED <<stack, root, nn>>

Scalar ==
  /\ WantsValue /\ nn < MaxNodes
  /\ \E k \in {"num", "str", "null"} :
       LET s == pos + Sep
           len == CASE k = "num" -> 1 [] k = "str" -> 3 [] OTHER -> 4
           val == CASE k = "num" -> [t |-> "num", s |-> s, e |-> s + len, lit |-> "7"]
                    [] k = "str" -> [t |-> "str", s |-> s, e |-> s + len, cp |-> <<97>>]
                    [] OTHER -> [t |-> "null", s |-> s, e |-> s + len]
           d == Deliver(stack, val)
       IN /\ stack' = d[1]
          /\ root' = IF stack = <<>> THEN val ELSE root
          /\ pos' = s + len
  /\ nn' = nn + 1
  /\ UNCHANGED gaps

Key ==
  /\ WantsKey
  /\ \E cp \in KeyCps :
       /\ AllowDup \/ \A j \in 1..Len(Top.items) : Top.items[j][1].cp # cp
       /\ LET s == pos + Sep
              e == s + Len(cp) + 2
          IN /\ stack' = [stack EXCEPT ![Len(stack)].pk = [s |-> s, e |-> e, cp |-> cp]]
             /\ pos' = e + 1          \* the key token and its `:`
  /\ UNCHANGED <<root, nn, gaps>>

\* real container: one byte for the opening bracket
Open ==
  /\ WantsValue /\ nn < MaxNodes
  /\ \E t \in {"obj", "arr"} :
       /\ stack' = Append(stack, Frame(t, pos + Sep))
       /\ pos' = pos + Sep + 1
  /\ nn' = nn + 1
  /\ UNCHANGED <<root, gaps>>

\* virtual container (YAML block style): no bytes of its own; it must get an item
OpenVirtual ==
  /\ Yaml /\ WantsValue /\ nn + 1 < MaxNodes
  /\ \E t \in {"obj", "arr"} :
       /\ stack' = Append(stack, Frame(t, -1))
       /\ pos' = pos + Sep
  /\ nn' = nn + 1
  /\ UNCHANGED <<root, gaps>>

Close ==
  /\ stack # <<>> /\ Top.pk = NoKey
  /\ ~(Yaml /\ Len(stack) = 1)                 \* the stream array is closed by Finish
  /\ Top.s < 0 => Top.items # <<>>
  /\ LET f == Top
         real == f.s >= 0
         e == IF real THEN pos + 1 ELSE -1
         val == IF f.t = "obj" THEN [t |-> "obj", s |-> f.s, e |-> e, kv |-> f.items]
                ELSE [t |-> "arr", s |-> f.s, e |-> e, v |-> f.items]
         rest == SubSeq(stack, 1, Len(stack) - 1)
         d == Deliver(rest, val)
     IN /\ stack' = d[1]
        /\ root' = IF rest = <<>> THEN val ELSE root
        /\ pos' = IF real THEN pos + 1 ELSE pos
  /\ UNCHANGED <<nn, gaps>>

\* YAML: end of the stream closes the virtual array of documents
Finish ==
  /\ Yaml /\ Len(stack) = 1 /\ Top.items # <<>>
  /\ root' = [t |-> "arr", s |-> -1, e |-> -1, v |-> Top.items]
  /\ stack' = <<>>
  /\ UNCHANGED <<pos, nn, gaps>>

Init ==
  /\ stack = IF Yaml THEN <<Frame("arr", -1)>> ELSE <<>>
  /\ pos = 0 /\ root = NoRoot /\ nn = 0 /\ gaps = 0

Next ==
  \/ (~Done /\ (Scalar \/ Key \/ Open \/ OpenVirtual \/ Close \/ Finish))
  \/ Ws

Spec == Init /\ [][Next]_vars

\* ------------------------------------------------------------------------
\* (the token list is bound by LET inside each invariant: TLC evaluates a LET definition once
\* per state, a global operator at every use)
InvLayout == Done => WellFormed(root, pos) /\ (AllowDup \/ NoDupKeys(root))

InvUnique ==
  Done => LET T == Tokens(root)
          IN \A off \in 0..(pos - 1) : Cardinality(HitSet(T, off, CQ)) <= 1

InvInnermost ==
  Done => LET T == Tokens(root)
          IN \A off \in 0..(pos - 1) :
               LET d == Deepest(root, <<>>, off)
                   \* off lies inside the innermost key/scalar, or on the innermost container's bracket
                   inner == IF d[5] THEN CQ /\ d[3] = off
                            ELSE d[3] <= off /\ off < d[4]
                   q == Qualifies(T, off, CQ)
               IN /\ q <=> inner
                  /\ q => LET k == NodeAt(T, off, CQ)
                          IN k.path = d[1] /\ k.role = d[2] /\ k.s = d[3] /\ k.e = d[4]

InvPath ==
  Done => LET T == Tokens(root)
          IN \A i \in 1..Len(T) :
               /\ SameNode(LocatedValue(root, T[i]), T[i].named)
               /\ T[i].role = "val" => SameNode(T[i].own, T[i].named)

\* every token is located from at least one offset unless it is virtual or a YAML container
InvReach ==
  Done => LET T == Tokens(root)
          IN \A i \in 1..Len(T) :
               (T[i].s >= 0 /\ (CQ \/ T[i].role = "key" \/ ~IsCont(T[i].own)))
                 => \E off \in 0..(pos - 1) : i \in HitSet(T, off, CQ)

\* JSON: the implementation-shaped locate refines the abstract one on qualifying offsets
InvImpl ==
  (Done /\ ~Yaml) =>
     LET T == Tokens(root)
         F == Flat(root)
     IN /\ Len(F) = Len(T)
        /\ \A off \in 0..(pos - 1) :
             Qualifies(T, off, TRUE) =>
               LET k == NodeAt(T, off, TRUE)
                   i == ImplFind(F, pos, off)
               IN /\ i > 0
                  /\ F[i].s = k.s /\ F[i].e = k.e
                  /\ (F[i].t = "key") = (k.role = "key")
                  /\ ImplPath(F, i) = k.path
=============================================================================
