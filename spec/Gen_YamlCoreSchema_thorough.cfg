CONSTANTS MaxLen = 4
SPECIFICATION Spec
INVARIANT Lemmas
INVARIANT Emit
CHECK_DEADLOCK FALSE
