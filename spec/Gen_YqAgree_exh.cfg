CONSTANTS
 Leaves <- LeavesSmall
 Keys <- KeysSmall
 Programs <- ProgSmall
 MaxNodes = 3 MaxDepth = 2 MaxWidth = 2
SPECIFICATION Spec
INVARIANT Emit
INVARIANT TreeOk
CHECK_DEADLOCK FALSE
