------------------------------ MODULE Debug_Jq ------------------------------
(* Development aid: print what JqCore says for every event of a (short) trace. *)
EXTENDS TraceBase, JqCore
VARIABLE l
Show(e) == LET r == Eval(e.ast, Norm(e.in), IF Has(e, "strict") THEN StrictEnv ELSE EmptyEnv)
           IN PrintT(<<"SPEC", r>>) /\ PrintT(<<"IMPL", e.oe>>) /\ PrintT(<<"SAME", r = e.oe>>)
Init == l = 1
Next == l <= NRec /\ Show(Rec[l]) /\ l' = l + 1
Spec == Init /\ [][Next]_l
=============================================================================
