----------------------------- MODULE JsonGrammar -----------------------------
(***************************************************************************)
(* RFC 8259 JSON texts as a deterministic pushdown automaton over BYTES,   *)
(* with the nesting bound of succinctly's strict validator (Cap = 128).    *)
(*                                                                         *)
(*   JSON-text = ws value ws        ws = *( SP / HT / LF / CR )            *)
(*   value     = false / null / true / object / array / number / string    *)
(*   number    = [ "-" ] ( "0" / digit1-9 *DIGIT ) [ "." 1*DIGIT ]         *)
(*               [ ("e"/"E") [ "+"/"-" ] 1*DIGIT ]                         *)
(*   string    = %x22 *char %x22                                           *)
(*   char      = unescaped (any scalar value >= U+0020 except " and \,     *)
(*               UTF-8 encoded: the table 3-7 DFA of Utf8.tla)             *)
(*             / "\" ( %x22 / "\" / "/" / b / f / n / r / t / u 4HEXDIG )   *)
(*                                                                         *)
(* A configuration is the tuple <<q, ret, u, n, stk>>:                     *)
(*   q    control state ("X" = stuck: the consumed bytes followed by the   *)
(*        offending byte cannot be extended to a JSON text)                *)
(*   ret  inside a token (string, number, keyword): the structural state   *)
(*        entered when the token ends; "" otherwise                        *)
(*   u    state of the UTF-8 DFA inside a string                           *)
(*   n    number of bytes consumed before getting stuck                    *)
(*   stk  open containers, innermost last; 0 = array, 1 = object           *)
(* Every configuration other than "X" can be completed to an accepted text *)
(* (Complete, checked by MC_JsonGrammar), hence                            *)
(*   Viable(bytes)  = n after running over bytes  = length of the longest  *)
(*                    prefix that can still be extended to a JSON text,    *)
(*   Accepts(bytes) = the run ends, not stuck, after the root value.       *)
(*                                                                         *)
(* RFC 8259 section 7/8.2: the grammar admits ANY \uXXXX, including lone   *)
(* surrogates such as "\uDEAD" -- that is the language of the operators    *)
(* with pairing = FALSE (StepRfc, AcceptsRfc ...).  With pairing = TRUE    *)
(* the automaton additionally demands that \uD800..\uDBFF is immediately   *)
(* followed by \uDC00..\uDFFF and that no other \uDC00..\uDFFF occurs      *)
(* (the I-JSON / RFC 7493 restriction, which is what validate.rs           *)
(* implements); it is used to classify the known deviation, not as the     *)
(* acceptance oracle.                                                      *)
(***************************************************************************)
EXTENDS Utf8

CONSTANT Cap          \* maximal container nesting (128 in the library; scaled in MC)

IsWs(b) == b = 32 \/ b = 9 \/ b = 10 \/ b = 13
IsDigit(b) == b >= 48 /\ b <= 57
IsHex(b) == IsDigit(b) \/ (b >= 65 /\ b <= 70) \/ (b >= 97 /\ b <= 102)
IsD(b) == b = 68 \/ b = 100                                         \* D d
IsHiNib(b) == b = 56 \/ b = 57 \/ b = 65 \/ b = 66 \/ b = 97 \/ b = 98    \* 8 9 A B a b
IsLoNib(b) == (b >= 67 /\ b <= 70) \/ (b >= 99 /\ b <= 102)         \* C..F c..f
IsSimpleEsc(b) == b \in {34, 92, 47, 98, 102, 110, 114, 116}         \* " \ / b f n r t

CfgInit == <<"V0", "", "S", 0, <<>>>>

Go(c, q, ret, u, stk) == <<q, ret, u, c[4] + 1, stk>>
Stay(c) == <<c[1], c[2], c[3], c[4] + 1, c[5]>>
To(c, q) == <<q, c[2], c[3], c[4] + 1, c[5]>>          \* next control state, same token
Dead(c) == <<"X", c[2], c[3], c[4], c[5]>>

AfterVal(stk) == IF stk = <<>> THEN "END" ELSE IF stk[Len(stk)] = 0 THEN "AE" ELSE "OE"

Pop(c) == LET s2 == SubSeq(c[5], 1, Len(c[5]) - 1) IN Go(c, AfterVal(s2), "", "S", s2)

\* first byte of a value, in a state that expects one
StartValue(c, b) ==
  LET stk == c[5] IN
  CASE b = 123 -> IF Len(stk) >= Cap THEN Dead(c) ELSE Go(c, "OK0", "", "S", Append(stk, 1))
    [] b = 91  -> IF Len(stk) >= Cap THEN Dead(c) ELSE Go(c, "AV", "", "S", Append(stk, 0))
    [] b = 34  -> Go(c, "S", AfterVal(stk), "S", stk)
    [] b = 45  -> Go(c, "N-", AfterVal(stk), "S", stk)
    [] b = 48  -> Go(c, "N0", AfterVal(stk), "S", stk)
    [] b >= 49 /\ b <= 57 -> Go(c, "NI", AfterVal(stk), "S", stk)
    [] b = 116 -> Go(c, "t1", AfterVal(stk), "S", stk)
    [] b = 102 -> Go(c, "f1", AfterVal(stk), "S", stk)
    [] b = 110 -> Go(c, "n1", AfterVal(stk), "S", stk)
    [] OTHER -> Dead(c)

\* structural states (between tokens)
Struct(c, q, b) ==
  IF IsWs(b) THEN <<q, "", "S", c[4] + 1, c[5]>>
  ELSE
  CASE q = "V0"  -> StartValue(c, b)                                   \* before the root value
    [] q = "END" -> Dead(c)                                            \* after the root value
    [] q = "AV"  -> IF b = 93 THEN Pop(c) ELSE StartValue(c, b)        \* after [
    [] q = "AC"  -> StartValue(c, b)                                   \* after , in an array
    [] q = "AE"  -> IF b = 44 THEN Go(c, "AC", "", "S", c[5])          \* after an array element
                    ELSE IF b = 93 THEN Pop(c) ELSE Dead(c)
    [] q = "OK0" -> IF b = 34 THEN Go(c, "S", "OC", "S", c[5])         \* after {
                    ELSE IF b = 125 THEN Pop(c) ELSE Dead(c)
    [] q = "OK"  -> IF b = 34 THEN Go(c, "S", "OC", "S", c[5]) ELSE Dead(c)   \* after , in an object
    [] q = "OC"  -> IF b = 58 THEN Go(c, "OV", "", "S", c[5]) ELSE Dead(c)    \* after a member name
    [] q = "OV"  -> StartValue(c, b)                                   \* after :
    [] q = "OE"  -> IF b = 44 THEN Go(c, "OK", "", "S", c[5])          \* after a member value
                    ELSE IF b = 125 THEN Pop(c) ELSE Dead(c)
    [] OTHER -> Dead(c)

StructStates == {"V0", "END", "AV", "AC", "AE", "OK0", "OK", "OC", "OV", "OE"}
NumEndStates == {"N0", "NI", "NF", "NX"}        \* number states in which the number may end

\* the token is complete: continue in the structural state ret
EndTok(c) == Go(c, c[2], "", "S", c[5])
\* a number ends BEFORE byte b: b is processed by the structural state ret
EndNum(c, b) == Struct(c, c[2], b)

StepP(c, b, pairing) ==
  LET q == c[1] IN
  CASE q = "X" -> c
    [] q \in StructStates -> Struct(c, q, b)
    (* ---- strings ---- *)
    [] q = "S" ->
         IF c[3] = "S" /\ b = 34 THEN EndTok(c)
         ELSE IF c[3] = "S" /\ b = 92 THEN To(c, "SE")
         ELSE IF c[3] = "S" /\ b < 32 THEN Dead(c)
         ELSE LET u2 == Step(c[3], b) IN
              IF u2 = "X" THEN Dead(c) ELSE <<"S", c[2], u2, c[4] + 1, c[5]>>
    [] q = "SE" -> IF IsSimpleEsc(b) THEN To(c, "S") ELSE IF b = 117 THEN To(c, "U1") ELSE Dead(c)
    [] q = "U1" -> IF ~IsHex(b) THEN Dead(c) ELSE IF pairing /\ IsD(b) THEN To(c, "UD") ELSE To(c, "U2")
    [] q = "U2" -> IF IsHex(b) THEN To(c, "U3") ELSE Dead(c)
    [] q = "U3" -> IF IsHex(b) THEN To(c, "U4") ELSE Dead(c)
    [] q = "U4" -> IF IsHex(b) THEN To(c, "S") ELSE Dead(c)
    \* pairing only: \uD?.. -- 0..7: ordinary; 8..B: high surrogate; C..F: lone low surrogate
    [] q = "UD" -> IF ~IsHex(b) \/ IsLoNib(b) THEN Dead(c) ELSE IF IsHiNib(b) THEN To(c, "H3") ELSE To(c, "U3")
    [] q = "H3" -> IF IsHex(b) THEN To(c, "H4") ELSE Dead(c)
    [] q = "H4" -> IF IsHex(b) THEN To(c, "LB") ELSE Dead(c)
    [] q = "LB" -> IF b = 92 THEN To(c, "LU") ELSE Dead(c)
    [] q = "LU" -> IF b = 117 THEN To(c, "L1") ELSE Dead(c)
    [] q = "L1" -> IF IsD(b) THEN To(c, "L2") ELSE Dead(c)
    [] q = "L2" -> IF IsLoNib(b) THEN To(c, "L3") ELSE Dead(c)
    [] q = "L3" -> IF IsHex(b) THEN To(c, "L4") ELSE Dead(c)
    [] q = "L4" -> IF IsHex(b) THEN To(c, "S") ELSE Dead(c)
    (* ---- numbers ---- *)
    [] q = "N-" -> IF b = 48 THEN To(c, "N0") ELSE IF IsDigit(b) THEN To(c, "NI") ELSE Dead(c)
    [] q = "N0" -> IF b = 46 THEN To(c, "N.") ELSE IF b = 101 \/ b = 69 THEN To(c, "NE")
                   ELSE IF IsDigit(b) THEN Dead(c) ELSE EndNum(c, b)          \* no leading zeros
    [] q = "NI" -> IF IsDigit(b) THEN Stay(c) ELSE IF b = 46 THEN To(c, "N.")
                   ELSE IF b = 101 \/ b = 69 THEN To(c, "NE") ELSE EndNum(c, b)
    [] q = "N." -> IF IsDigit(b) THEN To(c, "NF") ELSE Dead(c)
    [] q = "NF" -> IF IsDigit(b) THEN Stay(c) ELSE IF b = 101 \/ b = 69 THEN To(c, "NE") ELSE EndNum(c, b)
    [] q = "NE" -> IF b = 43 \/ b = 45 THEN To(c, "NS") ELSE IF IsDigit(b) THEN To(c, "NX") ELSE Dead(c)
    [] q = "NS" -> IF IsDigit(b) THEN To(c, "NX") ELSE Dead(c)
    [] q = "NX" -> IF IsDigit(b) THEN Stay(c) ELSE EndNum(c, b)
    (* ---- literal names ---- *)
    [] q = "t1" -> IF b = 114 THEN To(c, "t2") ELSE Dead(c)
    [] q = "t2" -> IF b = 117 THEN To(c, "t3") ELSE Dead(c)
    [] q = "t3" -> IF b = 101 THEN EndTok(c) ELSE Dead(c)
    [] q = "f1" -> IF b = 97 THEN To(c, "f2") ELSE Dead(c)
    [] q = "f2" -> IF b = 108 THEN To(c, "f3") ELSE Dead(c)
    [] q = "f3" -> IF b = 115 THEN To(c, "f4") ELSE Dead(c)
    [] q = "f4" -> IF b = 101 THEN EndTok(c) ELSE Dead(c)
    [] q = "n1" -> IF b = 117 THEN To(c, "n2") ELSE Dead(c)
    [] q = "n2" -> IF b = 108 THEN To(c, "n3") ELSE Dead(c)
    [] q = "n3" -> IF b = 108 THEN EndTok(c) ELSE Dead(c)
    [] OTHER -> Dead(c)

StepRfc(c, b) == StepP(c, b, FALSE)
StepPaired(c, b) == StepP(c, b, TRUE)

Accepting(c) == c[1] = "END" \/ (c[1] \in NumEndStates /\ c[2] = "END")

RunRfc(bytes) == FoldLeft(StepRfc, CfgInit, bytes)
RunPaired(bytes) == FoldLeft(StepPaired, CfgInit, bytes)

AcceptsRfc(bytes) == Accepting(RunRfc(bytes))
ViableRfc(bytes) == RunRfc(bytes)[4]
AcceptsPaired(bytes) == Accepting(RunPaired(bytes))
ViablePaired(bytes) == RunPaired(bytes)[4]

(* ------------------------------------------------------------------------ *)
(* bounded completion: a byte string that leads any non-stuck configuration  *)
(* to acceptance (witness for "viable")                                      *)
(* ------------------------------------------------------------------------ *)
Q == 34
TokFin(c) ==
  LET q == c[1] IN
  CASE q = "S"  -> Finish(c[3]) \o <<Q>>
    [] q = "SE" -> <<110, Q>>
    [] q = "U1" -> <<48, 48, 48, 48, Q>>
    [] q = "U2" -> <<48, 48, 48, Q>>
    [] q = "U3" -> <<48, 48, Q>>
    [] q = "U4" -> <<48, Q>>
    [] q = "UD" -> <<55, 48, 48, Q>>                               \* \uD7..
    [] q = "H3" -> <<48, 48, 92, 117, 68, 67, 48, 48, Q>>          \* ..00\uDC00"
    [] q = "H4" -> <<48, 92, 117, 68, 67, 48, 48, Q>>
    [] q = "LB" -> <<92, 117, 68, 67, 48, 48, Q>>
    [] q = "LU" -> <<117, 68, 67, 48, 48, Q>>
    [] q = "L1" -> <<68, 67, 48, 48, Q>>
    [] q = "L2" -> <<67, 48, 48, Q>>
    [] q = "L3" -> <<48, 48, Q>>
    [] q = "L4" -> <<48, Q>>
    [] q \in {"N-", "N.", "NE", "NS"} -> <<48>>
    [] q \in NumEndStates -> <<>>
    [] q = "t1" -> <<114, 117, 101>>
    [] q = "t2" -> <<117, 101>>
    [] q = "t3" -> <<101>>
    [] q = "f1" -> <<97, 108, 115, 101>>
    [] q = "f2" -> <<108, 115, 101>>
    [] q = "f3" -> <<115, 101>>
    [] q = "f4" -> <<101>>
    [] q = "n1" -> <<117, 108, 108>>
    [] q = "n2" -> <<108, 108>>
    [] q = "n3" -> <<108>>
    [] OTHER -> <<>>

\* finish the innermost container (or the root value) from structural state q
CtxFin(q) ==
  CASE q = "V0"  -> <<48>>
    [] q = "END" -> <<>>
    [] q = "AV"  -> <<93>>
    [] q = "AC"  -> <<48, 93>>
    [] q = "AE"  -> <<93>>
    [] q = "OK0" -> <<125>>
    [] q = "OK"  -> <<Q, Q, 58, 48, 125>>
    [] q = "OC"  -> <<58, 48, 125>>
    [] q = "OV"  -> <<48, 125>>
    [] q = "OE"  -> <<125>>

RECURSIVE Closers(_)
Closers(stk) ==
  IF stk = <<>> THEN <<>>
  ELSE <<IF stk[Len(stk)] = 0 THEN 93 ELSE 125>> \o Closers(SubSeq(stk, 1, Len(stk) - 1))

Complete(c) ==
  LET sq == IF c[1] \in StructStates THEN c[1] ELSE c[2]
      outer == IF c[5] = <<>> THEN <<>> ELSE SubSeq(c[5], 1, Len(c[5]) - 1)
  IN TokFin(c) \o CtxFin(sq) \o Closers(outer)

=============================================================================
