------------------------------ MODULE Gen_Utf8 ------------------------------
(* spec -> impl for C13: every byte string of length <= MaxLen over the      *)
(* range-edge alphabet, with the answers Utf8.tla predicts:                  *)
(*   b  the core string                                                      *)
(*   r  r[k+1] = ErrFull(core \o "A"^k), k = 0..3  (<<off, kind, line, col>>,*)
(*      <<-1,0,0,0>> = Ok) -- by the embedding lemma checked in MC_Utf8 the  *)
(*      answer for  pad \o core \o tail  (ASCII, no LF) is Shift(r[min(|tail|,3)+1], |pad|) *)
(*   d  Decode(core) = <<cp, len>> or <<-1, 0>>                              *)
EXTENDS Utf8, TLC, Json

CONSTANTS Alphabet, MaxLen

VARIABLE s

Init == s = <<>>
Next == Len(s) < MaxLen /\ \E b \in Alphabet : s' = Append(s, b)
Spec == Init /\ [][Next]_s

A3 == <<65, 65, 65>>

Emit ==
  PrintT(<<"REPLAY", ToJson([b |-> s,
                             r |-> [k \in 1..4 |-> ErrFull(s \o SubSeq(A3, 1, k - 1))],
                             d |-> Decode(s)])>>)
=============================================================================
