------------------------------ MODULE Trace_Jq ------------------------------
(* Trace validation for C23 (and the spec-as-oracle clause shared with C24):  *)
(* every event is one (program, input) pair run through BOTH real evaluators. *)
(*   (i)  Agreement, for every event of every tier: the library evaluator's   *)
(*        outcome (outputs, end kind, error value, break label, halt code)    *)
(*        equals the generic evaluator's -- this is the property C23 itself;  *)
(*   (ii) for tier "core" the two outcomes must ALSO equal JqCore's           *)
(*        Eval(ast, Norm(in)) unless the reference semantics is silent        *)
(*        ("skip") -- this catches a bug shared by both evaluators.           *)
(* r = number of outputs of the library evaluator (binding self-test field).  *)
EXTENDS TraceBase, JqCore

VARIABLE l

Agree(e) == e.oe = e.og /\ e.r = Len(e.oe.out)

SpecSays(e) ==
  LET r == Eval(e.ast, Norm(e.in), EmptyEnv)
  IN IF r.end.k = "skip" THEN PrintT(<<"JQSKIP", l>>)
     ELSE e.oe = r /\ e.og = r

Run(e) == /\ e.e = "run"
          /\ Agree(e)
          /\ (e.tier = "core" => SpecSays(e))

Init == l = 1

Next == /\ l <= NRec
        /\ LET e == Rec[l] IN Run(e)
        /\ l' = l + 1

Spec == Init /\ [][Next]_l
=============================================================================
