------------------------------ MODULE EliasFano ------------------------------
(***************************************************************************)
(* Abstract specification of succinctly::bits::EliasFano and its cursor    *)
(* (property C03).  The encoded object IS the plain non-decreasing         *)
(* sequence `vals`; every observer is a one-line function of it, and the   *)
(* cursor is a single index cur \in 0..Len(vals), Len(vals) = exhausted.   *)
(*                                                                         *)
(* Values are abstract "keys" compared with Leq so that the same module    *)
(* serves the scaled model (keys = naturals) and trace validation of the   *)
(* real u32 code (keys = <<hi16, lo16>> pairs, because TLC integers are    *)
(* 32-bit signed).                                                         *)
(***************************************************************************)
EXTENDS Integers, Sequences

CONSTANTS Leq(_, _),         \* total order on keys
          NoKey              \* the "no element" answer, of the same type as a key

None == -1

N(vals) == Len(vals)

NonDecreasing(vals) == \A i \in 1..(Len(vals) - 1) : Leq(vals[i], vals[i + 1])

\* element i (0-based), None past the end
Get(vals, i) == IF i >= 0 /\ i < Len(vals) THEN vals[i + 1] ELSE NoKey

\* index (0-based) of the LAST element <= v, None if there is none.
\* Binary search is sound because vals is non-decreasing; MC_EliasFano checks it against
\* the set-based definition PredecessorDef.
RECURSIVE PredSearch(_, _, _, _, _)
PredSearch(vals, v, lo, hi, best) ==
  IF lo < hi
  THEN LET mid == lo + (hi - lo) \div 2
       IN IF Leq(vals[mid + 1], v) THEN PredSearch(vals, v, mid + 1, hi, mid)
          ELSE PredSearch(vals, v, lo, mid, best)
  ELSE best

PredecessorIdx(vals, v) == PredSearch(vals, v, 0, Len(vals), None)

PredecessorDef(vals, v) ==
  LET S == {i \in 0..(Len(vals) - 1) : Leq(vals[i + 1], v)}
  IN IF S = {} THEN None ELSE CHOOSE i \in S : \A j \in S : j <= i

(***************************************************************************)
(* Cursor machine.  Each operator returns the new abstract cursor; the     *)
(* value reported by the operation is Current of the NEW cursor.           *)
(***************************************************************************)
Clamp(vals, j) == IF j < 0 \/ j > Len(vals) THEN Len(vals) ELSE j   \* j < 0 encodes "huge"

Current(vals, cur) == Get(vals, cur)
Index(vals, cur) == cur
IsExhausted(vals, cur) == cur >= Len(vals)

CCursor(vals) == 0
CCursorFrom(vals, j) == Clamp(vals, j)
CAdvanceOne(vals, cur) == Clamp(vals, cur + 1)
\* advance_by(0) returns the current element and does not move; k < 0 encodes "huge"
CAdvanceBy(vals, cur, k) == IF k = 0 THEN cur ELSE IF k < 0 THEN Len(vals) ELSE Clamp(vals, cur + k)
CSeek(vals, j) == Clamp(vals, j)
=============================================================================
