----------------------------- MODULE MC_DsvFormat -----------------------------
(* C22 model stage: RoundTrip for every array of 1..MaxArr strings of length  *)
(* <= MaxStr over Alphabet (cfg: {DELIM, QUOTE, CR, LF, space, 'a'}).  The array is *)
(* grown one character / one string per step; every state stands for the      *)
(* array  done \o <<cur>>.                                                     *)
EXTENDS DsvFormat, TLC

CONSTANTS DELIM, MaxArr, MaxStr, Alphabet

VARIABLES done, cur

ASSUME DELIM \in Alphabet /\ QUOTE \in Alphabet /\ LF \in Alphabet

Init == done = <<>> /\ cur = <<>>

AddChar == /\ Len(cur) < MaxStr
           /\ \E c \in Alphabet : cur' = Append(cur, c)
           /\ UNCHANGED done

Close == /\ Len(done) + 1 < MaxArr
         /\ done' = Append(done, cur)
         /\ cur' = <<>>

Next == AddChar \/ Close

Spec == Init /\ [][Next]_<<done, cur>>

Inv == RoundTrip(Append(done, cur), DELIM)
=============================================================================
