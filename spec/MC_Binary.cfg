CONSTANTS MaxWords = 2  MaxBytes = 8  EdgeBits = {0, 7, 8, 32, 56, 63}  EdgeBytes = {0, 129, 255}
SPECIFICATION Spec
INVARIANT Inv
CHECK_DEADLOCK FALSE
