------------------------------- MODULE IbIndex -------------------------------
(***************************************************************************)
(* C07 -- interest bits of a JSON index: rank / select, select with a      *)
(* starting hint, node text positions, and the node reached from a byte    *)
(* offset or a line/column pair.                                           *)
(*                                                                         *)
(* The interest-bit vector `ib` is a bit sequence (BitSeq conventions:     *)
(* position i of the code is element i+1), one bit per text byte; bit i is *)
(* set iff a node (token or opening bracket) starts at byte i.  Nodes are  *)
(* numbered in document order, so node n is the n-th set bit.              *)
(*                                                                         *)
(* Nothing here mentions the hint except as an ignored parameter: that IS  *)
(* "select with a starting hint returns the same position for every hint". *)
(***************************************************************************)
EXTENDS Integers, Sequences, BitSeq

Rank(ib, pos) == Rank1(ib, pos)                 \* ones in [0, pos)
Select(ib, k) == Select1(ib, k)                 \* position of the k-th one (0-based) or None
SelectFrom(ib, k, hint) == Select(ib, k)        \* for EVERY hint
TextPosition(ib, n) == Select(ib, n)            \* where node n starts

\* node with the greatest start <= o; None when o is outside the text or precedes every node
\* (contract of JsonCursor::cursor_at_offset: "None if the offset is out of bounds / does not
\* correspond to a valid node")
CursorAtOffset(ib, o) ==
  IF o < 0 \/ o >= Len(ib) THEN None
  ELSE LET k == Rank1(ib, o + 1) IN IF k = 0 THEN None ELSE k - 1

----------------------------------------------------------------------------
(* line / column (1-based, columns count bytes).  A line break is LF, CRLF *)
(* or a lone CR; a break at the very end of the text starts no line.       *)
LF == 10
CR == 13

RECURSIVE LineStartsFrom(_, _)
LineStartsFrom(bytes, i) ==     \* i: 0-based scan position
  IF i >= Len(bytes) THEN <<>>
  ELSE LET w == IF bytes[i + 1] = CR /\ i + 1 < Len(bytes) /\ bytes[i + 2] = LF THEN 2
                ELSE IF bytes[i + 1] \in {CR, LF} THEN 1 ELSE 0
       IN IF w = 0 THEN LineStartsFrom(bytes, i + 1)
          ELSE (IF i + w < Len(bytes) THEN <<i + w>> ELSE <<>>) \o LineStartsFrom(bytes, i + w)

LineStarts(bytes) == <<0>> \o LineStartsFrom(bytes, 0)

\* ls: sequence of line-start offsets; l, c < 0 stand for integers >= 2^30
ToOffset(ls, len, l, c) ==
  IF l < 1 \/ c < 1 \/ l > Len(ls) THEN None
  ELSE LET o == ls[l] + c - 1 IN IF o < len THEN o ELSE None

CursorAtPosition(ib, ls, l, c) ==
  LET o == ToOffset(ls, Len(ib), l, c) IN IF o = None THEN None ELSE CursorAtOffset(ib, o)

----------------------------------------------------------------------------
(* The same operators evaluated on the SORTED LIST OF SET-BIT POSITIONS    *)
(* `ones` (the form traces carry; cost O(log n) per query).  `len` is the  *)
(* logical length: set bits at or past len are stray storage bits, never   *)
(* selected.  MC_IbIndex checks these against the definitions above.       *)

RECURSIVE CountBelow(_, _, _, _)
\* number of entries of ones[lo+1 .. hi] (all entries before lo are < pos) that are < pos
CountBelow(ones, pos, lo, hi) ==
  IF lo >= hi THEN lo
  ELSE LET mid == (lo + hi) \div 2
       IN IF ones[mid + 1] < pos THEN CountBelow(ones, pos, mid + 1, hi)
          ELSE CountBelow(ones, pos, lo, mid)

\* pos < 0 stands for an integer >= 2^30 (past every bit)
PRank(ones, pos) == IF pos < 0 THEN Len(ones) ELSE CountBelow(ones, pos, 0, Len(ones))

PSelect(ones, len, k) ==
  IF k >= 0 /\ k < Len(ones) /\ ones[k + 1] < len THEN ones[k + 1] ELSE None

PCursorAtOffset(ones, len, o) ==
  IF o < 0 \/ o >= len THEN None
  ELSE LET k == PRank(ones, o + 1) IN IF k = 0 THEN None ELSE k - 1

PCursorAtPosition(ones, len, ls, l, c) ==
  LET o == ToOffset(ls, len, l, c) IN IF o = None THEN None ELSE PCursorAtOffset(ones, len, o)

OnesOf(ib) == LET S == PosOf(ib, 1)
              IN [i \in 1..Cardinality(S) |-> CHOOSE p \in S : Cardinality({q \in S : q < p}) = i - 1]
=============================================================================
