---------------------------- MODULE RangeMinImpl ----------------------------
(***************************************************************************)
(* Implementation-shaped specification of succinctly::trees::BalancedParens*)
(* (src/trees/bp.rs) and of the free functions find_close / find_open /    *)
(* enclose, with SCALED constants so that TLC can compare it exhaustively   *)
(* with the definitional BalancedParens.tla on every bit string of the      *)
(* scaled size (MC_RangeMin).                                               *)
(*                                                                         *)
(*   W     bits per word                     (code: 64)                    *)
(*   BYTE  bits per lookup-table byte, divides W          (code: 8)        *)
(*   F1    words per L1 block                (code: FACTOR_L1 = 32)        *)
(*   F2    L1 blocks per L2 block            (code: FACTOR_L2 = 32)        *)
(*   B     words per rank block              (code: WORDS_PER_RANK_BLOCK=8)*)
(*   BLK, PRO   scan_select block / prologue (code: 8, 8) -- from BitVecImpl*)
(*   SR    WithSelect's fixed sample rate    (code: 256)                   *)
(*                                                                         *)
(* `m` is the word storage the structure holds, as a flat bit sequence of   *)
(* W * nwords bits (ALL words the caller passed, surplus words included);   *)
(* `len` the logical length.  One operator per code function; the           *)
(* find_close_from automaton has one named arm per match arm of the code.   *)
(* Integer widths (i8/i16/i32 summaries, 9-bit packing) are not modelled:   *)
(* they are exercised by the traces with the real constants.                *)
(***************************************************************************)
EXTENDS BitVecImpl, Integers

CONSTANTS BYTE, F1, F2, SR

Panic == -2          \* arithmetic overflow panic of the code (debug / overflow-checks build)
Stuck == -3          \* automaton ran out of fuel (must never be observed)

L1BITS == W * F1
L2BITS == W * F1 * F2

MinI(a, c) == IF a < c THEN a ELSE c
MaxI(a, c) == IF a > c THEN a ELSE c
CeilDiv(a, d) == (a + d - 1) \div d

\* ---------------------------------------------------------------------------
\* constructors
\* ---------------------------------------------------------------------------
\* mask_final_word_in_place: clears bits >= len % W of words.last() -- the LAST word of the
\* storage, which is the word holding bit len-1 only when there are no surplus words
MaskLast(raw, len) ==
  IF len % W = 0 \/ Len(raw) = 0 THEN raw
  ELSE LET base == Len(raw) - W
       IN [i \in 1..Len(raw) |-> IF i > base + (len % W) THEN 0 ELSE raw[i]]

Stored(raw, len, owned) == IF owned THEN MaskLast(raw, len) ELSE raw

\* ---------------------------------------------------------------------------
\* byte tables (BYTE_MIN_EXCESS, BYTE_TOTAL_EXCESS, BYTE_FIND_CLOSE, BYTE_MAX_EXCESS_REV)
\* a byte / word is a sequence of bits, element 1 = least significant bit
\* ---------------------------------------------------------------------------
Stp(v) == IF v = 1 THEN 1 ELSE -1

\* scan bits from..to-1 (0-based) of `bits` left to right starting with excess e;
\* <<index where the excess first becomes 0 on a close, or -1; excess after the scan>>
RECURSIVE ScanBits(_, _, _, _)
ScanBits(bits, from, to, e) ==
  IF from >= to THEN <<-1, e>>
  ELSE IF bits[from + 1] = 1 THEN ScanBits(bits, from + 1, to, e + 1)
  ELSE IF e - 1 = 0 THEN <<from, 0>>
  ELSE ScanBits(bits, from + 1, to, e - 1)

\* <<min excess (0 or the lowest value reached on a close), total excess>> of bits 0..n-1
RECURSIVE MinTot(_, _, _, _, _)
MinTot(bits, i, n, e, mn) ==
  IF i >= n THEN <<mn, e>>
  ELSE IF bits[i + 1] = 1 THEN MinTot(bits, i + 1, n, e + 1, mn)
  ELSE MinTot(bits, i + 1, n, e - 1, MinI(mn, e - 1))

ByteMinExcess(by) == MinTot(by, 0, BYTE, 0, 0)[1]
ByteTotalExcess(by) == 2 * CountOnes(by) - BYTE
\* BYTE_FIND_CLOSE[by][e-1] (and the bit-by-bit fallback, which computes the same thing)
ByteFindClose(by, e) == LET r == ScanBits(by, 0, BYTE, e) IN IF r[1] < 0 THEN BYTE ELSE r[1]

\* max running excess scanning the byte from its top bit down (updated on opens only, from 0)
RECURSIVE MaxRev(_, _, _, _)
MaxRev(by, i, e, mx) ==
  IF i < 0 THEN mx
  ELSE IF by[i + 1] = 1 THEN MaxRev(by, i - 1, e + 1, MaxI(mx, e + 1))
  ELSE MaxRev(by, i - 1, e - 1, mx)
ByteMaxExcessRev(by) == MaxRev(by, BYTE - 1, 0, 0)

NBytes == W \div BYTE
ByteOf(w, k) == SubSeq(w, k * BYTE + 1, (k + 1) * BYTE)

\* word_min_excess(word, valid_bits) / word_min_excess_i32: full bytes by table, rest bit by bit
RECURSIVE WmeBytes(_, _, _, _, _)
WmeBytes(w, k, fullbytes, run, mn) ==
  IF k >= fullbytes THEN <<mn, run>>
  ELSE LET by == ByteOf(w, k)
       IN WmeBytes(w, k + 1, fullbytes, run + ByteTotalExcess(by), MinI(mn, run + ByteMinExcess(by)))

WordMinExcess(w, valid) ==
  IF valid = 0 THEN <<0, 0>>
  ELSE LET fb == valid \div BYTE
           rem == valid % BYTE
           a == WmeBytes(w, 0, fb, 0, 0)
       IN IF rem > 0 THEN MinTot(w, fb * BYTE, fb * BYTE + rem, a[2], a[1]) ELSE a

\* word_min_excess_unrolled: all bytes by table
WordMinExcessFull(w) == WmeBytes(w, 0, NBytes, 0, 0)

\* word_max_excess_rev: bytes from high to low
RECURSIVE WmrBytes(_, _, _, _)
WmrBytes(w, k, run, mx) ==
  IF k < 0 THEN <<mx, run>>
  ELSE LET by == ByteOf(w, k)
       IN WmrBytes(w, k - 1, run + ByteTotalExcess(by), MaxI(mx, run + ByteMaxExcessRev(by)))
WordMaxExcessRev(w) == WmrBytes(w, NBytes - 1, 0, 0)

\* ---------------------------------------------------------------------------
\* build_bp_index
\* ---------------------------------------------------------------------------
Indexed(m, len) == NWords(m) > 0 /\ len > 0

\* build_l0_index: the PARTIAL word is the last word of the storage
ML0(m, len, widx) ==
  IF len % W # 0 /\ widx = NWords(m) - 1 THEN WordMinExcess(Word(m, widx), len % W)
  ELSE WordMinExcessFull(Word(m, widx))
NumL0(m, len) == IF Indexed(m, len) THEN NWords(m) ELSE 0

\* block summaries: min over the entries of (running excess + entry min), and the running total
NumL1(m, len) == IF Indexed(m, len) THEN CeilDiv(NWords(m), F1) ELSE 0
RECURSIVE L1Sum(_, _, _, _, _, _)
L1Sum(m, len, i, hi, run, mn) ==
  IF i >= hi THEN <<mn, run>>
  ELSE LET x == ML0(m, len, i) IN L1Sum(m, len, i + 1, hi, run + x[2], MinI(mn, run + x[1]))
ML1(m, len, b1) == L1Sum(m, len, b1 * F1, MinI(b1 * F1 + F1, NWords(m)), 0, 0)

NumL2(m, len) == IF Indexed(m, len) THEN CeilDiv(NumL1(m, len), F2) ELSE 0
RECURSIVE L2Sum(_, _, _, _, _, _)
L2Sum(m, len, i, hi, run, mn) ==
  IF i >= hi THEN <<mn, run>>
  ELSE LET x == ML1(m, len, i) IN L2Sum(m, len, i + 1, hi, run + x[2], MinI(mn, run + x[1]))
ML2(m, len, b2) == L2Sum(m, len, b2 * F2, MinI(b2 * F2 + F2, NumL1(m, len)), 0, 0)

\* rank directory: every word of the storage is counted; only the LAST word is tail-masked
CntWord(m, len, widx) ==
  IF widx = NWords(m) - 1 /\ len % W # 0 THEN CountOnes(SubSeq(Word(m, widx), 1, len % W))
  ELSE Pop(Word(m, widx))

RECURSIVE SumCnt(_, _, _, _)
SumCnt(m, len, a, b) == IF a >= b THEN 0 ELSE CntWord(m, len, a) + SumCnt(m, len, a + 1, b)

NumRankBlocks(m, len) == IF Indexed(m, len) THEN CeilDiv(NWords(m), B) ELSE 0
RankL1(m, len, blk) == SumCnt(m, len, 0, blk * B)
\* packed offset of word i (1 <= i < B) of block blk; 0 where the word does not exist
RankL2(m, len, blk, i) ==
  IF blk * B + i < NWords(m) THEN SumCnt(m, len, blk * B, blk * B + i) ELSE 0
TotalOnes(m, len) == IF Indexed(m, len) THEN SumCnt(m, len, 0, NWords(m)) ELSE 0

\* ---------------------------------------------------------------------------
\* rank1 / rank0 / excess / is_open / is_close
\* ---------------------------------------------------------------------------
Rank1Slow(m, p) ==
  LET widx == p \div W
      bit == p % W
  IN SumPop(m, 0, MinI(widx, NWords(m)))
     + (IF bit > 0 /\ widx < NWords(m) THEN PopBelow(Word(m, widx), bit) ELSE 0)

IRank1(m, len, p0) ==
  IF p0 = 0 THEN 0
  ELSE LET p == MinI(p0, len)
           widx == p \div W
           bit == p % W
           blk == widx \div B
           wib == widx % B
       IN IF widx >= NWords(m) THEN Rank1Slow(m, p)
          ELSE IF blk >= NumRankBlocks(m, len) THEN Rank1Slow(m, p)
          ELSE RankL1(m, len, blk)
               + (IF wib = 0 THEN 0 ELSE RankL2(m, len, blk, wib))
               + (IF bit > 0 THEN PopBelow(Word(m, widx), bit) ELSE 0)

IRank0(m, len, p) == MinI(p, len) - IRank1(m, len, p)

IIsOpen(m, len, p) == p < len /\ m[p + 1] = 1
IIsClose(m, len, p) == p < len /\ ~IIsOpen(m, len, p)

IExcess(m, len, p) == IF p >= len THEN 0 ELSE 2 * IRank1(m, len, p + 1) - (p + 1)

\* ---------------------------------------------------------------------------
\* find_close_in_word_fast(word, start_bit, initial_excess, valid_bits) -> bit or -1
\* ---------------------------------------------------------------------------
\* the `while pos + 8 <= valid_bits && excess > 0` loop; <<found bit or -1, pos, excess>>
RECURSIVE FcwBytes(_, _, _, _)
FcwBytes(w, pos, e, valid) ==
  IF pos + BYTE <= valid /\ e > 0
  THEN LET by == ByteOf(w, pos \div BYTE)
       IN IF e + ByteMinExcess(by) <= 0 /\ ByteFindClose(by, e) < BYTE
          THEN <<pos + ByteFindClose(by, e), pos, e>>
          ELSE FcwBytes(w, pos + BYTE, e + ByteTotalExcess(by), valid)
  ELSE <<-1, pos, e>>

FindCloseInWordFast(w, start, e0, valid) ==
  IF start >= valid \/ e0 <= 0 THEN -1
  ELSE LET fbi == start \div BYTE
           bib == start % BYTE
           \* partial first byte
           endbit == MinI(BYTE, valid - fbi * BYTE)
           first == IF bib # 0 THEN ScanBits(w, start, fbi * BYTE + endbit, e0) ELSE <<-1, e0>>
           pos1 == IF bib # 0 THEN (fbi + 1) * BYTE ELSE start
       IN IF first[1] >= 0 THEN first[1]
          ELSE LET mid == FcwBytes(w, pos1, first[2], valid)
               IN IF mid[1] >= 0 THEN mid[1]
                  \* remaining bits of the last partial byte
                  ELSE IF mid[2] < valid /\ mid[3] > 0 /\ mid[2] \div BYTE < NBytes
                       THEN ScanBits(w, mid[2], valid, mid[3])[1]
                       ELSE -1

\* ---------------------------------------------------------------------------
\* find_close_from: the seven-state automaton, one operator per match arm.
\* A configuration is [st, ex, pos]; a step yields a configuration or [st |-> "Done", r |-> v].
\* ---------------------------------------------------------------------------
Done(v) == [st |-> "Done", r |-> v, ex |-> 0, pos |-> 0]
Go(st, ex, pos) == [st |-> st, r |-> 0, ex |-> ex, pos |-> pos]

ValidBits(len, widx) == IF widx * W + W <= len THEN W ELSE len - widx * W

\* ---- the arms (what each match arm does) ----
ScanWord_PastLen(m, len, c) == Done(None)
ScanWord_Found(m, len, c) ==
  LET widx == c.pos \div W
  IN Done(widx * W + FindCloseInWordFast(Word(m, widx), c.pos % W, c.ex, ValidBits(len, widx)))
ScanWord_NextWord(m, len, c) ==
  LET widx == c.pos \div W
      bit == c.pos % W
      valid == ValidBits(len, widx)
      ones == CountOnes(SubSeq(Word(m, widx), bit + 1, valid))
  IN Go("FromL0", c.ex + 2 * ones - (valid - bit), (widx + 1) * W)

CheckL0_PastIndex(m, len, c) == Done(None)
CheckL0_Descend(m, len, c) == Go("ScanWord", c.ex, c.pos)
CheckL0_SkipWord(m, len, c) == Go("FromL0", c.ex + ML0(m, len, c.pos \div W)[2], c.pos + W)

CheckL1_PastIndex(m, len, c) == Done(None)
CheckL1_Descend(m, len, c) == Go("CheckL0", c.ex, c.pos)
CheckL1_CloseHere(m, len, c) == Done(c.pos)     \* `is_close(pos) && excess <= 1`: dead arm
CheckL1_SkipBlock(m, len, c) == Go("FromL1", c.ex + ML1(m, len, c.pos \div L1BITS)[2], c.pos + L1BITS)
CheckL1_PastLen(m, len, c) == Done(None)

CheckL2_PastIndex(m, len, c) == Done(None)
CheckL2_Descend(m, len, c) == Go("CheckL1", c.ex, c.pos)
CheckL2_CloseHere(m, len, c) == Done(c.pos)     \* dead arm
CheckL2_SkipBlock(m, len, c) == Go("FromL2", c.ex + ML2(m, len, c.pos \div L2BITS)[2], c.pos + L2BITS)
CheckL2_PastLen(m, len, c) == Done(None)

FromL0_WordAligned(m, len, c) == Go("FromL1", c.ex, c.pos)
FromL0_InsideWord(m, len, c) == Go("ScanWord", c.ex, c.pos)
FromL0_PastLen(m, len, c) == Done(None)

FromL1_BlockAligned(m, len, c) == Go("FromL2", c.ex, c.pos)
FromL1_BlockAlignedPastLen(m, len, c) == Done(None)
FromL1_InsideBlock(m, len, c) == Go("CheckL0", c.ex, c.pos)
FromL1_PastLen(m, len, c) == Done(None)

FromL2_BlockAligned(m, len, c) == Go("CheckL2", c.ex, c.pos)
FromL2_BlockAlignedPastLen(m, len, c) == Done(None)
FromL2_InsideBlock(m, len, c) == Go("CheckL1", c.ex, c.pos)
FromL2_PastLen(m, len, c) == Done(None)

\* ---- which arm the `match state` takes in configuration c (the guards of the code) ----
ScanWordSel(m, len, c) ==
  IF c.pos >= len THEN "ScanWord_PastLen"
  ELSE LET widx == c.pos \div W
       IN IF FindCloseInWordFast(Word(m, widx), c.pos % W, c.ex, ValidBits(len, widx)) >= 0
          THEN "ScanWord_Found" ELSE "ScanWord_NextWord"

CheckL0Sel(m, len, c) ==
  LET widx == c.pos \div W
  IN IF widx >= NumL0(m, len) THEN "CheckL0_PastIndex"
     ELSE IF c.ex + ML0(m, len, widx)[1] <= 0 THEN "CheckL0_Descend"
     ELSE "CheckL0_SkipWord"

CheckL1Sel(m, len, c) ==
  LET i1 == c.pos \div L1BITS
  IN IF i1 >= NumL1(m, len) THEN "CheckL1_PastIndex"
     ELSE IF c.ex + ML1(m, len, i1)[1] <= 0 THEN "CheckL1_Descend"
     ELSE IF c.pos < len
          THEN IF IIsClose(m, len, c.pos) /\ c.ex <= 1 THEN "CheckL1_CloseHere" ELSE "CheckL1_SkipBlock"
     ELSE "CheckL1_PastLen"

CheckL2Sel(m, len, c) ==
  LET i2 == c.pos \div L2BITS
  IN IF i2 >= NumL2(m, len) THEN "CheckL2_PastIndex"
     ELSE IF c.ex + ML2(m, len, i2)[1] <= 0 THEN "CheckL2_Descend"
     ELSE IF c.pos < len
          THEN IF IIsClose(m, len, c.pos) /\ c.ex <= 1 THEN "CheckL2_CloseHere" ELSE "CheckL2_SkipBlock"
     ELSE "CheckL2_PastLen"

FromL0Sel(m, len, c) ==
  IF c.pos % W = 0 THEN "FromL0_WordAligned"
  ELSE IF c.pos < len THEN "FromL0_InsideWord"
  ELSE "FromL0_PastLen"

FromL1Sel(m, len, c) ==
  IF c.pos % L1BITS = 0
  THEN IF c.pos < len THEN "FromL1_BlockAligned" ELSE "FromL1_BlockAlignedPastLen"
  ELSE IF c.pos < len THEN "FromL1_InsideBlock"
  ELSE "FromL1_PastLen"

FromL2Sel(m, len, c) ==
  IF c.pos % L2BITS = 0
  THEN IF c.pos < len THEN "FromL2_BlockAligned" ELSE "FromL2_BlockAlignedPastLen"
  ELSE IF c.pos < len THEN "FromL2_InsideBlock"
  ELSE "FromL2_PastLen"

FcArm(m, len, c) ==
  CASE c.st = "ScanWord" -> ScanWordSel(m, len, c)
    [] c.st = "CheckL0" -> CheckL0Sel(m, len, c)
    [] c.st = "CheckL1" -> CheckL1Sel(m, len, c)
    [] c.st = "CheckL2" -> CheckL2Sel(m, len, c)
    [] c.st = "FromL0" -> FromL0Sel(m, len, c)
    [] c.st = "FromL1" -> FromL1Sel(m, len, c)
    [] c.st = "FromL2" -> FromL2Sel(m, len, c)

FcApply(m, len, c, arm) ==
  CASE arm = "ScanWord_PastLen" -> ScanWord_PastLen(m, len, c)
    [] arm = "ScanWord_Found" -> ScanWord_Found(m, len, c)
    [] arm = "ScanWord_NextWord" -> ScanWord_NextWord(m, len, c)
    [] arm = "CheckL0_PastIndex" -> CheckL0_PastIndex(m, len, c)
    [] arm = "CheckL0_Descend" -> CheckL0_Descend(m, len, c)
    [] arm = "CheckL0_SkipWord" -> CheckL0_SkipWord(m, len, c)
    [] arm = "CheckL1_PastIndex" -> CheckL1_PastIndex(m, len, c)
    [] arm = "CheckL1_Descend" -> CheckL1_Descend(m, len, c)
    [] arm = "CheckL1_CloseHere" -> CheckL1_CloseHere(m, len, c)
    [] arm = "CheckL1_SkipBlock" -> CheckL1_SkipBlock(m, len, c)
    [] arm = "CheckL1_PastLen" -> CheckL1_PastLen(m, len, c)
    [] arm = "CheckL2_PastIndex" -> CheckL2_PastIndex(m, len, c)
    [] arm = "CheckL2_Descend" -> CheckL2_Descend(m, len, c)
    [] arm = "CheckL2_CloseHere" -> CheckL2_CloseHere(m, len, c)
    [] arm = "CheckL2_SkipBlock" -> CheckL2_SkipBlock(m, len, c)
    [] arm = "CheckL2_PastLen" -> CheckL2_PastLen(m, len, c)
    [] arm = "FromL0_WordAligned" -> FromL0_WordAligned(m, len, c)
    [] arm = "FromL0_InsideWord" -> FromL0_InsideWord(m, len, c)
    [] arm = "FromL0_PastLen" -> FromL0_PastLen(m, len, c)
    [] arm = "FromL1_BlockAligned" -> FromL1_BlockAligned(m, len, c)
    [] arm = "FromL1_BlockAlignedPastLen" -> FromL1_BlockAlignedPastLen(m, len, c)
    [] arm = "FromL1_InsideBlock" -> FromL1_InsideBlock(m, len, c)
    [] arm = "FromL1_PastLen" -> FromL1_PastLen(m, len, c)
    [] arm = "FromL2_BlockAligned" -> FromL2_BlockAligned(m, len, c)
    [] arm = "FromL2_BlockAlignedPastLen" -> FromL2_BlockAlignedPastLen(m, len, c)
    [] arm = "FromL2_InsideBlock" -> FromL2_InsideBlock(m, len, c)
    [] arm = "FromL2_PastLen" -> FromL2_PastLen(m, len, c)

FcStep(m, len, c) == FcApply(m, len, c, FcArm(m, len, c))

\* termination measure: every step either finishes, moves pos forward, or moves to a state of
\* strictly smaller rank at the same pos
StRank(st) ==
  CASE st = "FromL0" -> 6 [] st = "FromL1" -> 5 [] st = "FromL2" -> 4 [] st = "CheckL2" -> 3
    [] st = "CheckL1" -> 2 [] st = "CheckL0" -> 1 [] st = "ScanWord" -> 0 [] st = "Done" -> -1

Progress(c, d) == d.st = "Done" \/ d.pos > c.pos \/ (d.pos = c.pos /\ StRank(d.st) < StRank(c.st))

\* run with fuel; <<result, steps used, progress measure respected on every step>>
RECURSIVE FcRun(_, _, _, _, _)
FcRun(m, len, c, steps, fuel) ==
  IF c.st = "Done" THEN <<c.r, steps, TRUE>>
  ELSE IF fuel = 0 THEN <<Stuck, steps, FALSE>>
  ELSE LET d == FcStep(m, len, c)
       IN IF ~Progress(c, d) THEN <<Stuck, steps, FALSE>>
          ELSE FcRun(m, len, d, steps + 1, fuel - 1)

\* at most 7 states per word-aligned position plus the scan of the start word
Fuel(m) == 7 * (NWords(m) + 2)

FindCloseFrom(m, len, start, e0) ==
  IF start >= len THEN <<None, 0, TRUE>>
  ELSE FcRun(m, len, Go("FromL0", e0, start), 0, Fuel(m))

IFindClose(m, len, p) ==
  IF p >= len \/ IIsClose(m, len, p) THEN None ELSE FindCloseFrom(m, len, p + 1, 1)[1]

\* ---------------------------------------------------------------------------
\* free functions find_open / enclose (also used by the methods) and find_close
\* ---------------------------------------------------------------------------
\* scan bits from..0 of word w downwards; a hit is checked on opens only;
\* <<bit or -1, excess after the scan>>
RECURSIVE InWordBack(_, _, _, _)
InWordBack(w, from, e, goal) ==
  IF from < 0 THEN <<-1, e>>
  ELSE IF w[from + 1] = 1
       THEN IF e + 1 = goal THEN <<from, e + 1>> ELSE InWordBack(w, from - 1, e + 1, goal)
       ELSE InWordBack(w, from - 1, e - 1, goal)

RECURSIVE FindOpenWords(_, _, _)
FindOpenWords(m, widx, e) ==
  IF widx < 0 THEN None
  ELSE LET r == InWordBack(Word(m, widx), W - 1, e, 0)
       IN IF r[1] >= 0 THEN widx * W + r[1] ELSE FindOpenWords(m, widx - 1, r[2])

FFindOpen(m, len, p) ==
  IF p >= len \/ NWords(m) = 0 THEN None
  ELSE IF m[p + 1] = 1 THEN None
  ELSE LET widx == p \div W
           r == InWordBack(Word(m, widx), (p % W) - 1, -1, 0)
       IN IF r[1] >= 0 THEN widx * W + r[1] ELSE FindOpenWords(m, widx - 1, r[2])

IFindOpen(m, len, p) == IF p >= len \/ IIsOpen(m, len, p) THEN None ELSE FFindOpen(m, len, p)

RECURSIVE EncloseWords(_, _, _)
EncloseWords(m, widx, e) ==
  IF widx < 0 THEN None
  ELSE LET w == Word(m, widx)
           mr == WordMaxExcessRev(w)
       IN IF e + mr[1] >= 1
          THEN LET r == InWordBack(w, W - 1, e, 1)
               IN IF r[1] >= 0 THEN widx * W + r[1] ELSE EncloseWords(m, widx - 1, r[2])
          ELSE EncloseWords(m, widx - 1, e + mr[2])

FEnclose(m, len, p) ==
  IF p = 0 \/ p >= len \/ NWords(m) = 0 THEN None
  ELSE IF m[p + 1] = 0 THEN None
  ELSE LET widx == p \div W
           bit == p % W
           sbit == IF bit > 0 THEN bit - 1 ELSE W - 1
           sword == IF bit > 0 THEN widx ELSE MaxI(widx - 1, 0)
           r == InWordBack(Word(m, sword), sbit, 0, 1)
       IN IF r[1] >= 0 THEN sword * W + r[1] ELSE EncloseWords(m, sword - 1, r[2])

IEnclose(m, len, p) == IF p >= len \/ IIsClose(m, len, p) THEN None ELSE FEnclose(m, len, p)

\* find_unmatched_close_in_word / find_close_in_word
IFindUnmatchedClose(w) == LET r == ScanBits(w, 0, W, 1) IN IF r[1] < 0 THEN W ELSE r[1]

IFindCloseInWord(w, p) ==
  IF p >= W THEN None
  ELSE IF w[p + 1] = 0 THEN p
  ELSE IF W - 1 - p = 0 THEN None
  ELSE LET shifted == SubSeq(w, p + 2, W) \o [i \in 1..(p + 1) |-> 0]    \* (word >> p) >> 1
           res == IFindUnmatchedClose(shifted)
       IN IF res < W - 1 - p THEN p + 1 + res ELSE None

\* the multi-word loop of the free find_close: words widx.. of the storage
RECURSIVE FFindCloseWords(_, _, _, _)
FFindCloseWords(m, len, widx, e) ==
  IF widx >= NWords(m) THEN None
  ELSE IF widx * W + W > len /\ len - widx * W < 0 THEN Panic        \* `len - actual_word_idx * 64`
  ELSE LET bits == IF widx * W + W <= len THEN W ELSE len - widx * W
           w == [i \in 1..W |-> IF i <= bits THEN Word(m, widx)[i] ELSE 0]   \* masked_word
           mt == WordMinExcess(w, bits)
           hit == IF e + mt[1] <= 0 THEN ScanBits(w, 0, bits, e)[1] ELSE -1
       IN IF hit >= 0 THEN widx * W + hit
          ELSE IF widx * W >= len THEN None                                  \* break
          ELSE FFindCloseWords(m, len, widx + 1, e + mt[2])

FFindClose(m, len, p) ==
  IF p >= len \/ NWords(m) = 0 THEN None
  ELSE IF m[p + 1] = 0 THEN None
  ELSE LET widx == p \div W
           bit == p % W
           local == IFindCloseInWord(Word(m, widx), bit)
       IN IF local # None /\ widx * W + local < len THEN widx * W + local
          ELSE LET ones == CountOnes(SubSeq(Word(m, widx), bit + 1, W))
               IN FFindCloseWords(m, len, widx + 1, 2 * ones - (W - bit))

\* ---------------------------------------------------------------------------
\* derived navigation
\* ---------------------------------------------------------------------------
INextSibling(m, len, p) ==
  IF ~IIsOpen(m, len, p) THEN None
  ELSE LET c == IFindClose(m, len, p)
       IN IF c = None THEN None
          ELSE IF c + 1 < len /\ IIsOpen(m, len, c + 1) THEN c + 1 ELSE None

IFirstChild(m, len, p) ==
  IF ~IIsOpen(m, len, p) \/ p + 1 >= len THEN None
  ELSE IF IIsOpen(m, len, p + 1) THEN p + 1 ELSE None

IDepth(m, len, p) == IF p >= len THEN None ELSE IExcess(m, len, p)

ISubtreeSize(m, len, p) ==
  IF p >= len \/ IIsClose(m, len, p) THEN None
  ELSE LET c == IFindClose(m, len, p) IN IF c = None THEN None ELSE (c - p) \div 2

\* ---------------------------------------------------------------------------
\* select1: WithSelect (SelectIndex<u32> at rate SR + scan_select), WithCsPoppy; select0
\* ---------------------------------------------------------------------------
WsSamples(m, total) ==
  IF NWords(m) = 0 \/ total = 0 THEN <<>>
  ELSE BuildSamples(m, EffRate(SR), total, 0, 0, 0, <<>>)

ISelect1WS(m, len, k) ==
  LET total == TotalOnes(m, len)
  IN IF k >= total THEN None
     ELSE LET j == JumpTo(WsSamples(m, total), SR, k)
              sc == ScanSelect(m, j[1], j[2])
          IN IF sc = NoWord THEN None
             ELSE LET res == sc[1] * W + SelectInWord(Word(m, sc[1]), sc[2])
                  IN IF res < len THEN res ELSE None

\* WithCsPoppy::build_with_rate: one rank-block index per sampled one
RECURSIVE CsPush(_, _, _, _, _, _)
CsPush(samples, next, total, count, pop, blk_rate) ==
  IF next < total /\ count + pop > next
  THEN CsPush(Append(samples, blk_rate[1]), next + blk_rate[2], total, count, pop, blk_rate)
  ELSE <<samples, next>>

RECURSIVE CsBuild(_, _, _, _, _, _, _)
CsBuild(m, rate, total, widx, count, next, samples) ==
  IF widx >= NWords(m) THEN samples
  ELSE LET pop == Pop(Word(m, widx))
           r == CsPush(samples, next, total, count, pop, <<widx \div B, rate>>)
       IN CsBuild(m, rate, total, widx + 1, count + pop, r[2], r[1])

CsSamples(m, total, rate) ==
  IF NWords(m) = 0 \/ total = 0 THEN <<>> ELSE CsBuild(m, EffRate(rate), total, 0, 0, 0, <<>>)

\* slice.partition_point(|r| r <= k) on rank_l1[lo..=hi]: first index whose entry is > k
RECURSIVE PartPoint(_, _, _, _, _)
PartPoint(m, len, i, hi, k) ==
  IF i > hi THEN i
  ELSE IF RankL1(m, len, i) <= k THEN PartPoint(m, len, i + 1, hi, k) ELSE i

\* `for i in (1..words_in_block).rev()`: last word of the block whose rank is <= k
RECURSIVE CsWord(_, _, _, _, _, _)
CsWord(m, len, blk, i, brank, k) ==
  IF i < 1 THEN <<0, brank>>
  ELSE IF brank + RankL2(m, len, blk, i) <= k THEN <<i, brank + RankL2(m, len, blk, i)>>
  ELSE CsWord(m, len, blk, i - 1, brank, k)

ISelect1CS(m, len, rate, k) ==
  LET total == TotalOnes(m, len)
      samples == CsSamples(m, total, rate)
      nblk == NumRankBlocks(m, len)
  IN IF k >= total \/ Len(samples) = 0 \/ nblk = 0 THEN None
     ELSE LET sidx == k \div EffRate(rate)
              last == nblk - 1
              lo0 == IF sidx + 1 <= Len(samples) THEN samples[sidx + 1] ELSE samples[Len(samples)]
              hi == MinI(IF sidx + 2 <= Len(samples) THEN samples[sidx + 2] ELSE last, last)
              lo == MinI(lo0, hi)
              pp == PartPoint(m, len, lo, hi, k) - lo
              blk == lo + (IF pp >= 1 THEN pp - 1 ELSE 0)
              brank == RankL1(m, len, blk)
              bstart == blk * B
          IN IF NWords(m) < bstart THEN None
             ELSE LET wib == MinI(NWords(m) - bstart, B)
                      cw == CsWord(m, len, blk, wib - 1, brank, k)
                      widx == bstart + cw[1]
                  IN IF widx >= NWords(m) THEN None
                     ELSE LET res == widx * W + SelectInWord(Word(m, widx), k - cw[2])
                          IN IF res < len THEN res ELSE None

ITotalZeros(m, len) == LET z == len - TotalOnes(m, len) IN IF z < 0 THEN Panic ELSE z

RECURSIVE ISel0Search(_, _, _, _, _)
ISel0Search(m, len, k, lo, hi) ==
  IF lo < hi
  THEN LET mid == lo + (hi - lo) \div 2
       IN IF IRank0(m, len, mid + 1) > k THEN ISel0Search(m, len, k, lo, mid)
          ELSE ISel0Search(m, len, k, mid + 1, hi)
  ELSE lo

ISelect0(m, len, k) ==
  LET z == ITotalZeros(m, len)
  IN IF z = Panic THEN Panic ELSE IF k >= z THEN None ELSE ISel0Search(m, len, k, 0, len)
=============================================================================
