---------------------------- MODULE EliasFanoImpl ----------------------------
(***************************************************************************)
(* Implementation-shaped specification of succinctly::bits::EliasFano      *)
(* (src/bits/elias_fano.rs) with SCALED constants:                         *)
(*    W   bits per word of high_bits                  (code: 64)           *)
(*    R   select sample rate                          (code: 256)          *)
(*    T   advance_by falls back to seek when k > T    (code: 64)           *)
(* Keys are naturals here.  One operator per code function; the concrete   *)
(* cursor is the record [idx, hp, wi, rb] = (idx, high_pos, word_idx,      *)
(* remaining_bits) with remaining_bits a W-long bit sequence.              *)
(***************************************************************************)
EXTENDS Integers, Sequences, SequencesExt, BitSeq

CONSTANTS W, R, T

NN(vals) == Len(vals)
MaxVal(vals) == vals[Len(vals)]
Universe(vals) == IF Len(vals) = 0 THEN 0 ELSE MaxVal(vals) + 1

\* floor(log2(x)) for x >= 1
RECURSIVE Log2(_)
Log2(x) == IF x <= 1 THEN 0 ELSE 1 + Log2(x \div 2)

RECURSIVE Pow2(_)
Pow2(k) == IF k = 0 THEN 1 ELSE 2 * Pow2(k - 1)

LowWidth(vals) ==
  IF Len(vals) = 0 \/ Universe(vals) <= Len(vals) THEN 0
  ELSE Log2(Universe(vals) \div Len(vals))

HighOf(vals, i) == vals[i + 1] \div Pow2(LowWidth(vals))      \* v >> low_width
LowOf(vals, i) == vals[i + 1] % Pow2(LowWidth(vals))           \* what read_low_bits returns

\* high_bits as a flat bit sequence of whole words
HighLen(vals) == Len(vals) + (MaxVal(vals) \div Pow2(LowWidth(vals))) + 1
HighWords(vals) == (HighLen(vals) + W - 1) \div W

HighBits(vals) ==
  IF Len(vals) = 0 THEN <<>>
  ELSE LET P == {HighOf(vals, i) + i : i \in 0..(Len(vals) - 1)}
       IN [p \in 1..(HighWords(vals) * W) |-> IF (p - 1) \in P THEN 1 ELSE 0]

NW(hb) == Len(hb) \div W
Word(hb, j) == SubSeq(hb, j * W + 1, (j + 1) * W)
Zero == [i \in 1..W |-> 0]
Pop(w) == CountOnes(w)

\* trailing_zeros (W for the zero word)
TZ(w) == LET p == Select1(w, 0) IN IF p = None THEN W ELSE p
\* x & (x - 1): clear the lowest set bit
ClearLowest(w) == LET p == TZ(w) IN IF p = W THEN w ELSE [i \in 1..W |-> IF i = p + 1 THEN 0 ELSE w[i]]
\* word & !((1 << off) - 1)
MaskFrom(w, off) == [i \in 1..W |-> IF i <= off THEN 0 ELSE w[i]]
SelectInWord(w, r) == LET p == Select1(w, r) IN IF p = None THEN W ELSE p

(***************************************************************************)
(* select samples: entry s = position of the (s*R)-th one, num = ceil(n/R) *)
(***************************************************************************)
NumSamples(vals) == (Len(vals) + R - 1) \div R
Samples(vals) == [s \in 1..NumSamples(vals) |-> Select1(HighBits(vals), (s - 1) * R)]

RECURSIVE ScanFrom(_, _, _)
\* scan_select from word `a`: <<word_idx, rem>> of the crossing word (the shared scan is
\* specified and checked in BitVecImpl; here its contract is used)
ScanFrom(hb, a, rem) ==
  IF a >= NW(hb) THEN <<-1, -1>>
  ELSE LET pop == Pop(Word(hb, a))
       IN IF pop > rem THEN <<a, rem>> ELSE ScanFrom(hb, a + 1, rem - pop)

\* EliasFano::select1(k), k < n
ImplSelect1(vals, k) ==
  LET hb == HighBits(vals)
      sm == Samples(vals)
      sidx == k \div R
  IN IF sidx < Len(sm)
     THEN LET sp == sm[sidx + 1]
              sw == sp \div W
              masked == MaskFrom(Word(hb, sw), sp % W)
              rem == k - sidx * R
              ones == Pop(masked)
          IN IF ones > rem THEN sw * W + SelectInWord(masked, rem)
             ELSE LET sc == ScanFrom(hb, sw + 1, rem - ones)
                  IN sc[1] * W + SelectInWord(Word(hb, sc[1]), sc[2])
     ELSE LET sc == ScanFrom(hb, 0, k)
          IN sc[1] * W + SelectInWord(Word(hb, sc[1]), sc[2])

ImplGet(vals, i) ==
  IF i >= Len(vals) THEN None
  ELSE (ImplSelect1(vals, i) - i) * Pow2(LowWidth(vals)) + LowOf(vals, i)

RECURSIVE ImplPredLoop(_, _, _, _, _)
ImplPredLoop(vals, v, lo, hi, best) ==
  IF lo < hi
  THEN LET mid == lo + (hi - lo) \div 2
           x == ImplGet(vals, mid)
       IN IF x <= v THEN ImplPredLoop(vals, v, mid + 1, hi, <<mid, x>>)
          ELSE ImplPredLoop(vals, v, lo, mid, best)
  ELSE best
ImplPredecessor(vals, v) == ImplPredLoop(vals, v, 0, Len(vals), <<None, None>>)

(***************************************************************************)
(* concrete cursor                                                         *)
(***************************************************************************)
Cur(idx, hp, wi, rb) == [idx |-> idx, hp |-> hp, wi |-> wi, rb |-> rb]

ImplCurrent(vals, c) ==
  IF c.idx >= Len(vals) THEN None
  ELSE (c.hp - c.idx) * Pow2(LowWidth(vals)) + LowOf(vals, c.idx)

RECURSIVE SkipZeroWords(_, _)
SkipZeroWords(hb, wi) == IF wi < NW(hb) /\ Word(hb, wi) = Zero THEN SkipZeroWords(hb, wi + 1) ELSE wi

ImplCursor(vals) ==
  IF Len(vals) = 0 THEN Cur(0, 0, 0, Zero)
  ELSE LET hb == HighBits(vals)
           wi == SkipZeroWords(hb, 0)
           w == IF wi < NW(hb) THEN Word(hb, wi) ELSE Zero
       IN Cur(0, wi * W + TZ(w), wi, w)

ImplSeekState(vals, idx) ==
  LET hb == HighBits(vals)
      hp == ImplSelect1(vals, idx)
  IN Cur(idx, hp, hp \div W, MaskFrom(Word(hb, hp \div W), hp % W))

ImplCursorFrom(vals, idx) ==
  IF idx >= Len(vals) THEN Cur(Len(vals), 0, 0, Zero)
  ELSE IF idx = 0 THEN ImplCursor(vals)
  ELSE ImplSeekState(vals, idx)

Exhaust(vals, c) == [c EXCEPT !.idx = Len(vals)]

ImplAdvanceOne(vals, c) ==
  IF c.idx + 1 >= Len(vals) THEN Exhaust(vals, c)
  ELSE LET hb == HighBits(vals)
           rb1 == ClearLowest(c.rb)
       IN IF rb1 # Zero
          THEN Cur(c.idx + 1, c.wi * W + TZ(rb1), c.wi, rb1)
          ELSE LET wi == SkipZeroWords(hb, c.wi + 1)
               IN IF wi >= NW(hb)
                  THEN [c EXCEPT !.idx = Len(vals), !.rb = rb1, !.wi = wi]
                  ELSE Cur(c.idx + 1, wi * W + TZ(Word(hb, wi)), wi, Word(hb, wi))

ImplSeek(vals, c, idx) ==
  IF idx >= Len(vals) THEN Exhaust(vals, c) ELSE ImplSeekState(vals, idx)

RECURSIVE ClearN(_, _)
ClearN(w, n) == IF n <= 0 THEN w ELSE ClearN(ClearLowest(w), n - 1)

RECURSIVE AdvScan(_, _, _, _, _)
\* the `while self.word_idx < high_bits.len()` loop of advance_by
AdvScan(vals, c, wi, remaining, target) ==
  LET hb == HighBits(vals)
  IN IF wi < NW(hb)
     THEN LET w == Word(hb, wi)
              ones == Pop(w)
          IN IF ones >= remaining
             THEN LET rb == ClearN(w, remaining - 1)
                  IN Cur(target, wi * W + TZ(rb), wi, rb)
             ELSE AdvScan(vals, c, wi + 1, remaining - ones, target)
     ELSE [c EXCEPT !.idx = Len(vals), !.wi = wi]

ImplAdvanceBy(vals, c, k) ==
  IF k = 0 THEN c
  ELSE IF k = 1 THEN ImplAdvanceOne(vals, c)
  ELSE LET target == c.idx + k
       IN IF target >= Len(vals) THEN Exhaust(vals, c)
          ELSE IF k > T THEN ImplSeek(vals, c, target)
          ELSE LET after == ClearLowest(c.rb)
                   onesCur == Pop(after)
               IN IF onesCur >= k
                  THEN LET rb == ClearN(after, k - 1)
                       IN Cur(target, c.wi * W + TZ(rb), c.wi, rb)
                  ELSE AdvScan(vals, [c EXCEPT !.rb = c.rb], c.wi + 1, k - onesCur, target)

(***************************************************************************)
(* The representation invariant of a positioned cursor (from the field     *)
(* comments of EliasFanoCursor).                                           *)
(***************************************************************************)
CursorInv(vals, c) ==
  c.idx < Len(vals) =>
     LET hb == HighBits(vals)
         hp == Select1(hb, c.idx)
     IN /\ c.hp = hp
        /\ c.wi = hp \div W
        /\ c.rb = MaskFrom(Word(hb, c.wi), hp % W)
=============================================================================
