-------------------------------- MODULE Utf8 --------------------------------
(***************************************************************************)
(* UTF-8 as defined by the Unicode Standard (D92, table 3-7) and the error *)
(* attribution documented by succinctly::text::utf8.                       *)
(*                                                                         *)
(* Two independent formulations of well-formedness are given and compared  *)
(* by MC_Utf8:                                                             *)
(*   * arithmetic: a byte string is well formed iff it is a concatenation  *)
(*     of Encode(cp) for Unicode scalar values cp (WfDef, via Decode);     *)
(*   * table 3-7: a DFA over byte ranges (Step / WellFormed / ValidUpTo).  *)
(*                                                                         *)
(* Err(bytes) is the error the validators must report.  The library        *)
(* documents (module docs + Utf8ErrorKind docs) this attribution:          *)
(*   - the failing sequence is the first ill-formed one, i.e. it starts at *)
(*     ValidUpTo(bytes);                                                   *)
(*   - a byte 80..BF or F8..FF in lead position: InvalidLeadByte there;    *)
(*   - the lead (C0..DF / E0..EF / F0..F7 = 2 / 3 / 4 bytes by its bit     *)
(*     pattern) announces more bytes than remain: TruncatedSequence at the *)
(*     sequence start;                                                     *)
(*   - otherwise the first announced continuation byte outside 80..BF:     *)
(*     InvalidContinuationByte AT THAT BYTE;                               *)
(*   - otherwise the decoded value is overlong / a surrogate / above       *)
(*     U+10FFFF: that kind at the sequence start.                          *)
(* Consequently ValidUpTo <= offset <= ValidUpTo + 3, and offset =         *)
(* ValidUpTo unless the kind is InvalidContinuationByte (see DESIGN.md     *)
(* C13 notes: the continuation-byte convention is by design).              *)
(* Line/column of an error count LF only (Bytes!LineColLF).                *)
(***************************************************************************)
EXTENDS Bytes

None == -1

(* ------------------------------------------------------------------------ *)
(* scalar values, Encode / Decode by integer arithmetic                       *)
(* ------------------------------------------------------------------------ *)
MaxCp == 1114111                      \* U+10FFFF
IsSurrogate(cp) == cp >= 55296 /\ cp <= 57343       \* U+D800..U+DFFF
IsScalar(cp) == cp >= 0 /\ cp <= MaxCp /\ ~IsSurrogate(cp)

EncLen(cp) == IF cp < 128 THEN 1 ELSE IF cp < 2048 THEN 2 ELSE IF cp < 65536 THEN 3 ELSE 4

\* bit-pattern encoding of any value below 2^21 (scalar or not)
Encode(cp) ==
  CASE cp < 128   -> <<cp>>
    [] cp < 2048  -> <<192 + cp \div 64, 128 + (cp % 64)>>
    [] cp < 65536 -> <<224 + cp \div 4096, 128 + ((cp \div 64) % 64), 128 + (cp % 64)>>
    [] OTHER      -> <<240 + cp \div 262144, 128 + ((cp \div 4096) % 64),
                       128 + ((cp \div 64) % 64), 128 + (cp % 64)>>

IsCont(b) == b >= 128 /\ b <= 191          \* 80..BF

\* number of bytes a lead byte announces by its bit pattern; 0 = not a lead byte
\* (this is also the documented contract of utf8::sequence_length)
LeadLen(b) ==
  IF b < 128 THEN 1 ELSE IF b < 192 THEN 0 ELSE IF b < 224 THEN 2
  ELSE IF b < 240 THEN 3 ELSE IF b < 248 THEN 4 ELSE 0

\* payload bits of the n-byte pattern at s[p+1 .. p+n] (continuation bytes assumed in range)
RawAt(s, p, n) ==
  CASE n = 1 -> s[p + 1]
    [] n = 2 -> (s[p + 1] - 192) * 64 + (s[p + 2] - 128)
    [] n = 3 -> (s[p + 1] - 224) * 4096 + (s[p + 2] - 128) * 64 + (s[p + 3] - 128)
    [] n = 4 -> (s[p + 1] - 240) * 262144 + (s[p + 2] - 128) * 4096
                + (s[p + 3] - 128) * 64 + (s[p + 4] - 128)

DecNone == <<-1, 0>>

\* Decode(s) = <<cp, n>> iff s starts with the n-byte encoding of the scalar value cp
Decode(s) ==
  IF Len(s) = 0 THEN DecNone
  ELSE LET n == LeadLen(s[1]) IN
    IF n = 0 \/ Len(s) < n THEN DecNone
    ELSE IF \E k \in 2..n : ~IsCont(s[k]) THEN DecNone
    ELSE LET cp == RawAt(s, 0, n) IN
      IF IsScalar(cp) /\ Encode(cp) = SubSeq(s, 1, n) THEN <<cp, n>> ELSE DecNone

\* definitional well-formedness: a concatenation of encoded scalar values
RECURSIVE WfDef(_)
WfDef(s) ==
  IF s = <<>> THEN TRUE
  ELSE LET d == Decode(s) IN d[1] # -1 /\ WfDef(SubSeq(s, d[2] + 1, Len(s)))

(* ------------------------------------------------------------------------ *)
(* Unicode table 3-7 as a DFA                                                 *)
(*   "S"  code point boundary                                                 *)
(*   "C1" "C2" "C3"  1 / 2 / 3 continuation bytes 80..BF still needed         *)
(*   "E0" after E0: next A0..BF    "ED" after ED: next 80..9F   (then C1)     *)
(*   "F0" after F0: next 90..BF    "F4" after F4: next 80..8F   (then C2)     *)
(*   "X"  ill formed (absorbing)                                              *)
(* ------------------------------------------------------------------------ *)
In(b, lo, hi) == b >= lo /\ b <= hi

Step(q, b) ==
  CASE q = "S" ->
         (CASE b <= 127          -> "S"
            [] In(b, 194, 223)   -> "C1"         \* C2..DF
            [] b = 224           -> "E0"
            [] In(b, 225, 236)   -> "C2"         \* E1..EC
            [] b = 237           -> "ED"
            [] In(b, 238, 239)   -> "C2"         \* EE..EF
            [] b = 240           -> "F0"
            [] In(b, 241, 243)   -> "C3"         \* F1..F3
            [] b = 244           -> "F4"
            [] OTHER             -> "X")         \* 80..BF, C0, C1, F5..FF
    [] q = "C1" -> IF IsCont(b) THEN "S" ELSE "X"
    [] q = "C2" -> IF IsCont(b) THEN "C1" ELSE "X"
    [] q = "C3" -> IF IsCont(b) THEN "C2" ELSE "X"
    [] q = "E0" -> IF In(b, 160, 191) THEN "C1" ELSE "X"
    [] q = "ED" -> IF In(b, 128, 159) THEN "C1" ELSE "X"
    [] q = "F0" -> IF In(b, 144, 191) THEN "C2" ELSE "X"
    [] q = "F4" -> IF In(b, 128, 143) THEN "C2" ELSE "X"
    [] OTHER -> "X"

WellFormed(s) == FoldLeft(Step, "S", s) = "S"

\* a shortest byte string that brings DFA state q back to "S" (q # "X")
Finish(q) ==
  CASE q = "S" -> <<>>
    [] q = "C1" -> <<128>>
    [] q = "C2" -> <<128, 128>>
    [] q = "C3" -> <<128, 128, 128>>
    [] q = "E0" -> <<160, 128>>
    [] q = "ED" -> <<128, 128>>
    [] q = "F0" -> <<144, 128, 128>>
    [] q = "F4" -> <<128, 128, 128>>

\* length of the longest well-formed prefix; accumulator <<q, i, v>> = DFA state, bytes
\* consumed, length of the longest well-formed prefix so far
VInit == <<"S", 0, 0>>
VStep(a, b) ==
  LET q2 == Step(a[1], b) IN <<q2, a[2] + 1, IF q2 = "S" THEN a[2] + 1 ELSE a[3]>>
ValidUpTo(s) == FoldLeft(VStep, VInit, s)[3]

(* ------------------------------------------------------------------------ *)
(* error attribution                                                          *)
(* ------------------------------------------------------------------------ *)
KNone     == 0
KLead     == 1   \* InvalidLeadByte
KCont     == 2   \* InvalidContinuationByte
KOverlong == 3   \* OverlongEncoding
KSurr     == 4   \* SurrogateCodepoint
KRange    == 5   \* OutOfRangeCodepoint
KTrunc    == 6   \* TruncatedSequence

NoErr == [off |-> None, kind |-> KNone]

MinOf(S) == CHOOSE x \in S : \A y \in S : x <= y

\* the error of the ill-formed sequence that starts at 0-based offset p < Len(s)
SeqErr(s, p) ==
  LET n == LeadLen(s[p + 1]) IN
  IF n = 0 THEN [off |-> p, kind |-> KLead]
  ELSE IF p + n > Len(s) THEN [off |-> p, kind |-> KTrunc]
  ELSE LET bad == {k \in 1..(n - 1) : ~IsCont(s[p + 1 + k])} IN
    IF bad # {} THEN [off |-> p + MinOf(bad), kind |-> KCont]
    ELSE LET cp == RawAt(s, p, n) IN
      [off |-> p,
       kind |-> CASE cp > MaxCp -> KRange
                  [] IsSurrogate(cp) -> KSurr
                  [] EncLen(cp) < n -> KOverlong
                  [] OTHER -> KNone]          \* unreachable for an ill-formed sequence (MC_Utf8)

Err(s) ==
  LET v == ValidUpTo(s) IN IF v = Len(s) THEN NoErr ELSE SeqErr(s, v)

\* A 4-byte sequence such as F0 8D BA BD violates TWO rules at once (it is an overlong
\* encoding AND its value U+DEBD is a surrogate).  The statement only says the kind "names
\* the violated rule", so either name is acceptable; ErrAlt is Err with the other priority
\* (overlong before surrogate).  The two differ only on such doubly ill-formed sequences.
SeqErrAlt(s, p) ==
  LET e == SeqErr(s, p) IN
  IF e.kind = KSurr /\ EncLen(RawAt(s, p, LeadLen(s[p + 1]))) < LeadLen(s[p + 1])
  THEN [e EXCEPT !.kind = KOverlong] ELSE e
ErrAlt(s) ==
  LET v == ValidUpTo(s) IN IF v = Len(s) THEN NoErr ELSE SeqErrAlt(s, v)

\* the full observable answer <<offset, kind, line, column>>; <<-1,0,0,0>> = Ok(())
ErrFull(s) ==
  LET e == Err(s) IN
  IF e.off = None THEN <<-1, 0, 0, 0>>
  ELSE LET lc == LineColLF(s, e.off) IN <<e.off, e.kind, lc[1], lc[2]>>
ErrFullAlt(s) ==
  LET e == ErrAlt(s) IN
  IF e.off = None THEN <<-1, 0, 0, 0>>
  ELSE LET lc == LineColLF(s, e.off) IN <<e.off, e.kind, lc[1], lc[2]>>

\* moving an answer right by n bytes on the same line (ASCII padding without LF in front)
Shift(r, n) == IF r[1] = -1 THEN r ELSE <<r[1] + n, r[2], r[3], IF r[3] = 1 THEN r[4] + n ELSE r[4]>>

=============================================================================
