---------------------------- MODULE Trace_YqWrite ----------------------------
(* C15, impl -> spec.  One group of events per executed case:                *)
(*   {"e":"case","id":n}                         resets the register          *)
(*   {"e":"obs","src":"json"|"yaml","v":[tokens],"n":len}                     *)
(*        an observation of the run's value (canonical token list of the      *)
(*        `-o json` output, resp. of the printed YAML reloaded by the library *)
(*        loader): Agreement - every observation equals the first             *)
(*   {"e":"doc"} {"e":"anchor","name":..,"v":[..]} {"e":"alias","name":..,"v":[..]} *)
(*        node events of the printed YAML in text order; an alias event       *)
(*        carries the value the -o json run has at the alias's path; the      *)
(*        alias-soundness automaton of YqWrite decides whether it is enabled  *)
(* Any other event (e.g. "fail": the printed YAML could not be reloaded)      *)
(* matches no action.                                                         *)
EXTENDS TraceBase, Agreement, FiniteSets, AliasSoundness

VARIABLES l, reg, def


Case(e) == e.e = "case" /\ reg' = Unset /\ def' = {}
Obs(e) == /\ e.e = "obs" /\ e.n = Len(e.v)
          /\ CanObserve(reg, e.v) /\ reg' = Observed(reg, e.v) /\ UNCHANGED def
Doc(e) == e.e = "doc" /\ def' = {} /\ UNCHANGED reg
Anchor(e) == e.e = "anchor" /\ def' = AAnchor(def, e.name, e.v) /\ UNCHANGED reg
Alias(e) == e.e = "alias" /\ AliasEnabled(def, e.name, e.v) /\ UNCHANGED <<reg, def>>

Init == l = 1 /\ reg = Unset /\ def = {}

Next == /\ l <= NRec
        /\ LET e == Rec[l] IN Case(e) \/ Obs(e) \/ Doc(e) \/ Anchor(e) \/ Alias(e)
        /\ l' = l + 1

Spec == Init /\ [][Next]_<<l, reg, def>>
=============================================================================
