CONSTANTS
  PalUse = {1, 3, 6, 13, 31, 11}
  MaxNodes = 3
  MaxDocs = 1
  ScalarStyles = {"plain", "single", "double", "lit", "fold"}
  CollStyles = {"block", "flow"}
  MaxDecor = 0
  Indents = {2}
  Breaks = {"LF"}
  DocFlags = {}
  Sim = FALSE
SPECIFICATION Spec
INVARIANT Emit

CHECK_DEADLOCK FALSE
