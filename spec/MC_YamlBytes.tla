---------------------------- MODULE MC_YamlBytes ----------------------------
(* LineCol against a step-by-step scanner (the shape of Validator::advance / *)
(* consume_line_break) on every string <= MaxLen over {LF, CR, 'a'}.         *)
EXTENDS YamlBytes, TLC

CONSTANTS MaxLen

VARIABLE b

Init == b = <<>>
Next == Len(b) < MaxLen /\ \E c \in {LF, CR, 97} : b' = Append(b, c)
Spec == Init /\ [][Next]_b

\* scanner state after consuming whole tokens up to offset `off` (never stops inside CRLF)
RECURSIVE Scan(_, _, _, _, _)
Scan(s, pos, line, col, off) ==
  IF pos >= off THEN <<line, col>>
  ELSE IF s[pos + 1] = CR /\ pos + 1 < Len(s) /\ s[pos + 2] = LF
       THEN (IF pos + 2 > off THEN <<line, col + 1>> ELSE Scan(s, pos + 2, line + 1, 1, off))
  ELSE IF s[pos + 1] \in {LF, CR} THEN Scan(s, pos + 1, line + 1, 1, off)
  ELSE Scan(s, pos + 1, line, col + 1, off)

Inv == \A off \in 0..Len(b) : LineCol(b, off) = Scan(b, 0, 1, 1, off)
=============================================================================
