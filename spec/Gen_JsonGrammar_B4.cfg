CONSTANTS
  Cap = 128
  Alphabet = {91, 93, 34, 92, 117, 110, 116, 114, 101, 108, 48, 10, 44}
  MaxLen = 4
SPECIFICATION Spec
INVARIANT Emit
CHECK_DEADLOCK FALSE
