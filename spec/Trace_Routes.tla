----------------------------- MODULE Trace_Routes -----------------------------
(* Trace validation for C27.  Observations come in pairs with the same key:   *)
(*   first  : {e:"obs", k, tool, kind, forced, yamlout, identity, route, n, vh} *)
(*   second : the same with "r" instead of "n" (r = number of printed values) *)
(* n / r and vh are the canonical digest of the printed value stream (python  *)
(* side: independent strict JSON reader, resp. PyYAML's syntax + YAML 1.2     *)
(* core resolution for YAML output).  The agreement register of Routes.tla    *)
(* must accept every observation.  Route names (hook H5) are NOT part of the  *)
(* acceptance: the driver uses them for anti-vacuity statistics only.         *)
EXTENDS TraceBase, Routes

VARIABLES l, reg

N(e) == IF Has(e, "r") THEN e.r ELSE e.n

Observe(e) ==
  /\ e.e = "obs"
  /\ LET ob == Obs(e.route, N(e), e.vh)
     IN /\ Accept(reg, e.k, ob)
        /\ reg' = Store(reg, e.k, ob)

Init == l = 1 /\ reg = << >>

Next == /\ l <= NRec
        /\ LET e == Rec[l] IN Observe(e)
        /\ l' = l + 1

Spec == Init /\ [][Next]_<<l, reg>>
=============================================================================
