CONSTANTS MaxInputs = 2  MaxOuts = 2  Codes = {0, 3}
SPECIFICATION Spec
INVARIANT Emit
INVARIANT Laws
CHECK_DEADLOCK FALSE
