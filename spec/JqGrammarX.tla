----------------------------- MODULE JqGrammarX -----------------------------
(* spec -> impl generator for C30: a grammar of jq programs with EXTREME      *)
(* numeric operands in every numeric slot.                                    *)
(*                                                                            *)
(* A template is a program text with 0..2 numeric slots, the JSON input it is *)
(* run on, and per slot the DOMAIN of operands that keeps the program         *)
(* terminating and its legitimate memory use tiny:                            *)
(*   "all"    every operand (the slot only selects / compares / converts)     *)
(*   "count"  slots that make the program LOOP or ALLOCATE proportionally to  *)
(*            the operand when it is a moderate number -- all operands are    *)
(*            either tiny or impossibly large (>= 9e15, which no machine can  *)
(*            allocate), never in the 10^9..10^12 range that could            *)
(*            legitimately allocate gigabytes; so "all" as well, the name     *)
(*            only documents the intent                                       *)
(*   "lo"     lower bound of a range: everything but -1e19 (range(-1e19; 0)   *)
(*            would not terminate in practice)                                *)
(*   "hi"     upper bound of a range: only small / negative / nan operands    *)
(*   "fin"    loop bounds compared with a doubling counter: not `infinite`    *)
(* Non-terminating shapes (repeat, unbounded recurse, range(1e19),            *)
(* until(false), recursive defs) are not generated.                           *)
(* TLC enumerates templates x operands; one REPLAY line per program.          *)
EXTENDS Integers, Sequences, Json, TLC

Extreme == { "infinite", "nan", "-0", "1e19", "-1e19", "1e308", "9007199254740993",
             "9223372036854775808", "-1", "0.5" }

Ordinary == { "3" }     \* one ordinary operand: every template also takes its normal path

All == Extreme \cup Ordinary

Dom(d) ==
  CASE d = "all" -> All
    [] d = "count" -> All
    [] d = "lo" -> All \ { "-1e19" }
    [] d = "hi" -> { "nan", "-0", "-1", "0.5", "-1e19", "3" }
    [] d = "fin" -> All \ { "infinite" }

T(n, in, s, d) == [n |-> n, in |-> in, s |-> s, d |-> d]

ARR == "[1,[2,\"a\"],{\"a\":1,\"b\":null},\"xyz\",null,true]"
OBJ == "{\"a\":[1,2,3],\"b\":\"xyz\",\"c\":{\"d\":null}}"
STR == "\"abcdef\""

Templates == <<
  \* ---- string repetition / multiplication
  T("strrep", "null", <<"\"ab\" * ", "">>, <<"count">>),
  T("strrep_rev", "null", <<"", " * \"ab\"">>, <<"count">>),
  T("strrep_len", "null", <<"(\"ab\" * ", ") | length">>, <<"count">>),
  T("strrep_input", STR, <<". * ", "">>, <<"count">>),
  T("strrep_empty", "null", <<"\"\" * ", "">>, <<"count">>),
  T("objmul", OBJ, <<". * {\"a\": ", "}">>, <<"all">>),
  T("strdiv", STR, <<". / (", " | tostring)">>, <<"all">>),
  \* ---- index assignment / setpath padding
  T("idx_assign_null", "null", <<".[", "] = 1">>, <<"count">>),
  T("idx_assign_arr", ARR, <<".[", "] = 1">>, <<"count">>),
  T("idx_update", ARR, <<".[", "] |= 5">>, <<"count">>),
  T("idx_plus", "[1,2]", <<".[", "] += 1">>, <<"count">>),
  T("setpath1", "null", <<"setpath([", "]; 9)">>, <<"count">>),
  T("setpath2", "null", <<"setpath([\"a\", ", "]; 9)">>, <<"count">>),
  T("setpath_nested", "[[1]]", <<"setpath([0, ", ", ", "]; 9)">>, <<"count", "count">>),
  T("slice_assign", "[1,2,3]", <<".[", ":", "] = [\"x\"]">>, <<"all", "all">>),
  T("slice_update", "[1,2,3]", <<".[", ":", "] |= map(. + 1)">>, <<"all", "all">>),
  T("slice_assign_null", "null", <<".[", ":", "] = [1]">>, <<"all", "all">>),
  T("del_idx", ARR, <<"del(.[", "])">>, <<"all">>),
  T("del_slice", ARR, <<"del(.[", ":", "])">>, <<"all", "all">>),
  T("delpaths", ARR, <<"delpaths([[", "], [1, ", "]])">>, <<"all", "all">>),
  T("to_entries_set", OBJ, <<"to_entries | .[", "] = {\"key\":\"k\",\"value\":1} | from_entries">>, <<"count">>),
  T("paths_set", "null", <<"reduce ([", "], [0]) as $p (.; setpath($p; 1))">>, <<"count">>),
  \* ---- reading: index, slices, getpath, nth, first/last, has
  T("idx", ARR, <<".[", "]">>, <<"all">>),
  T("idx_null", "null", <<".[", "]">>, <<"all">>),
  T("idx_obj", OBJ, <<".[", "]?">>, <<"all">>),
  T("idx_str", STR, <<"try .[", "] catch \"e\"">>, <<"all">>),
  T("slice_arr", ARR, <<".[", ":", "]">>, <<"all", "all">>),
  T("slice_str", STR, <<".[", ":", "]">>, <<"all", "all">>),
  T("slice_from", STR, <<".[", ":]">>, <<"all">>),
  T("slice_to", ARR, <<".[:", "]">>, <<"all">>),
  T("slice_null", "null", <<".[", ":", "]">>, <<"all", "all">>),
  T("getpath", ARR, <<"getpath([", "])">>, <<"all">>),
  T("getpath2", ARR, <<"getpath([1, ", "])">>, <<"all">>),
  T("getpath_slice", ARR, <<"getpath([{\"start\": ", ", \"end\": ", "}])">>, <<"all", "all">>),
  T("nth_gen", "null", <<"[nth(", "; 1, 2, 3)]">>, <<"all">>),
  T("nth_arr", ARR, <<"try nth(", ") catch \"e\"">>, <<"all">>),
  T("first_limit", "null", <<"first(limit(", "; 1, 2))">>, <<"count">>),
  T("has", ARR, <<"has(", ")">>, <<"all">>),
  T("in", "null", <<"", " as $k | try ([1,2] | has($k)) catch \"e\"">>, <<"all">>),
  T("path_expr", ARR, <<"[path(.[", "])]">>, <<"all">>),
  T("paths_idx", ARR, <<"[paths] | .[", "]">>, <<"all">>),
  T("tostream_idx", ARR, <<"[tostream] | .[", ":", "]">>, <<"all", "all">>),
  \* ---- generators: limit, range, until, first/last
  T("limit", "null", <<"[limit(", "; 1, 2, 3)]">>, <<"count">>),
  T("limit_iter", ARR, <<"[limit(", "; .[])]">>, <<"count">>),
  T("limit_range", "null", <<"[limit(", "; range(0; 5))]">>, <<"count">>),
  T("limit3_range", "null", <<"[limit(3; range(", "; ", "))]">>, <<"lo", "hi">>),
  T("range1", "null", <<"[range(", ")]">>, <<"hi">>),
  T("range2", "null", <<"[range(", "; ", ")]">>, <<"lo", "hi">>),
  T("range2_len", "null", <<"[range(", "; ", ")] | length">>, <<"lo", "hi">>),
  T("first_range", "null", <<"[first(range(", "; ", "))]">>, <<"lo", "hi">>),
  T("last_range", "null", <<"[last(range(", "; ", "))]">>, <<"lo", "hi">>),
  T("until_double", "null", <<"1 | until(. > ", "; . * 2)">>, <<"fin">>),
  T("while_halve", "null", <<"[", " | while(. > 1 and . < 1e300; . / 2)] | length">>, <<"all">>),
  T("isvalid", ARR, <<"[.[] | (.[", "])?]">>, <<"all">>),
  T("skip", "null", <<"[limit(2; (1, 2, 3) | select(. > ", "))]">>, <<"all">>),
  \* ---- strings
  T("implode1", "null", <<"try ([", "] | implode) catch \"e\"">>, <<"all">>),
  T("implode2", "null", <<"try ([65, ", ", ", "] | implode) catch \"e\"">>, <<"all", "all">>),
  T("implode_raw", "null", <<"[", "] | implode">>, <<"all">>),
  T("explode_idx", STR, <<"explode | .[", "]">>, <<"all">>),
  T("ltrimstr", STR, <<"ltrimstr(", ")">>, <<"all">>),
  T("rtrimstr", STR, <<"rtrimstr(", ")">>, <<"all">>),
  T("ltrimstr_num", "null", <<"", " | tostring | ltrimstr(\"1\")">>, <<"all">>),
  T("tostring", "null", <<"", " | tostring">>, <<"all">>),
  T("tojson", "null", <<"", " | tojson">>, <<"all">>),
  T("tojson_rt", "null", <<"", " | tojson | fromjson">>, <<"all">>),
  T("tojson_arr", "null", <<"[", ", {\"a\": ", "}] | tojson | fromjson">>, <<"all", "all">>),
  T("fromjson_text", "null", <<"try (\"", "\" | fromjson) catch \"e\"">>, <<"all">>),
  T("tonumber", "null", <<"try (\"", "\" | tonumber) catch \"e\"">>, <<"all">>),
  T("tonumber_exp", "null", <<"try (\"1e", "\" | tonumber) catch \"e\"">>, <<"all">>),
  T("base64", "null", <<"", " | @base64">>, <<"all">>),
  T("base64d_num", "null", <<"try (", " | @base64d) catch \"e\"">>, <<"all">>),
  T("base64d_slice", "null", <<"try (\"QUJDREVGRw==\" | .[", ":", "] | @base64d) catch \"e\"">>, <<"all", "all">>),
  T("formats", "null", <<"[", "] | [@text, @json, @csv, @tsv, @html, @uri, @sh, @base64]">>, <<"all">>),
  T("interp", "null", <<"\"v=\\(", ") w=\\(", " + 1)\"">>, <<"all", "all">>),
  T("ascii", "null", <<"try (", " | ascii) catch \"e\"">>, <<"all">>),
  T("split_idx", "\"a,b,c\"", <<"split(\",\") | .[", "]">>, <<"all">>),
  T("splits", "\"a,b,c\"", <<"try [splits(\",\")] catch \"e\" | .[", ":]?">>, <<"all">>),
  T("sub", STR, <<"try sub(\"c\"; ", " | tostring) catch \"e\"">>, <<"all">>),
  T("test_flags", STR, <<"try test(\"c\"; ", ") catch \"e\"">>, <<"all">>),
  T("indices_num", "[1,2,1,3]", <<"indices(", ")">>, <<"all">>),
  T("indices_arr", "[1,2,1,3]", <<"indices([1, ", "])">>, <<"all">>),
  T("indices_str", STR, <<"try indices(", ") catch \"e\"">>, <<"all">>),
  T("index_str", STR, <<"try index(", " | tostring) catch \"e\"">>, <<"all">>),
  T("ljust", STR, <<"try (. + (\" \" * (", " - length))) catch \"e\"">>, <<"count">>),
  T("ascii_case", "null", <<"", " | tostring | ascii_upcase | ascii_downcase">>, <<"all">>),
  T("utf8len", "null", <<"", " | tostring | utf8bytelength">>, <<"all">>),
  T("tojson_big", "null", <<"[", ", ", "] | tojson | length">>, <<"all", "all">>),
  \* ---- arithmetic and math
  T("add", "null", <<"", " + ", "">>, <<"all", "all">>),
  T("sub_", "null", <<"", " - ", "">>, <<"all", "all">>),
  T("mul", "null", <<"", " * ", "">>, <<"all", "all">>),
  T("div", "null", <<"try (", " / ", ") catch \"e\"">>, <<"all", "all">>),
  T("mod", "null", <<"try (", " % ", ") catch \"e\"">>, <<"all", "all">>),
  T("mod_raw", "null", <<"", " % ", "">>, <<"all", "all">>),
  T("neg", "null", <<"-(", ")">>, <<"all">>),
  T("pow", "null", <<"pow(", "; ", ")">>, <<"all", "all">>),
  T("log_exp", "null", <<"", " | [log, log2, log10, exp, exp2, exp10, sqrt, cbrt]">>, <<"all">>),
  T("rounders", "null", <<"", " | [floor, ceil, round, trunc, fabs, abs, nearbyint, rint, significand, logb]">>, <<"all">>),
  T("trig", "null", <<"", " | [sin, cos, tan, asin, acos, atan, sinh, cosh, tanh]">>, <<"all">>),
  T("gamma", "null", <<"", " | [gamma, lgamma, tgamma, lgamma_r, frexp, modf]">>, <<"all">>),
  T("math2", "null", <<"[atan2(", "; ", "), fmin(1; ", "), fmax(1; ", ")]">>, <<"all", "all">>),
  T("ldexp", "null", <<"[ldexp(", "; ", "), scalb(1; ", "), scalbln(1; ", ")]">>, <<"all", "all">>),
  T("drem", "null", <<"try drem(", "; ", ") catch \"e\"">>, <<"all", "all">>),
  T("floor_str", "null", <<"", " | floor | tostring">>, <<"all">>),
  T("cmp", "null", <<"[", " < ", ", ", " == ", ", ", " >= ", "]">>, <<"all", "all">>),
  T("sort", "null", <<"[", ", 1, ", ", null, \"a\"] | [sort, min, max, unique, (group_by(.) | length)]">>, <<"all", "all">>),
  T("isinfinite", "null", <<"", " | [isinfinite, isnan, isnormal, type, infinite, -infinite, nan] | tojson">>, <<"all">>),
  T("tojson_neg", "null", <<"-(", ") | [., tojson, tostring, @text]">>, <<"all">>),
  T("getpath_num_key", OBJ, <<"try getpath([\"a\", ", "]) catch \"e\"">>, <<"all">>),
  T("bsearch", "[1,2,3]", <<"bsearch(", ")">>, <<"all">>),
  T("splitsnum", "null", <<"", " | tostring | split(\"\") | length">>, <<"all">>),
  \* ---- collections
  T("flatten", "[1,[2,[3]]]", <<"try flatten(", ") catch \"e\"">>, <<"all">>),
  T("transpose", "null", <<"[[1], [2, ", "]] | transpose">>, <<"all">>),
  T("add_arr", "null", <<"[", ", ", "] | add">>, <<"all", "all">>),
  T("any_all", "null", <<"[", ", ", "] | [any, all, length, (map(. > 0))]">>, <<"all", "all">>),
  T("contains", "null", <<"[", "] | [contains([", "]), inside([", ", 1])]">>, <<"all", "all">>),
  T("obj_key", "null", <<"try {(", " | tostring): ", "} catch \"e\"">>, <<"all", "all">>),
  T("obj_numkey", "null", <<"try {(", "): 1} catch \"e\"">>, <<"all">>),
  T("with_entries", OBJ, <<"with_entries(.value = ", ")">>, <<"all">>),
  T("walk", ARR, <<"walk(if type == \"number\" then . * ", " else . end)">>, <<"all">>),
  T("env_limit", "null", <<"[limit(", "; $ENV | keys[])] | length">>, <<"count">>),
  T("splits2", ARR, <<"[.[", ":", "][]?] | length">>, <<"all", "all">>),
  T("tostream_from", "null", <<"[", ", [", "]] | [tostream] | fromstream(.[])">>, <<"all", "all">>),
  T("input_idx", ARR, <<". as $a | ", " as $i | try $a[$i] catch \"e\"">>, <<"all">>),
  T("reduce_idx", "null", <<"reduce (", ", 1) as $i ([]; .[$i]? = 1) | length">>, <<"hi">>),
  T("foreach", "null", <<"[foreach (", ", ", ") as $x (0; . + $x; [$x, .])]">>, <<"all", "all">>),
  T("label", "null", <<"[label $out | (1, ", ", 3) | if . > 2 then break $out else . end]">>, <<"all">>),
  T("alt", "null", <<"(", " // 1) | (. as [$a] ?// $a | $a)">>, <<"all">>),
  T("destructure", "null", <<"[", ", ", "] as [$a, $b] | {a: $a, b: $b} | tojson">>, <<"all", "all">>),
  \* ---- dates
  T("todate", "null", <<"try (", " | todate) catch \"e\"">>, <<"all">>),
  T("gmtime", "null", <<"try (", " | gmtime) catch \"e\"">>, <<"all">>),
  T("gmtime_raw", "null", <<"", " | gmtime | mktime">>, <<"all">>),
  T("strftime", "null", <<"try (", " | strftime(\"%Y-%m-%dT%H:%M:%SZ %j %a %e\")) catch \"e\"">>, <<"all">>),
  T("localtime", "null", <<"try (", " | localtime | todate) catch \"e\"">>, <<"all">>),
  T("mktime", "null", <<"try ([", ", ", ", 1, 0, 0, 0, 0, 0] | mktime) catch \"e\"">>, <<"all", "all">>),
  T("mktime_sec", "null", <<"try ([1970, 0, 1, 0, 0, ", ", 0, 0] | mktime) catch \"e\"">>, <<"all">>),
  T("broken_strftime", "null", <<"try ([", ", 0, 1, 0, 0, 0, ", ", 0] | strftime(\"%A %B\")) catch \"e\"">>, <<"all", "all">>),
  T("dateadd", "null", <<"try (", " | todate | fromdate) catch \"e\"">>, <<"all">>),
  T("date_raw", "null", <<"", " | todate">>, <<"all">>)
>>

NT == Len(Templates)

VARIABLES tpl, ops

vars == <<tpl, ops>>

Init == tpl \in 1..NT /\ ops = <<>>

Arity == Len(Templates[tpl].d)

Next ==
  /\ Len(ops) < Arity
  /\ \E o \in Dom(Templates[tpl].d[Len(ops) + 1]) : ops' = Append(ops, o)
  /\ UNCHANGED tpl

Spec == Init /\ [][Next]_vars

RECURSIVE Fill(_, _, _)
Fill(s, os, k) == IF k > Len(os) THEN s[k] ELSE s[k] \o os[k] \o Fill(s, os, k + 1)

\* templates whose text has more slots than operands (the same two operands repeated)
Slots(t) == Len(t.s) - 1

OpsFor(t) == [k \in 1..Slots(t) |-> ops[((k - 1) % Len(ops)) + 1]]

Program == LET t == Templates[tpl] IN Fill(t.s, OpsFor(t), 1)

Emit ==
  Len(ops) = Arity =>
    PrintT(<<"REPLAY", ToJson([fam |-> "jqx", tpl |-> Templates[tpl].n, prog |-> Program,
                               input |-> Templates[tpl].in, ops |-> ops])>>)
=============================================================================
