CONSTANTS MaxLen = 4  NVar = 3
SPECIFICATION Spec
INVARIANT Emit
CHECK_DEADLOCK FALSE
