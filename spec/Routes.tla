------------------------------- MODULE Routes -------------------------------
(* C27 -- query output does not depend on the evaluation route.               *)
(*                                                                            *)
(* An observation is one run of the CLI: key = (input, program, options) --   *)
(* everything the user chose EXCEPT the semantically neutral spelling that    *)
(* forces a route --, route = the route the runner took (hook H5; "" when the *)
(* hook is not compiled in), out = the printed values in canonical form (a    *)
(* digest: number of values + hash of the value stream), rc = exit status.    *)
(* Agreement register: the first observation of a key is stored; every later  *)
(* observation of the same key must carry the same output.  When route names  *)
(* are available, two observations of one key must come from DIFFERENT        *)
(* routes (otherwise the forcing was vacuous).                                *)
EXTENDS Integers, Sequences, TLC

Obs(route, n, vh) == [route |-> route, n |-> n, vh |-> vh]

Agrees(a, b) == a.n = b.n /\ a.vh = b.vh

Distinct(a, b) == (a.route # "" /\ b.route # "") => a.route # b.route

(* reg: function from the keys seen so far to the stored observation *)
\* Acceptance is agreement only.  Whether the two observations really came from different
\* routes (Distinct) is an anti-vacuity condition of the CHECK, not part of the property: a
\* routing change that keeps the output equal is not a violation.  The driver counts the pairs
\* with distinct routes and reports a tool-level "vacuous" condition when too few are.
Accept(reg, k, ob) ==
  IF k \in DOMAIN reg THEN Agrees(reg[k], ob) ELSE TRUE

Store(reg, k, ob) == IF k \in DOMAIN reg THEN reg ELSE (k :> ob) @@ reg

(* what the runners' own gates say about the forcing spellings *)
ExpectedRoute(tool, kind, forced, yamlout, identity) ==
  IF tool = "jq" THEN
     IF kind = "preserve" THEN (IF forced = 0 THEN "identity_raw" ELSE "lazy")
     ELSE (IF forced = 0 THEN "lazy" ELSE "materialized_inputq")
  ELSE IF forced = 1 THEN "dom"
  ELSE IF yamlout = 1 THEN (IF identity = 1 THEN "p9_yaml" ELSE "m2_yaml")
  ELSE (IF identity = 1 THEN "p9_json" ELSE "m2_json")
=============================================================================
