------------------------- MODULE Gen_YamlCoreSchema -------------------------
(* Enumerates EVERY string of length <= MaxLen over Alphabet (built one      *)
(* character per Next step), checks the schema's own lemmas on each, and     *)
(* prints the predicted resolution of each as one REPLAY line; the harness   *)
(* (c14 schema) runs the public succinctly::yaml::resolve_plain on every one *)
(* and compares class and value (spec -> impl).                              *)
EXTENDS YamlCoreSchema, Json, TLC

CONSTANTS MaxLen

Alphabet == {"0", "1", "7", "8", "x", "o", "e", "E", ".", "+", "-", "_", "n", "u", "l", "N",
             "~", "t", "r", "T", "f", "a", "s", "F", "i"}

VARIABLE s

Init == s = <<>>
Next == Len(s) < MaxLen /\ \E c \in Alphabet : s' = Append(s, c)
Spec == Init /\ [][Next]_s

Lemmas == IntWithinFloat(s) /\ BasedIntNotFloat(s) /\ KeywordsDisjoint(s)

Emit ==
  LET ty == CoreType(s)
  IN PrintT(<<"REPLAY", ToJson([s |-> s, ty |-> ty,
                                 iv |-> IF ty = "int" THEN CoreInt(s)
                                        ELSE IF ty = "bool" /\ CoreBool(s) THEN 1 ELSE 0])>>)
=============================================================================
