------------------------------ MODULE Agreement ------------------------------
(* Single-valued observation register: "the answer does not depend on X" is    *)
(* stated by having no X-dependent clause -- every observation of the same     *)
(* case must equal the first one.                                              *)
EXTENDS Integers, Sequences

Unset == <<"unset">>

\* Observe(reg, v): the register after observing v; enabled only when consistent
CanObserve(reg, v) == reg = Unset \/ reg = <<"set", v>>
Observed(reg, v) == <<"set", v>>
=============================================================================
