----------------------------- MODULE Trace_Utf8 -----------------------------
(* Trace validation for C13: every recorded answer of the real UTF-8 engines *)
(* must equal what Utf8.tla defines on the recorded bytes.                   *)
(*   v      b (bytes), all = <<ErrFull>> per engine in the order             *)
(*          validate_utf8, _scalar, _simd, _broadword (<<off,kind,line,col>>,*)
(*          <<-1,0,0,0>> = Ok, <<-2,..>> = panic), r = offset reported by     *)
(*          validate_utf8 (the field corrupted by the binding self-test).    *)
(*          No clause mentions the engine: that IS "all engines report the   *)
(*          same error".                                                     *)
(*   dec    b, r = code point or -1, n = length or 0   (decode_code_point)   *)
(*   seqlen a = lead byte, r = sequence_length(a)                            *)
(*   enc    a = code point (-1 = any value >= 2^30), r = length or -1, b     *)
(*   rtblk  lo, cnt, enc[i] = encode_code_point(lo+i-1) bytes (<<>> = None), *)
(*          dec[i] = decode_code_point of those bytes (<<-1,0>> if None)     *)
EXTENDS TraceBase, Utf8

VARIABLES l
vars == <<l>>

Validate(e) ==
  /\ e.e = "v"
  /\ LET x == ErrFull(e.b)
         y == ErrFullAlt(e.b)       \* differs from x only when two rules are violated at once
     IN
       /\ \/ \A i \in 1..Len(e.all) : e.all[i] = x
          \/ \A i \in 1..Len(e.all) : e.all[i] = y    \* all engines still agree with each other
       /\ Len(e.all) >= 3
       /\ e.r = x[1]

Dec(e) ==
  /\ e.e = "dec"
  /\ <<e.r, e.n>> = Decode(e.b)

SeqLen(e) ==
  /\ e.e = "seqlen"
  /\ e.r = LeadLen(e.a)

Enc(e) ==
  /\ e.e = "enc"
  /\ IF e.a >= 0 /\ IsScalar(e.a)
     THEN e.r = EncLen(e.a) /\ e.b = Encode(e.a)
     ELSE e.r = -1 /\ e.b = <<>>

RtBlock(e) ==
  /\ e.e = "rtblk"
  /\ Len(e.enc) = e.cnt /\ Len(e.dec) = e.cnt
  /\ \A i \in 1..e.cnt :
       LET cp == e.lo + i - 1 IN
       IF IsScalar(cp)
       THEN e.enc[i] = Encode(cp) /\ e.dec[i] = <<cp, EncLen(cp)>>
       ELSE e.enc[i] = <<>> /\ e.dec[i] = DecNone

Init == l = 1

Next == /\ l <= NRec
        /\ LET e == Rec[l] IN Validate(e) \/ Dec(e) \/ SeqLen(e) \/ Enc(e) \/ RtBlock(e)
        /\ l' = l + 1

Spec == Init /\ [][Next]_vars
=============================================================================
