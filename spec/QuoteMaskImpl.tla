--------------------------- MODULE QuoteMaskImpl ---------------------------
(***************************************************************************)
(* Implementation-shaped specification of the chunked DSV index builders   *)
(* (src/util/simd/quote_mask.rs, src/util/simd/x86.rs toggle64_bmi2,       *)
(* src/dsv/simd/{sse2,avx2,bmi2}.rs) at a SCALED chunk width W (code: 64). *)
(*                                                                         *)
(* A W-bit word is a sequence of W bits, bit i of the machine word is      *)
(* element i+1.  One operator per code function:                           *)
(*   PrefixXor            prefix_xor       (shift-doubling chain)          *)
(*   NextCarry            next_carry                                       *)
(*   ToggleFromPrefixXor  toggle64_from_prefix_xor                         *)
(*   Pdep, ToggleFromDeposit  _pdep_u64 / toggle64_bmi2 /                  *)
(*                            toggle64_from_deposit                        *)
(*   ProcessChunk, BuildChunked   process_chunk_64 + the chunk loop with   *)
(*                            the zero-padded, masked tail chunk           *)
(* and the bit-serial definition they must equal (SerialOutside; Dsv!Scan).*)
(***************************************************************************)
EXTENDS Integers, Sequences, SequencesExt, Dsv

CONSTANT W

Word == [1..W -> {0, 1}]

Zero == [i \in 1..W |-> 0]

Xor(x, y) == [i \in 1..W |-> (x[i] + y[i]) % 2]
And(x, y) == [i \in 1..W |-> x[i] * y[i]]
Or(x, y) == [i \in 1..W |-> IF x[i] + y[i] > 0 THEN 1 ELSE 0]
Not(x) == [i \in 1..W |-> 1 - x[i]]

\* x << k  (bits shifted out at the top are lost)
Shl(x, k) == [i \in 1..W |-> IF i - k >= 1 THEN x[i - k] ELSE 0]

Pop(x) == FoldLeft(LAMBDA a, b : a + b, 0, x)

RECURSIVE Pow2(_)
Pow2(k) == IF k = 0 THEN 1 ELSE 2 * Pow2(k - 1)

Val(x) == FoldLeft(LAMBDA a, i : a + x[i] * Pow2(i - 1), 0, [i \in 1..W |-> i])
FromVal(v) == [i \in 1..W |-> (v \div Pow2(i - 1)) % 2]

\* wrapping_add
Add(x, y) == FromVal((Val(x) + Val(y)) % Pow2(W))

\* 0u64.wrapping_sub(c & 1): the carry broadcast to every lane
Broadcast(c) == [i \in 1..W |-> c]

(***************************************************************************)
(* prefix_xor: y ^= y << 1; y ^= y << 2; y ^= y << 4; ... while shift < W  *)
(***************************************************************************)
RECURSIVE PrefixXorFrom(_, _)
PrefixXorFrom(y, k) == IF k >= W THEN y ELSE PrefixXorFrom(Xor(y, Shl(y, k)), 2 * k)

PrefixXor(x) == PrefixXorFrom(x, 1)

NextCarry(carry, qm) == (Pop(qm) + carry) % 2

\* (outside mask, carry out)
ToggleFromPrefixXor(carry, qm) ==
  LET inside == Xor(PrefixXor(qm), Broadcast(carry))
  IN <<Not(inside), NextCarry(carry, qm)>>

(***************************************************************************)
(* deposit + adder                                                          *)
(***************************************************************************)
\* ODDS_MASK = 0101..01 (bit 0 set)
Odds == [i \in 1..W |-> i % 2]

\* _pdep_u64(src, mask): the k-th (0-based) set bit of mask receives bit k of src
Pdep(src, mask) ==
  [i \in 1..W |-> IF mask[i] = 1 THEN src[Pop(SubSeq(mask, 1, i - 1)) + 1] ELSE 0]

ToggleFromDeposit(carry, qm) ==
  LET addend == Pdep(Shl(Odds, carry), qm)
      cbit == [i \in 1..W |-> IF i = 1 THEN carry ELSE 0]
      result == Add(Or(Shl(addend, 1), cbit), Not(qm))
  IN <<result, NextCarry(carry, qm)>>

(***************************************************************************)
(* bit-serial definition of the outside mask: the state toggles ON a quote *)
(* bit (post-toggle convention), out[i] = 1 iff outside after bit i        *)
(***************************************************************************)
SerialOutside(carry, qm) ==
  LET r == FoldLeft(LAMBDA acc, b :
                      LET s == (acc.s + b) % 2
                      IN [s |-> s, out |-> Append(acc.out, 1 - s)],
                    [s |-> carry, out |-> <<>>], qm)
  IN <<r.out, r.s>>

Algos == {"pxor", "pdep"}

Toggle(algo, carry, qm) ==
  IF algo = "pxor" THEN ToggleFromPrefixXor(carry, qm) ELSE ToggleFromDeposit(carry, qm)

(***************************************************************************)
(* process_chunk_64: class masks of W classes -> (markers, newlines, carry)*)
(***************************************************************************)
MaskOf(cls, c) == [i \in 1..W |-> IF cls[i] = c THEN 1 ELSE 0]

ProcessChunk(algo, cls, carry) ==
  LET tg == Toggle(algo, carry, MaskOf(cls, Q))
      vd == And(MaskOf(cls, D), tg[1])
      vn == And(MaskOf(cls, N), tg[1])
  IN [m |-> Or(vd, vn), n |-> vn, carry |-> tg[2]]

\* bits of `w` below `rem` as absolute positions off + i
BitsToPos(w, off, rem) == SelectSeq([i \in 1..rem |-> IF w[i] = 1 THEN off + i - 1 ELSE -1], LAMBDA p : p >= 0)

(***************************************************************************)
(* build_index_{sse2,avx2,bmi2}: whole chunks, then the tail copied into a *)
(* zeroed buffer -- the padding bytes are byte 0x00, whose class `pad`     *)
(* depends on the configuration (0x00 may be the delimiter, the quote or   *)
(* the newline) -- and masked with (1 << remaining) - 1.                   *)
(***************************************************************************)
RECURSIVE ChunkLoop(_, _, _, _, _, _)
ChunkLoop(algo, t, pad, off, carry, acc) ==
  IF off + W <= Len(t)
  THEN LET r == ProcessChunk(algo, SubSeq(t, off + 1, off + W), carry)
       IN ChunkLoop(algo, t, pad, off + W, r.carry,
                    [ms |-> acc.ms \o BitsToPos(r.m, off, W), ns |-> acc.ns \o BitsToPos(r.n, off, W)])
  ELSE IF off < Len(t)
  THEN LET rem == Len(t) - off
           padded == [i \in 1..W |-> IF i <= rem THEN t[off + i] ELSE pad]
           r == ProcessChunk(algo, padded, carry)
       IN [ms |-> acc.ms \o BitsToPos(r.m, off, rem), ns |-> acc.ns \o BitsToPos(r.n, off, rem)]
  ELSE acc

BuildChunked(algo, t, pad) == ChunkLoop(algo, t, pad, 0, 0, [ms |-> <<>>, ns |-> <<>>])

(***************************************************************************)
(* Statements                                                               *)
(***************************************************************************)
\* one chunk: both algorithms equal the bit-serial definition (mask AND carry)
OneChunkOK(carry, qm) ==
  /\ ToggleFromPrefixXor(carry, qm) = SerialOutside(carry, qm)
  /\ ToggleFromDeposit(carry, qm) = SerialOutside(carry, qm)

\* two consecutive chunks with the carry handed over = serial over 2W bits
TwoChunksOK(carry, qm1, qm2) ==
  \A algo \in Algos :
    LET a == Toggle(algo, carry, qm1)
        b == Toggle(algo, a[2], qm2)
        r == FoldLeft(LAMBDA acc, x :
                        LET s == (acc.s + x) % 2 IN [s |-> s, out |-> Append(acc.out, 1 - s)],
                      [s |-> carry, out |-> <<>>], qm1 \o qm2)
    IN a[1] \o b[1] = r.out /\ b[2] = r.s

\* the chunked builders produce exactly the bit-serial index, whatever the pad class
ChunkedIsWhole(t) ==
  LET ix == Index(t)
  IN \A algo \in Algos, pad \in Classes :
       LET b == BuildChunked(algo, t, pad) IN b.ms = ix.ms /\ b.ns = ix.ns
=============================================================================
