------------------------------ MODULE Trace_BP ------------------------------
(* Trace validation for C04: every recorded answer of the real                *)
(* succinctly::trees::BalancedParens (owned / borrowed storage x NoSelect /   *)
(* WithSelect / WithCsPoppy at several sample rates, default and simd builds), *)
(* of the free functions find_close / find_open / enclose and of the in-word   *)
(* kernels must equal the run-length evaluation (BpRuns / BitRuns, themselves  *)
(* model-checked against the definitional BalancedParens / BitSeq) on the      *)
(* first `len` bits of the recorded storage.  The events carry no clause that  *)
(* depends on st / sel / rate / cfg / surplus words: those fields are logged   *)
(* but never consulted -- that IS "the answers are the same for owned and      *)
(* borrowed storage, with or without stray bits, for every select variant,     *)
(* sample rate and build".                                                     *)
(*   build: rl (all storage bits, run-length), len, rlen = len()               *)
(*   q:     op, a (argument; -1 = any integer >= 2^30), r (-1 None, -2 panic)  *)
(*   w:     in-word kernel on the 64-bit word rl                               *)
(* Recorded only where the property defines the answer (see harness c04.rs):   *)
(* excess for a < len; depth for a >= len or excess >= 0.                      *)
EXTENDS TraceBase, BpRuns

VARIABLES l, tab, len

vars == <<l, tab, len>>

WordBits == 64

Expected(op, a) ==
  CASE op = "find_close" -> RFindClose(tab, len, a)
    [] op = "f_find_close" -> RFindClose(tab, len, a)
    [] op = "find_open" -> RFindOpen(tab, len, a)
    [] op = "f_find_open" -> RFindOpen(tab, len, a)
    [] op = "enclose" -> REnclose(tab, len, a)
    [] op = "f_enclose" -> REnclose(tab, len, a)
    [] op = "parent" -> REnclose(tab, len, a)
    [] op = "first_child" -> RFirstChild(tab, len, a)
    [] op = "next_sibling" -> RNextSibling(tab, len, a)
    [] op = "subtree_size" -> RSubtreeSize(tab, len, a)
    [] op = "excess" -> IF RIn(tab, len, a) THEN RExcess(tab, len, a) ELSE -99
    [] op = "depth" -> IF RIn(tab, len, a) /\ RExcess(tab, len, a) < 0 THEN -99 ELSE RDepth(tab, len, a)
    [] op = "is_open" -> IF RIsOpen(tab, len, a) THEN 1 ELSE 0
    [] op = "is_close" -> IF RIsClose(tab, len, a) THEN 1 ELSE 0
    [] op = "rank1" -> RRank1(tab, len, a)
    [] op = "rank0" -> RRank0(tab, len, a)
    [] op = "select1" -> IF a < 0 THEN None ELSE RSelect1(tab, len, a)
    [] op = "select0" -> IF a < 0 THEN None ELSE RSelect0(tab, len, a)
    [] op = "total_ones" -> RCountOnes(tab, len)
    [] op = "total_zeros" -> RCountZeros(tab, len)
    [] OTHER -> -99

Build(e) ==
  /\ e.e = "build"
  /\ tab' = Tab(e.rl)
  /\ len' = e.len
  /\ e.len <= tab'.tot
  /\ e.rlen = e.len

Query(e) ==
  /\ e.e = "q"
  /\ e.r = Expected(e.op, e.a)
  /\ UNCHANGED <<tab, len>>

Kernel(e) ==
  /\ e.e = "w"
  /\ \/ /\ e.op = "fuc"
        /\ e.r = RFindUnmatchedClose(e.rl, WordBits)
     \/ /\ e.op = "fciw"
        /\ e.r = RFindCloseInWord(e.rl, WordBits, e.a)
  /\ UNCHANGED <<tab, len>>

Init == l = 1 /\ tab = Tab(<<>>) /\ len = 0

Next == /\ l <= NRec
        /\ LET e == Rec[l] IN Build(e) \/ Query(e) \/ Kernel(e)
        /\ l' = l + 1

Spec == Init /\ [][Next]_vars
=============================================================================
