------------------------------ MODULE JsonScan ------------------------------
(***************************************************************************)
(* The two JSON semi-indexing automata of succinctly (C05, C32).           *)
(*                                                                         *)
(*   StdStep    - the 4-state "standard cursor" machine, one disjunct per  *)
(*                arm of `state_machine` in src/json/standard.rs           *)
(*   SimpleStep - the 3-state "simple cursor" machine, one disjunct per    *)
(*                arm of the loop in src/json/simple.rs                    *)
(*                                                                         *)
(* A byte is an integer 0..255.  Byte classes are given by explicit byte   *)
(* ranges (that is the part the SIMD engines re-implement with range       *)
(* tricks and the PFSM engine with tables).  States are integers with the  *)
(* numbering of json::pfsm_tables::PfsmState:                              *)
(*      0 InJson   1 InString   2 InEscape   3 InValue                     *)
(* An output `phi` of the standard machine is the 3-bit value of           *)
(* standard.rs: bit 2 = interest bit, bit 1 = BP open, bit 0 = BP close;   *)
(* when both BP bits are set the open is written before the close.         *)
(*                                                                         *)
(* Run*(bytes) is the reference semi-index of a byte string:               *)
(*   s    final state                                                      *)
(*   n    number of bytes consumed (= number of IB bits)                   *)
(*   ib   ascending 0-based positions of the IB one-bits                   *)
(*   bp   ascending 0-based positions of the BP one-bits                   *)
(*   bpn  number of BP bits written                                        *)
(* (one-bit positions + length determine the bit string; this form keeps   *)
(* TLC's cost proportional to the number of bytes when a whole input is    *)
(* evaluated inside one trace event).                                      *)
(***************************************************************************)
EXTENDS Integers, Sequences, SequencesExt, FiniteSets

InJson == 0
InString == 1
InEscape == 2
InValue == 3

StdStates == {InJson, InString, InEscape, InValue}
SimpleStates == {InJson, InString, InEscape}

Bytes == 0..255

-----------------------------------------------------------------------------
\* byte classes: explicit byte values / ranges
DoubleQuote == 34      \* "
Backslash == 92        \* \

IsOpen(c) == c = 91 \/ c = 123            \* [  {
IsClose(c) == c = 93 \/ c = 125           \* ]  }
IsDelim(c) == c = 44 \/ c = 58            \* ,  :
IsAlphabetic(c) == (c >= 65 /\ c <= 90) \/ (c >= 97 /\ c <= 122)     \* A-Z a-z
IsDigit(c) == c >= 48 /\ c <= 57                                      \* 0-9
IsValueChar(c) == IsAlphabetic(c) \/ IsDigit(c) \/ c = 46 \/ c = 45 \/ c = 43   \* . - +

\* The seven classes the two machines distinguish (a partition of 0..255).
ClassNames == <<"open", "close", "delim", "value", "quote", "bslash", "other">>
ClassOf(c) ==
  CASE IsOpen(c) -> "open"
    [] IsClose(c) -> "close"
    [] IsDelim(c) -> "delim"
    [] IsValueChar(c) -> "value"
    [] c = DoubleQuote -> "quote"
    [] c = Backslash -> "bslash"
    [] OTHER -> "other"

-----------------------------------------------------------------------------
\* outputs of the standard machine
PhiNone == 0
PhiClose == 1
PhiOpen == 6
PhiLeaf == 7

PhiIb(phi) == (phi \div 4) % 2
PhiBpOpen(phi) == (phi \div 2) % 2
PhiBpClose(phi) == phi % 2

St(s, phi) == [s |-> s, phi |-> phi]

\* state_machine(c, state) of standard.rs, arm by arm
StdStep(s, c) ==
  CASE s = InJson ->
         IF IsOpen(c) THEN St(InJson, PhiOpen)
         ELSE IF IsClose(c) THEN St(InJson, PhiClose)
         ELSE IF IsDelim(c) THEN St(InJson, PhiNone)
         ELSE IF IsValueChar(c) THEN St(InValue, PhiLeaf)
         ELSE IF c = DoubleQuote THEN St(InString, PhiLeaf)
         ELSE St(InJson, PhiNone)
    [] s = InString ->
         IF c = DoubleQuote THEN St(InJson, PhiNone)
         ELSE IF c = Backslash THEN St(InEscape, PhiNone)
         ELSE St(InString, PhiNone)
    [] s = InEscape -> St(InString, PhiNone)
    [] s = InValue ->
         IF IsOpen(c) THEN St(InJson, PhiOpen)
         ELSE IF IsClose(c) THEN St(InJson, PhiClose)
         ELSE IF IsDelim(c) THEN St(InJson, PhiNone)
         ELSE IF IsValueChar(c) THEN St(InValue, PhiNone)
         ELSE St(InJson, PhiNone)

\* BP bits written for one output of the standard machine (open first, then close)
StdBp(phi) == (IF PhiBpOpen(phi) = 1 THEN <<1>> ELSE <<>>) \o (IF PhiBpClose(phi) = 1 THEN <<0>> ELSE <<>>)

\* the loop body of simple.rs: next state, IB bit, BP bits written
Sm(s, ib, bp) == [s |-> s, ib |-> ib, bp |-> bp]

SimpleStep(s, c) ==
  CASE s = InJson ->
         IF IsOpen(c) THEN Sm(InJson, 1, <<1, 1>>)
         ELSE IF IsClose(c) THEN Sm(InJson, 1, <<0, 0>>)
         ELSE IF IsDelim(c) THEN Sm(InJson, 1, <<0, 1>>)
         ELSE IF c = DoubleQuote THEN Sm(InString, 0, <<>>)
         ELSE Sm(InJson, 0, <<>>)
    [] s = InString ->
         IF c = DoubleQuote THEN Sm(InJson, 0, <<>>)
         ELSE IF c = Backslash THEN Sm(InEscape, 0, <<>>)
         ELSE Sm(InString, 0, <<>>)
    [] s = InEscape -> Sm(InString, 0, <<>>)

-----------------------------------------------------------------------------
\* running a machine over a byte list

Acc0(s0) == [s |-> s0, n |-> 0, ib |-> <<>>, bp |-> <<>>, bpn |-> 0]

\* append the BP bits `bits` (a sequence of at most two bits) to the accumulator's BP
PushBp(bp, bpn, bits) ==
  IF Len(bits) = 0 THEN bp
  ELSE IF Len(bits) = 1 THEN (IF bits[1] = 1 THEN Append(bp, bpn) ELSE bp)
  ELSE (IF bits[1] = 1 THEN Append(bp, bpn) ELSE bp) \o (IF bits[2] = 1 THEN <<bpn + 1>> ELSE <<>>)

\* (the open bit, when present, is written first: its position is the old BP length)
StdAcc(a, c) ==
  LET t == StdStep(a.s, c)
  IN IF t.phi = PhiNone THEN [a EXCEPT !.s = t.s, !.n = @ + 1]
     ELSE [s |-> t.s,
           n |-> a.n + 1,
           ib |-> IF PhiIb(t.phi) = 1 THEN Append(a.ib, a.n) ELSE a.ib,
           bp |-> IF PhiBpOpen(t.phi) = 1 THEN Append(a.bp, a.bpn) ELSE a.bp,
           bpn |-> a.bpn + PhiBpOpen(t.phi) + PhiBpClose(t.phi)]

SimpleAcc(a, c) ==
  LET t == SimpleStep(a.s, c)
  IN IF t.ib = 0 THEN [a EXCEPT !.s = t.s, !.n = @ + 1]
     ELSE [s |-> t.s,
           n |-> a.n + 1,
           ib |-> Append(a.ib, a.n),
           bp |-> PushBp(a.bp, a.bpn, t.bp),
           bpn |-> a.bpn + Len(t.bp)]

\* continue from an accumulator (chunked evaluation with state carry)
RunStdFrom(a, bytes) == FoldLeft(StdAcc, a, bytes)
RunSimpleFrom(a, bytes) == FoldLeft(SimpleAcc, a, bytes)

RunStd(bytes) == RunStdFrom(Acc0(InJson), bytes)
RunSimple(bytes) == RunSimpleFrom(Acc0(InJson), bytes)

\* number of 64-bit words a BitWriter returns for nbits bits
WordsFor(nbits) == (nbits + 63) \div 64

\* explicit bit string (model instances only)
BitsOf(ones, n) == [i \in 1..n |-> IF \E j \in 1..Len(ones) : ones[j] = i - 1 THEN 1 ELSE 0]
BpBits(r) == BitsOf(r.bp, r.bpn)
IbBits(r) == BitsOf(r.ib, r.n)

-----------------------------------------------------------------------------
\* Packed form, for trace validation of long inputs.
\* (Appending to a position list at every byte makes TLC's cost quadratic in the input
\* length.)  The bits are written exactly as json/bit_writer.rs writes them -- LSB first
\* into a current word that is flushed when full -- but with W-bit words, W <= 16, so a
\* word is a TLC integer; a 64-bit word of the implementation is four 16-bit words.
\* MC_JsonScan checks, with W = 2 and 3 so that flushes happen on short strings, that the
\* packed run denotes the same bit strings as Run*.
Pow2 == <<1, 2, 4, 8, 16, 32, 64, 128, 256, 512, 1024, 2048, 4096, 8192, 16384, 32768>>

BW0 == [w |-> <<>>, c |-> 0, k |-> 0]       \* full words, current word, bits in current word

Put(b, bit, W) ==
  IF b.k = W - 1 THEN [w |-> Append(b.w, b.c + bit * Pow2[W]), c |-> 0, k |-> 0]
  ELSE [w |-> b.w, c |-> b.c + bit * Pow2[b.k + 1], k |-> b.k + 1]

\* BitWriter::finish: a partial word is included, its remaining bits 0
Fin(b) == IF b.k > 0 THEN Append(b.w, b.c) ELSE b.w
BitLen(b, W) == Len(b.w) * W + b.k

PAcc0(s0) == [s |-> s0, n |-> 0, ib |-> BW0, bp |-> BW0]

StdPAcc(a, c, W) ==
    LET t == StdStep(a.s, c)
        b1 == IF PhiBpOpen(t.phi) = 1 THEN Put(a.bp, 1, W) ELSE a.bp
    IN [s |-> t.s, n |-> a.n + 1,
        ib |-> Put(a.ib, PhiIb(t.phi), W),
        bp |-> IF PhiBpClose(t.phi) = 1 THEN Put(b1, 0, W) ELSE b1]

SimplePAcc(a, c, W) ==
    LET t == SimpleStep(a.s, c)
    IN [s |-> t.s, n |-> a.n + 1,
        ib |-> Put(a.ib, t.ib, W),
        bp |-> IF Len(t.bp) = 0 THEN a.bp ELSE Put(Put(a.bp, t.bp[1], W), t.bp[2], W)]

Packed(a, W) == [s |-> a.s, n |-> a.n, ib |-> Fin(a.ib), bp |-> Fin(a.bp), bpn |-> BitLen(a.bp, W)]

RunStdP(bytes, W) == Packed(FoldLeft(LAMBDA a, c : StdPAcc(a, c, W), PAcc0(InJson), bytes), W)
RunSimpleP(bytes, W) == Packed(FoldLeft(LAMBDA a, c : SimplePAcc(a, c, W), PAcc0(InJson), bytes), W)

\* a W-bit word list extended with zero words to m words (the implementation's 64-bit
\* words are 4 16-bit words each, so its list is padded to a multiple of 4)
PadTo(seq, m) == seq \o [i \in 1..(m - Len(seq)) |-> 0]

\* "neutral" bytes of a state: emit nothing and keep the state
StdNeutral(s, c) == StdStep(s, c) = St(s, PhiNone)
SimpleNeutral(s, c) == SimpleStep(s, c) = Sm(s, 0, <<>>)

=============================================================================
