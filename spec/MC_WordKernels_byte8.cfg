CONSTANTS W = 16  B = 8  Scope = "edges"
SPECIFICATION Spec
INVARIANT SelectAlgorithmsExact
INVARIANT PopcountExact
INVARIANT ByteTableExact
CHECK_DEADLOCK FALSE
