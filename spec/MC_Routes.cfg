CONSTANTS
  Keys = {1, 2}
  RouteNames = {"lazy", "materialized", "identity_raw"}
  Outs = {7, 8}
SPECIFICATION Spec
INVARIANT SingleValued
INVARIANT Sound
INVARIANT Complete
CHECK_DEADLOCK FALSE
