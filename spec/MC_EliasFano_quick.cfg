CONSTANTS W = 4  R = 2  T = 3  MaxLen = 4  MaxV = 9  MaxArg = 6
SPECIFICATION Spec
INVARIANT CursorRefines
INVARIANT StaticRefines
CHECK_DEADLOCK FALSE
