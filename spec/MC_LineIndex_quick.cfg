CONSTANTS CAP = 2  MaxLen = 6  MaxOff = 8
SPECIFICATION Spec
INVARIANT AnswerExact
INVARIANT CacheOk
INVARIANT Static
CHECK_DEADLOCK FALSE
