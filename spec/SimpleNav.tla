------------------------------ MODULE SimpleNav ------------------------------
(***************************************************************************)
(* What the simple-cursor JSON index (json::SimpleJsonIndex) must answer   *)
(* on a document, stated on the TEXT alone (C32).                          *)
(*                                                                         *)
(* text is a list of bytes; positions are 0-based (byte p is text[p+1]).   *)
(*                                                                         *)
(*   Structurals(text)        ascending positions of the bytes { } [ ] , : *)
(*                            that are outside strings                     *)
(*   StructuralPos(S, k)      k-th structural (None past the end)          *)
(*   StructuralIndex(S, pos)  ordinal of the structural at pos, else None  *)
(*   FindClose(text, S, pos)  the structural that closes the bracket at    *)
(*                            pos, by bracket matching over S              *)
(*   SkipValue(text, S, pos)  position just after the value starting at    *)
(*                            pos                                          *)
(*                                                                         *)
(* "Outside strings" is defined here independently of the indexing         *)
(* automaton: a string starts at a quote met outside strings and ends at   *)
(* the next quote that is not preceded by an odd run of backslashes.       *)
(* MC_SimpleNav checks that this equals the IB vector of JsonScan's simple *)
(* machine on every class string, and that the 11/00/01 BP encoding makes  *)
(* BP-find_close(2i) div 2 the bracket-matching close.                     *)
(***************************************************************************)
EXTENDS Integers, Sequences, SequencesExt, FiniteSets

None == -1

IsOpenB(c) == c = 91 \/ c = 123
IsCloseB(c) == c = 93 \/ c = 125
IsDelimB(c) == c = 44 \/ c = 58
IsStructB(c) == IsOpenB(c) \/ IsCloseB(c) \/ IsDelimB(c)

At(text, p) == text[p + 1]

\* in-string tracking: mode 0 = outside, 1 = inside a string, 2 = inside, after a backslash
StructAcc(a, c) ==
  [m |-> CASE a.m = 0 -> (IF c = 34 THEN 1 ELSE 0)
           [] a.m = 1 -> (IF c = 34 THEN 0 ELSE IF c = 92 THEN 2 ELSE 1)
           [] OTHER -> 1,
   n |-> a.n + 1,
   S |-> IF a.m = 0 /\ IsStructB(c) THEN Append(a.S, a.n) ELSE a.S]

Structurals(text) == FoldLeft(StructAcc, [m |-> 0, n |-> 0, S |-> <<>>], text).S

StructuralPos(S, k) == IF k >= 0 /\ k < Len(S) THEN S[k + 1] ELSE None

\* largest j in lo..hi with S[j] <= x (S ascending, S[lo] <= x)
RECURSIVE LastLE(_, _, _, _)
LastLE(S, x, lo, hi) ==
  IF lo >= hi THEN lo
  ELSE LET mid == (lo + hi + 1) \div 2
       IN IF S[mid] <= x THEN LastLE(S, x, mid, hi) ELSE LastLE(S, x, lo, mid - 1)

\* 1-based index into S of the structural at pos, 0 when pos is not structural
IdxOf(S, pos) ==
  IF Len(S) = 0 \/ pos < S[1] THEN 0
  ELSE LET j == LastLE(S, pos, 1, Len(S)) IN IF S[j] = pos THEN j ELSE 0

StructuralIndex(S, pos) == LET j == IdxOf(S, pos) IN IF j = 0 THEN None ELSE j - 1

\* bracket matching: first structural after index j at which the depth returns to 0
RECURSIVE MatchFrom(_, _, _, _)
MatchFrom(text, S, j, depth) ==
  IF j > Len(S) THEN 0
  ELSE LET c == At(text, S[j])
           d == IF IsOpenB(c) THEN depth + 1 ELSE IF IsCloseB(c) THEN depth - 1 ELSE depth
       IN IF d = 0 THEN j ELSE MatchFrom(text, S, j + 1, d)

\* 1-based index in S of the close matching the open at index j (0 = none)
MatchIdx(text, S, j) == MatchFrom(text, S, j, 0)

FindClose(text, S, pos) ==
  IF pos < 0 \/ pos >= Len(text) THEN None
  ELSE IF ~IsOpenB(At(text, pos)) THEN None
  ELSE LET j == IdxOf(S, pos)
       IN IF j = 0 THEN None
          ELSE LET m == MatchIdx(text, S, j) IN IF m = 0 THEN None ELSE S[m]

\* The same matching computed for all structurals at once with a stack (one pass):
\* MatchTable(text, S)[j] = MatchIdx(text, S, j) for every open j, 0 elsewhere.
\* (MC_SimpleNav checks the equality on every string; trace validation of large documents
\* uses the table so that its cost stays linear.)
MatchTable(text, S) ==
  FoldLeft(LAMBDA a, j :
             LET c == At(text, S[j])
             IN IF IsOpenB(c) THEN [a EXCEPT !.stk = <<j>> \o @]
                ELSE IF IsCloseB(c) /\ Len(a.stk) > 0
                     THEN [stk |-> SubSeq(a.stk, 2, Len(a.stk)), m |-> [a.m EXCEPT ![a.stk[1]] = j]]
                     ELSE a,
           [stk |-> <<>>, m |-> [j \in 1..Len(S) |-> 0]],
           [j \in 1..Len(S) |-> j]).m

FindCloseT(text, S, M, pos) ==
  IF pos < 0 \/ pos >= Len(text) THEN None
  ELSE IF ~IsOpenB(At(text, pos)) THEN None
  ELSE LET j == IdxOf(S, pos)
       IN IF j = 0 THEN None ELSE IF M[j] = 0 THEN None ELSE S[M[j]]

\* end of the string whose opening quote is at pos: position of the closing quote
RECURSIVE StringClose(_, _)
StringClose(text, i) ==
  IF i >= Len(text) THEN Len(text)
  ELSE IF At(text, i) = 34 THEN i
  ELSE IF At(text, i) = 92 THEN StringClose(text, i + 2)
  ELSE StringClose(text, i + 1)

IsNumByte(c) == (c >= 48 /\ c <= 57) \/ c = 45 \/ c = 43 \/ c = 46 \/ c = 101 \/ c = 69

RECURSIVE NumEnd(_, _)
NumEnd(text, i) == IF i < Len(text) /\ IsNumByte(At(text, i)) THEN NumEnd(text, i + 1) ELSE i

Lit(text, pos, w) == pos + Len(w) <= Len(text) /\ SubSeq(text, pos + 1, pos + Len(w)) = w

\* Position just after the value that starts at pos (for a VALID document and pos the
\* first byte of a value or key): matching close + 1 for containers, closing quote + 1
\* for strings, the literal's length for true/false/null, the maximal run of number
\* bytes for numbers.  None when no value can start with that byte.
SkipValueF(text, pos, f) ==
  IF pos < 0 \/ pos >= Len(text) THEN None
  ELSE LET c == At(text, pos)
       IN CASE IsOpenB(c) -> (IF f = None THEN None ELSE f + 1)
            [] c = 34 -> StringClose(text, pos + 1) + 1
            [] c = 116 -> IF Lit(text, pos, <<116, 114, 117, 101>>) THEN pos + 4 ELSE None
            [] c = 102 -> IF Lit(text, pos, <<102, 97, 108, 115, 101>>) THEN pos + 5 ELSE None
            [] c = 110 -> IF Lit(text, pos, <<110, 117, 108, 108>>) THEN pos + 4 ELSE None
            [] c = 45 \/ (c >= 48 /\ c <= 57) -> NumEnd(text, pos)
            [] OTHER -> None

\* (f, the matching close, is only evaluated for containers)
SkipValue(text, S, pos) == SkipValueF(text, pos, FindClose(text, S, pos))
SkipValueT(text, S, M, pos) == SkipValueF(text, pos, FindCloseT(text, S, M, pos))

-----------------------------------------------------------------------------
\* Balanced-parentheses find_close on an explicit bit string (1 = open), definitional:
\* the first position q > p at which the excess returns to the level before p.
RECURSIVE BpCloseFrom(_, _, _)
BpCloseFrom(bits, q, depth) ==
  IF q > Len(bits) THEN None
  ELSE LET d == IF bits[q] = 1 THEN depth + 1 ELSE depth - 1
       IN IF d = 0 THEN q - 1 ELSE BpCloseFrom(bits, q + 1, d)

\* p 0-based; None when bit p is a close or unmatched
BpFindClose(bits, p) ==
  IF p < 0 \/ p >= Len(bits) \/ bits[p + 1] = 0 THEN None ELSE BpCloseFrom(bits, p + 1, 0)

\* the BP string is balanced: excess never negative, ends at 0
BpBalanced(bits) ==
  LET ex == FoldLeft(LAMBDA a, b : [e |-> a.e + (IF b = 1 THEN 1 ELSE -1),
                                    ok |-> a.ok /\ (a.e + (IF b = 1 THEN 1 ELSE -1) >= 0)],
                     [e |-> 0, ok |-> TRUE], bits)
  IN ex.ok /\ ex.e = 0

=============================================================================
