CONSTANTS
  Alphabet = {0, 10, 127, 128, 143, 144, 159, 160, 191, 193, 194, 224, 237, 240, 244, 245, 248}
  MaxLen = 4
  Scalars = "all"
SPECIFICATION Spec
INVARIANT StrInv
INVARIANT EdgeInv
INVARIANT RowInv
CHECK_DEADLOCK FALSE
