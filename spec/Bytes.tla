------------------------------- MODULE Bytes -------------------------------
(***************************************************************************)
(* Byte strings (sequences of integers 0..255) and the two line/column     *)
(* conventions used by the text components of succinctly:                  *)
(*                                                                         *)
(*   LineColLF   only LF (0x0A) ends a line        (text::utf8 errors)     *)
(*   LineColAny  LF, CR and CRLF each end one line (json::validate errors) *)
(*                                                                         *)
(* Offsets are 0-based (offset k = element k+1), lines and columns are     *)
(* 1-based and columns count BYTES.  Both conventions depend only on the   *)
(* bytes before the offset.  Each comes in a definitional form (sets of    *)
(* break positions) and a fold form used for evaluation on long inputs;    *)
(* MC_Bytes checks that they coincide.                                     *)
(***************************************************************************)
EXTENDS Integers, Sequences, FiniteSets, SequencesExt

LF == 10
CR == 13

IsBytes(s) == \A i \in 1..Len(s) : s[i] \in 0..255

MaxOf(S) == CHOOSE x \in S : \A y \in S : y <= x

Prefix(s, n) == SubSeq(s, 1, IF n < Len(s) THEN n ELSE Len(s))

(* ---- definitional ------------------------------------------------------ *)

\* 1-based indices i <= off of the LAST byte of a line break that lies wholly before `off`
\* (index i of the last byte = 0-based offset of the first byte of the next line)
BreakEndsLF(s, off) == {i \in 1..off : s[i] = LF}

\* a CR immediately followed (still before `off`) by LF is the first half of a CRLF and
\* does not end the line by itself
BreakEndsAny(s, off) ==
  {i \in 1..off : \/ s[i] = LF
                  \/ s[i] = CR /\ ~(i < off /\ s[i + 1] = LF)}

LineColOf(ends, off) == <<1 + Cardinality(ends), off - MaxOf(ends \cup {0}) + 1>>

LineColLFDef(s, off) == LineColOf(BreakEndsLF(s, off), off)
LineColAnyDef(s, off) == LineColOf(BreakEndsAny(s, off), off)

(* ---- fold form ---------------------------------------------------------- *)
\* accumulator <<ln, st, i, cr>>: ln = line, st = 0-based offset of the first byte of the
\* line, i = bytes consumed, cr = 1 iff the previous byte was a CR
\* (tuples, not records: TLC builds tuples an order of magnitude faster)
LcInit == <<1, 0, 0, 0>>

LcStepLF(a, b) ==
  IF b = LF THEN <<a[1] + 1, a[3] + 1, a[3] + 1, 0>>
  ELSE <<a[1], a[2], a[3] + 1, 0>>

LcStepAny(a, b) ==
  IF b = LF THEN
    IF a[4] = 1 THEN <<a[1], a[3] + 1, a[3] + 1, 0>>       \* second half of CRLF
    ELSE <<a[1] + 1, a[3] + 1, a[3] + 1, 0>>
  ELSE IF b = CR THEN <<a[1] + 1, a[3] + 1, a[3] + 1, 1>>
  ELSE <<a[1], a[2], a[3] + 1, 0>>

LineColLF(s, off) ==
  LET a == FoldLeft(LcStepLF, LcInit, Prefix(s, off)) IN <<a[1], off - a[2] + 1>>

LineColAny(s, off) ==
  LET a == FoldLeft(LcStepAny, LcInit, Prefix(s, off)) IN <<a[1], off - a[2] + 1>>

=============================================================================
