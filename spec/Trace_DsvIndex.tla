--------------------------- MODULE Trace_DsvIndex ---------------------------
(* Trace validation for C20: for every recorded text, TLC steps Dsv!QuoteStep *)
(* over the logged bytes (classes under the logged configuration) and every   *)
(* engine's marker / newline offsets, counts and rank/select answers must     *)
(* equal the result.  No clause mentions `eng`: that IS "the index does not   *)
(* depend on the engine".                                                     *)
(*   text : d q n (distinct bytes), len, b (bytes)                            *)
(*   index: eng, mk / nl (set-bit offsets of ALL index words), mc rc tl empty *)
(*   q    : eng, op in mrank mselect nrank nselect, a (-1 = huge), r          *)
EXTENDS TraceBase, Dsv

VARIABLES l, ix

vars == <<l, ix>>

Text(e) ==
  /\ e.e = "text"
  /\ e.d # e.q /\ e.d # e.n /\ e.q # e.n
  /\ e.len = Len(e.b)
  /\ ix' = Index(ClassesOf(e.b, e.d, e.q, e.n))

IndexEv(e) ==
  /\ e.e = "index"
  /\ e.mk = ix.ms
  /\ e.nl = ix.ns
  /\ e.mc = Len(ix.ms)
  /\ e.rc = Len(ix.ns)
  /\ e.tl = ix.len
  /\ e.empty = (IF ix.len = 0 THEN 1 ELSE 0)
  /\ UNCHANGED ix

Expected(op, a) ==
  CASE op = "mrank" -> IF a < 0 THEN Len(ix.ms) ELSE RankIn(ix.ms, a)
    [] op = "nrank" -> IF a < 0 THEN Len(ix.ns) ELSE RankIn(ix.ns, a)
    [] op = "mselect" -> IF a < 0 THEN None ELSE SelectIn(ix.ms, a)
    [] op = "nselect" -> IF a < 0 THEN None ELSE SelectIn(ix.ns, a)
    [] OTHER -> -99

Query(e) ==
  /\ e.e = "q"
  /\ e.r = Expected(e.op, e.a)
  /\ UNCHANGED ix

Init == l = 1 /\ ix = Index(<<>>)

Next == /\ l <= NRec
        /\ LET e == Rec[l] IN Text(e) \/ IndexEv(e) \/ Query(e)
        /\ l' = l + 1

Spec == Init /\ [][Next]_vars
=============================================================================
