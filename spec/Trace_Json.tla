----------------------------- MODULE Trace_Json -----------------------------
(* Trace validation for C08: every recorded answer of the real strict JSON   *)
(* validator (succinctly::json::validate::validate) against the PDA of       *)
(* JsonGrammar.tla run over the recorded bytes.                              *)
(*   val  b (bytes), r = reported error offset, -1 = Ok(()), -2 = panic;     *)
(*        ln, col = reported line / column (0 when ok); k = error kind code  *)
(*        (only used by the driver for signatures), f = generator family     *)
(* Property as stated:                                                       *)
(*   r = -1  <=>  the bytes are one RFC 8259 JSON text nested <= 128         *)
(*   r # -1  =>   0 <= r <= Viable(b)  and  <<ln, col>> = LineColAny(b, r)   *)
(* Environment JSON_PAIRING=1 switches the acceptance oracle to the          *)
(* surrogate-pairing automaton (used by the driver only to CLASSIFY events   *)
(* of the known deviation "lone surrogate escapes are rejected"); the offset *)
(* bound stays the RFC one.                                                  *)
EXTENDS TraceBase, JsonGrammar

VARIABLES l
vars == <<l>>

Pairing == Has(IOEnv, "JSON_PAIRING") /\ IOEnv.JSON_PAIRING = "1"

Val(e) ==
  /\ e.e = "val"
  /\ LET cr == RunRfc(e.b)
         ok == IF Pairing THEN AcceptsPaired(e.b) ELSE Accepting(cr)
     IN
     /\ (e.r = -1) <=> ok
     /\ e.r # -1 => /\ e.r >= 0
                    /\ e.r <= cr[4]
                    /\ <<e.ln, e.col>> = LineColAny(e.b, e.r)
     /\ e.r = -1 => e.ln = 0 /\ e.col = 0
     \* classification output for the driver (pairing mode only)
     /\ (Pairing /\ e.r # -1 /\ Accepting(cr)) => PrintT(<<"RFC_ACCEPTS", l>>)

Init == l = 1

Next == /\ l <= NRec
        /\ LET e == Rec[l] IN Val(e)
        /\ l' = l + 1

Spec == Init /\ [][Next]_vars
=============================================================================
