------------------------------- MODULE TreeGen -------------------------------
(***************************************************************************)
(* A generative state machine for ordered data trees (the values JSON and  *)
(* YAML documents denote): a stack of open containers; each step adds a    *)
(* leaf, opens a container or closes one.  TLC enumerates it exhaustively  *)
(* for small bounds and samples it with -simulate for larger ones; every   *)
(* finished tree is one generated behaviour.                               *)
(*                                                                         *)
(* Values are tagged records:                                              *)
(*   [t |-> "str", v |-> s]  [t |-> "int", v |-> n]  [t |-> "bool", v |-> b]*)
(*   [t |-> "null"]  [t |-> "arr", v |-> <<values>>]                        *)
(*   [t |-> "obj", v |-> << <<key, value>>, ... >>]   (ordered, keys unique) *)
(***************************************************************************)
EXTENDS Integers, Sequences, FiniteSets

CONSTANTS Leaves,      \* set of leaf values (tagged records)
          Keys,        \* set of key strings
          MaxNodes, MaxDepth, MaxWidth

VARIABLES stack, nodes, done

tvars == <<stack, nodes, done>>

Frame(kind, key) == [kind |-> kind, key |-> key, items |-> <<>>]

TreeInit == stack = <<Frame("root", "")>> /\ nodes = 0 /\ done = FALSE

Top == stack[Len(stack)]

UsedKeys(f) == {f.items[i][1] : i \in 1..Len(f.items)}

\* the keys a new child of the top frame may take ("" when the parent is not an object)
ChildKeys == IF Top.kind = "obj" THEN Keys \ UsedKeys(Top) ELSE {""}

CanAdd == /\ ~done /\ nodes < MaxNodes
          /\ Len(Top.items) < (IF Top.kind = "root" THEN 1 ELSE MaxWidth)

Put(f, key, val) == [f EXCEPT !.items = Append(@, IF f.kind = "obj" THEN <<key, val>> ELSE val)]

\* a bare scalar document is only generated in the small exhaustive scope
AddLeaf == /\ CanAdd /\ (Top.kind # "root" \/ MaxNodes <= 3)
           /\ \E v \in Leaves, k \in ChildKeys :
                 stack' = [stack EXCEPT ![Len(stack)] = Put(Top, k, v)]
           /\ nodes' = nodes + 1 /\ UNCHANGED done

Open == /\ CanAdd /\ Len(stack) <= MaxDepth
        /\ \E kind \in {"arr", "obj"}, k \in ChildKeys : stack' = Append(stack, Frame(kind, k))
        /\ nodes' = nodes + 1 /\ UNCHANGED done

Close == /\ ~done /\ Len(stack) > 1
         /\ LET f == Top
                val == [t |-> f.kind, v |-> f.items]
                rest == SubSeq(stack, 1, Len(stack) - 1)
            IN stack' = [rest EXCEPT ![Len(rest)] = Put(rest[Len(rest)], f.key, val)]
         /\ UNCHANGED <<nodes, done>>

Complete == ~done /\ Len(stack) = 1 /\ Len(stack[1].items) = 1
Root == stack[1].items[1]

\* structural invariants of the generator itself
TreeOk == /\ nodes <= MaxNodes
          /\ Len(stack) <= MaxDepth + 1
          /\ \A i \in 1..Len(stack) :
                stack[i].kind = "obj" =>
                   Cardinality(UsedKeys(stack[i])) = Len(stack[i].items)   \* no duplicate keys
=============================================================================
