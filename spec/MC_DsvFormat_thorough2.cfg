CONSTANTS DELIM = 59  MaxArr = 3  MaxStr = 2  Alphabet = {59, 34, 13, 10, 32, 97, 44}
SPECIFICATION Spec
INVARIANT Inv
CHECK_DEADLOCK FALSE
