CONSTANTS DELIM = 32  MaxArr = 3  MaxStr = 2
SPECIFICATION Spec
INVARIANT Inv
CHECK_DEADLOCK FALSE
