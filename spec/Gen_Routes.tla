------------------------------ MODULE Gen_Routes ------------------------------
(* spec -> impl generator for C27: every navigation program of at most        *)
(* MaxSteps path steps under one wrapper, with what the runners' gates say    *)
(* about it: whether yq can stream it from the cursor at all (yq_runner.rs    *)
(* can_use_m2_streaming: identity, fields, indices, iteration, optional,      *)
(* first/last, select, keys_unsorted -- NOT slices), whether it is the bare   *)
(* identity (P9 / raw-bytes fast paths) and whether it yields at most one     *)
(* result per input (needed to read YAML output back unambiguously).  The     *)
(* driver runs each program over document streams through both routes.        *)
EXTENDS Routes, Json

CONSTANT MaxSteps

(* step: <<text, streamable by yq, iterates>> *)
Steps == << <<".a", 1, 0>>, <<".b", 1, 0>>, <<".c?", 1, 0>>, <<".[\"k k\"]", 1, 0>>, <<".[0]", 1, 0>>, <<".[-1]", 1, 0>>,
            <<".[1]?", 1, 0>>, <<".[]", 1, 1>>, <<".[]?", 1, 1>>, <<".a.b", 1, 0>>, <<".[1:]", 0, 0>>, <<".[:2]", 0, 0>>,
            <<".[-2:]", 0, 0>> >>

Wraps == {"none", "first", "last", "opt", "select", "selecta", "keys"}

VARIABLES prog, wrap

Init == prog = <<>> /\ wrap = "open"

Extend == wrap = "open" /\ Len(prog) < MaxSteps /\ \E i \in 1..Len(Steps) : prog' = Append(prog, i) /\ wrap' = wrap
Close == wrap = "open" /\ \E w \in Wraps : wrap' = w /\ prog' = prog

Next == Extend \/ Close

Spec == Init /\ [][Next]_<<prog, wrap>>

RECURSIVE Join(_, _)
Join(p, i) == IF i > Len(p) THEN "" ELSE Steps[p[i]][1] \o (IF i < Len(p) THEN " | " ELSE "") \o Join(p, i + 1)

Path == IF prog = <<>> THEN "." ELSE Join(prog, 1)

Text == CASE wrap = "none" -> Path
          [] wrap = "first" -> "first(" \o Path \o ")"
          [] wrap = "last" -> "last(" \o Path \o ")"
          [] wrap = "opt" -> "(" \o Path \o ")?"
          [] wrap = "select" -> Path \o " | select(. != null)"
          [] wrap = "selecta" -> Path \o " | select(.a)"
          [] wrap = "keys" -> Path \o " | keys_unsorted"

AllM2 == \A i \in 1..Len(prog) : Steps[prog[i]][2] = 1
Iterates == \E i \in 1..Len(prog) : Steps[prog[i]][3] = 1
Identity == prog = <<>> /\ wrap = "none"
Single == wrap \in {"first", "last"} \/ ~Iterates

Emit ==
  wrap # "open" =>
    PrintT(<<"REPLAY", ToJson([prog |-> Text, steps |-> Len(prog), wrap |-> wrap,
                               m2 |-> IF AllM2 THEN 1 ELSE 0,
                               identity |-> IF Identity THEN 1 ELSE 0,
                               single |-> IF Single THEN 1 ELSE 0,
                               jq_plain |-> ExpectedRoute("jq", "input", 0, 0, 0),
                               jq_forced |-> ExpectedRoute("jq", "input", 1, 0, 0),
                               yq_plain_json |-> ExpectedRoute("yq", "arg", 0, 0, IF Identity THEN 1 ELSE 0),
                               yq_plain_yaml |-> ExpectedRoute("yq", "arg", 0, 1, IF Identity THEN 1 ELSE 0),
                               yq_forced |-> ExpectedRoute("yq", "arg", 1, 0, 0)])>>)
=============================================================================
