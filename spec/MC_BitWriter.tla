----------------------------- MODULE MC_BitWriter -----------------------------
(* Exhaustive refinement check of the BitWriter state machine at W = 4: every   *)
(* operation sequence of bounded total length, every operand.                   *)
EXTENDS BitWriter, TLC

CONSTANT MaxBits

VARIABLES s, bits

vars == <<s, bits>>

Words == [1..W -> {0, 1}]

Init == s = New /\ bits = <<>>

WB == \E b \in {0, 1} : s' = IWriteBit(s, b) /\ bits' = AWriteBit(bits, b)
WBS == \E v \in Words, c \in 0..W : s' = IWriteBits(s, v, c) /\ bits' = AWriteBits(bits, v, c)
WZ == \E c \in 0..(2 * W + 1) : s' = IWriteZeros(s, c) /\ bits' = AWriteZeros(bits, c)

Next == Len(bits) < MaxBits /\ (WB \/ WBS \/ WZ)

Spec == Init /\ [][Next]_vars

Refines == /\ Abs(s) = bits
           /\ RepInv(s)
           /\ ILen(s) = ALen(bits)
           /\ Flatten(IFinish(s)) = AFinish(bits)
=============================================================================
