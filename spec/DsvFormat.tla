------------------------------ MODULE DsvFormat ------------------------------
(***************************************************************************)
(* C22: @csv / @dsv(d) formatting of an array of strings and reading the   *)
(* printed line back as DSV input with the same delimiter.                 *)
(*                                                                         *)
(* Strings are sequences of character codes.  QUOTE is '"' (34), the       *)
(* record separator of the reader is LF (10), the delimiter d is any       *)
(* character other than those two.                                         *)
(*   Format(fs, d)  every string wrapped in quotes with inner quotes       *)
(*                  doubled, joined by d           (jq eval: format_csv /  *)
(*                  format_dsv / quote_csv_field)                          *)
(*   Read(text, d)  Dsv!Rows of the text under (d, QUOTE, LF), every field *)
(*                  stripped of its surrounding quotes and un-doubled      *)
(*                  (jq_runner: DsvRows + strip_quotes_and_decode)         *)
(* Theorem (RoundTrip): Read(Format(fs, d) \o <<LF>>, d) = <<fs>> for      *)
(* every non-empty array fs.  Only this composition is the property; the   *)
(* intermediate text is not part of the statement.                         *)
(***************************************************************************)
EXTENDS Integers, Sequences, SequencesExt, Dsv

QUOTE == 34
LF == 10

\* s with every QUOTE doubled
Doubled(s) == FoldLeft(LAMBDA acc, c : IF c = QUOTE THEN acc \o <<QUOTE, QUOTE>> ELSE Append(acc, c), <<>>, s)

QuoteField(s) == <<QUOTE>> \o Doubled(s) \o <<QUOTE>>

\* fields joined by the delimiter
Format(fs, d) ==
  FoldLeft(LAMBDA acc, i : IF i = 1 THEN QuoteField(fs[i]) ELSE acc \o <<d>> \o QuoteField(fs[i]),
           <<>>, [i \in 1..Len(fs) |-> i])

\* str::replace("\"\"", "\""): left to right, non-overlapping
RECURSIVE Undouble(_)
Undouble(s) ==
  IF Len(s) = 0 THEN <<>>
  ELSE IF Len(s) >= 2 /\ s[1] = QUOTE /\ s[2] = QUOTE THEN <<QUOTE>> \o Undouble(SubSeq(s, 3, Len(s)))
  ELSE <<s[1]>> \o Undouble(SubSeq(s, 2, Len(s)))

Decode(f) ==
  IF Len(f) >= 2 /\ f[1] = QUOTE /\ f[Len(f)] = QUOTE THEN Undouble(SubSeq(f, 2, Len(f) - 1)) ELSE f

Read(text, d) ==
  LET rows == RawRows(text, Rows(Index(ClassesOf(text, d, QUOTE, LF))))
  IN [r \in 1..Len(rows) |-> [i \in 1..Len(rows[r]) |-> Decode(rows[r][i])]]

RoundTrip(fs, d) == Read(Format(fs, d) \o <<LF>>, d) = <<fs>>
=============================================================================
