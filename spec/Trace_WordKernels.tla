-------------------------- MODULE Trace_WordKernels --------------------------
(* Trace validation for C02 at the REAL width W = 64, B = 8.  Every recorded   *)
(* result of every driven path of the real code must equal the WordKernels     *)
(* definition.  A word arrives as the ascending list of its set-bit positions; *)
(* the linear-time evaluators (WordKernels Part 2, proved equal to the set     *)
(* definitions by MC_WordKernels) are used for all words, and the set          *)
(* definitions themselves (Part 1) additionally on the words flagged d = 1     *)
(* (a sample of the words with at most DefMax set bits).  Events carry no      *)
(* path-dependent clause: every path of `sel` / `pc` / `rr` must give the SAME *)
(* defined value -- that is "whichever hardware path executes".                *)
(*   w:    w, d, std (1: ranks StdKs and start bits StdPs, -1 = any argument   *)
(*         >= 2^30), sel (one list per select path), pc (popcount paths),      *)
(*         r (find_unmatched_close_in_word), fc (find_close_in_word)           *)
(*   sb:   w (byte), tab (8 table entries), ks, sel (select_in_byte)           *)
(*   blk:  ws (8 words), r, rr (every block-popcount path)                     *)
(*   scan: rl (run-length bits), n (words), q <<start, rem>>, rs/rc (<<idx,    *)
(*         rem>> of scan_select / scan_select_scalar), sf (select_from)        *)
(*   ff:   w, q <<start, excess, valid>>, fr (find_close_in_word_fast)         *)
EXTENDS TraceBase, BitRuns

W == 64
B == 8
WK == INSTANCE WordKernels WITH W <- 64, B <- 8
Byt == INSTANCE WordKernels WITH W <- 8, B <- 8      \* a byte as an 8-bit word

VARIABLES l
vars == <<l>>

Huge == 1073741824
Arg(k) == IF k < 0 THEN Huge ELSE k      \* -1 stands for an argument >= 2^30

DefMax == 6

AllEq(s, v) == \A i \in 1..Len(s) : s[i] = v

\* the standard argument lists of a "w" event with std = 1 (harness: c02_common/mod.rs)
StdKs == [i \in 1..67 |-> IF i = 67 THEN -1 ELSE i - 1]      \* k = 0..65, huge
StdPs == [i \in 1..68 |-> IF i = 68 THEN -1 ELSE i - 1]      \* p = 0..66, huge

WordEv(e) ==
  /\ e.e = "w"
  /\ WK!IsSortedWord(e.w)
  /\ LET b == e.w
         S == WK!SetOf(b)
         E == WK!ExcPrefix(S)
         small == e.d = 1 /\ Len(b) <= DefMax
         ks == IF e.std = 1 THEN StdKs ELSE <<>>
         ps == IF e.std = 1 THEN StdPs ELSE <<>>
         selExp == [i \in 1..Len(ks) |-> WK!SelSorted(b, Arg(ks[i]))]
         fcExp == [i \in 1..Len(ps) |-> WK!FindCloseFast(S, E, Arg(ps[i]))]
     IN /\ \A p \in 1..Len(e.sel) : e.sel[p] = selExp
        /\ AllEq(e.pc, WK!PopSorted(b))
        /\ e.r = WK!UnmatchedFast(E)
        /\ e.fc = fcExp
        /\ small =>
             /\ \A i \in 1..Len(ks) : selExp[i] = WK!SelectInWord(S, Arg(ks[i]))
             /\ AllEq(e.pc, WK!Popcount(S))
             /\ e.r = WK!FindUnmatchedClose(S)
             /\ \A i \in 1..Len(ps) : e.fc[i] = WK!FindCloseInWord(S, Arg(ps[i]))

ByteEv(e) ==
  /\ e.e = "sb"
  /\ Byt!IsSortedWord(e.w)
  /\ LET T == Byt!SetOf(e.w)
     IN /\ Len(e.tab) = 8
        /\ \A k \in 0..7 : e.tab[k + 1] = Byt!SelectInWord(T, k)       \* = SelectInByte: B when absent
        /\ \A k \in 0..7 : e.tab[k + 1] = WK!SelectInByte(T, k)
        /\ \A i \in 1..Len(e.ks) : e.sel[i] = WK!SelectInByte(T, Arg(e.ks[i]))

BlockEv(e) ==
  /\ e.e = "blk"
  /\ Len(e.ws) = 8
  /\ \A i \in 1..8 : WK!IsSortedWord(e.ws[i])
  /\ LET exp == WK!BlockPopcount([i \in 1..8 |-> WK!SetOf(e.ws[i])])
     IN /\ e.r = exp
        /\ AllEq(e.rr, exp)

\* scan_select(words, start, rem): the word holding the rem-th further set bit at or
\* after word `start`, and the rank of that bit inside its word
ScanExp(t, n, start, rem) ==
  IF start < 0 \/ start >= n \/ rem < 0 THEN <<-1, -1>>
  ELSE LET before == OnesBefore(t, start * W)
           pos == RSelect1(t, t.tot, before + rem)
       IN IF pos = None THEN <<-1, -1>>
          ELSE LET idx == pos \div W IN <<idx, before + rem - OnesBefore(t, idx * W)>>

SelectFromExp(t, n, start, rem) ==
  IF start < 0 \/ start >= n \/ rem < 0 THEN None
  ELSE RSelect1(t, t.tot, OnesBefore(t, start * W) + rem)

ScanEv(e) ==
  /\ e.e = "scan"
  /\ LET t == Tab(e.rl)
     IN /\ t.tot = e.n * W
        /\ \A i \in 1..Len(e.q) :
              LET exp == ScanExp(t, e.n, e.q[i][1], e.q[i][2])
              IN /\ e.rs[i] = exp
                 /\ e.rc[i] = exp
                 /\ e.sf[i] = SelectFromExp(t, e.n, e.q[i][1], e.q[i][2])

FastEv(e) ==
  /\ e.e = "ff"
  /\ WK!IsSortedWord(e.w)
  /\ LET S == WK!SetOf(e.w)
         E == WK!ExcPrefix(S)
         small == e.d = 1 /\ Len(e.w) <= DefMax
     IN \A i \in 1..Len(e.q) :
           /\ e.fr[i] = WK!FindCloseFromFast(E, e.q[i][1], e.q[i][2], e.q[i][3])
           /\ small => e.fr[i] = WK!FindCloseFrom(S, e.q[i][1], e.q[i][2], e.q[i][3])

Init == l = 1

Next == /\ l <= NRec
        /\ LET e == Rec[l] IN WordEv(e) \/ ByteEv(e) \/ BlockEv(e) \/ ScanEv(e) \/ FastEv(e)
        /\ l' = l + 1

Spec == Init /\ [][Next]_vars
=============================================================================
