------------------------------- MODULE BitSeq -------------------------------
(***************************************************************************)
(* Definitional semantics of rank / select / access on a finite bit        *)
(* sequence.  A bit sequence is a TLA+ sequence over {0,1}; position i of  *)
(* the implementation (0-based) is element i+1 here.  Everything else in   *)
(* /verif/spec that talks about bit vectors (BitRuns, BitVecImpl,          *)
(* BalancedParens, EliasFano, PositionTables, IbIndex) is checked against  *)
(* these definitions.                                                      *)
(***************************************************************************)
EXTENDS Integers, Sequences, FiniteSets

\* "no answer" is -1 everywhere (TLC cannot compare integers with strings, and every real
\* answer is a natural number)
None == -1

IsBits(b) == \A i \in 1..Len(b) : b[i] \in {0, 1}

\* 0-based access, defined only for i < Len(b)
Get(b, i) == b[i + 1]

\* positions (0-based) of bits equal to v
PosOf(b, v) == {i \in 0..(Len(b) - 1) : b[i + 1] = v}

CountOf(b, v) == Cardinality(PosOf(b, v))

Min2(a, c) == IF a < c THEN a ELSE c

\* number of v-bits in positions [0, i)   (i is clamped to the length)
RankOf(b, v, i) == Cardinality({p \in PosOf(b, v) : p < i})

\* position of the k-th (0-based) v-bit, None when there are fewer than k+1
SelectOf(b, v, k) ==
  IF k >= CountOf(b, v) THEN None
  ELSE CHOOSE p \in PosOf(b, v) : Cardinality({q \in PosOf(b, v) : q < p}) = k

Rank1(b, i) == RankOf(b, 1, i)
Rank0(b, i) == RankOf(b, 0, i)
Select1(b, k) == SelectOf(b, 1, k)
Select0(b, k) == SelectOf(b, 0, k)
CountOnes(b) == CountOf(b, 1)
CountZeros(b) == CountOf(b, 0)

\* first n bits of b
Take(b, n) == SubSeq(b, 1, Min2(n, Len(b)))

=============================================================================
