---------------------------- MODULE MC_JsonScan ----------------------------
(* Bounded exhaustive check of the facts about the two scanning automata    *)
(* that the engines and the replay generator rely on (C05):                 *)
(*                                                                          *)
(*  ClassFacts   (all 256 bytes x all states) the seven classes partition   *)
(*               the bytes and each machine's step depends on the byte only *)
(*               through its class -- so strings over one representative    *)
(*               per class cover all byte strings of that length;           *)
(*               the neutral bytes of every state are exactly the ones the  *)
(*               replay generator uses as padding.                          *)
(*  ChunkLemma   every string, every split point: running the second chunk  *)
(*               from a fresh accumulator that carries ONLY the state and   *)
(*               concatenating the outputs equals the whole run (what the   *)
(*               16/32-byte SIMD loops and their tail do).                  *)
(*  PadLemma     leading padding by k InJson-neutral bytes shifts IB by k   *)
(*               and changes nothing else; trailing padding by bytes that   *)
(*               are neutral in the final state changes only n.             *)
(*  Counts       standard: #IB ones = #BP ones (opens), BP closes <= bytes; *)
(*               simple: BP length = 2 * #IB ones; IB ones only at bytes of *)
(*               the expected classes.                                      *)
EXTENDS JsonScan, TLC

CONSTANTS MaxLen, Reps, PadBytes, MaxPad

VARIABLE str

Init == str = <<>>

Next == /\ Len(str) < MaxLen
        /\ \E b \in Reps : str' = Append(str, b)

Spec == Init /\ [][Next]_str

-----------------------------------------------------------------------------
RepOf(c) == CHOOSE r \in Reps : ClassOf(r) = ClassOf(c)

ClassFacts ==
  /\ \A c \in Bytes :
        /\ Cardinality({k \in 1..7 : ClassNames[k] = ClassOf(c)}) = 1
        /\ \E r \in Reps : ClassOf(r) = ClassOf(c)
        /\ \A s \in StdStates : StdStep(s, c) = StdStep(s, RepOf(c))
        /\ \A s \in SimpleStates : SimpleStep(s, c) = SimpleStep(s, RepOf(c))
  /\ \A k \in 1..7 : \E c \in Bytes : ClassOf(c) = ClassNames[k]
  \* neutral bytes, state by state
  /\ \A c \in Bytes :
        /\ StdNeutral(InJson, c) <=> ClassOf(c) \in {"other", "delim", "bslash"}
        /\ StdNeutral(InString, c) <=> ClassOf(c) \notin {"quote", "bslash"}
        /\ ~StdNeutral(InEscape, c)
        /\ StdNeutral(InValue, c) <=> ClassOf(c) = "value"
        /\ SimpleNeutral(InJson, c) <=> ClassOf(c) \in {"other", "value", "bslash"}
        /\ SimpleNeutral(InString, c) <=> ClassOf(c) \notin {"quote", "bslash"}
        /\ ~SimpleNeutral(InEscape, c)
  /\ \A c \in PadBytes : ClassOf(c) = "other"

-----------------------------------------------------------------------------
Shift(seq, k) == [i \in 1..Len(seq) |-> seq[i] + k]

\* concatenate the outputs of two chunk runs, the second one started from Acc0(a.s)
Merge(a, b) ==
  [s |-> b.s, n |-> a.n + b.n,
   ib |-> a.ib \o Shift(b.ib, a.n),
   bp |-> a.bp \o Shift(b.bp, a.bpn),
   bpn |-> a.bpn + b.bpn]

ChunkLemma ==
  \A k \in 0..Len(str) :
    LET p == SubSeq(str, 1, k)
        q == SubSeq(str, k + 1, Len(str))
        ps == RunStd(p)
        pm == RunSimple(p)
    IN /\ Merge(ps, RunStdFrom(Acc0(ps.s), q)) = RunStd(str)
       /\ Merge(pm, RunSimpleFrom(Acc0(pm.s), q)) = RunSimple(str)

RECURSIVE Rep(_, _)
Rep(v, n) == IF n = 0 THEN <<>> ELSE <<v>> \o Rep(v, n - 1)

\* the bytes the replay harness appends after a core string, by final state
\* (standard machine: InJson ' ', InString 'x', InValue 'a'; nothing after InEscape)
TrailStd(s) == CASE s = InJson -> {32} [] s = InString -> {120, 32, 91} [] s = InValue -> {97} [] OTHER -> {}
TrailSimple(s) == CASE s = InJson -> {32, 97} [] s = InString -> {120, 32, 91} [] OTHER -> {}

PadLemma ==
  LET rs == RunStd(str)
      rm == RunSimple(str)
  IN /\ \A c \in PadBytes, k \in 0..MaxPad :
          /\ RunStd(Rep(c, k) \o str) = [rs EXCEPT !.n = @ + k, !.ib = Shift(@, k)]
          /\ RunSimple(Rep(c, k) \o str) = [rm EXCEPT !.n = @ + k, !.ib = Shift(@, k)]
     /\ \A k \in 0..MaxPad :
          /\ \A c \in TrailStd(rs.s) : RunStd(str \o Rep(c, k)) = [rs EXCEPT !.n = @ + k]
          /\ \A c \in TrailSimple(rm.s) : RunSimple(str \o Rep(c, k)) = [rm EXCEPT !.n = @ + k]

Counts ==
  LET rs == RunStd(str)
      rm == RunSimple(str)
      bits == BpBits(rs)
  IN /\ rs.n = Len(str) /\ rm.n = Len(str)
     /\ Len(rs.ib) = Len(rs.bp)                       \* #IB ones = #BP opens
     /\ rs.bpn - Len(rs.bp) <= Len(str)               \* closes: at most one per byte
     /\ rs.bpn <= 2 * Len(str)
     /\ rm.bpn = 2 * Len(rm.ib)                       \* simple: two BP bits per structural
     \* (the two machines do NOT always agree on what is inside a string: a quote directly
     \*  after a value character -- `1"` -- ends the value in the standard machine without
     \*  opening a string; only on such malformed input, so no relation is claimed here)
     /\ Len(bits) = rs.bpn
     \* every IB one of the simple machine is a bracket/delimiter byte outside strings
     /\ \A j \in 1..Len(rm.ib) : ClassOf(str[rm.ib[j] + 1]) \in {"open", "close", "delim"}
     \* standard IB ones: opens and first bytes of strings / values
     /\ \A j \in 1..Len(rs.ib) : ClassOf(str[rs.ib[j] + 1]) \in {"open", "quote", "value"}

\* the position-list accumulators of JsonScan!Run* denote exactly the bit strings obtained
\* by writing, byte after byte, the IB bit and the BP bits of the step functions
BitStrings ==
  LET ds == FoldLeft(LAMBDA a, c : LET t == StdStep(a.s, c)
                                   IN [s |-> t.s, ib |-> Append(a.ib, PhiIb(t.phi)), bp |-> a.bp \o StdBp(t.phi)],
                     [s |-> InJson, ib |-> <<>>, bp |-> <<>>], str)
      dm == FoldLeft(LAMBDA a, c : LET t == SimpleStep(a.s, c)
                                   IN [s |-> t.s, ib |-> Append(a.ib, t.ib), bp |-> a.bp \o t.bp],
                     [s |-> InJson, ib |-> <<>>, bp |-> <<>>], str)
      rs == RunStd(str)
      rm == RunSimple(str)
  IN /\ IbBits(rs) = ds.ib /\ BpBits(rs) = ds.bp /\ rs.s = ds.s
     /\ IbBits(rm) = dm.ib /\ BpBits(rm) = dm.bp /\ rm.s = dm.s

\* the packed run (bit_writer.rs with W-bit words) denotes the same bit strings
WordsOfBits(bits, W) ==
  [j \in 1..((Len(bits) + W - 1) \div W) |->
     LET lo == (j - 1) * W
     IN FoldLeft(LAMBDA acc, i : acc + (IF lo + i <= Len(bits) THEN bits[lo + i] * Pow2[i] ELSE 0),
                 0, [i \in 1..W |-> i])]

PackedSame ==
  \A W \in {2, 3, 16} :
    LET rs == RunStd(str)
        rm == RunSimple(str)
        ps == RunStdP(str, W)
        pm == RunSimpleP(str, W)
    IN /\ ps.s = rs.s /\ ps.n = rs.n /\ ps.bpn = rs.bpn
       /\ ps.ib = WordsOfBits(IbBits(rs), W) /\ ps.bp = WordsOfBits(BpBits(rs), W)
       /\ pm.s = rm.s /\ pm.n = rm.n /\ pm.bpn = rm.bpn
       /\ pm.ib = WordsOfBits(IbBits(rm), W) /\ pm.bp = WordsOfBits(BpBits(rm), W)

Inv == (str = <<>> => ClassFacts) /\ PackedSame /\ ChunkLemma /\ PadLemma /\ Counts /\ BitStrings
=============================================================================
