CONSTANTS MaxLen = 6  MaxWalkLen = 6
SPECIFICATION Spec
INVARIANT SplitInv
INVARIANT CursorInv
CHECK_DEADLOCK FALSE
