--------------------------- MODULE Trace_JsonScan ---------------------------
(* Trace validation for C05.                                                 *)
(*                                                                           *)
(*  tab  one event per byte value b with the raw bytes of TRANSITION_TABLE[b] *)
(*       and PHI_TABLE[b] (tt, pt: entry s+1 belongs to state s) and the      *)
(*       values the PfsmState extractors return (xt, xp).  Every one of the   *)
(*       256 x 4 entries must equal JsonScan!StdStep; the events must arrive  *)
(*       in byte order, so a complete trace of 256 events is exhaustive.      *)
(*  in   an input byte string: TLC steps BOTH automata over the logged bytes  *)
(*       (JsonScan!RunStd / RunSimple) and keeps the reference semi-indexes.  *)
(*  out  what one engine produced for the last input: final state, its IB    *)
(*       and BP word vectors (each 64-bit word as four 16-bit integers, low   *)
(*       quarter first) and their word counts.  There is no     *)
(*       engine-dependent clause: eng is logged but the expected value is     *)
(*       the reference run -- that IS "does not depend on the engine".        *)
(*       eng = "index" are the IB/BP held by JsonIndex / SimpleJsonIndex      *)
(*       (no scanner state, st = -1): "every index built by the library is   *)
(*       the reference index of its input" -- same IB words, same BP words.   *)
EXTENDS TraceBase, JsonScan

\* Reference semi-indexes of every recorded input, computed once per "in" event.  They are
\* constants of the recorded trace, so the state is just <<l, d, ntab>> (d = line of the
\* current input).
InIdx == {i \in 1..NRec : Rec[i].e = "in"}

\* 16-bit words, padded to whole 64-bit words as the implementation returns them
Words64(r) == [r EXCEPT !.ib = PadTo(@, 4 * WordsFor(r.n)), !.bp = PadTo(@, 4 * WordsFor(r.bpn))]

Ref == [i \in InIdx |-> [std |-> Words64(RunStdP(Rec[i].bytes, 16)), simple |-> Words64(RunSimpleP(Rec[i].bytes, 16))]]

VARIABLES l, d, ntab

vars == <<l, d, ntab>>

Tab(e) ==
  /\ e.e = "tab"
  /\ e.b = ntab
  /\ \A s \in StdStates :
       LET t == StdStep(s, e.b)
       IN /\ e.tt[s + 1] = t.s
          /\ e.pt[s + 1] = t.phi
          /\ e.xt[s + 1] = t.s
          /\ e.xp[s + 1] = t.phi
  /\ e.r = StdStep(InJson, e.b).s
  /\ ntab' = ntab + 1
  /\ UNCHANGED d

In(e) ==
  /\ e.e = "in"
  /\ d' = l
  /\ e.n = Ref[l].std.n /\ e.n = Ref[l].simple.n
  /\ UNCHANGED ntab

Out(e) ==
  /\ e.e = "out"
  /\ d > 0
  /\ LET x == IF e.enc = "std" THEN Ref[d].std ELSE Ref[d].simple
     IN /\ e.st = (IF e.eng = "index" THEN -1 ELSE x.s)
        /\ e.ib = x.ib                      \* all 16-bit quarters of all 64-bit words
        /\ e.ibw = WordsFor(x.n)
        /\ e.bp = x.bp
        /\ e.bpw = WordsFor(x.bpn)
        \* BP length: only the simple-cursor index states one that the statement fixes
        \* (two bits per structural); engines return words only (bpl = -1)
        /\ (e.eng = "index" /\ e.enc = "simple" => e.bpl = x.bpn)
        /\ (e.eng # "index" => e.bpl = -1)
  /\ UNCHANGED <<d, ntab>>

Init == l = 1 /\ d = 0 /\ ntab = 0

Next == /\ l <= NRec
        /\ LET e == Rec[l] IN Tab(e) \/ In(e) \/ Out(e)
        /\ l' = l + 1

Spec == Init /\ [][Next]_vars
=============================================================================
