------------------------------ MODULE Trace_Dsv ------------------------------
(* Trace validation for C21: the real Dsv / DsvRef / DsvRows / DsvRow /       *)
(* DsvFields / DsvCursor against Dsv.tla.                                     *)
(*   text : d q n, b (bytes), via            -> ix, definitional rows, cursor *)
(*   rows : rows (field bytes per row), r = number of rows    (iteration)     *)
(*   row  : n (-1 huge), some, fields, r = number of fields | -1  (Dsv::row)  *)
(*   get  : n, i (-1 huge), some, f, r = Len(f) | -1          (DsvRow::get)   *)
(*   cur  : op new|nf|nr|goto, a, ok, end, f = current_field, r = position    *)
(* Iteration, random access and column access are all compared with the SAME  *)
(* definitional Rows(ix); there is no clause for the presence or absence of a *)
(* final separator.                                                           *)
EXTENDS TraceBase, Dsv

VARIABLES l, bytes, ix, rows, cpos

vars == <<l, bytes, ix, rows, cpos>>

Text(e) ==
  /\ e.e = "text"
  /\ e.d # e.q /\ e.d # e.n /\ e.q # e.n
  /\ bytes' = e.b
  /\ ix' = Index(ClassesOf(e.b, e.d, e.q, e.n))
  /\ rows' = RawRows(e.b, Rows(ix'))
  /\ cpos' = 0

RowsEv(e) ==
  /\ e.e = "rows"
  /\ e.rows = rows
  /\ e.r = Len(rows)
  /\ UNCHANGED <<bytes, ix, rows, cpos>>

RowEv(e) ==
  /\ e.e = "row"
  /\ IF e.n >= 0 /\ e.n < Len(rows)
     THEN e.some = 1 /\ e.fields = rows[e.n + 1] /\ e.r = Len(rows[e.n + 1])
     ELSE e.some = 0 /\ e.fields = <<>> /\ e.r = None
  /\ UNCHANGED <<bytes, ix, rows, cpos>>

GetEv(e) ==
  /\ e.e = "get"
  /\ e.n < Len(rows)
  /\ LET row == rows[e.n + 1]
     IN IF e.i >= 0 /\ e.i < Len(row)
        THEN e.some = 1 /\ e.f = row[e.i + 1] /\ e.r = Len(row[e.i + 1])
        ELSE e.some = 0 /\ e.f = <<>> /\ e.r = None
  /\ UNCHANGED <<bytes, ix, rows, cpos>>

CurEv(e) ==
  /\ e.e = "cur"
  /\ LET res == CASE e.op = "new" -> [pos |-> 0, ok |-> 0]
                  [] e.op = "nf" -> NextField(ix, cpos)
                  [] e.op = "nr" -> NextRow(ix, cpos)
                  [] e.op = "goto" -> IF e.a < 0 THEN [pos |-> cpos, ok |-> 0] ELSE GotoRow(ix, cpos, e.a)
     IN /\ e.r = res.pos
        /\ e.ok = res.ok
        /\ e.end = (IF AtEnd(ix, res.pos) THEN 1 ELSE 0)
        /\ e.f = Raw(bytes, CurrentField(ix, res.pos))
        /\ cpos' = res.pos
  /\ UNCHANGED <<bytes, ix, rows>>

Init == l = 1 /\ bytes = <<>> /\ ix = Index(<<>>) /\ rows = <<>> /\ cpos = 0

Next == /\ l <= NRec
        /\ LET e == Rec[l] IN Text(e) \/ RowsEv(e) \/ RowEv(e) \/ GetEv(e) \/ CurEv(e)
        /\ l' = l + 1

Spec == Init /\ [][Next]_vars
=============================================================================
