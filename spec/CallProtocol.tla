---------------------------- MODULE CallProtocol ----------------------------
(* The call protocol of the library and of the CLI, as seen by a caller        *)
(* (C19, C30; also usable by C18):                                             *)
(*                                                                             *)
(*   every Invoke(api, input) is followed by exactly one Return, and a Return  *)
(*   carries either a VALUE or a reported ERROR.                               *)
(*                                                                             *)
(* There is deliberately NO action for the other ways a call can end in a      *)
(* real process: a Rust panic (harness code -2; exit status 101 for the CLI),  *)
(* a process abort / death by signal (allocation failure -> SIGABRT, stack     *)
(* overflow -> SIGSEGV/SIGABRT; code -3).  A recorded execution that contains  *)
(* one of those is therefore not a behaviour of this specification: that is    *)
(* how Trace_CallProtocol decides "never a panic or abort".                    *)
(*                                                                             *)
(* The state keeps the pending call, the number of completed calls and the     *)
(* last outcome (not an unbounded log), so the same module is instantiated by  *)
(* the trace specification on traces of 10^5 events.                           *)
EXTENDS Integers, Sequences

CONSTANTS Apis,        \* names of the entry points
          Inputs,      \* identifiers of the inputs
          MaxCalls     \* bound for model checking (trace validation: unbounded = -1)

VARIABLES pending,     \* <<>> or <<api, input>> : the call in progress
          done,        \* number of completed calls
          last         \* outcome of the last completed call ("none" initially)

cpvars == <<pending, done, last>>

Outcomes == {"value", "error"}

NoCall == <<>>

TypeOK ==
  /\ pending = NoCall \/ (Len(pending) = 2 /\ pending[1] \in Apis /\ pending[2] \in Inputs)
  /\ done \in Nat
  /\ last \in Outcomes \cup {"none"}

Init == pending = NoCall /\ done = 0 /\ last = "none"

Invoke(a, i) ==
  /\ pending = NoCall                      \* calls do not nest / overlap for one caller
  /\ MaxCalls < 0 \/ done < MaxCalls
  /\ a \in Apis /\ i \in Inputs
  /\ pending' = <<a, i>>
  /\ UNCHANGED <<done, last>>

Return(a, i, o) ==
  /\ pending = <<a, i>>                    \* the Return belongs to the pending Invoke
  /\ o \in Outcomes                        \* value | error -- nothing else exists
  /\ pending' = NoCall
  /\ done' = done + 1
  /\ last' = o

Next ==
  \/ \E a \in Apis, i \in Inputs : Invoke(a, i)
  \/ \E a \in Apis, i \in Inputs, o \in Outcomes : Return(a, i, o)

Spec == Init /\ [][Next]_cpvars /\ WF_cpvars(\E a \in Apis, i \in Inputs, o \in Outcomes : Return(a, i, o))

(* ---- properties checked by TLC on the bounded instance (MC_CallProtocol) ---- *)

\* a completed call ended with a value or an error
NoCrash == last \in Outcomes \cup {"none"}

\* exactly one Return per Invoke: completed calls are counted once each, and a Return is
\* only possible while a call is pending
OneReturnPerInvoke ==
  [][ /\ (done' = done + 1 => pending # NoCall /\ pending' = NoCall)
      /\ (done' # done => done' = done + 1)
      /\ (pending # NoCall /\ pending' # pending => pending' = NoCall /\ done' = done + 1) ]_cpvars

\* every Invoke is eventually followed by its Return
EveryInvokeReturns == [](pending # NoCall => <>(pending = NoCall))
=============================================================================
