------------------------------ MODULE MC_Routes ------------------------------
(* Model of the agreement register: an abstract tool with Routes x Keys whose *)
(* routes may or may not compute the same answer (Ans is any function from    *)
(* (key, route) to an output).  Checked: the register accepts every           *)
(* observation of a run exactly when the tool is route-independent on the     *)
(* observed keys (soundness and completeness of the oracle), it stays         *)
(* single-valued, and a pair taken twice through the same route is rejected   *)
(* as vacuous.                                                                *)
EXTENDS Routes, FiniteSets

CONSTANTS Keys, RouteNames, Outs

VARIABLES ans, reg, hist, ok

vars == <<ans, reg, hist, ok>>

Init == /\ ans \in [Keys \X RouteNames -> Outs]
        /\ reg = << >> /\ hist = {} /\ ok = TRUE

Observe ==
  /\ ok
  /\ \E k \in Keys, r \in RouteNames :
       LET ob == Obs(r, 1, ans[<<k, r>>])
       IN /\ ok' = Accept(reg, k, ob)
          /\ reg' = IF ok' THEN Store(reg, k, ob) ELSE reg
          /\ hist' = hist \cup {<<k, r>>}
  /\ ans' = ans

Next == Observe

Spec == Init /\ [][Next]_vars

SingleValued == \A k \in DOMAIN reg : \A p \in hist : (ok /\ p[1] = k) => ans[p] = reg[k].vh

(* soundness: while everything was accepted, all observed routes of a key agree and no route was seen twice *)
Sound == ok => \A p, q \in hist : p[1] = q[1] => ans[p] = ans[q]

(* completeness: a rejection means two observed routes of one key differ, or a route was repeated -- the *)
(* register never rejects a route-independent, non-vacuous history                                     *)
Complete == (~ok) => \E k \in Keys, r1, r2 \in RouteNames : <<k, r1>> \in hist /\ <<k, r2>> \in hist
                                                          /\ (ans[<<k, r1>>] # ans[<<k, r2>>] \/ r1 = r2)
=============================================================================
