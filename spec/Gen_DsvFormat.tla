---------------------------- MODULE Gen_DsvFormat ----------------------------
(* spec -> impl generator for C22 (run in TLC simulation mode): one random     *)
(* behaviour = a delimiter (any printable ASCII except the quote), a count n   *)
(* in 1..20 and n strings of length 0..MaxStr over an alphabet of delimiters,  *)
(* quotes, CR, LF, spaces, other ASCII and non-ASCII characters.  When the     *)
(* array is complete one REPLAY line is printed with the array, the line       *)
(* DsvFormat!Format predicts and what DsvFormat!Read reads back from it.       *)
EXTENDS DsvFormat, Json, TLC

CONSTANT MaxStr

VARIABLES phase, d, n, want, arr, cur

vars == <<phase, d, n, want, arr, cur>>

DelimChars == (32..126) \ {QUOTE}

\* the delimiter, " CR LF space a , tab \ U+0001 e-acute euro-sign U+1F600
Alphabet(dd) == {dd, QUOTE, 13, LF, 32, 97, 44, 9, 92, 1, 233, 8364, 128512}

Init == phase = "start" /\ d = 44 /\ n = 0 /\ want = 0 /\ arr = <<>> /\ cur = <<>>

Start == /\ phase = "start"
         /\ \E dd \in DelimChars, nn \in 1..20 : d' = dd /\ n' = nn
         /\ \E w \in 0..MaxStr : want' = w
         /\ phase' = "fill"
         /\ UNCHANGED <<arr, cur>>

AddChar == /\ phase = "fill"
           /\ Len(cur) < want
           /\ \E c \in Alphabet(d) : cur' = Append(cur, c)
           /\ UNCHANGED <<phase, d, n, want, arr>>

Close == /\ phase = "fill"
         /\ Len(cur) = want
         /\ arr' = Append(arr, cur)
         /\ cur' = <<>>
         /\ \E w \in 0..MaxStr : want' = w
         /\ phase' = IF Len(arr) + 1 = n THEN "done" ELSE "fill"
         /\ UNCHANGED <<d, n>>

Next == Start \/ AddChar \/ Close

Spec == Init /\ [][Next]_vars

Emit ==
  phase = "done" =>
    LET line == Format(arr, d) \o <<LF>>
    IN PrintT(<<"REPLAY", ToJson([d |-> d, fs |-> arr, line |-> line, back |-> Read(line, d)])>>)
=============================================================================
