----------------------------- MODULE Trace_Escape -----------------------------
(* Trace validation for C09.  Written bodies arrive RAW (lists of code points);  *)
(* this module reads them with Escape!DecodeBody and demands exactly the         *)
(* property: the body denotes the original string, and a character is written    *)
(* as an escape iff the convention requires it (BodyOK).                         *)
(*   iv:    c, lo, hi, kind, olo, ohi, r -- a maximal interval lo..hi of scalar  *)
(*          values whose one-character bodies share one lexical shape with the   *)
(*          numeric parameter advancing by one per code point (checked by the    *)
(*          harness for the interior).  TLC: both edge bodies satisfy BodyOK,    *)
(*          have the declared shape, MustEscape has the value the shape implies  *)
(*          on the whole interval (see FullCheck), and the intervals of a        *)
(*          convention tile the scalar values 0..0x10FFFF without gap or overlap *)
(*          (state `nxt`).                                                       *)
(*   ivend: c, r -- convention c is completely covered                           *)
(*   s:     s, o (bodies in the order jq, jqAscii, yq, yqAscii), r               *)
(*   fe:    rn (byte runs), res (find_json_escape for start = 0..len+2), r (len) *)
EXTENDS TraceBase, Escape

VARIABLES l, nxt
vars == <<l, nxt>>

\* C09FULL=1 (thorough tier): MustEscape is evaluated on every code point of every interval;
\* otherwise on every code point of the intervals shorter than 4096 and, for the longer ones,
\* at the low edge plus "no change point inside" (Steps, proved exact by MC_Escape)
FullCheck == "C09FULL" \in DOMAIN IOEnv /\ IOEnv.C09FULL = "1"

ConvSeq == <<"jq", "jqAscii", "yq", "yqAscii">>

KindLen(k) == CASE k = "lit" -> 1 [] k = "short" -> 2 [] k = "u4" -> 6 [] k = "pair" -> 12 [] OTHER -> -1

AfterCp(cp) == IF cp = 55295 THEN 57344 ELSE cp + 1       \* skip the surrogate gap

IntervalEv(e) ==
  /\ e.e = "iv"
  /\ e.c \in Conventions
  /\ e.lo = nxt[e.c]                                        \* tiles: starts where the last ended
  /\ e.lo <= e.hi
  /\ IsScalar(e.lo) /\ IsScalar(e.hi)
  /\ ~(e.lo < 55296 /\ e.hi > 57343)                        \* no surrogate inside
  /\ e.r = e.hi - e.lo + 1
  /\ Len(e.olo) = KindLen(e.kind) /\ Len(e.ohi) = KindLen(e.kind)
  /\ BodyOK(e.c, <<e.lo>>, e.olo)
  /\ BodyOK(e.c, <<e.hi>>, e.ohi)
  /\ MustEscape(e.c, e.lo) = (e.kind # "lit")
  /\ ConstantOn(e.c, e.lo, e.hi)                 \* no change point of MustEscape inside (MC_Escape: StepsExact)
  /\ (FullCheck \/ e.hi - e.lo < 4096) => \A cp \in e.lo..e.hi : MustEscape(e.c, cp) = (e.kind # "lit")
  /\ nxt' = [nxt EXCEPT ![e.c] = AfterCp(e.hi)]

EndEv(e) ==
  /\ e.e = "ivend"
  /\ nxt[e.c] = MaxCp + 1
  /\ e.r = MaxCp + 1 - 2048
  /\ UNCHANGED nxt

StringEv(e) ==
  /\ e.e = "s"
  /\ Len(e.o) = 4
  /\ e.r = Len(e.o[1])
  /\ \A i \in 1..4 : BodyOK(ConvSeq[i], e.s, e.o[i])
  /\ UNCHANGED nxt

Expand(rn) == FoldLeft(LAMBDA acc, run : acc \o [j \in 1..run[2] |-> run[1]], <<>>, rn)

ScanEv(e) ==
  /\ e.e = "fe"
  /\ LET bytes == Expand(e.rn)
     IN /\ e.r = Len(bytes)
        /\ Len(e.res) = Len(bytes) + 3
        /\ LET T == ScanTable(bytes)
           IN \A i \in 1..Len(e.res) : e.res[i] = FirstEscapableT(T, Len(bytes), i - 1)
        /\ Len(bytes) <= 24 => \A i \in 1..Len(e.res) : e.res[i] = FirstEscapable(bytes, i - 1)
  /\ UNCHANGED nxt

Init == l = 1 /\ nxt = [c \in Conventions |-> 0]

Next == /\ l <= NRec
        /\ LET e == Rec[l] IN IntervalEv(e) \/ EndEv(e) \/ StringEv(e) \/ ScanEv(e)
        /\ l' = l + 1

Spec == Init /\ [][Next]_vars
=============================================================================
