--------------------------- MODULE MC_FcAutomaton ---------------------------
(* find_close_from as a TLC state machine: ONE TLA+ ACTION PER MATCH ARM of   *)
(* the code (guards FcArm, effects the arm operators of RangeMinImpl).  TLC    *)
(* explores every run of the automaton on every storage of the scaled size,   *)
(* every logical length (stray bits, surplus words) and every open position,  *)
(* and checks                                                                 *)
(*   Correct    : a finished run holds the definitional FindClose answer,     *)
(*   Measure    : every step finishes, advances pos, or moves to a state of   *)
(*                lower rank at the same pos (=> termination, no fuel needed), *)
(*   Bounded    : pos never exceeds len + one L2 block.                       *)
(* The per-action statistics of `-coverage 1` give, per code arm, how often   *)
(* it fired (checks/c04.py requires every live arm to fire and records the    *)
(* two `is_close(pos) && excess <= 1` arms as dead code).                     *)
EXTENDS RangeMinImpl, BalancedParens, TLC

CONSTANTS MaxWords

\* arm = name of the match arm the next step takes ("none" before a run / after Done)
VARIABLES raw, len, p, c, arm, phase

vars == <<raw, len, p, c, arm, phase>>

AllWords == [1..W -> {0, 1}]

NextArm(d) == IF d.st = "Done" THEN "none" ELSE FcArm(raw, len, d)

Init == raw = <<>> /\ len = 0 /\ p = 0 /\ c = Done(None) /\ arm = "none" /\ phase = "words"

AddWord == /\ phase = "words"
           /\ Len(raw) < W * MaxWords
           /\ \E w \in AllWords : raw' = raw \o w
           /\ UNCHANGED <<len, p, c, arm, phase>>

\* find_close(p): p is an open inside len and p+1 < len, then find_close_from(p + 1, 1)
Start == /\ phase = "words"
         /\ \E l \in 1..Len(raw) : \E q \in 0..(l - 2) :
               /\ raw[q + 1] = 1
               /\ len' = l /\ p' = q
               /\ c' = Go("FromL0", 1, q + 1)
               /\ arm' = FcArm(raw, l, Go("FromL0", 1, q + 1))
         /\ phase' = "run"
         /\ UNCHANGED raw

ScanWordPastLen ==
  /\ phase = "run" /\ arm = "ScanWord_PastLen"
  /\ c' = ScanWord_PastLen(raw, len, c)
  /\ arm' = NextArm(c')
  /\ UNCHANGED <<raw, len, p, phase>>

ScanWordFound ==
  /\ phase = "run" /\ arm = "ScanWord_Found"
  /\ c' = ScanWord_Found(raw, len, c)
  /\ arm' = NextArm(c')
  /\ UNCHANGED <<raw, len, p, phase>>

ScanWordNextWord ==
  /\ phase = "run" /\ arm = "ScanWord_NextWord"
  /\ c' = ScanWord_NextWord(raw, len, c)
  /\ arm' = NextArm(c')
  /\ UNCHANGED <<raw, len, p, phase>>

CheckL0PastIndex ==
  /\ phase = "run" /\ arm = "CheckL0_PastIndex"
  /\ c' = CheckL0_PastIndex(raw, len, c)
  /\ arm' = NextArm(c')
  /\ UNCHANGED <<raw, len, p, phase>>

CheckL0Descend ==
  /\ phase = "run" /\ arm = "CheckL0_Descend"
  /\ c' = CheckL0_Descend(raw, len, c)
  /\ arm' = NextArm(c')
  /\ UNCHANGED <<raw, len, p, phase>>

CheckL0SkipWord ==
  /\ phase = "run" /\ arm = "CheckL0_SkipWord"
  /\ c' = CheckL0_SkipWord(raw, len, c)
  /\ arm' = NextArm(c')
  /\ UNCHANGED <<raw, len, p, phase>>

CheckL1PastIndex ==
  /\ phase = "run" /\ arm = "CheckL1_PastIndex"
  /\ c' = CheckL1_PastIndex(raw, len, c)
  /\ arm' = NextArm(c')
  /\ UNCHANGED <<raw, len, p, phase>>

CheckL1Descend ==
  /\ phase = "run" /\ arm = "CheckL1_Descend"
  /\ c' = CheckL1_Descend(raw, len, c)
  /\ arm' = NextArm(c')
  /\ UNCHANGED <<raw, len, p, phase>>

CheckL1CloseHere ==
  /\ phase = "run" /\ arm = "CheckL1_CloseHere"
  /\ c' = CheckL1_CloseHere(raw, len, c)
  /\ arm' = NextArm(c')
  /\ UNCHANGED <<raw, len, p, phase>>

CheckL1SkipBlock ==
  /\ phase = "run" /\ arm = "CheckL1_SkipBlock"
  /\ c' = CheckL1_SkipBlock(raw, len, c)
  /\ arm' = NextArm(c')
  /\ UNCHANGED <<raw, len, p, phase>>

CheckL1PastLen ==
  /\ phase = "run" /\ arm = "CheckL1_PastLen"
  /\ c' = CheckL1_PastLen(raw, len, c)
  /\ arm' = NextArm(c')
  /\ UNCHANGED <<raw, len, p, phase>>

CheckL2PastIndex ==
  /\ phase = "run" /\ arm = "CheckL2_PastIndex"
  /\ c' = CheckL2_PastIndex(raw, len, c)
  /\ arm' = NextArm(c')
  /\ UNCHANGED <<raw, len, p, phase>>

CheckL2Descend ==
  /\ phase = "run" /\ arm = "CheckL2_Descend"
  /\ c' = CheckL2_Descend(raw, len, c)
  /\ arm' = NextArm(c')
  /\ UNCHANGED <<raw, len, p, phase>>

CheckL2CloseHere ==
  /\ phase = "run" /\ arm = "CheckL2_CloseHere"
  /\ c' = CheckL2_CloseHere(raw, len, c)
  /\ arm' = NextArm(c')
  /\ UNCHANGED <<raw, len, p, phase>>

CheckL2SkipBlock ==
  /\ phase = "run" /\ arm = "CheckL2_SkipBlock"
  /\ c' = CheckL2_SkipBlock(raw, len, c)
  /\ arm' = NextArm(c')
  /\ UNCHANGED <<raw, len, p, phase>>

CheckL2PastLen ==
  /\ phase = "run" /\ arm = "CheckL2_PastLen"
  /\ c' = CheckL2_PastLen(raw, len, c)
  /\ arm' = NextArm(c')
  /\ UNCHANGED <<raw, len, p, phase>>

FromL0WordAligned ==
  /\ phase = "run" /\ arm = "FromL0_WordAligned"
  /\ c' = FromL0_WordAligned(raw, len, c)
  /\ arm' = NextArm(c')
  /\ UNCHANGED <<raw, len, p, phase>>

FromL0InsideWord ==
  /\ phase = "run" /\ arm = "FromL0_InsideWord"
  /\ c' = FromL0_InsideWord(raw, len, c)
  /\ arm' = NextArm(c')
  /\ UNCHANGED <<raw, len, p, phase>>

FromL0PastLen ==
  /\ phase = "run" /\ arm = "FromL0_PastLen"
  /\ c' = FromL0_PastLen(raw, len, c)
  /\ arm' = NextArm(c')
  /\ UNCHANGED <<raw, len, p, phase>>

FromL1BlockAligned ==
  /\ phase = "run" /\ arm = "FromL1_BlockAligned"
  /\ c' = FromL1_BlockAligned(raw, len, c)
  /\ arm' = NextArm(c')
  /\ UNCHANGED <<raw, len, p, phase>>

FromL1BlockAlignedPastLen ==
  /\ phase = "run" /\ arm = "FromL1_BlockAlignedPastLen"
  /\ c' = FromL1_BlockAlignedPastLen(raw, len, c)
  /\ arm' = NextArm(c')
  /\ UNCHANGED <<raw, len, p, phase>>

FromL1InsideBlock ==
  /\ phase = "run" /\ arm = "FromL1_InsideBlock"
  /\ c' = FromL1_InsideBlock(raw, len, c)
  /\ arm' = NextArm(c')
  /\ UNCHANGED <<raw, len, p, phase>>

FromL1PastLen ==
  /\ phase = "run" /\ arm = "FromL1_PastLen"
  /\ c' = FromL1_PastLen(raw, len, c)
  /\ arm' = NextArm(c')
  /\ UNCHANGED <<raw, len, p, phase>>

FromL2BlockAligned ==
  /\ phase = "run" /\ arm = "FromL2_BlockAligned"
  /\ c' = FromL2_BlockAligned(raw, len, c)
  /\ arm' = NextArm(c')
  /\ UNCHANGED <<raw, len, p, phase>>

FromL2BlockAlignedPastLen ==
  /\ phase = "run" /\ arm = "FromL2_BlockAlignedPastLen"
  /\ c' = FromL2_BlockAlignedPastLen(raw, len, c)
  /\ arm' = NextArm(c')
  /\ UNCHANGED <<raw, len, p, phase>>

FromL2InsideBlock ==
  /\ phase = "run" /\ arm = "FromL2_InsideBlock"
  /\ c' = FromL2_InsideBlock(raw, len, c)
  /\ arm' = NextArm(c')
  /\ UNCHANGED <<raw, len, p, phase>>

FromL2PastLen ==
  /\ phase = "run" /\ arm = "FromL2_PastLen"
  /\ c' = FromL2_PastLen(raw, len, c)
  /\ arm' = NextArm(c')
  /\ UNCHANGED <<raw, len, p, phase>>

Next == \/ AddWord \/ Start
        \/ ScanWordPastLen \/ ScanWordFound \/ ScanWordNextWord
        \/ CheckL0PastIndex \/ CheckL0Descend \/ CheckL0SkipWord
        \/ CheckL1PastIndex \/ CheckL1Descend \/ CheckL1CloseHere \/ CheckL1SkipBlock \/ CheckL1PastLen
        \/ CheckL2PastIndex \/ CheckL2Descend \/ CheckL2CloseHere \/ CheckL2SkipBlock \/ CheckL2PastLen
        \/ FromL0WordAligned \/ FromL0InsideWord \/ FromL0PastLen
        \/ FromL1BlockAligned \/ FromL1BlockAlignedPastLen \/ FromL1InsideBlock \/ FromL1PastLen
        \/ FromL2BlockAligned \/ FromL2BlockAlignedPastLen \/ FromL2InsideBlock \/ FromL2PastLen

Spec == Init /\ [][Next]_vars

Correct == (phase = "run" /\ c.st = "Done") => c.r = FindClose(Take(raw, len), p)

Bounded == phase = "run" => c.pos <= len + L2BITS

\* the excess carried by the automaton is the scan excess: opens minus closes in [p, pos)
ExcessInv == (phase = "run" /\ c.st # "Done" /\ c.pos <= len) =>
                c.ex = PExc(Take(raw, len), c.pos) - PExc(Take(raw, len), p)

Measure == [][(phase = "run" /\ phase' = "run") => Progress(c, c')]_vars
=============================================================================
