------------------------------ MODULE MC_Utf8 ------------------------------
(* Model stage of C13 (and of the UTF-8 part of C08).                        *)
(*  * every byte string of length <= MaxLen over Alphabet (range edges of    *)
(*    Unicode table 3-7), built one byte per Next step:                      *)
(*      - table 3-7 DFA  <=>  "concatenation of encoded scalar values"       *)
(*      - ValidUpTo = longest definitionally well-formed prefix              *)
(*      - Err = none <=> well formed; ValidUpTo <= offset <= ValidUpTo + 3;  *)
(*        offset = ValidUpTo unless kind = InvalidContinuationByte           *)
(*      - every DFA state except X can be completed (used by JsonGrammar)    *)
(*      - Decode agrees with the DFA on the first sequence                   *)
(*      - the embedding lemma the C13 replay harness relies on: ASCII        *)
(*        padding in front shifts the answer, an ASCII tail of >= 3 bytes    *)
(*        behaves like "AAA"                                                 *)
(*  * Decode(Encode(cp)) = cp for every scalar value (Scalars = "all":       *)
(*    planes 0..17 x 256 rows x 256; "edges": the boundary set only), and    *)
(*    Encode of a non-scalar is not well formed.                             *)
EXTENDS Utf8, TLC

CONSTANTS Alphabet, MaxLen, Scalars

VARIABLES mode, s, hi, lo
vars == <<mode, s, hi, lo>>

Init == mode = "str" /\ s = <<>> /\ hi = -1 /\ lo = -1

AddByte == /\ mode = "str" /\ Len(s) < MaxLen
           /\ \E b \in Alphabet : s' = Append(s, b)
           /\ UNCHANGED <<mode, hi, lo>>

Plane == /\ mode = "str" /\ s = <<>> /\ Scalars = "all"
         /\ \E h \in 0..17 : hi' = h
         /\ mode' = "plane" /\ UNCHANGED <<s, lo>>

Row == /\ mode = "plane"
       /\ \E r \in 0..255 : lo' = r
       /\ mode' = "row" /\ UNCHANGED <<s, hi>>

Next == AddByte \/ Plane \/ Row
Spec == Init /\ [][Next]_vars

CpOk(cp) ==
  LET e == Encode(cp) IN
  IF IsScalar(cp)
  THEN Len(e) = EncLen(cp) /\ Decode(e) = <<cp, EncLen(cp)>> /\ WellFormed(e)
       /\ Decode(e \o <<65>>) = <<cp, EncLen(cp)>>
  ELSE Decode(e) = DecNone /\ ~WellFormed(e)

EdgeCps == UNION {{c - 1, c, c + 1} : c \in {1, 127, 128, 2047, 2048, 4095, 4096, 55295, 55296, 56319,
                                               56320, 57343, 57344, 65533, 65535, 65536, 131071, 262143,
                                               262144, 1114110, 1114111, 1114112, 2097150}}

Pads == {<<>>, <<65>>, <<0, 127>>}
Tails == {<<>>, <<66>>, <<66, 0>>, <<127, 66, 67>>, <<66, 66, 66, 66>>}
Aaa(n) == SubSeq(<<65, 65, 65>>, 1, IF n < 3 THEN n ELSE 3)

StrInv ==
  mode = "str" =>
    LET q == FoldLeft(Step, "S", s)
        v == ValidUpTo(s)
        e == Err(s)
        d == Decode(s)
    IN
    /\ WellFormed(s) <=> WfDef(s)
    /\ v = MaxOf({k \in 0..Len(s) : WfDef(Prefix(s, k))})
    /\ (e.off = None) <=> WellFormed(s)
    /\ e.off # None =>
         /\ e.kind \in 1..6
         /\ v <= e.off /\ e.off <= v + 3 /\ e.off < Len(s)
         /\ (e.kind # KCont) => e.off = v
         /\ (e.kind = KCont) => e.off > v
         /\ (e.kind = KLead) <=> LeadLen(s[v + 1]) = 0
    /\ q # "X" => WellFormed(s \o Finish(q))
    /\ q = "X" => \A t \in Tails : ~WellFormed(s \o t)
    /\ (d[1] # -1) <=> /\ Len(s) >= 1 /\ LeadLen(s[1]) # 0 /\ Len(s) >= LeadLen(s[1])
                       /\ WellFormed(Prefix(s, LeadLen(s[1])))
    /\ d[1] # -1 => IsScalar(d[1]) /\ Encode(d[1]) = Prefix(s, d[2])
    /\ \A P \in Pads, T \in Tails :
         ErrFull(P \o s \o T) = Shift(ErrFull(s \o Aaa(Len(T))), Len(P))

EdgeInv == (mode = "str" /\ s = <<>>) => \A cp \in EdgeCps : cp >= 0 => CpOk(cp)

RowInv == mode = "row" => \A i \in 0..255 : CpOk((hi * 256 + lo) * 256 + i)
=============================================================================
