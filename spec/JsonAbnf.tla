------------------------------ MODULE JsonAbnf ------------------------------
(***************************************************************************)
(* RFC 8259 as written: a direct, set-valued transcription of the ABNF.    *)
(* For a rule R, REnds(s, i) is the set of positions j such that           *)
(* s[i+1..j] is derivable from R (positions count consumed bytes).  No     *)
(* automaton, no determinism, no look-ahead: alternatives are unions,      *)
(* concatenation is composition, repetition is a recursive closure.        *)
(* Unescaped characters are decoded with the arithmetic Decode of Utf8.tla *)
(* (not the table 3-7 DFA).  MC_JsonAbnf checks that the PDA of            *)
(* JsonGrammar.tla accepts exactly IsJsonText.                             *)
(*                                                                         *)
(*   JSON-text = ws value ws                                               *)
(*   begin-array = ws %x5B ws   begin-object = ws %x7B ws                  *)
(*   end-array = ws %x5D ws     end-object = ws %x7D ws                    *)
(*   name-separator = ws %x3A ws   value-separator = ws %x2C ws            *)
(*   ws = *( %x20 / %x09 / %x0A / %x0D )                                   *)
(*   value = false / null / true / object / array / number / string        *)
(*   object = begin-object [ member *( value-separator member ) ] end-object *)
(*   member = string name-separator value                                  *)
(*   array = begin-array [ value *( value-separator value ) ] end-array    *)
(*   number = [ minus ] int [ frac ] [ exp ]                               *)
(*   int = zero / ( digit1-9 *DIGIT )   frac = "." 1*DIGIT                 *)
(*   exp = e [ minus / plus ] 1*DIGIT                                      *)
(*   string = quotation-mark *char quotation-mark                          *)
(*   char = unescaped / escape ( %x22 / %x5C / %x2F / %x62 / %x66 / %x6E / *)
(*          %x72 / %x74 / %x75 4HEXDIG )                                   *)
(*   unescaped = %x20-21 / %x23-5B / %x5D-10FFFF                           *)
(***************************************************************************)
EXTENDS Utf8

AWs(b) == b = 32 \/ b = 9 \/ b = 10 \/ b = 13
ADigit(b) == b >= 48 /\ b <= 57
AHex(b) == ADigit(b) \/ (b >= 65 /\ b <= 70) \/ (b >= 97 /\ b <= 102)

Lit(s, i, w) == IF i + Len(w) <= Len(s) /\ SubSeq(s, i + 1, i + Len(w)) = w THEN {i + Len(w)} ELSE {}
LitS(s, S, w) == UNION {Lit(s, i, w) : i \in S}

WsEnds(s, i) == {j \in i..Len(s) : \A k \in (i + 1)..j : AWs(s[k])}
Ws(s, S) == UNION {WsEnds(s, i) : i \in S}

Digits1(s, i) == {j \in (i + 1)..Len(s) : \A k \in (i + 1)..j : ADigit(s[k])}

\* ws %xNN ws
Structural(s, S, b) == Ws(s, LitS(s, Ws(s, S), <<b>>))

NumberEnds(s, i) ==
  LET afterMinus == {i} \cup Lit(s, i, <<45>>)
      int(j) == Lit(s, j, <<48>>) \cup {k \in Digits1(s, j) : s[j + 1] >= 49}
      afterInt == UNION {int(j) : j \in afterMinus}
      frac(j) == UNION {Digits1(s, k) : k \in Lit(s, j, <<46>>)}
      afterFrac == afterInt \cup UNION {frac(j) : j \in afterInt}
      exp(j) == UNION {UNION {Digits1(s, m) : m \in {k} \cup Lit(s, k, <<43>>) \cup Lit(s, k, <<45>>)}
                         : k \in Lit(s, j, <<101>>) \cup Lit(s, j, <<69>>)}
  IN afterFrac \cup UNION {exp(j) : j \in afterFrac}

Unescaped(cp) == (cp >= 32 /\ cp <= 33) \/ (cp >= 35 /\ cp <= 91) \/ (cp >= 93 /\ cp <= 1114111)

CharEnds(s, j) ==
  LET d == Decode(SubSeq(s, j + 1, Len(s)))
      un == IF d[1] # -1 /\ Unescaped(d[1]) THEN {j + d[2]} ELSE {}
      esc == IF j + 2 <= Len(s) /\ s[j + 1] = 92
             THEN (IF s[j + 2] \in {34, 92, 47, 98, 102, 110, 114, 116} THEN {j + 2} ELSE {})
                  \cup (IF s[j + 2] = 117 /\ j + 6 <= Len(s) /\ \A k \in 3..6 : AHex(s[j + k]) THEN {j + 6} ELSE {})
             ELSE {}
  IN un \cup esc

RECURSIVE CharsStar(_, _)
CharsStar(s, j) == {j} \cup UNION {CharsStar(s, k) : k \in CharEnds(s, j)}

StringEnds(s, i) ==
  UNION {LitS(s, CharsStar(s, j), <<34>>) : j \in Lit(s, i, <<34>>)}

RECURSIVE ValueEnds(_, _), ArrayEnds(_, _), ObjectEnds(_, _), MoreValues(_, _), MoreMembers(_, _), MemberEnds(_, _)

ValueEnds(s, i) ==
  Lit(s, i, <<102, 97, 108, 115, 101>>) \cup Lit(s, i, <<110, 117, 108, 108>>) \cup Lit(s, i, <<116, 114, 117, 101>>)
  \cup ObjectEnds(s, i) \cup ArrayEnds(s, i) \cup NumberEnds(s, i) \cup StringEnds(s, i)

\* *( value-separator value ) after a value that ended at j
MoreValues(s, j) ==
  {j} \cup UNION {UNION {MoreValues(s, m) : m \in ValueEnds(s, k)} : k \in Structural(s, {j}, 44)}

ArrayEnds(s, i) ==
  LET begun == Structural(s, {i}, 91)
      body == begun \cup UNION {UNION {MoreValues(s, v) : v \in ValueEnds(s, p)} : p \in begun}
  IN Structural(s, body, 93)

MemberEnds(s, i) ==
  UNION {UNION {ValueEnds(s, k) : k \in Structural(s, {n}, 58)} : n \in StringEnds(s, i)}

MoreMembers(s, j) ==
  {j} \cup UNION {UNION {MoreMembers(s, m) : m \in MemberEnds(s, k)} : k \in Structural(s, {j}, 44)}

ObjectEnds(s, i) ==
  LET begun == Structural(s, {i}, 123)
      body == begun \cup UNION {UNION {MoreMembers(s, v) : v \in MemberEnds(s, p)} : p \in begun}
  IN Structural(s, body, 125)

IsJsonText(s) == Len(s) \in Ws(s, UNION {ValueEnds(s, i) : i \in WsEnds(s, 0)})
=============================================================================
