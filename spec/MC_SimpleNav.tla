---------------------------- MODULE MC_SimpleNav ----------------------------
(* Bounded exhaustive check (C32) that the simple-cursor encoding supports   *)
(* the navigation SimpleJsonIndex performs:                                  *)
(*                                                                           *)
(*  IbIsStructurals  on EVERY string over the class representatives, the IB  *)
(*                   one-positions of JsonScan's simple machine are exactly  *)
(*                   SimpleNav!Structurals (brackets/delimiters outside      *)
(*                   strings, defined without the automaton);                *)
(*  IndexInverse     StructuralIndex and StructuralPos are mutually inverse, *)
(*                   StructuralIndex is None exactly off the structurals;    *)
(*  BpMatches        on every WELL-NESTED string (brackets outside strings   *)
(*                   balanced, delimiters only inside a bracket -- what a    *)
(*                   valid document guarantees) the 11/00/01 BP string is    *)
(*                   balanced and, for the i-th structural being an open,    *)
(*                   BP find_close(2i) div 2 is the structural found by      *)
(*                   bracket matching (the arithmetic of                     *)
(*                   SimpleJsonIndex::find_close);                           *)
(*  TableIsMatch     the one-pass stack computation of all matches used by   *)
(*                   trace validation equals the definitional matching.      *)
EXTENDS JsonScan, TLC

CONSTANTS MaxLen, Reps

N == INSTANCE SimpleNav

VARIABLE str

Init == str = <<>>

Next == /\ Len(str) < MaxLen
        /\ \E b \in Reps : str' = Append(str, b)

Spec == Init /\ [][Next]_str

S == N!Structurals(str)

\* bracket depth after each structural (fold), well-nestedness
Depths ==
  FoldLeft(LAMBDA a, p :
             LET c == str[p + 1]
                 d == IF IsOpen(c) THEN a.d + 1 ELSE IF IsClose(c) THEN a.d - 1 ELSE a.d
             IN [d |-> d, ok |-> a.ok /\ d >= 0 /\ (IsDelim(c) => a.d >= 1)],
           [d |-> 0, ok |-> TRUE], S)

WellNested == Depths.ok /\ Depths.d = 0

IbIsStructurals == S = RunSimple(str).ib

IndexInverse ==
  /\ \A k \in 0..(Len(S) - 1) : N!StructuralIndex(S, N!StructuralPos(S, k)) = k
  /\ N!StructuralPos(S, Len(S)) = N!None
  /\ \A p \in 0..(Len(str) + 1) :
       IF \E j \in 1..Len(S) : S[j] = p
       THEN N!StructuralPos(S, N!StructuralIndex(S, p)) = p
       ELSE N!StructuralIndex(S, p) = N!None

BpMatches ==
  WellNested =>
    LET r == RunSimple(str)
        bits == BpBits(r)
    IN /\ N!BpBalanced(bits)
       /\ \A i \in 0..(Len(S) - 1) :
            IsOpen(str[S[i + 1] + 1]) =>
              LET q == N!BpFindClose(bits, 2 * i)
                  m == N!MatchIdx(str, S, i + 1)
              IN /\ q # N!None
                 /\ m # 0
                 /\ q \div 2 = m - 1
                 /\ IsClose(str[S[m] + 1])
                 /\ N!FindClose(str, S, S[i + 1]) = S[m]
                 /\ N!SkipValue(str, S, S[i + 1]) = S[m] + 1

\* the one-pass stack table equals the definitional matching, on EVERY string
TableIsMatch ==
  LET M == N!MatchTable(str, S)
  IN /\ \A j \in 1..Len(S) :
          M[j] = (IF IsOpen(str[S[j] + 1]) THEN N!MatchIdx(str, S, j) ELSE 0)
     /\ \A p \in 0..Len(str) :
          /\ N!FindCloseT(str, S, M, p) = N!FindClose(str, S, p)
          /\ N!SkipValueT(str, S, M, p) = N!SkipValue(str, S, p)

\* non-vacuity: checks/c32.py runs this module once more with INVARIANT NoWitness and
\* requires TLC to find it violated (a well-nested string with a nested bracket pair, a
\* delimiter and a bracket inside a string exists within the bound).
NoWitness ==
  ~(/\ WellNested
    /\ Len(S) >= 5
    /\ \E i \in 1..Len(S) : IsDelim(str[S[i] + 1])
    /\ \E i \in 1..(Len(S) - 1) : IsOpen(str[S[i] + 1]) /\ IsOpen(str[S[i + 1] + 1]))

Inv == IbIsStructurals /\ IndexInverse /\ BpMatches /\ TableIsMatch
=============================================================================
