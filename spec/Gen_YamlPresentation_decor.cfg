CONSTANTS
  PalUse = {1, 31}
  MaxNodes = 3
  MaxDocs = 2
  ScalarStyles = {"plain", "double", "lit"}
  CollStyles = {"block", "flow"}
  MaxDecor = 2
  Indents = {1, 2, 4}
  Breaks = {"LF", "CRLF", "CR"}
  DocFlags = {"ds", "de", "zi", "cmp", "fsp"}
  Sim = FALSE
SPECIFICATION Spec
INVARIANT Emit
CHECK_DEADLOCK FALSE
