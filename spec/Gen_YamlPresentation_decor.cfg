CONSTANTS
  PalUse = {1, 31}
  MaxNodes = 3
  MaxDocs = 1
  ScalarStyles = {"plain", "double", "lit"}
  CollStyles = {"block", "flow"}
  MaxDecor = 2
  Indents = {2}
  Breaks = {"LF"}
  DocFlags = {}
SPECIFICATION Spec
INVARIANT Emit
CHECK_DEADLOCK FALSE
