CONSTANTS Which = "yaml"  MaxLen = 12
SPECIFICATION Spec
INVARIANT Emit
CHECK_DEADLOCK FALSE
