CONSTANTS W = 2  BYTE = 1  F1 = 2  F2 = 2  B = 2  BLK = 2  PRO = 1  SR = 2  MaxWords = 4  Rates = {0, 1, 2, 3}
SPECIFICATION Spec
INVARIANT Inv
CHECK_DEADLOCK FALSE
