CONSTANTS W = 2  B = 2  BLK = 2  PRO = 2  MaxWords = 6  Rates = {1, 2, 3, 4, 7}
SPECIFICATION Spec
INVARIANT Inv
CHECK_DEADLOCK FALSE
