CONSTANTS DELIM = 32  MaxArr = 2  MaxStr = 3  Alphabet = {34, 13, 10, 32, 97}
SPECIFICATION Spec
INVARIANT Inv
CHECK_DEADLOCK FALSE
