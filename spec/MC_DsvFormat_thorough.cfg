CONSTANTS DELIM = 44  MaxArr = 3  MaxStr = 3
SPECIFICATION Spec
INVARIANT Inv
CHECK_DEADLOCK FALSE
