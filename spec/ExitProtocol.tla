---------------------------- MODULE ExitProtocol ----------------------------
(***************************************************************************)
(* The exit-status protocol of `succinctly jq` (src/bin/succinctly/        *)
(* jq_runner.rs + output.rs ErrorSink), as a state machine over the        *)
(* per-input outcomes of a run.  The runner implements this bookkeeping    *)
(* separately on each of its evaluation routes (lazy, materialised,        *)
(* identity, slurp ...); this module is the single definition they must    *)
(* all follow (jq 1.7.1's documented exit statuses):                       *)
(*   halt / halt_error(code)  -> stop reading inputs, exit with that code  *)
(*                               (outranks everything; first halt wins)    *)
(*   else any uncaught error  -> 5                                         *)
(*   else with -e: no output at all -> 4; last output null/false -> 1      *)
(*   else 0                                                                *)
(* An input outcome is [outs |-> sequence over {"t","f","n"} (truthy,      *)
(* false, null), end |-> "ok" | "error" | "halt" | "halt_error",           *)
(* code |-> exit code requested by halt_error].                            *)
(***************************************************************************)
EXTENDS Integers, Sequences

Falsy(v) == v \in {"f", "n"}

St0 == [hit |-> FALSE, halt |-> -1, hadOut |-> FALSE, last |-> "none", nout |-> 0]

\* consume one input outcome (only enabled while not halted: later inputs are never read)
Step(s, inp) ==
  [hit |-> s.hit \/ inp.end = "error",
   halt |-> IF inp.end = "halt" THEN 0 ELSE IF inp.end = "halt_error" THEN inp.code ELSE -1,
   hadOut |-> s.hadOut \/ Len(inp.outs) > 0,
   last |-> IF Len(inp.outs) > 0 THEN inp.outs[Len(inp.outs)] ELSE s.last,
   nout |-> s.nout + Len(inp.outs)]

RECURSIVE Run(_, _, _)
Run(s, inputs, i) ==
  IF i > Len(inputs) \/ s.halt >= 0 THEN s ELSE Run(Step(s, inputs[i]), inputs, i + 1)

Final(inputs) == Run(St0, inputs, 1)

ExitCode(s, flagE) ==
  IF s.halt >= 0 THEN s.halt
  ELSE IF s.hit THEN 5
  ELSE IF flagE /\ ~s.hadOut THEN 4
  ELSE IF flagE /\ Falsy(s.last) THEN 1
  ELSE 0

\* properties of the protocol itself (checked by MC_ExitProtocol)
HaltOutranks(inputs, flagE) ==
  LET s == Final(inputs) IN s.halt >= 0 => ExitCode(s, flagE) = s.halt
ErrorOutranksE(inputs) ==
  LET s == Final(inputs) IN (s.halt < 0 /\ s.hit) => ExitCode(s, TRUE) = 5 /\ ExitCode(s, FALSE) = 5
WithoutE(inputs) ==
  LET s == Final(inputs) IN (s.halt < 0 /\ ~s.hit) => ExitCode(s, FALSE) = 0
=============================================================================
