---------------------------- MODULE Trace_YqAgree ----------------------------
(* C26 / route-agreement traces: within one case every observation (exit      *)
(* status, stdout) must equal the first one, whatever the input syntax.  The  *)
(* spec has no syntax-dependent clause.                                       *)
EXTENDS TraceBase, Agreement

VARIABLES l, reg
vars == <<l, reg>>

Case(e) == e.e = "case" /\ reg' = Unset
Obs(e) == /\ e.e = "obs"
          /\ e.rc # -9                                  \* a timed-out run is not an observation
          /\ CanObserve(reg, <<e.rc, e.out>>)
          /\ reg' = Observed(reg, <<e.rc, e.out>>)

Init == l = 1 /\ reg = Unset
Next == /\ l <= NRec
        /\ LET e == Rec[l] IN Case(e) \/ Obs(e)
        /\ l' = l + 1
Spec == Init /\ [][Next]_vars
=============================================================================
