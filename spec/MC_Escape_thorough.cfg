CONSTANTS BS = 1024  Blocks = "all"  MaxLen = 4
SPECIFICATION Spec
INVARIANT FormsRoundTrip
INVARIANT BodiesRoundTrip
INVARIANT StepsExact
INVARIANT ScanTableExact
CHECK_DEADLOCK FALSE
