--------------------------- MODULE Trace_JsonDoc ---------------------------
(* Trace validation for C06 (and, on rebuilt indexes, C31): every recorded   *)
(* call on the real JsonIndex / JsonCursor / StandardJson / JsonFields /     *)
(* JsonElements must be a step of the JsonDoc cursor machine over the        *)
(* document carried by the preceding build event.                            *)
(*                                                                           *)
(* build: nodes = preorder listing with spans (see JsonDoc); small documents *)
(*        also carry the nested `tree` taken from the generator, and         *)
(*        Preorder(tree) = nodes is required (validates the listing).        *)
(* op:    "at" = identity of the cursor the call was made on (must be the    *)
(*        machine's `at`), "r" = answer (ids, -1 None, -2 panic, -3 cursor   *)
(*        on a close parenthesis).                                           *)
(* The documents are large, so they are NOT state: `b` is the index of the   *)
(* current build record and N is read from the (cached) record list.         *)
EXTENDS TraceBase, JsonDoc

VARIABLES l, b

vars == <<l, b, at>>

N == Rec[b].nodes

Build(e) ==
  /\ e.e = "build"
  /\ b' = l
  /\ at' = None
  /\ e.r = Len(e.nodes)
  /\ WellFormed(e.nodes)
  /\ Nd(e.nodes, 0).s >= 0 /\ Nd(e.nodes, 0).e <= e.len
  /\ (Has(e, "tree") => Preorder(e.tree) = e.nodes)

\* what can be seen of a value that carries no cursor: its kind, and its start offset
\* when the API exposes it (s = -1: not observable)
SeenAs(n, k, s) ==
  /\ k = Kind(N, n)
  /\ (IF n = None THEN s = -1 ELSE (s = -1 \/ s = Nd(N, n).s))
  /\ (n # None /\ Nd(N, n).t \in {"str", "num"} => s = Nd(N, n).s)
  /\ (n # None /\ Nd(N, n).z > 1 => s = Nd(N, n).s)

KindsOf(ids) == [i \in 1..Len(ids) |-> Kind(N, ids[i])]

Op(e) ==
  /\ e.e = "op"
  /\ UNCHANGED b
  /\ e.r # -2                  \* a panic is never an answer (panic events carry no other field)
  /\ (e.op # "root" => e.at = at)
  /\ CASE e.op = "root" -> Root(N, e.r)
       [] e.op = "first_child" -> DoFirstChild(N, e.r)
       [] e.op = "next_sibling" -> DoNextSibling(N, e.r)
       [] e.op = "parent" -> DoParent(N, e.r)
       [] e.op = "value" -> Value(N, e.r)
       [] e.op = "str" -> StrValue(N, e.cp) /\ e.r = Len(e.cp) /\ e.s = Nd(N, at).s
       [] e.op = "num" -> NumValue(N, e.lit, e.atom) /\ e.r = 1      \* r = num_ok (float equality, assumption)
       [] e.op = "range" -> TextRange(N, e.s, e.r) /\ e.rb = 1
       [] e.op = "children" -> /\ ChildrenOf(N, e.ch) /\ e.r = Len(e.ch)
                               /\ e.isc = (IF Nd(N, at).z > 1 THEN 1 ELSE 0)
       [] e.op = "fields" -> /\ FieldsUncons(N, e.kv) /\ e.r = Len(e.kv)
                             /\ e.kinds = [i \in 1..Len(e.kv) |-> <<Kind(N, e.kv[i][1]), Kind(N, e.kv[i][2])>>]
                             /\ e.empty = (IF Nd(N, at).z = 1 THEN 1 ELSE 0)
                             /\ e.end_empty = 1
       [] e.op = "elements" -> /\ ElementsUncons(N, e.ch) /\ e.r = Len(e.ch)
                               /\ e.kinds = KindsOf(e.ch)
                               /\ e.empty = (IF Nd(N, at).z = 1 THEN 1 ELSE 0)
                               /\ e.end_empty = 1
       [] e.op = "get" -> /\ Nd(N, at).t = "arr" /\ UNCHANGED at
                          /\ SeenAs(GetAt(N, at, e.i), e.r, e.s)
       [] e.op = "find" -> /\ Find(N, e.name, e.r)
                           /\ SeenAs(FindIn(N, at, e.name), e.k, e.s)
       [] OTHER -> FALSE

Init == l = 1 /\ b = 0 /\ at = None

Next == /\ l <= NRec
        /\ LET e == Rec[l] IN Build(e) \/ Op(e)
        /\ l' = l + 1

Spec == Init /\ [][Next]_vars
=============================================================================
