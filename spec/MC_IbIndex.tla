----------------------------- MODULE MC_IbIndex -----------------------------
(* Bounded exhaustive check: for EVERY interest-bit vector of at most        *)
(* MaxWords words of W bits (built one word per step), every logical length  *)
(* in its last word, every k in 0..ones+1 and every hint in 0..words+3:      *)
(*   - the galloping ib_select1_from = Select(k)  (hint independence),       *)
(*     its bracket contains the answer word and it terminates within a       *)
(*     logarithmic number of probes;                                         *)
(*   - ib_select1, ib_rank1, the cursor_at_offset index = the definitions;   *)
(*   - the position-list evaluation used by the traces = the definitions.    *)
EXTENDS IbIndex, IbIndexImpl, TLC

CONSTANTS MaxWords

VARIABLES raw, len, phase

vars == <<raw, len, phase>>

AllWords == [1..W -> {0, 1}]

Init == raw = <<>> /\ len = 0 /\ phase = "words"

AddWord == /\ phase = "words"
           /\ Len(raw) < W * MaxWords
           /\ \E w \in AllWords : raw' = raw \o w
           /\ UNCHANGED <<len, phase>>

\* ib_len is the text length: it lies in the last word (or is 0 for no words); one shorter
\* length leaves stray set bits past len, as from_parts allows
Finish_ == /\ phase = "words"
           /\ \E l \in (IF Len(raw) = 0 THEN {0} ELSE (Len(raw) - W)..Len(raw)) : len' = l
           /\ phase' = "built"
           /\ UNCHANGED raw

Next == AddWord \/ Finish_

Spec == Init /\ [][Next]_vars

Refines ==
  LET ib == Take(raw, len)
      n == NW(raw)
      ones == OnesOf(raw)
      total == CountOnes(raw)
  IN /\ \A k \in 0..(total + 1) :
          /\ ImplSelect(raw, len, k) = Select(ib, k)
          /\ PSelect(ones, len, k) = Select(ib, k)
          /\ \A h \in 0..(n + 3) :
               /\ ImplSelectFrom(raw, len, k, h) = SelectFrom(ib, k, h)
               /\ n > 0 =>
                    LET br == Bracket(raw, k, h)
                        ans == BinSearch(raw, k, 0, n, 0)[1]       \* answer word (n when absent)
                    IN /\ br[1] <= ans /\ ans <= br[2] /\ br[2] <= n   \* bracket holds the answer
                       /\ br[3] <= Log2Up(n + 1) + 2                     \* gallop terminates, doubling
                       /\ BinSearch(raw, k, br[1], br[2], 0)[2] <= Log2Up(n + 1) + 1
     \* rank is not clamped to len by the code: it counts storage bits
     /\ \A p \in 0..(Len(raw) + W + 1) :
          /\ ImplRank(raw, p) = Rank1(raw, p)
          /\ PRank(ones, p) = Rank1(raw, p)
     /\ PRank(ones, -1) = total
     \* offsets -> node index (no stray bits: the index built from text has none)
     /\ (CountOnes(ib) = total =>
           \A o \in 0..(len + 1) :
              /\ ImplCursorIdx(raw, len, len, o) = CursorAtOffset(ib, o)
              /\ PCursorAtOffset(ones, len, o) = CursorAtOffset(ib, o))

Inv == phase = "built" => Refines

\* line starts: the position-list form of ToOffset agrees with a direct reading
=============================================================================
