---------------------------- MODULE MC_JsonPrint ----------------------------
(* Model stage of C11: every tree of at most MaxNodes nodes (arrays, objects  *)
(* with keys drawn from Keys -- duplicates included -- and distinguishable    *)
(* leaves), built token by token, then every option vector.                   *)
(* Checked: the implementation-shaped collapse (slot overwrite, as            *)
(* collapse_duplicate_fields / IndexMap) equals the declarative one (first    *)
(* position, last value); Collapse and SortKeys are idempotent and commute;   *)
(* collapsed trees have no duplicate key; sorted trees are sorted at every    *)
(* object and keep exactly the collapsed (path, leaf) pairs; the expected     *)
(* value depends on no option but -S; framing is as documented.               *)
EXTENDS JsonPrint

CONSTANTS MaxNodes, MaxArity, NKeys, MCLays

KeyPalette == << <<97>>, <<98>>, <<97, 97>>, <<>>, <<65535>>, <<128512>> >>
Keys == {KeyPalette[i] : i \in 1..NKeys}

VARIABLES toks, pend, phase, o

vars == <<toks, pend, phase, o>>

O0 == [lay |-> 10, S |-> 0, a |-> 0, raw |-> 0, seq |-> 0, route |-> 0]

Init == toks = <<>> /\ pend = 1 /\ phase = "build" /\ o = O0

Tokens(room) ==
  {Tok("leaf", 0, <<>>)}
  \cup {Tok("arr", n, <<>>) : n \in 0..(IF room < MaxArity THEN room ELSE MaxArity)}
  \cup UNION {{Tok("obj", n, ks) : ks \in KeyLists(Keys, n)} : n \in 0..(IF room < MaxArity THEN room ELSE MaxArity)}

Build ==
  /\ phase = "build" /\ pend > 0
  /\ \E tk \in Tokens(MaxNodes - Len(toks) - pend) :
       /\ toks' = Append(toks, tk)
       /\ pend' = pend - 1 + tk.n
  /\ UNCHANGED <<phase, o>>

Done ==
  /\ phase = "build" /\ pend = 0
  /\ phase' = "tree"
  /\ UNCHANGED <<toks, pend, o>>

Opt ==
  /\ phase = "tree"
  /\ \E oo \in {x \in OptSpace : x.lay \in MCLays} : o' = oo
  /\ phase' = "opt"
  /\ UNCHANGED <<toks, pend>>

Next == Build \/ Done \/ Opt

Spec == Init /\ [][Next]_vars

T == TreeOf(toks)

Algebra ==
  phase = "tree" =>
    LET c == Collapse(T)
        s == SortKeys(T)
        sc == SortKeys(c)
    IN /\ Size(T) = Len(toks)
       /\ CollapseImpl(T) = c
       /\ Collapse(c) = c
       /\ SortKeys(s) = s
       /\ Collapse(s) = sc                 \* sort and collapse commute (stable sort)
       /\ SortKeys(sc) = sc
       /\ NoDup(c) /\ NoDup(sc)
       /\ AllSorted(sc)
       /\ Leaves(sc, <<>>) = Leaves(c, <<>>)       \* sorting loses / invents nothing
       /\ Leaves(c, <<>>) \subseteq Leaves(T, <<>>) \* collapsing invents nothing
       /\ (NoDup(T) => c = T)
       /\ Size(c) <= Size(T)

PerOption ==
  phase = "opt" =>
    LET v == ExpectedValue(T, o)
    IN /\ NoDup(v)
       /\ (o.S = 1 => AllSorted(v))
       /\ v = ExpectedValue(T, [O0 EXCEPT !.S = o.S])      \* only -S matters for the value
       /\ (o.S = 0 => v = CollapseImpl(T))
       /\ (o.S = 1 => v = SortKeys(CollapseImpl(T)))
       /\ Len(Pre(o)) = o.seq
       /\ (Post(o) = <<>>) = (o.raw = 2)
       /\ (Post(o) = <<NUL>>) = (o.raw = 3)
       /\ (RouteOf(o) = "lazy") = (o.route = 0 /\ o.S + o.a + o.seq = 0)
=============================================================================
