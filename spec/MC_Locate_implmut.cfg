SPECIFICATION Spec
CONSTANTS
  MaxNodes = 4
  MaxGap = 0
  KeyCps <- KeysAB
  Yaml = FALSE
  ImplMutant = "sib_le"
  AllowDup = FALSE
INVARIANTS InvImpl
CHECK_DEADLOCK FALSE
