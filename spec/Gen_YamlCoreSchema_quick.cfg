CONSTANTS MaxLen = 3
SPECIFICATION Spec
INVARIANT Lemmas
INVARIANT Emit
CHECK_DEADLOCK FALSE
