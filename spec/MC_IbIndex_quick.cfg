CONSTANTS W = 3  MaxWords = 4
SPECIFICATION Spec
INVARIANT Inv
CHECK_DEADLOCK FALSE
