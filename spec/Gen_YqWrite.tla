---------------------------- MODULE Gen_YqWrite ----------------------------
(* Enumerates / samples (input stream presentation, write program, indent)  *)
(* triples of YqWrite and prints each as one REPLAY line; harness c15 runs   *)
(* `succinctly yq <prog>` and `succinctly yq -o json <prog>` on the rendered *)
(* input, reloads the YAML output with the library loader and records the    *)
(* trace that Trace_YqWrite.tla validates.                                   *)
EXTENDS YqWrite, Json

Emit == phase = "prog" => PrintT(<<"REPLAY", ToJson(CaseOut)>>)
Inv == GrammarInv /\ WriteInv
=============================================================================
