----------------------------- MODULE MC_YqWrite -----------------------------
(* The alias-soundness automaton's own invariants, on every event sequence   *)
(* of length <= MaxEvents over names {x, y} and values {1, 2}: whenever an   *)
(* alias event is enabled, the most recent anchor event of that name since   *)
(* the last document start exists and carries an equal value (checked on a   *)
(* history variable, i.e. independently of the automaton's own state).       *)
EXTENDS Integers, Sequences, FiniteSets, TLC, AliasSoundness

CONSTANTS MaxEvents


VARIABLES def, hist

Names == {"x", "y"}
Vals == {1, 2}

Init == def = {} /\ hist = <<>>

DocStart == def' = {} /\ hist' = Append(hist, <<"doc", "", 0>>)
Anchor == \E n \in Names, v \in Vals : def' = AAnchor(def, n, v) /\ hist' = Append(hist, <<"anchor", n, v>>)
Alias == \E n \in Names, v \in Vals : AliasEnabled(def, n, v) /\ def' = def /\ hist' = Append(hist, <<"alias", n, v>>)

Next == Len(hist) < MaxEvents /\ (DocStart \/ Anchor \/ Alias)
Spec == Init /\ [][Next]_<<def, hist>>

\* index of the last document start before position i (0 if none)
LastDoc(i) == IF \E j \in 1..(i - 1) : hist[j][1] = "doc"
              THEN CHOOSE j \in 1..(i - 1) : hist[j][1] = "doc" /\ \A k \in (j + 1)..(i - 1) : hist[k][1] # "doc"
              ELSE 0

Sound ==
  \A i \in 1..Len(hist) :
    hist[i][1] = "alias" =>
      \E j \in (LastDoc(i) + 1)..(i - 1) :
        /\ hist[j][1] = "anchor" /\ hist[j][2] = hist[i][2] /\ hist[j][3] = hist[i][3]
        /\ \A k \in (j + 1)..(i - 1) : ~(hist[k][1] = "anchor" /\ hist[k][2] = hist[i][2])

\* completeness: an alias that satisfies the history condition IS enabled (the automaton is not over-strict)
Complete ==
  \A n \in Names, v \in Vals :
    (\E j \in (LastDoc(Len(hist) + 1) + 1)..Len(hist) :
        /\ hist[j][1] = "anchor" /\ hist[j][2] = n /\ hist[j][3] = v
        /\ \A k \in (j + 1)..Len(hist) : ~(hist[k][1] = "anchor" /\ hist[k][2] = n))
    => AliasEnabled(def, n, v)

OneDefPerName == \A d1 \in def, d2 \in def : d1[1] = d2[1] => d1 = d2
Inv == Sound /\ Complete /\ OneDefPerName
=============================================================================
