CONSTANTS
  MaxSteps = 2
SPECIFICATION Spec
INVARIANT Emit
CHECK_DEADLOCK FALSE
