---------------------------- MODULE Gen_JsonPrint ----------------------------
(* spec -> impl generator for C11.  A behaviour draws an option vector, the   *)
(* number of input documents, and a forest of tree SHAPES token by token      *)
(* (objects take their keys -- duplicates included -- from a palette that     *)
(* pins the code-point order: "", "B" < "a" < "aa" < "b" < e-acute < U+FFFF < *)
(* U+1F600, quote+backslash, "a" NUL).  Leaves are anonymous: the harness     *)
(* fills in scalars and spellings.  The REPLAY line carries the input forest  *)
(* and what JsonPrint predicts: framing bytes, the expected value of each     *)
(* document (with leaf identities) and the route the runner must take.        *)
EXTENDS JsonPrint, Json

CONSTANTS MaxNodes, MaxArity, NKeys, MaxDocs

GenPalette == << <<97>>, <<98>>, <<97, 97>>, <<>>, <<66>>, <<233>>, <<65535>>, <<128512>>, <<34, 92>>, <<97, 0>> >>
Keys == {GenPalette[i] : i \in 1..NKeys}

VARIABLES toks, inner, top, need, phase, o, nd

vars == <<toks, inner, top, need, phase, o, nd>>

Init == /\ toks = <<>> /\ inner = 0 /\ top = 0 /\ need = 0 /\ phase = "lay" /\ nd = 0
        /\ o = [lay |-> 10, S |-> 0, a |-> 0, raw |-> 0, seq |-> 0, route |-> 0]

(* the option vector is drawn field by field and the keys of an object one by *)
(* one, so that a simulation step has few successors                          *)
OptLay ==
  /\ phase = "lay"
  /\ \E x \in Lays : o' = [o EXCEPT !.lay = x]
  /\ phase' = "flags"
  /\ UNCHANGED <<toks, inner, top, need, nd>>

OptFlags ==
  /\ phase = "flags"
  /\ \E s, a, q, r \in {0, 1} : o' = [o EXCEPT !.S = s, !.a = a, !.seq = q, !.route = r]
  /\ phase' = "raw"
  /\ UNCHANGED <<toks, inner, top, need, nd>>

OptRaw ==
  /\ phase = "raw"
  /\ \E x \in 0..3, n \in 1..MaxDocs :
       o' = [o EXCEPT !.raw = x] /\ nd' = n /\ top' = n
  /\ phase' = "build"
  /\ UNCHANGED <<toks, inner, need>>

Cap(room) == IF room < MaxArity THEN room ELSE MaxArity

Tokens(room) ==
  {Tok("leaf", 0, <<>>)} \cup {Tok(k, n, <<>>) : k \in {"arr", "obj"}, n \in 0..Cap(room)}

(* documents are generated one after the other (preorder): a token opens a    *)
(* new document iff no subtree of the current one is pending.  Under -j       *)
(* several printed values are only self-delimiting if they are containers.    *)
Build ==
  /\ phase = "build" /\ inner + top > 0 /\ need = 0
  /\ \E tk \in Tokens(MaxNodes - Len(toks) - inner - top) :
       /\ (inner = 0 /\ o.raw = 2 /\ nd > 1 => tk.k # "leaf")
       /\ toks' = Append(toks, tk)
       /\ IF inner = 0 THEN top' = top - 1 /\ inner' = tk.n
                       ELSE top' = top /\ inner' = inner - 1 + tk.n
       /\ need' = IF tk.k = "obj" THEN tk.n ELSE 0
  /\ UNCHANGED <<phase, o, nd>>

AddKey ==
  /\ phase = "build" /\ need > 0
  /\ \E k \in Keys : toks' = [toks EXCEPT ![Len(toks)].ks = Append(@, k)]
  /\ need' = need - 1
  /\ UNCHANGED <<inner, top, phase, o, nd>>

Done ==
  /\ phase = "build" /\ inner + top = 0 /\ need = 0
  /\ phase' = "done"
  /\ UNCHANGED <<toks, inner, top, need, o, nd>>

Next == OptLay \/ OptFlags \/ OptRaw \/ Build \/ AddKey \/ Done

Spec == Init /\ [][Next]_vars

Emit ==
  phase = "done" =>
    LET f == ForestOf(toks, nd)
    IN PrintT(<<"REPLAY", ToJson([o |-> o, in |-> f,
                                  exp |-> [i \in 1..nd |-> ExpectedValue(f[i], o)],
                                  pre |-> Pre(o), post |-> Post(o), rt |-> RouteOf(o)])>>)
=============================================================================
