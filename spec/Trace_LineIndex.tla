--------------------------- MODULE Trace_LineIndex ---------------------------
(***************************************************************************)
(* Trace validation for C12 with the REAL walk cap (16).  Events:          *)
(*  build: kind ("lidx" = text::LineIndex with cache hook, "json"/"yaml" = *)
(*         the JsonIndex/YamlIndex wrappers), t (byte classes), len, lines *)
(*  lc:    a (offset), line, col, cache [offset,line_idx,line_start] or    *)
(*         [-1,-1,-1] (hook; only kind "lidx")                             *)
(*  off:   line, col (-1 = huge), r        ls: line, r                     *)
(* Every answer must equal the pure abstract one (history independence).   *)
(* For kind "lidx" the cache exposed by the hook must satisfy the          *)
(* documented representation invariant after every call, and the           *)
(* implementation-shaped Step run from that real cache must agree.         *)
(***************************************************************************)
EXTENDS TraceBase, LineIndexImpl

VARIABLES l, starts, len, cache, kind

vars == <<l, starts, len, cache, kind>>

Build(e) ==
  /\ e.e = "build"
  /\ starts' = StartsOf(e.t)
  /\ len' = Len(e.t)
  /\ e.len = Len(e.t)
  /\ e.lines = Len(starts')
  /\ cache' = NoCache
  /\ kind' = e.kind

LcEv(e) ==
  /\ e.e = "lc"
  /\ <<e.line, e.col>> = ToLineCol(starts, e.a)                      \* pure answer
  /\ IF kind = "lidx" /\ e.hooked = 1
     THEN \* the cache the real object holds after the call must satisfy the representation
          \* invariant documented in lines.rs, and the implementation-shaped Step started from
          \* the real object's previous cache must give the same (pure) answer.  The exact
          \* cache CONTENT is not prescribed: the property is about answers, and a different
          \* but consistent caching policy is not a violation.
          LET r == Step(starts, cache, e.a)
          IN /\ <<e.line, e.col>> = <<r[1], r[2]>>
             /\ CacheInv(starts, e.cache)
             /\ cache' = e.cache
     ELSE cache' = cache
  /\ UNCHANGED <<starts, len, kind>>

OffEv(e) ==
  /\ e.e = "off"
  /\ e.r = (IF e.col < 0 \/ e.line < 0 THEN None ELSE ToOffset(starts, len, e.line, e.col))
  /\ UNCHANGED <<starts, len, cache, kind>>

LsEv(e) ==
  /\ e.e = "ls"
  /\ e.r = (IF e.line < 0 THEN None ELSE LineStart(starts, e.line))
  /\ UNCHANGED <<starts, len, cache, kind>>

Init == l = 1 /\ starts = <<0>> /\ len = 0 /\ cache = NoCache /\ kind = "lidx"

Next == /\ l <= NRec
        /\ LET e == Rec[l] IN Build(e) \/ LcEv(e) \/ OffEv(e) \/ LsEv(e)
        /\ l' = l + 1

Spec == Init /\ [][Next]_vars
=============================================================================
