CONSTANTS MaxLen = 6
SPECIFICATION Spec
INVARIANT Inv
CHECK_DEADLOCK FALSE
