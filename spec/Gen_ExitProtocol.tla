-------------------------- MODULE Gen_ExitProtocol --------------------------
(* Behaviour generator (spec -> impl): every sequence of at most MaxInputs     *)
(* input outcomes; each reachable state is one behaviour and is printed with   *)
(* the exit codes and output count the protocol predicts.                      *)
EXTENDS ExitProtocol, Json, TLC

CONSTANTS MaxInputs, MaxOuts, Codes

VARIABLE inputs

Vals == {"t", "f", "n"}
OutSeqs == UNION {[1..k -> Vals] : k \in 0..MaxOuts}
Ends == {"ok", "error", "halt", "halt_error"}

Init == inputs = <<>>
Next == /\ Len(inputs) < MaxInputs
        /\ \E o \in OutSeqs, e \in Ends, c \in Codes :
              /\ (e # "halt_error" => c = 0)
              /\ inputs' = Append(inputs, [outs |-> o, end |-> e, code |-> c])
Spec == Init /\ [][Next]_inputs

Emit ==
  LET s == Final(inputs)
  IN PrintT(<<"REPLAY", ToJson([inputs |-> inputs, nout |-> s.nout,
                                 exit0 |-> ExitCode(s, FALSE), exitE |-> ExitCode(s, TRUE)])>>)

Laws == HaltOutranks(inputs, TRUE) /\ HaltOutranks(inputs, FALSE) /\ ErrorOutranksE(inputs) /\ WithoutE(inputs)
=============================================================================
