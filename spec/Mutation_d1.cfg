CONSTANTS SeedNames = {"json", "yamlblock", "yamldocs", "yamlmerge", "dsv", "jq"}  MaxSteps = 1  SwapSpan = 0
SPECIFICATION Spec
INVARIANT Emit
CHECK_DEADLOCK FALSE
