------------------------------ MODULE Gen_Dsv ------------------------------
(* spec -> impl generator for C20 and C21: every class string of length     *)
(* <= MaxLen, together with what Dsv.tla predicts for it: marker / newline  *)
(* offsets and the rows as sequences of field spans [start, end).  One       *)
(* REPLAY line per string; the harness (c20 replay / c21 replay) maps the    *)
(* classes to bytes under several configurations, runs the real code and     *)
(* compares.                                                                 *)
EXTENDS Dsv, Json, TLC

CONSTANT MaxLen

VARIABLE t

Init == t = <<>>

Next == Len(t) < MaxLen /\ \E c \in Classes : t' = Append(t, c)

Spec == Init /\ [][Next]_t


Emit ==
  LET ix == Index(t)
      rows == Rows(ix)
  IN PrintT(<<"REPLAY", ToJson([cls |-> t, ms |-> ix.ms, ns |-> ix.ns, rows |-> rows])>>)
=============================================================================
