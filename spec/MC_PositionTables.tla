------------------------- MODULE MC_PositionTables -------------------------
(***************************************************************************)
(* C17 model stage: the implementation-shaped position tables              *)
(* (PositionTablesImpl, scaled W / R) REFINE the abstract machine          *)
(* (PositionTables) for every recorded sequence of the bounded size and    *)
(* EVERY lookup history: there is no depth bound on lookups -- the cursor  *)
(* state space of a bounded table is finite, TLC explores all of it, so    *)
(* every lookup sequence of every length over `Indices` is covered.        *)
(*                                                                         *)
(* One table is examined per behaviour (kind = "open" | "end"; the two     *)
(* tables are separate objects with separate cursors).  Nodes are appended *)
(* through Record steps.  For kind = "end" the node starts are derived     *)
(* from the ends by `smode`, which decides the strength of the abstract    *)
(* "at or before its start" clause:                                        *)
(*    tight : starts[i] = most recently recorded end  (the clause is as    *)
(*            strong as the producer invariant permits: any larger start   *)
(*            only weakens it)                                             *)
(*    viol  : starts[i] = that - 1  (producer invariant broken: only "None *)
(*            or an earlier node's end" is demanded)                       *)
(*    max   : starts[i] = text_len                                         *)
(*                                                                         *)
(* The three arms of `get` are the three actions LookSeq, LookGap,         *)
(* LookBack.  AllowF3 adds the known defect F3 (open table built with the  *)
(* code's IB sizing drops a start equal to text_len when text_len is a     *)
(* multiple of the word size) as an admitted step, so that everything else *)
(* is still checked against the code-as-written (IBExtra = 0).             *)
(***************************************************************************)
EXTENDS PositionTablesImpl, TLC

CONSTANTS MaxLen,        \* nodes per table
          TextLens,      \* text lengths tried
          Indices,       \* lookup arguments
          AllowF3        \* BOOLEAN

VARIABLES starts, ends, phase, out,          \* the abstract machine's variables
          kind, smode, tl, tab, cur          \* implementation state

vars == <<starts, ends, phase, out, kind, smode, tl, tab, cur>>

SetMax(S) == CHOOSE x \in S : \A y \in S : y <= x

Abs == INSTANCE PositionTables WITH MaxPos <- SetMax(TextLens), MaxNodes <- MaxLen

Seq0 == IF kind = "open" THEN starts ELSE ends

Init == /\ starts = <<>> /\ ends = <<>> /\ phase = "record" /\ out = Abs!NoOut
        /\ kind \in {"open", "end"}
        /\ smode \in {"tight", "viol", "max"}
        /\ kind = "open" => smode = "max"
        /\ tl \in TextLens
        /\ tab = EmptyTab /\ cur = Cursor0

StartFor(e) ==
  LET last == Abs!LastRecordedBefore(ends, Len(ends))
  IN CASE smode = "tight" -> last
       [] smode = "viol" -> IF last > 0 THEN last - 1 ELSE 0
       [] OTHER -> tl

Record == /\ phase = "record"
          /\ Len(starts) < MaxLen
          /\ \E p \in 0..tl :
               IF kind = "open"
               THEN starts' = Append(starts, p) /\ ends' = Append(ends, 0)
               ELSE starts' = Append(starts, StartFor(p)) /\ ends' = Append(ends, p)
          /\ UNCHANGED <<phase, out, kind, smode, tl, tab, cur>>

Seal == /\ phase = "record"
        /\ phase' = "look"
        /\ tab' = BuildTab(kind, Seq0, tl)
        /\ UNCHANGED <<starts, ends, out, kind, smode, tl, cur>>

Obs == IF kind = "open" THEN "start" ELSE "end"

Answer(i, g) == /\ out' = <<Obs, i, g.r>>
                /\ cur' = g.c
                /\ UNCHANGED <<starts, ends, phase, kind, smode, tl, tab>>

LookSeq(i) == phase = "look" /\ tab.compact /\ SeqGuard(cur, i) /\ Answer(i, GetSeqArm(tab, i, cur))
LookGap(i) == phase = "look" /\ tab.compact /\ GapGuard(cur, i) /\ Answer(i, GetGapArm(tab, i, cur))
LookBack(i) == phase = "look" /\ tab.compact /\ BackGuard(cur, i) /\ Answer(i, GetBackArm(tab, i, cur))
\* The Dense variant has no cursor: its answer reads (tab, i) only and changes nothing, so
\* exploring each lookup once, from the sealed state, covers every history.
LookDense(i) == /\ phase = "look" /\ ~tab.compact /\ out = Abs!NoOut
                /\ Answer(i, [r |-> DenseGet(kind, tab, i), c |-> cur])

Next == Record \/ Seal \/ \E i \in Indices : LookSeq(i) \/ LookGap(i) \/ LookBack(i) \/ LookDense(i)

Spec == Init /\ [][Next]_vars

\* ----- refinement -----------------------------------------------------------------------
\* F3: the only admitted deviation, and only when AllowF3
KnownF3 ==
  /\ AllowF3 /\ IBExtra = 0
  /\ phase = "look" /\ kind = "open" /\ tl % W = 0
  /\ \E i \in Indices : /\ i < Len(starts) /\ starts[i + 1] = tl
                        /\ out' = <<"start", i, None>>
  /\ UNCHANGED <<starts, ends, phase>>

Refinement == Abs!AbsInit /\ [][Abs!AbsNext \/ KnownF3]_(Abs!absvars)

\* ----- invariants -----------------------------------------------------------------------
Looking == phase = "look"
\* facts about the built table / the recorded sequences alone are evaluated once per table
\* (in the state right after Seal), not again after every lookup
Sealed == Looking /\ out = Abs!NoOut

CursorOk == Looking /\ tab.compact => CursorInv(tab, cur)

TabOk == Sealed => TabInv(tab)

NoPanic == out[3] # Panic

Perturbed(c) ==
  {c} \cup UNION {{[c EXCEPT ![f] = @ + 1], [c EXCEPT ![f] = @ - 1]} :
                     f \in {"noi", "adv", "wi", "ob", "la", "lr"}}

\* the list-form invariants used by trace validation say the same as the bitmap-form ones,
\* on the reachable cursor and on every single-field perturbation of it
ListFormOk ==
  Looking => \A c \in {x \in Perturbed(cur) : x.noi >= 0 /\ x.noi <= tab.nopens /\ x.wi >= 0} :
                ListFormAgrees(kind, Seq0, tab, c)

\* choice of variant as documented: compact iff the (non-zero) positions are non-decreasing
VariantOk ==
  Sealed =>
    (tab.compact <=>
       IF kind = "open" THEN OpenMonotone(starts)
       ELSE \A a, b \in 1..Len(ends) : a < b /\ ends[a] # 0 /\ ends[b] # 0 => ends[a] <= ends[b])

EndFormsOk == Sealed => Abs!EndFormsAgree
=============================================================================
