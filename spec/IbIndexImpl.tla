----------------------------- MODULE IbIndexImpl -----------------------------
(***************************************************************************)
(* Implementation-shaped specification of the interest-bit side of         *)
(* succinctly::json::light::JsonIndex (build_ib_rank, ib_rank1,            *)
(* ib_select1, ib_select1_from, the index computation of                   *)
(* cursor_at_offset) with a SCALED word size W (code: 64), so that TLC can *)
(* compare it with the definitions of IbIndex on every vector of the       *)
(* scaled size.  `m` is the word storage as a flat bit sequence of length  *)
(* W * nwords, `len` the logical bit length (ib_len).                      *)
(* One operator per code function, one IF arm per code branch.             *)
(***************************************************************************)
EXTENDS Integers, Sequences, BitSeq

CONSTANT W

NW(m) == Len(m) \div W
Word(m, j) == SubSeq(m, j * W + 1, (j + 1) * W)

RECURSIVE Cum(_, _)
\* build_ib_rank: ib_rank[i] = ones in words [0, i)
Cum(m, i) == IF i = 0 THEN 0 ELSE Cum(m, i - 1) + CountOnes(Word(m, i - 1))

Max2(a, c) == IF a > c THEN a ELSE c

\* ib_rank1
ImplRank(m, pos) ==
  IF pos = 0 THEN 0
  ELSE LET widx == pos \div W
           bit == pos % W
           base == Cum(m, Min2(widx, NW(m)))
       IN IF widx < NW(m) /\ bit > 0
          THEN base + CountOnes(SubSeq(Word(m, widx), 1, bit))
          ELSE base

\* select_in_word(word, r): position of the r-th set bit (W when absent)
SelectInWord(w, r) == LET p == Select1(w, r) IN IF p = None THEN W ELSE p

\* tail shared by ib_select1 and ib_select1_from
Finish(m, len, k, lo) ==
  IF lo >= NW(m) THEN None
  ELSE LET res == lo * W + SelectInWord(Word(m, lo), k - Cum(m, lo))
       IN IF res < len THEN res ELSE None

RECURSIVE BinSearch(_, _, _, _, _)
\* while lo < hi { mid = lo + (hi-lo)/2; if ib_rank[mid+1] <= k { lo = mid+1 } else { hi = mid } }
\* returns <<lo, number of iterations>>
BinSearch(m, k, lo, hi, steps) ==
  IF lo < hi
  THEN LET mid == lo + (hi - lo) \div 2
       IN IF Cum(m, mid + 1) <= k THEN BinSearch(m, k, mid + 1, hi, steps + 1)
          ELSE BinSearch(m, k, lo, mid, steps + 1)
  ELSE <<lo, steps>>

\* ib_select1: pure binary search over all words
ImplSelect(m, len, k) ==
  IF NW(m) = 0 THEN None ELSE Finish(m, len, k, BinSearch(m, k, 0, NW(m), 0)[1])

RECURSIVE GallopFwd(_, _, _, _, _, _)
\* forward loop: returns <<lo, hi, probes>>
GallopFwd(m, k, hint, prev, bound, probes) ==
  LET n == NW(m)
      next == Min2(hint + bound, n)
  IN IF next >= n \/ Cum(m, next + 1) > k THEN <<prev, next, probes + 1>>
     ELSE GallopFwd(m, k, hint, next, bound * 2, probes + 1)

RECURSIVE GallopBwd(_, _, _, _, _, _)
\* backward loop (hint.saturating_sub(bound)): returns <<lo, hi, probes>>
GallopBwd(m, k, hint, prev, bound, probes) ==
  LET next == Max2(hint - bound, 0)
  IN IF next = 0 \/ Cum(m, next + 1) <= k THEN <<next, prev, probes + 1>>
     ELSE GallopBwd(m, k, hint, next, bound * 2, probes + 1)

\* the [lo, hi] bracket and probe count chosen by the gallop
Bracket(m, k, hint0) ==
  LET n == NW(m)
      hint == Min2(hint0, Max2(n - 1, 0))           \* hint.min(n.saturating_sub(1))
  IN IF Cum(m, hint + 1) <= k THEN GallopFwd(m, k, hint, hint, 1, 0)
     ELSE GallopBwd(m, k, hint, hint, 1, 0)

\* ib_select1_from
ImplSelectFrom(m, len, k, hint0) ==
  IF NW(m) = 0 THEN None
  ELSE LET br == Bracket(m, k, hint0)
       IN Finish(m, len, k, BinSearch(m, k, br[1], br[2], 0)[1])

\* cursor_at_offset up to the IB index it converts to a BP position (tlen = text length)
ImplCursorIdx(m, len, tlen, o) ==
  IF o >= tlen THEN None
  ELSE LET rank == ImplRank(m, o)
           sp == ImplSelect(m, len, rank)
       IN IF sp # None
          THEN (IF sp = o THEN rank ELSE IF rank > 0 THEN rank - 1 ELSE None)
          ELSE (IF rank > 0 THEN rank - 1 ELSE None)

\* smallest c with 2^c >= x
RECURSIVE Log2Up(_)
Log2Up(x) == IF x <= 1 THEN 0 ELSE 1 + Log2Up((x + 1) \div 2)
=============================================================================
