----------------------------- MODULE BitVecImpl -----------------------------
(***************************************************************************)
(* Implementation-shaped specification of succinctly::BitVec               *)
(* (src/bits/bitvec.rs, rank.rs, select.rs, scan.rs) with SCALED constants *)
(* so TLC can compare it exhaustively with the definitional BitSeq         *)
(* operators on every bit vector of the scaled size.                       *)
(*                                                                         *)
(*   W    bits per word            (code: 64)                              *)
(*   B    words per rank block     (code: WORDS_PER_BLOCK = 8)             *)
(*   BLK  words per scan block     (code: scan::BLOCK = 8)                 *)
(*   PRO  scalar prologue length   (code: PROLOGUE = BLOCK)                *)
(*   the select sample rate is a parameter of every operator               *)
(*                                                                         *)
(* `raw` is the caller's word storage as a flat bit sequence of length     *)
(* W * nwords; `len` the logical length.  One operator per code function.  *)
(***************************************************************************)
EXTENDS Naturals, Sequences, SequencesExt, BitSeq

CONSTANTS W, B, BLK, PRO

NWords(raw) == Len(raw) \div W

\* BitVec::with_config: mask the tail of the word holding bit len-1 AND zero every
\* surplus word.
Masked(raw, len) == [i \in 1..Len(raw) |-> IF i <= len THEN raw[i] ELSE 0]

\* word j (0-based) of storage m as a sequence of W bits
Word(m, j) == SubSeq(m, j * W + 1, (j + 1) * W)

Pop(w) == CountOnes(w)

RECURSIVE SumPop(_, _, _)
\* popcount of words [a, b)
SumPop(m, a, b) == IF a >= b THEN 0 ELSE Pop(Word(m, a)) + SumPop(m, a + 1, b)

OnesCount(m) == SumPop(m, 0, NWords(m))

(***************************************************************************)
(* RankDirectory::build / rank_at_word.  l1[blk] = ones before the block;  *)
(* l2[blk][i] (i in 1..B-1) = ones inside the block before its word i,     *)
(* recorded only for words that exist (others stay 0).                     *)
(***************************************************************************)
NBlocks(m) == (NWords(m) + B - 1) \div B

L1(m, blk) == SumPop(m, 0, blk * B)

L2(m, blk, i) ==
  IF blk * B + i < NWords(m) THEN SumPop(m, blk * B, blk * B + i) ELSE 0

RankAtWord(m, widx) ==
  IF NWords(m) = 0 THEN 0
  ELSE LET blk0 == widx \div B
           wib == widx % B
           blk == Min2(blk0, NBlocks(m) - 1)
       IN L1(m, blk) + (IF wib = 0 THEN 0 ELSE L2(m, blk, wib))

\* popcount(word & ((1 << bit) - 1))
PopBelow(w, bit) == CountOnes(SubSeq(w, 1, bit))

ImplRank1(m, len, i) ==
  IF i = 0 THEN 0
  ELSE IF i >= len THEN OnesCount(m)
  ELSE RankAtWord(m, i \div W) + PopBelow(Word(m, i \div W), i % W)

ImplRank0(m, len, i) == Min2(i, len) - ImplRank1(m, len, i)

(***************************************************************************)
(* SelectIndex::build / jump_to.  A sample is <<word_idx, cumulative>>.    *)
(***************************************************************************)
RECURSIVE PushSamples(_, _, _, _, _, _)
\* the inner `while next_sample < total && count + pop > next_sample` loop
PushSamples(samples, next, total, count, pop, widx_rate) ==
  IF next < total /\ count + pop > next
  THEN PushSamples(Append(samples, <<widx_rate[1], count>>), next + widx_rate[2],
                   total, count, pop, widx_rate)
  ELSE <<samples, next>>

RECURSIVE BuildSamples(_, _, _, _, _, _, _)
BuildSamples(m, rate, total, widx, count, next, samples) ==
  IF widx >= NWords(m) THEN samples
  ELSE LET pop == Pop(Word(m, widx))
           r == PushSamples(samples, next, total, count, pop, <<widx, rate>>)
       IN BuildSamples(m, rate, total, widx + 1, count + pop, r[2], r[1])

EffRate(rate) == IF rate < 1 THEN 1 ELSE rate

Samples(m, rate) ==
  IF NWords(m) = 0 \/ OnesCount(m) = 0 THEN <<>>
  ELSE BuildSamples(m, EffRate(rate), OnesCount(m), 0, 0, 0, <<>>)

JumpTo(samples, rate, k) ==
  IF Len(samples) = 0 THEN <<0, k>>
  ELSE LET idx == k \div EffRate(rate)
           e == IF idx >= Len(samples) THEN samples[Len(samples)] ELSE samples[idx + 1]
       IN <<e[1], k - e[2]>>

(***************************************************************************)
(* scan::scan_select — prologue / block loop / tail.                        *)
(* Result <<word_idx, remaining_in_word>> or None.                          *)
(***************************************************************************)
NoWord == <<-1, -1>>

RECURSIVE ScanScalar(_, _, _, _)
\* plain per-word scan over words [a, b)
ScanScalar(m, a, b, rem) ==
  IF a >= b THEN NoWord
  ELSE LET pop == Pop(Word(m, a))
       IN IF pop > rem THEN <<a, rem>> ELSE ScanScalar(m, a + 1, b, rem - pop)

RECURSIVE BlockLoop(_, _, _)
BlockLoop(m, idx, rem) ==
  IF idx + BLK <= NWords(m)
  THEN LET total == SumPop(m, idx, idx + BLK)
       IN IF total > rem THEN ScanScalar(m, idx, idx + BLK, rem)
          ELSE BlockLoop(m, idx + BLK, rem - total)
  ELSE ScanScalar(m, idx, NWords(m), rem)

RECURSIVE Prologue(_, _, _, _)
Prologue(m, idx, pend, rem) ==
  IF idx < pend
  THEN LET pop == Pop(Word(m, idx))
       IN IF pop > rem THEN <<idx, rem>> ELSE Prologue(m, idx + 1, pend, rem - pop)
  ELSE BlockLoop(m, idx, rem)

ScanSelect(m, start, rem) ==
  IF start >= NWords(m) THEN NoWord
  ELSE Prologue(m, start, Min2(start + PRO, NWords(m)), rem)

\* select_in_word: position of the r-th set bit of w (W when absent)
SelectInWord(w, r) == LET p == Select1(w, r) IN IF p = None THEN W ELSE p

ImplSelect1(m, len, rate, k) ==
  IF k >= OnesCount(m) THEN None
  ELSE LET j == JumpTo(Samples(m, rate), rate, k)
           sc == ScanSelect(m, j[1], j[2])
       IN IF sc = NoWord THEN None
          ELSE LET res == sc[1] * W + SelectInWord(Word(m, sc[1]), sc[2])
               IN IF res < len THEN res ELSE None

\* BitVec::select0 — binary search over rank0
RECURSIVE Sel0Search(_, _, _, _, _)
Sel0Search(m, len, k, lo, hi) ==
  IF lo < hi
  THEN LET mid == lo + (hi - lo) \div 2
       IN IF ImplRank0(m, len, mid + 1) > k THEN Sel0Search(m, len, k, lo, mid)
          ELSE Sel0Search(m, len, k, mid + 1, hi)
  ELSE lo

ImplCountZeros(m, len) == len - OnesCount(m)

ImplSelect0(m, len, k) ==
  IF k >= ImplCountZeros(m, len) THEN None ELSE Sel0Search(m, len, k, 0, len)

ImplGet(m, i) == m[i + 1]

(***************************************************************************)
(* Refinement statement: every implementation answer equals the            *)
(* definitional answer on the first `len` bits of the caller's storage.    *)
(***************************************************************************)
Refines(raw, len, rate) ==
  LET m == Masked(raw, len)
      bits == Take(raw, len)
  IN /\ OnesCount(m) = CountOnes(bits)
     /\ ImplCountZeros(m, len) = CountZeros(bits)
     /\ \A i \in 0..(len + 2) : /\ ImplRank1(m, len, i) = Rank1(bits, i)
                                /\ ImplRank0(m, len, i) = Rank0(bits, i)
     /\ \A i \in 0..(len - 1) : ImplGet(m, i) = Get(bits, i)
     /\ \A k \in 0..(len + 1) : /\ ImplSelect1(m, len, rate, k) = Select1(bits, k)
                                /\ ImplSelect0(m, len, k) = Select0(bits, k)

\* structural facts the code comments state
SampleInv(raw, len, rate) ==
  LET m == Masked(raw, len)
      s == Samples(m, rate)
  IN \A j \in 1..Len(s) :
        /\ s[j][2] = SumPop(m, 0, s[j][1])                    \* cumulative_before is exact
        /\ s[j][2] <= (j - 1) * EffRate(rate)                  \* sample word holds the sampled one
        /\ (j - 1) * EffRate(rate) < s[j][2] + Pop(Word(m, s[j][1]))
=============================================================================
