CONSTANTS CAP = 2  MaxLen = 9  MaxOff = 11
SPECIFICATION Spec
INVARIANT AnswerExact
INVARIANT CacheOk
INVARIANT Static
CHECK_DEADLOCK FALSE
