CONSTANTS
 Leaves <- LeavesFull
 Keys <- KeysFull
 Programs <- ProgFull
 MaxNodes = 14 MaxDepth = 4 MaxWidth = 4
SPECIFICATION Spec
INVARIANT Emit
INVARIANT TreeOk
CHECK_DEADLOCK FALSE
