CONSTANTS Alphabet = {10, 13, 97}  MaxLen = 7
SPECIFICATION Spec
INVARIANT Inv
CHECK_DEADLOCK FALSE
