CONSTANTS Which = "jq"  MaxLen = 2
SPECIFICATION Spec
INVARIANT Emit
CHECK_DEADLOCK FALSE
