----------------------------- MODULE MC_JsonAbnf -----------------------------
(* The PDA of JsonGrammar.tla (RFC mode, cap never reached) accepts exactly  *)
(* the strings derivable from the RFC 8259 ABNF as transcribed in JsonAbnf,  *)
(* on every string of length <= MaxLen over Alphabet; and a stuck PDA means  *)
(* no extension over Alphabet of length <= MaxLen is a JSON text (checked    *)
(* through the successors: they stay stuck and are not JSON texts).          *)
EXTENDS JsonGrammar, TLC

CONSTANTS Alphabet, MaxLen

A == INSTANCE JsonAbnf

VARIABLES s, c
vars == <<s, c>>

Init == s = <<>> /\ c = CfgInit
Next == /\ Len(s) < MaxLen
        /\ \E b \in Alphabet : s' = Append(s, b) /\ c' = StepRfc(c, b)
Spec == Init /\ [][Next]_vars

Inv == /\ Accepting(c) <=> A!IsJsonText(s)
       /\ c[1] = "X" => ~A!IsJsonText(s)
=============================================================================
