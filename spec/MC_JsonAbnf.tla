----------------------------- MODULE MC_JsonAbnf -----------------------------
(* The PDA of JsonGrammar.tla (RFC mode, cap never reached) accepts exactly  *)
(* the strings derivable from the RFC 8259 ABNF as transcribed in JsonAbnf,  *)
(* on every string of length <= Lk over alphabet Ak (k = 1..3); a stuck PDA  *)
(* is never a JSON text (and stays stuck in all successors).                 *)
EXTENDS JsonGrammar, TLC

CONSTANTS A1, L1, A2, L2, A3, L3     \* three alphabets with their length bounds (one TLC run)

Alphabet(k) == IF k = 1 THEN A1 ELSE IF k = 2 THEN A2 ELSE A3
MaxLen(k) == IF k = 1 THEN L1 ELSE IF k = 2 THEN L2 ELSE L3

A == INSTANCE JsonAbnf

VARIABLES s, c, al
vars == <<s, c, al>>

Init == s = <<>> /\ c = CfgInit /\ al \in {1, 2, 3}
Next == /\ Len(s) < MaxLen(al)
        /\ \E b \in Alphabet(al) : s' = Append(s, b) /\ c' = StepRfc(c, b)
        /\ al' = al
Spec == Init /\ [][Next]_vars

Inv == /\ Accepting(c) <=> A!IsJsonText(s)
       /\ c[1] = "X" => ~A!IsJsonText(s)
=============================================================================
