----------------------------- MODULE WordKernels -----------------------------
(***************************************************************************)
(* C02 -- word-level bit kernels "defined by counting bits one at a time". *)
(*                                                                         *)
(* A word is a set S \subseteq 0..W-1 of set-bit positions (bit 0 = LSB).  *)
(* Part 1 is the DEFINITION of every kernel in terms of sets and           *)
(* cardinalities only.  Part 2 evaluates the same kernels on the form in   *)
(* which traces carry a word (the ascending list of set-bit positions) in  *)
(* time linear in W; MC_WordKernels checks Part 2 = Part 1 for every word  *)
(* of the scaled width, and the trace specification then uses Part 2 at    *)
(* W = 64.  For the parenthesis kernels 1 = open "(" and 0 = close ")".    *)
(***************************************************************************)
EXTENDS Integers, Sequences, FiniteSets, SequencesExt

CONSTANTS W,      \* word width in bits
          B       \* byte width in bits (divides W)

None == -1

IsWord(S) == S \subseteq 0..(W - 1)

MinOf(C) == CHOOSE m \in C : \A y \in C : m <= y

(***************************** Part 1: definitions *************************)

Popcount(S) == Cardinality(S)

\* number of set bits strictly below position p
RankIn(S, p) == Cardinality({q \in S : q < p})

\* position of the k-th (0-based) set bit; W when there are fewer than k+1 set bits
SelectInWord(S, k) ==
  IF k >= Cardinality(S) THEN W ELSE CHOOSE p \in S : RankIn(S, p) = k

\* the same as a predicate on a claimed answer r (no CHOOSE)
IsSelect(S, k, r) ==
  \/ r = W /\ k >= Cardinality(S)
  \/ r \in S /\ RankIn(S, r) = k

\* byte j of a word, as a set over 0..B-1
ByteOf(S, j) == {p - j * B : p \in {q \in S : q \div B = j}}

\* select inside one byte: position 0..B-1, or B when there are fewer than k+1 set bits
SelectInByte(T, k) ==
  IF k >= Cardinality(T) THEN B ELSE CHOOSE p \in T : RankIn(T, p) = k

RECURSIVE SumSeq(_)
SumSeq(s) == IF s = <<>> THEN 0 ELSE Head(s) + SumSeq(Tail(s))

\* total popcount of a block (sequence) of words
BlockPopcount(block) == SumSeq([i \in 1..Len(block) |-> Popcount(block[i])])

\* opens minus closes among positions a..q (inclusive)
Excess(S, a, q) == 2 * Cardinality({x \in S : a <= x /\ x <= q}) - (q - a + 1)

\* first close that has no matching open to its left inside the word; W if none
FindUnmatchedClose(S) ==
  LET C == {q \in 0..(W - 1) : Excess(S, 0, q) < 0}
  IN IF C = {} THEN W ELSE MinOf(C)

\* matching close of the open at p inside the word.  Documented contract (bp.rs):
\* p >= 64 -> None; a close at p "matches itself"; None when the match is in a later word.
FindCloseInWord(S, p) ==
  IF p >= W THEN None
  ELSE IF p \notin S THEN p
  ELSE LET C == {q \in (p + 1)..(W - 1) : Excess(S, p, q) = 0}
       IN IF C = {} THEN None ELSE MinOf(C)

\* byte-table variant used by BalancedParens::find_close: first position q in
\* start..valid-1 at which an initial excess x >= 1 has dropped to 0
FindCloseFrom(S, start, x, valid) ==
  IF start >= valid \/ x <= 0 THEN None
  ELSE LET C == {q \in start..(valid - 1) : x + Excess(S, start, q) = 0}
       IN IF C = {} THEN None ELSE MinOf(C)

(******************* Part 2: evaluation on the sorted bit list *************)

\* b is the ascending list of set-bit positions of a word
IsSortedWord(b) ==
  /\ \A i \in 1..Len(b) : b[i] \in 0..(W - 1)
  /\ \A i \in 1..(Len(b) - 1) : b[i] < b[i + 1]

SetOf(b) == {b[i] : i \in 1..Len(b)}

PopSorted(b) == Len(b)

SelSorted(b, k) == IF k >= Len(b) THEN W ELSE b[k + 1]

\* E[i+1] = opens minus closes among positions 0..i-1  (i \in 0..W)
ExcPrefix(S) ==
  FoldLeft(LAMBDA acc, i : Append(acc, acc[Len(acc)] + (IF (i - 1) \in S THEN 1 ELSE -1)),
           <<0>>, [i \in 1..W |-> i])

\* first q in lo..hi with E[q+2] = target, else None
RECURSIVE FirstLevel(_, _, _, _)
FirstLevel(E, q, hi, target) ==
  IF q > hi THEN None
  ELSE IF E[q + 2] = target THEN q
  ELSE FirstLevel(E, q + 1, hi, target)

UnmatchedFast(E) ==
  LET q == FirstLevel(E, 0, W - 1, -1) IN IF q = None THEN W ELSE q

FindCloseFast(S, E, p) ==
  IF p >= W THEN None
  ELSE IF p \notin S THEN p
  ELSE FirstLevel(E, p + 1, W - 1, E[p + 1])

FindCloseFromFast(E, start, x, valid) ==
  IF start >= valid \/ x <= 0 THEN None
  ELSE FirstLevel(E, start, valid - 1, E[start + 1] - x)

=============================================================================
