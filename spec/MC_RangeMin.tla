---------------------------- MODULE MC_RangeMin ----------------------------
(* Bounded exhaustive refinement check: RangeMinImpl (scaled) vs the          *)
(* definitional BalancedParens / BitSeq operators.  The storage is built one  *)
(* word at a time through Next steps; then a logical length (0 .. all bits,   *)
(* so stray bits in the partial word AND surplus whole words occur) and the   *)
(* storage kind (owned = final word masked in place, borrowed) are drawn.     *)
(* The invariant compares every operation at every position / index, for      *)
(* every CsPoppy sample rate in Rates, and checks that the find_close_from     *)
(* automaton terminates within its fuel with a strictly decreasing measure.    *)
EXTENDS RangeMinImpl, BalancedParens, TLC

CONSTANTS MaxWords, Rates

VARIABLES raw, len, owned, phase

vars == <<raw, len, owned, phase>>

AllWords == [1..W -> {0, 1}]

Init == raw = <<>> /\ len = 0 /\ owned = FALSE /\ phase = "words"

AddWord == /\ phase = "words"
           /\ Len(raw) < W * MaxWords
           /\ \E w \in AllWords : raw' = raw \o w
           /\ UNCHANGED <<len, owned, phase>>

Finish == /\ phase = "words"
          /\ \E l \in 0..Len(raw), o \in BOOLEAN : len' = l /\ owned' = o
          /\ phase' = "built"
          /\ UNCHANGED raw

Next == AddWord \/ Finish

Spec == Init /\ [][Next]_vars

\* number of words the logical length needs / surplus whole words / their 1-bits
UsedWords(l) == CeilDiv(l, W)
SurplusWords(m, l) == NWords(m) - UsedWords(l)
SurplusOnes(m, l) == SumPop(m, UsedWords(l), NWords(m))

Navigation(m, bits, l) ==
  \A p \in 0..(Len(m) + 2) :
     /\ LET fc == IF p + 1 >= l \/ p >= l \/ IIsClose(m, l, p) THEN <<None, 0, TRUE>>
                  ELSE FindCloseFrom(m, l, p + 1, 1)
        IN /\ fc[3]                                   \* progress measure respected, fuel not exhausted
           /\ fc[1] # Stuck
     /\ IFindClose(m, l, p) = FindClose(bits, p)
     /\ IFindOpen(m, l, p) = FindOpen(bits, p)
     /\ IEnclose(m, l, p) = Enclose(bits, p)
     /\ IFirstChild(m, l, p) = FirstChild(bits, p)
     /\ INextSibling(m, l, p) = NextSibling(bits, p)
     /\ ISubtreeSize(m, l, p) = SubtreeSize(bits, p)
     /\ IRank1(m, l, p) = Rank1(bits, p)
     /\ IRank0(m, l, p) = Rank0(bits, p)
     /\ IIsOpen(m, l, p) = IsOpen(bits, p)
     /\ IIsClose(m, l, p) = IsClose(bits, p)
     /\ (p < l => IExcess(m, l, p) = Excess(bits, p))
     /\ ((p >= l \/ Excess(bits, p) >= 0) => IDepth(m, l, p) = Depth(bits, p))

\* free functions on the caller's (never masked) storage.  find_close has the known defect
\* (known_findings.d/C04.json): with surplus whole words and len % W # 0 the word loop
\* underflows `len - word_idx * W`; everywhere else it must agree.
FreeFunctions(rw, bits, l) ==
  \A p \in 0..(Len(rw) + 2) :
     /\ FFindOpen(rw, l, p) = FindOpen(bits, p)
     /\ FEnclose(rw, l, p) = Enclose(bits, p)
     /\ \/ FFindClose(rw, l, p) = FindClose(bits, p)
        \/ /\ FFindClose(rw, l, p) = Panic
           /\ SurplusWords(rw, l) > 0
           /\ l % W # 0
     /\ (SurplusWords(rw, l) = 0 \/ l % W = 0) => FFindClose(rw, l, p) # Panic

\* total_ones / total_zeros / select0.  build_bp_index counts EVERY word of the storage and
\* masks only the last word of the slice, so 1-bits past len are counted unless they sit in
\* the masked top part of the LAST storage word: exact whenever there are no surplus whole
\* words; otherwise total_ones is inflated by exactly Inflation -- finding F6, stated here as
\* the model's characterisation of the code (known_findings.d/C04.json).
PastOnes(m, l) == CountOnes(SubSeq(m, l + 1, Len(m)))
Inflation(m, l) ==
  IF l = 0 \/ NWords(m) = 0 THEN 0
  ELSE IF l % W = 0 THEN PastOnes(m, l)
  ELSE PastOnes(m, l) - CountOnes(SubSeq(m, Len(m) - W + (l % W) + 1, Len(m)))

Counting(m, bits, l) ==
  /\ TotalOnes(m, l) = CountOnes(bits) + Inflation(m, l)
  /\ (SurplusWords(m, l) = 0 => Inflation(m, l) = 0)
  /\ Inflation(m, l) = 0 =>
        /\ ITotalZeros(m, l) = CountZeros(bits)
        /\ \A k \in 0..(l + 1) : ISelect0(m, l, k) = Select0(bits, k)

\* select1 must be right even when total_ones is inflated (the `result < len` backstop)
Selecting(m, bits, l) ==
  \A k \in 0..(Len(m) + 1) :
     /\ ISelect1WS(m, l, k) = Select1(bits, k)
     /\ \A r \in Rates : ISelect1CS(m, l, r, k) = Select1(bits, k)

Kernels ==
  \A j \in 0..(NWords(raw) - 1) :
     LET w == Word(raw, j)
     IN /\ IFindUnmatchedClose(w) = FindUnmatchedClose(w)
        /\ \A p \in 0..(W + 1) : IFindCloseInWord(w, p) = FindCloseInWord(w, p)

BpRefines ==
  LET m == Stored(raw, len, owned)
      bits == Take(raw, len)
  IN /\ Navigation(m, bits, len)
     /\ FreeFunctions(raw, bits, len)
     /\ Counting(m, bits, len)
     /\ Selecting(m, bits, len)
     /\ Kernels

Inv == phase = "built" => BpRefines
=============================================================================
