----------------------------- MODULE MC_BitVec -----------------------------
(* Bounded exhaustive refinement check: BitVecImpl (scaled) vs BitSeq.       *)
(* The vector is built through Next steps (one word at a time) so that TLC's *)
(* workers share the enumeration; then a length and a sample rate are drawn. *)
EXTENDS BitVecImpl, TLC

CONSTANTS MaxWords, Rates

VARIABLES raw, len, rate, phase

vars == <<raw, len, rate, phase>>

AllWords == [1..W -> {0, 1}]

Init == raw = <<>> /\ len = 0 /\ rate = 0 /\ phase = "words"

AddWord == /\ phase = "words"
           /\ Len(raw) < W * MaxWords
           /\ \E w \in AllWords : raw' = raw \o w
           /\ UNCHANGED <<len, rate, phase>>

Finish == /\ phase = "words"
          /\ \E l \in 0..Len(raw), r \in Rates :
                len' = l /\ rate' = r
          /\ phase' = "built"
          /\ UNCHANGED raw

Next == AddWord \/ Finish

Spec == Init /\ [][Next]_vars

Inv == phase = "built" => Refines(raw, len, rate) /\ SampleInv(raw, len, rate)
=============================================================================
