------------------------- MODULE PositionTablesImpl -------------------------
(***************************************************************************)
(* Implementation-shaped specification of the two YAML position tables     *)
(*   OpenPositions / AdvancePositions   (src/yaml/advance_positions.rs)    *)
(*   EndPositions  / CompactEndPositions (src/yaml/end_positions.rs)       *)
(* with SCALED constants, one operator per code function:                  *)
(*                                                                         *)
(*   W        bits per word                 (code: 64)                     *)
(*   R        select sample rate            (code: SELECT_SAMPLE_RATE=256) *)
(*   IBExtra  0: the open table sizes its IB bitmap text_len.div_ceil(W)   *)
(*               words, AS THE CODE DOES;                                  *)
(*            1: (text_len + 1).div_ceil(W) words -- the proposed repair   *)
(*               (what CompactEndPositions::try_build already does).       *)
(*                                                                         *)
(* kind = "open" | "end" selects the table.  A built table is a record     *)
(*   [compact, dense, nopens, ib, ibones, samples, adv, advrank]           *)
(* where ib / adv are flat bit sequences (W bits per word), advrank the    *)
(* cumulative popcount per advance word, samples the select samples, and   *)
(* dense the Vec<u32> of the Dense variant.  A cursor is the code's        *)
(* SequentialCursor                                                        *)
(*   [noi, adv, wi, ob, la, lr] = (next_open_idx, adv_cumulative,          *)
(*      ib_word_idx, ib_ones_before, last_ib_arg (-1 = usize::MAX),        *)
(*      last_ib_result).                                                   *)
(* The three arms of `get` are three operators (GetSeqArm, GetGapArm,      *)
(* GetBackArm) so that a model can make them three actions.                *)
(***************************************************************************)
EXTENDS Integers, Sequences, SequencesExt, BitSeq

CONSTANTS W, R, IBExtra

Panic == -2                       \* usize underflow / index out of bounds in the code

CeilDiv(a, b) == (a + b - 1) \div b

NWords(bits) == Len(bits) \div W
Word(bits, j) == SubSeq(bits, j * W + 1, (j + 1) * W)
Pop(w) == CountOnes(w)
Zeros(n) == [i \in 1..n |-> 0]

\* select_in_word(word, r): position of the r-th set bit (only called when it exists)
SelectInWord(w, r) == LET p == Select1(w, r) IN IF p = None THEN W ELSE p

\* word & ((1 << bit) - 1)  /  word & !((1 << bit) - 1)
MaskBelow(w, bit) == [b \in 1..W |-> IF b <= bit THEN w[b] ELSE 0]
MaskFrom(w, bit) == [b \in 1..W |-> IF b <= bit THEN 0 ELSE w[b]]

(***************************************************************************)
(* build_cumulative_rank: entry j (0-based; element j+1) = ones in words   *)
(* [0, j).                                                                 *)
(***************************************************************************)
RECURSIVE CumRank(_, _, _, _)
CumRank(bits, j, cum, acc) ==
  IF j >= NWords(bits) THEN acc
  ELSE LET c == cum + Pop(Word(bits, j)) IN CumRank(bits, j + 1, c, Append(acc, c))

BuildCumulativeRank(bits) == CumRank(bits, 0, 0, <<0>>)

(***************************************************************************)
(* build_select_samples(words, total_ones)                                 *)
(***************************************************************************)
RECURSIVE SampleWord(_, _, _, _, _, _)
\* the inner `while sample_target < ones_seen + word_ones` loop for one word;
\* returns <<samples, sample_target, done>>
SampleWord(word, widx, seen, target, samples, num) ==
  IF target < seen + Pop(word)
  THEN LET s2 == Append(samples, widx * W + SelectInWord(word, target - seen))
       IN IF Len(s2) >= num THEN <<s2, target + R, TRUE>>
          ELSE SampleWord(word, widx, seen, target + R, s2, num)
  ELSE <<samples, target, FALSE>>

RECURSIVE SampleScan(_, _, _, _, _, _)
SampleScan(bits, widx, seen, target, samples, num) ==
  IF widx >= NWords(bits) THEN samples
  ELSE LET word == Word(bits, widx)
       IN IF Pop(word) = 0 THEN SampleScan(bits, widx + 1, seen, target, samples, num)
          ELSE LET r == SampleWord(word, widx, seen, target, samples, num)
               IN IF r[3] THEN r[1]
                  ELSE SampleScan(bits, widx + 1, seen + Pop(word), r[2], r[1], num)

BuildSelectSamples(bits, total) ==
  IF total = 0 THEN <<>> ELSE SampleScan(bits, 0, 0, 0, <<>>, CeilDiv(total, R))

(***************************************************************************)
(* Construction.                                                           *)
(***************************************************************************)
IBWordsFor(kind, tl) ==
  IF kind = "open" THEN CeilDiv(tl + IBExtra, W)     \* advance_positions.rs: text_len.div_ceil(64)
  ELSE CeilDiv(tl + 1, W)                            \* end_positions.rs: (text_len + 1).div_ceil(64)

\* OpenPositions::build: positions.windows(2).all(|w| w[0] <= w[1])
OpenMonotone(pos) == \A j \in 1..(Len(pos) - 1) : pos[j] <= pos[j + 1]

PadToWords(bits) == bits \o Zeros(CeilDiv(Len(bits), W) * W - Len(bits))

\* one iteration of the bitmap loop shared by build_unchecked and try_build, for an
\* effective position p that is "new" (differs from the previous effective one)
SetNew(acc, p, nw) ==
  LET fits == p \div W < nw
      fresh == fits /\ acc.ib[p + 1] = 0
  IN [acc EXCEPT !.ib = IF fresh THEN [acc.ib EXCEPT ![p + 1] = 1] ELSE acc.ib,
                 !.ones = IF fresh THEN acc.ones + 1 ELSE acc.ones,
                 !.adv = Append(acc.adv, 1),
                 !.prev = p]

\* AdvancePositions::build_unchecked (prev = -1 stands for None)
OpenLoop(pos, nw) ==
  FoldLeft(LAMBDA acc, p :
             IF acc.prev # p THEN SetNew(acc, p, nw)
             ELSE [acc EXCEPT !.adv = Append(acc.adv, 0), !.prev = p],
           [ib |-> Zeros(W * nw), ones |-> 0, adv |-> <<>>, prev |-> -1, pnz |-> 0, ok |-> TRUE],
           pos)

\* CompactEndPositions::try_build: inline zero-fill + monotonicity check of the non-zero
\* entries; ok = FALSE is the `return None` (Dense fallback)
EndLoop(pos, nw) ==
  FoldLeft(LAMBDA acc, p :
             IF ~acc.ok THEN acc
             ELSE IF p > 0 /\ acc.pnz > 0 /\ p < acc.pnz THEN [acc EXCEPT !.ok = FALSE]
             ELSE LET pnz == IF p > 0 THEN p ELSE acc.pnz
                      eff == pnz
                      a1 == [acc EXCEPT !.pnz = pnz]
                  IN IF eff = 0 THEN [a1 EXCEPT !.adv = Append(a1.adv, 0), !.prev = 0]
                     ELSE IF a1.prev # eff THEN SetNew(a1, eff, nw)
                     ELSE [a1 EXCEPT !.adv = Append(a1.adv, 0), !.prev = eff],
           [ib |-> Zeros(W * nw), ones |-> 0, adv |-> <<>>, prev |-> -1, pnz |-> 0, ok |-> TRUE],
           pos)

EmptyTab ==
  [compact |-> TRUE, dense |-> <<>>, nopens |-> 0, ib |-> <<>>, ibones |-> 0,
   samples |-> <<>>, adv |-> <<>>, advrank |-> <<0>>]

DenseTab(pos) == [EmptyTab EXCEPT !.compact = FALSE, !.dense = pos, !.nopens = Len(pos)]

CompactTab(acc, n) ==
  LET adv == PadToWords(acc.adv)
  IN [compact |-> TRUE, dense |-> <<>>, nopens |-> n, ib |-> acc.ib, ibones |-> acc.ones,
      samples |-> BuildSelectSamples(acc.ib, acc.ones),
      adv |-> adv, advrank |-> BuildCumulativeRank(adv)]

\* OpenPositions::build / EndPositions::build
BuildTab(kind, pos, tl) ==
  IF kind = "open"
  THEN IF ~OpenMonotone(pos) THEN DenseTab(pos)
       ELSE IF Len(pos) = 0 THEN EmptyTab
       ELSE CompactTab(OpenLoop(pos, IBWordsFor(kind, tl)), Len(pos))
  ELSE IF Len(pos) = 0 THEN EmptyTab
       ELSE LET acc == EndLoop(pos, IBWordsFor(kind, tl))
            IN IF ~acc.ok THEN DenseTab(pos)
               ELSE IF acc.ones = 0 THEN EmptyTab        \* all zero: Self::empty(text_len)
               ELSE CompactTab(acc, Len(pos))

(***************************************************************************)
(* Queries on a compact table.                                             *)
(***************************************************************************)
\* advance_rank1(pos)
AdvanceRank1(t, pos) ==
  IF pos = 0 THEN 0
  ELSE LET wi == pos \div W
           bi == pos % W
           nw == NWords(t.adv)
           base == t.advrank[(IF wi < nw THEN wi ELSE nw) + 1]
       IN IF wi < nw /\ bi > 0 THEN base + Pop(MaskBelow(Word(t.adv, wi), bi)) ELSE base

NoSel == <<-1, -1, -1>>

RECURSIVE SelScan(_, _, _, _, _, _, _)
SelScan(t, start, has, boff, wi, rem, ob) ==
  IF wi >= NWords(t.ib) THEN NoSel
  ELSE LET full == Word(t.ib, wi)
           word == IF wi = start /\ has THEN MaskFrom(full, boff) ELSE full
           ones == Pop(word)
       IN IF ones > rem THEN <<wi * W + SelectInWord(word, rem), wi, ob>>
          ELSE SelScan(t, start, has, boff, wi + 1, rem - ones, ob + Pop(full))

\* ib_select1_with_state(k) -> <<pos, word_idx, ones_before>> or NoSel
IbSelect1WithState(t, k) ==
  IF k >= t.ibones THEN NoSel
  ELSE LET sidx == k \div R
           has == sidx < Len(t.samples)
           sp == IF has THEN t.samples[sidx + 1] ELSE 0
           skip == sidx * R
           sw == IF has THEN sp \div W ELSE 0
           boff == sp % W
           prefix == IF has THEN Pop(MaskBelow(Word(t.ib, sw), boff)) ELSE 0
       IN IF has THEN SelScan(t, sw, TRUE, boff, sw, k - skip, skip - prefix)
          ELSE SelScan(t, 0, FALSE, 0, 0, k, 0)

NoWord == <<-1, -1>>

\* bits::scan_select(words, start_word, remaining) -- the contract of the block-skipping
\* scan (its three phases are specified and checked against this in C01, BitVecImpl)
RECURSIVE ScanSelect(_, _, _)
ScanSelect(bits, wi, rem) ==
  IF wi >= NWords(bits) THEN NoWord
  ELSE LET pop == Pop(Word(bits, wi))
       IN IF pop > rem THEN <<wi, rem>> ELSE ScanSelect(bits, wi + 1, rem - pop)

Cursor0 == [noi |-> 0, adv |-> 0, wi |-> 0, ob |-> 0, la |-> -1, lr |-> 0]

\* get_sequential(open_idx, cursor): `stored` is what self.cursor holds, `c` the working
\* copy; result [r |-> answer, c |-> what self.cursor holds afterwards]
GetSequential(t, i, stored, c) ==
  IF i >= t.nopens THEN [r |-> None, c |-> stored]                 \* returns before cursor.set
  ELSE LET advbit == IF i \div W < NWords(t.adv) THEN t.adv[i + 1] ELSE 0
           ac == c.adv + advbit
           c1 == [c EXCEPT !.adv = ac, !.noi = i + 1]
       IN IF ac = 0 THEN [r |-> None, c |-> c1]
          ELSE LET k == ac - 1
               IN IF k = c1.la THEN [r |-> c1.lr, c |-> c1]
                  ELSE IF k < c1.ob THEN [r |-> Panic, c |-> stored]   \* k - ib_ones_before underflows
                  ELSE LET sc == ScanSelect(t.ib, c1.wi, k - c1.ob)
                       IN IF sc = NoWord THEN [r |-> None, c |-> c1]
                          ELSE LET res == sc[1] * W + SelectInWord(Word(t.ib, sc[1]), sc[2])
                               IN [r |-> res,
                                   c |-> [c1 EXCEPT !.ob = k - sc[2], !.wi = sc[1],
                                                    !.la = k, !.lr = res]]

\* advance_cursor_to(cursor, target)
AdvanceCursorTo(t, c, target) == [c EXCEPT !.adv = AdvanceRank1(t, target), !.noi = target]

\* get_random(open_idx)
GetRandom(t, i, stored) ==
  IF i >= t.nopens THEN [r |-> None, c |-> stored]
  ELSE LET ac == AdvanceRank1(t, i + 1)
           sel == IF ac = 0 THEN NoSel ELSE IbSelect1WithState(t, ac - 1)
       IN IF sel = NoSel
          THEN [r |-> None, c |-> [noi |-> i + 1, adv |-> ac, wi |-> 0, ob |-> 0, la |-> -1, lr |-> 0]]
          ELSE [r |-> sel[1],
                c |-> [noi |-> i + 1, adv |-> ac, wi |-> sel[2], ob |-> sel[3],
                       la |-> ac - 1, lr |-> sel[1]]]

\* the three arms of `get` (guards as in the code)
SeqGuard(c, i) == i = c.noi
GapGuard(c, i) == i > c.noi
BackGuard(c, i) == i < c.noi

GetSeqArm(t, i, c) == GetSequential(t, i, c, c)
GetGapArm(t, i, c) == GetSequential(t, i, c, AdvanceCursorTo(t, c, i))
GetBackArm(t, i, c) == GetRandom(t, i, c)

\* Dense variants: v.get(i).copied()  /  v.get(i).filter(|&p| p > 0)
DenseGet(kind, t, i) ==
  IF i < 0 \/ i >= Len(t.dense) THEN None
  ELSE IF kind = "end" /\ t.dense[i + 1] = 0 THEN None
  ELSE t.dense[i + 1]

(***************************************************************************)
(* Invariants stated in the code comments (SequentialCursor doc comment,   *)
(* get_sequential, get_random) -- in terms of the definitional BitSeq      *)
(* operators on the built bitmaps.                                         *)
(***************************************************************************)
CursorInv(t, c) ==
  /\ c.noi >= 0 /\ c.noi <= t.nopens
  /\ c.adv = Rank1(t.adv, c.noi)                       \* adv_cumulative = advance_rank1(next_open_idx)
  /\ c.wi >= 0 /\ c.ob = Rank1(t.ib, W * c.wi)         \* ones in ib_words[0..ib_word_idx)
  /\ c.la # -1 => c.la >= 0 /\ c.lr = Select1(t.ib, c.la)   \* cached select is exact
  /\ c.la # -1 => c.la < c.adv                         \* cache never ahead of the advance rank
  /\ c.la # -1 => c.wi = c.lr \div W                   \* scan resumes in the word of the cached bit

\* structural facts of a compact table
TabInv(t) ==
  t.compact /\ t.nopens > 0 =>
    /\ t.ibones = CountOnes(t.ib)
    /\ \A j \in 0..NWords(t.adv) : t.advrank[j + 1] = Rank1(t.adv, j * W)
    /\ Len(t.samples) = CeilDiv(t.ibones, R)
    /\ \A j \in 1..Len(t.samples) : t.samples[j] = Select1(t.ib, (j - 1) * R)
    /\ \A p \in 0..(t.nopens + W) : AdvanceRank1(t, p) = Rank1(t.adv, p)
    /\ \A k \in 0..(t.ibones + 1) :
          LET s == IbSelect1WithState(t, k)
          IN IF k >= t.ibones THEN s = NoSel
             ELSE s[1] = Select1(t.ib, k) /\ s[2] = s[1] \div W /\ s[3] = Rank1(t.ib, W * s[2])

(***************************************************************************)
(* The "sorted list of distinct positions" evaluation used by trace        *)
(* validation (cost independent of the text length), and the statement     *)
(* that it equals the bitmap definitions above -- checked by the model.    *)
(***************************************************************************)
\* (constructed with SelectSeq, which TLC evaluates in linear time, so that a table of 20 000
\* nodes costs nothing noticeable)
Idx(n) == [j \in 1..n |-> j]
Force(f) == SelectSeq(f, LAMBDA v : TRUE)          \* evaluate a function over 1..n into a tuple

\* 1-based indices of the nodes whose advance bit is set, ascending.  Open table: the node's
\* position differs from its predecessor's.  End table (zero-filled): the node has an end and
\* it differs from the most recent earlier end.
AdvIdx(kind, pos) ==
  IF kind = "open"
  THEN SelectSeq(Idx(Len(pos)), LAMBDA j : j = 1 \/ pos[j - 1] # pos[j])
  ELSE LET nz == SelectSeq(Idx(Len(pos)), LAMBDA j : pos[j] # 0)
           am == SelectSeq(Idx(Len(nz)), LAMBDA m : m = 1 \/ pos[nz[m - 1]] # pos[nz[m]])
       IN Force([t \in 1..Len(am) |-> nz[am[t]]])

\* the distinct positions, in node order (ascending for a compact table) = the IB bits
UniqAt(pos, ai) == Force([m \in 1..Len(ai) |-> pos[ai[m]]])

\* number of entries of the ascending sequence u that are < x (binary search)
RECURSIVE CountBelowIn(_, _, _, _)
CountBelowIn(u, x, lo, hi) ==      \* answer lies in lo..hi
  IF lo >= hi THEN lo
  ELSE LET mid == (lo + hi) \div 2       \* entries 1..mid
       IN IF u[mid + 1] < x THEN CountBelowIn(u, x, mid + 1, hi) ELSE CountBelowIn(u, x, lo, mid)
CountBelow(u, x) == CountBelowIn(u, x, 0, Len(u))

\* the cursor invariants of the code comments, evaluated on (uniq, ai) instead of bitmaps:
\*   Rank1(advance, n) = number of advance nodes among the first n = CountBelow(ai, n + 1)
\*   Rank1(ib, p)      = CountBelow(uniq, p)          Select1(ib, k) = uniq[k + 1]
\* WW is the word size of the observed implementation (64)
ListCursorInv(uniq, ai, n, WW, c) ==
  /\ c.noi >= 0 /\ c.noi <= n
  /\ c.adv = CountBelow(ai, c.noi + 1)
  /\ c.wi >= 0 /\ c.ob = CountBelow(uniq, WW * c.wi)
  /\ c.la # -1 => c.la >= 0 /\ c.la < Len(uniq) /\ c.lr = uniq[c.la + 1]
  /\ c.la # -1 => c.la < c.adv
  /\ c.la # -1 => c.wi = c.lr \div WW

\* ListCursorInv = CursorInv on every compact table whose positions all fit the bitmap
ListFormAgrees(kind, pos, t, c) ==
  LET ai == AdvIdx(kind, pos)
      u == UniqAt(pos, ai)
  IN (t.compact /\ t.nopens > 0 /\ t.ibones = Len(u)) =>
        (CursorInv(t, c) <=> ListCursorInv(u, ai, t.nopens, W, c))
=============================================================================
