CONSTANTS
  Alphabet = {0, 10, 127, 128, 143, 144, 159, 160, 191, 192, 193, 194, 223, 224, 225, 237, 238, 239, 240, 241, 244, 245, 247, 248, 255}
  MaxLen = 4
  Scalars = "all"
SPECIFICATION Spec
INVARIANT StrInv
INVARIANT EdgeInv
INVARIANT RowInv
CHECK_DEADLOCK FALSE
