---------------------------- MODULE Trace_Binary ----------------------------
(* Trace validation for C31: recorded calls of succinctly::binary.           *)
(*  w2b : words (each a list of set-bit positions) -> bytes                  *)
(*        {"e":"w2b","words":[[..]..],"bytes":[..],"r":#bytes}               *)
(*  b2w : a byte slice of length n taken at byte offset `off` (0..7) of an   *)
(*        8-aligned buffer, through api in {bytes_to_words,                  *)
(*        bytes_to_words_vec, try_bytes_to_words, semi_from_bytes}:          *)
(*        {"e":"b2w","api":..,"off":..,"n":..,"bytes":[..],"r":#words | -1   *)
(*         (None) | -2 (panic),"words":[[..]..]}                             *)
(*        `off` is logged and NEVER consulted: alignment independence.       *)
(*  same: harness-side comparison of a rebuilt structure with its original   *)
(*        over n queries, r = number of equal answers                        *)
EXTENDS TraceBase, Binary

VARIABLES l
vars == <<l>>

Panic == -2

SetOf(s) == {s[i] : i \in 1..Len(s)}
WordsOf(ws) == [k \in 1..Len(ws) |-> SetOf(ws[k])]

W2B(e) ==
  /\ e.e = "w2b"
  /\ e.bytes = WordsToBytes(WordsOf(e.words))
  /\ e.r = Len(e.bytes)

B2W(e) ==
  /\ e.e = "b2w"
  /\ Len(e.bytes) = e.n
  /\ IF Try(e.bytes).none
     THEN \* documented contract: the fallible form answers None, the others panic
          e.r = (IF e.api = "try_bytes_to_words" THEN None ELSE Panic)
     ELSE /\ e.r = e.n \div 8
          /\ WordsOf(e.words) = Try(e.bytes).words

Same(e) ==
  /\ e.e = "same"
  /\ e.r = e.n

Init == l = 1
Next == /\ l <= NRec
        /\ LET e == Rec[l] IN W2B(e) \/ B2W(e) \/ Same(e)
        /\ l' = l + 1
Spec == Init /\ [][Next]_vars
=============================================================================
