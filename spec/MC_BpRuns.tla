----------------------------- MODULE MC_BpRuns -----------------------------
(* Exhaustive small-scope check that (a) the run-length operators of BpRuns  *)
(* equal the definitional operators of BalancedParens on the first `len`     *)
(* expanded bits, for every run list (adjacent equal-bit runs allowed), every *)
(* logical length (stray bits past len included) and every position          *)
(* -1 .. len+1; (b) the scan definitions satisfy their textbook              *)
(* characterisations (BalancedParens!Characterised).                          *)
EXTENDS BpRuns, BalancedParens, TLC

CONSTANTS MaxRuns, MaxRun

VARIABLES rl, len

Pairs == {<<b, n>> : b \in {0, 1}, n \in 1..MaxRun}

Init == rl = <<>> /\ len = 0
Next == \/ /\ Len(rl) < MaxRuns
           /\ \E p \in Pairs : rl' = Append(rl, p)
           /\ len' = 0
        \/ /\ len = 0
           /\ \E l \in 1..(Tab(rl).tot + 1) : len' = l
           /\ UNCHANGED rl

Agree ==
  LET t == Tab(rl)
      bits == Take(Expand(rl), len)
      L == Len(bits)
  IN /\ Characterised(bits)
     /\ \A p \in -1..(L + 1) :
          /\ RFindClose(t, len, p) = FindClose(bits, p)
          /\ RFindOpen(t, len, p) = FindOpen(bits, p)
          /\ REnclose(t, len, p) = Enclose(bits, p)
          /\ RFirstChild(t, len, p) = FirstChild(bits, p)
          /\ RNextSibling(t, len, p) = NextSibling(bits, p)
          /\ RDepth(t, len, p) = Depth(bits, p)
          /\ RSubtreeSize(t, len, p) = SubtreeSize(bits, p)
          /\ RIsOpen(t, len, p) = IsOpen(bits, p)
          /\ RIsClose(t, len, p) = IsClose(bits, p)
          /\ (InRange(bits, p) => RExcess(t, len, p) = Excess(bits, p))
     \* in-word kernels: the whole run list is the "word"
     /\ Len(rl) > 0 =>
          LET w == Expand(rl) IN
          /\ RFindUnmatchedClose(rl, Len(w)) = FindUnmatchedClose(w)
          /\ \A p \in -1..(Len(w) + 1) : RFindCloseInWord(rl, Len(w), p) = FindCloseInWord(w, p)
=============================================================================
