CONSTANTS MaxLen = 7
SPECIFICATION Spec
INVARIANT Inv
CHECK_DEADLOCK FALSE
