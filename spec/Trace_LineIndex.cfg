CONSTANTS CAP = 16
SPECIFICATION Spec
POSTCONDITION Verdict
CHECK_DEADLOCK FALSE
