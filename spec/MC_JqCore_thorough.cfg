CONSTANTS Deep = FALSE  Small = FALSE
SPECIFICATION Spec
INVARIANT Inv
CHECK_DEADLOCK FALSE
