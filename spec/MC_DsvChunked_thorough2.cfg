CONSTANTS W = 3  MaxLen = 8
SPECIFICATION Spec
INVARIANT Inv
CHECK_DEADLOCK FALSE
