SPECIFICATION Spec
CONSTANTS
  MaxNodes = 3
  MaxGap = 1
  KeyCps <- KeysAB
  Yaml = TRUE
  AllowDup = FALSE
INVARIANTS InvLayout InvUnique InvInnermost InvPath InvReach
CHECK_DEADLOCK FALSE
