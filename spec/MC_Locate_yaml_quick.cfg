SPECIFICATION Spec
CONSTANTS
  MaxNodes = 3
  MaxGap = 1
  KeyCps <- KeysAB
  Yaml = TRUE
  ImplMutant = "none"
  AllowDup = FALSE
INVARIANTS InvLayout InvUnique InvInnermost InvPath InvReach
CHECK_DEADLOCK FALSE
