CONSTANTS SeedNames = {"json", "yamlblock", "yamldocs", "yamlmerge", "dsv", "jq", "yamlflow"}  MaxSteps = 6  SwapSpan = 0
SPECIFICATION SimSpec
INVARIANT Emit
CHECK_DEADLOCK FALSE
