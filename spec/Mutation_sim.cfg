CONSTANTS SeedNames = {"json", "yamlblock", "yamldocs", "yamlmerge", "dsv", "jq", "yamlflow"}  MaxSteps = 6  SwapSpan = 0
SPECIFICATION Spec
INVARIANT Emit
CHECK_DEADLOCK FALSE
