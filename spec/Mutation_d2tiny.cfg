CONSTANTS SeedNames = {"tiny"}  MaxSteps = 2  SwapSpan = 0
SPECIFICATION Spec
INVARIANT Emit
CHECK_DEADLOCK FALSE
