------------------------------- MODULE JsonDoc -------------------------------
(***************************************************************************)
(* C06 -- what navigating a JSON index must reproduce.                     *)
(*                                                                         *)
(* A JSON document is an ORDERED TAGGED TREE with token spans:             *)
(*   [t |-> "obj", s, e, kv |-> << <<key, value>>, ... >>]  key is a "str" *)
(*   [t |-> "arr", s, e, v  |-> << value, ... >>]                          *)
(*   [t |-> "str", s, e, cp |-> <<code points>>]                           *)
(*   [t |-> "num", s, e, lit |-> "literal text", atom |-> "f64 bits hex"]  *)
(*   [t |-> "true" | "false" | "null", s, e]                               *)
(* s/e = byte span [s, e) of the token (scalars) or of the bracketed text  *)
(* (containers) in the source.  Duplicated keys are kept, in source order. *)
(*                                                                         *)
(* The index exposes the tree in which an object's children are            *)
(* key, value, key, value, ... (a key is a node of its own).  Preorder()   *)
(* lists that tree in document order; node identity = preorder number      *)
(* (0-based; the root is 0) -- in the code this is bp().rank1(bp_pos).     *)
(* A flat node is the tree node plus                                       *)
(*   d depth (root 0), p parent's number (None for the root),              *)
(*   z number of nodes of its subtree including itself.                    *)
(*                                                                         *)
(* The CURSOR MACHINE has one variable `at` (preorder number, or None      *)
(* before Root); each action is one public method of JsonCursor /          *)
(* StandardJson / JsonFields / JsonElements.  Moves that answer None leave *)
(* the cursor where it is (the code returns Option<cursor>).               *)
(***************************************************************************)
EXTENDS Integers, Sequences

None == -1

VARIABLE at

----------------------------------------------------------------------------
(* nested tree -> children as the index sees them *)

RECURSIVE KVSeq(_)
KVSeq(kv) == IF kv = <<>> THEN <<>> ELSE <<kv[1][1], kv[1][2]>> \o KVSeq(Tail(kv))

Kids(t) == CASE t.t = "arr" -> t.v
             [] t.t = "obj" -> KVSeq(t.kv)
             [] OTHER -> <<>>

NodeRec(t, d, p, z) ==
  CASE t.t = "str" -> [t |-> "str", d |-> d, p |-> p, z |-> z, s |-> t.s, e |-> t.e, cp |-> t.cp]
    [] t.t = "num" -> [t |-> "num", d |-> d, p |-> p, z |-> z, s |-> t.s, e |-> t.e,
                       lit |-> t.lit, atom |-> t.atom]
    [] OTHER -> [t |-> t.t, d |-> d, p |-> p, z |-> z, s |-> t.s, e |-> t.e]

RECURSIVE Pre(_, _, _, _), PreKids(_, _, _, _)
\* preorder listing of the subtree t whose root gets number `n`
Pre(t, d, p, n) ==
  LET sub == PreKids(Kids(t), d + 1, n, n + 1)
  IN <<NodeRec(t, d, p, 1 + Len(sub))>> \o sub
PreKids(ks, d, p, n) ==
  IF ks = <<>> THEN <<>>
  ELSE LET h == Pre(Head(ks), d, p, n) IN h \o PreKids(Tail(ks), d, p, n + Len(h))

Preorder(tree) == Pre(tree, 0, None, 0)

----------------------------------------------------------------------------
(* navigation on a preorder listing N (sequence of flat nodes, ids 0-based) *)

Nd(N, n) == N[n + 1]
IsNode(N, n) == n >= 0 /\ n < Len(N)

FirstChild(N, n) == IF Nd(N, n).z > 1 THEN n + 1 ELSE None

NextSibling(N, n) ==
  LET m == n + Nd(N, n).z
  IN IF m < Len(N) /\ Nd(N, m).p = Nd(N, n).p THEN m ELSE None

Parent(N, n) == Nd(N, n).p

RECURSIVE Chain(_, _)
\* a node and its following siblings, in order
Chain(N, c) == IF c = None THEN <<>> ELSE <<c>> \o Chain(N, NextSibling(N, c))

Children(N, n) == Chain(N, FirstChild(N, n))

RECURSIVE Pairs(_)
Pairs(ch) == IF Len(ch) < 2 THEN <<>> ELSE << <<ch[1], ch[2]>> >> \o Pairs(SubSeq(ch, 3, Len(ch)))

\* object fields as <<key id, value id>>, source order, duplicates kept
Fields(N, n) == Pairs(Children(N, n))

KindCode(t) == CASE t = "null" -> 0 [] t = "false" -> 1 [] t = "true" -> 2 [] t = "num" -> 3
                 [] t = "str" -> 4 [] t = "arr" -> 5 [] t = "obj" -> 6 [] OTHER -> 99
Kind(N, n) == IF n = None THEN None ELSE IF ~IsNode(N, n) THEN 98 ELSE KindCode(Nd(N, n).t)

\* i-th element (0-based); i < 0 stands for an index >= 2^30
GetAt(N, n, i) ==
  LET ch == Children(N, n) IN IF i >= 0 /\ i < Len(ch) THEN ch[i + 1] ELSE None

RECURSIVE LastMatch(_, _, _, _)
LastMatch(N, fs, name, acc) ==
  IF fs = <<>> THEN acc
  ELSE LastMatch(N, Tail(fs), name, IF Nd(N, fs[1][1]).cp = name THEN fs[1][2] ELSE acc)

\* value of the LAST field whose key decodes to `name`
FindIn(N, n, name) == LastMatch(N, Fields(N, n), name, None)

----------------------------------------------------------------------------
(* the cursor machine: `r` is the answer the method gives *)

MoveTo(r) == at' = IF r = None THEN at ELSE r

Root(N, r)        == r = 0 /\ at' = 0
DoFirstChild(N, r)  == at # None /\ r = FirstChild(N, at) /\ MoveTo(r)
DoNextSibling(N, r) == at # None /\ r = NextSibling(N, at) /\ MoveTo(r)
DoParent(N, r)      == at # None /\ r = Parent(N, at) /\ MoveTo(r)

\* observations (cursor stays)
Value(N, r)         == at # None /\ r = Kind(N, at) /\ UNCHANGED at
StrValue(N, cp)     == at # None /\ Nd(N, at).t = "str" /\ cp = Nd(N, at).cp /\ UNCHANGED at
NumValue(N, lit, atom) == at # None /\ Nd(N, at).t = "num" /\ lit = Nd(N, at).lit
                          /\ atom = Nd(N, at).atom /\ UNCHANGED at
TextRange(N, s, e)  == at # None /\ s = Nd(N, at).s /\ e = Nd(N, at).e /\ UNCHANGED at
ChildrenOf(N, ch)   == at # None /\ ch = Children(N, at) /\ UNCHANGED at
FieldsUncons(N, kv) == at # None /\ Nd(N, at).t = "obj" /\ kv = Fields(N, at) /\ UNCHANGED at
ElementsUncons(N, ch) == at # None /\ Nd(N, at).t = "arr" /\ ch = Children(N, at) /\ UNCHANGED at
Get(N, i, r)        == at # None /\ Nd(N, at).t = "arr" /\ r = GetAt(N, at, i) /\ UNCHANGED at
Find(N, name, r)    == at # None /\ Nd(N, at).t = "obj" /\ r = FindIn(N, at, name) /\ UNCHANGED at

----------------------------------------------------------------------------
(* laws of the listing (checked for every small tree by MC_JsonDoc, and    *)
(* -- the cheap local ones -- on every recorded document by the trace)     *)

StructWF(N, n) ==
  LET x == Nd(N, n)
  IN /\ x.z >= 1 /\ n + x.z <= Len(N)
     /\ IF n = 0 THEN x.p = None /\ x.d = 0 /\ x.z = Len(N)
        ELSE /\ x.p >= 0 /\ x.p < n
             /\ LET q == Nd(N, x.p)
                IN /\ x.d = q.d + 1
                   /\ n + x.z <= x.p + q.z          \* subtree nested in the parent's
                   /\ q.t \in {"arr", "obj"}
     /\ (x.z > 1 => x.t \in {"arr", "obj"})

SpanWF(N, n) ==
  LET x == Nd(N, n)
  IN /\ x.s < x.e
     /\ (n > 0 => LET q == Nd(N, x.p) IN q.s < x.s /\ x.e < q.e)   \* strictly inside the brackets
     /\ (n + x.z < Len(N) => x.e <= Nd(N, n + x.z).s)              \* document order = text order

WellFormed(N) == Len(N) >= 1 /\ \A n \in 0..(Len(N) - 1) : StructWF(N, n) /\ SpanWF(N, n)

ChildSet(N, n) == {m \in 0..(Len(N) - 1) : Nd(N, m).p = n}

TreeLaws(N) ==
  \A n \in 0..(Len(N) - 1) :
    LET ch == Children(N, n)
    IN /\ (FirstChild(N, n) # None => Parent(N, FirstChild(N, n)) = n)
       /\ (NextSibling(N, n) # None => /\ Parent(N, NextSibling(N, n)) = Parent(N, n)
                                       /\ NextSibling(N, n) > n)
       \* the sibling chain is exactly the set of children, in increasing document order
       /\ {ch[i] : i \in 1..Len(ch)} = ChildSet(N, n)
       /\ \A i \in 1..(Len(ch) - 1) : ch[i] < ch[i + 1]
       /\ Nd(N, n).z = 1 + (IF Len(ch) = 0 THEN 0
                            ELSE ch[Len(ch)] + Nd(N, ch[Len(ch)]).z - ch[1])
       \* objects: key/value alternation
       /\ (Nd(N, n).t = "obj" =>
             /\ Len(ch) % 2 = 0
             /\ \A i \in 1..Len(ch) : (i % 2 = 1 => Nd(N, ch[i]).t = "str")
             /\ Len(Fields(N, n)) * 2 = Len(ch))
       /\ (Nd(N, n).t \notin {"obj", "arr"} => ch = <<>>)
=============================================================================
