CONSTANTS Apis = {"build", "walk", "print", "cli"}  Inputs = {1, 2, 3}  MaxCalls = 4
SPECIFICATION Spec
INVARIANTS TypeOK NoCrash
PROPERTIES OneReturnPerInvoke EveryInvokeReturns
CHECK_DEADLOCK FALSE
