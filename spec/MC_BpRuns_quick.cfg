CONSTANTS MaxRuns = 5  MaxRun = 3
INIT Init
NEXT Next
INVARIANT Agree
CHECK_DEADLOCK FALSE
