CONSTANTS W = 2  BYTE = 1  F1 = 2  F2 = 2  B = 2  BLK = 2  PRO = 1  SR = 2  MaxWords = 6
SPECIFICATION Spec
INVARIANT Correct
INVARIANT Bounded
INVARIANT ExcessInv
PROPERTY Measure
CHECK_DEADLOCK FALSE
