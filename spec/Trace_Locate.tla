---------------------------- MODULE Trace_Locate ----------------------------
(***************************************************************************)
(* Trace validation for C28 (JSON) and C29 (YAML): every recorded answer   *)
(* of the real locate functions / jq evaluators / CLI must be what         *)
(* spec/Locate.tla says for the recorded tree.                             *)
(*                                                                         *)
(*  build: fmt ("json"|"yaml"), len, tree (tagged records WITH spans; YAML:*)
(*         the array of documents), cls (JSON: byte classes 0 other / 1 LF *)
(*         / 2 CR of the text, for line/column), doc (the text; not used)  *)
(*  loc  : off, found (1 located, 0 None, -2 panic), expr (text; not used: *)
(*         only what it EVALUATES to matters), rs/re (reported byte range),*)
(*         val / val2 (the expression evaluated by two real evaluators on  *)
(*         the document -- YAML: on the array of documents),               *)
(*         ao (at_offset(off)), ln/col + ap (at_position(ln; col))         *)
(*         -- offsets strictly ascending within a document                 *)
(*  end  : n = number of loc events the harness emitted for the document;  *)
(*         all = 1: the harness claims to have visited EVERY qualifying    *)
(*         offset, so n must be the spec's count of qualifying offsets     *)
(*                                                                         *)
(* Demanded per loc event (and nothing at non-qualifying offsets):         *)
(*   both: off qualifies; located; val (val2) = ValueAtPath(tree,          *)
(*         PathOf(NodeAt(off))) -- for a key the value it names;           *)
(*         ao = the token's own value (the key STRING for a key)           *)
(*   json: reported range = the token's / container's span;                *)
(*         (ln, col) is the line/column of off (LineIndex.tla) and         *)
(*         ap = the token's own value                                      *)
(*   yaml: range, at_position: logged only (the C29 statement is silent)   *)
(***************************************************************************)
EXTENDS TraceBase, Locate

LI == INSTANCE LineIndex

VARIABLES l, tree, T, len, json, starts, last, cnt

vars == <<l, tree, T, len, json, starts, last, cnt>>

Build(e) ==
  /\ e.e = "build"
  /\ e.fmt \in {"json", "yaml"}
  /\ tree' = e.tree
  /\ T' = Tokens(e.tree)
  /\ len' = e.len
  /\ json' = (e.fmt = "json")
  /\ starts' = IF e.fmt = "json" THEN LI!StartsOf(e.cls) ELSE <<0>>
  /\ e.fmt = "json" => Len(e.cls) = e.len
  /\ WellFormed(e.tree, e.len)           \* the generator's spans are a layout
  /\ NoDupKeys(e.tree)                   \* the property's precondition
  /\ e.fmt = "yaml" => (e.tree.t = "arr" /\ e.tree.s < 0)
  /\ last' = -1
  /\ cnt' = 0

Loc(e) ==
  /\ e.e = "loc"
  /\ last < e.off /\ e.off < len
  /\ Qualifies(T, e.off, json)
  /\ LET k == NodeAt(T, e.off, json)
         want == LocatedValue(tree, k)
     IN /\ e.found = 1
        /\ VEq(e.val, want)
        \* events recorded in-process carry everything; CLI observations ("via") may lack
        \* val2 (one evaluator) and the position builtins ao / ap
        /\ ~Has(e, "via") => (Has(e, "val2") /\ Has(e, "ao") /\ Has(e, "ap"))
        /\ Has(e, "val2") => VEq(e.val2, want)
        /\ Has(e, "ao") => VEq(e.ao, AtOffsetValue(k))
        /\ json => /\ e.rs = k.s
                   /\ e.re = k.e
                   /\ LI!ToOffset(starts, len, e.ln, e.col) = e.off
                   /\ Has(e, "ap") => VEq(e.ap, AtOffsetValue(k))
  /\ last' = e.off
  /\ cnt' = cnt + 1
  /\ UNCHANGED <<tree, T, len, json, starts>>

End(e) ==
  /\ e.e = "end"
  /\ cnt <= e.n
  /\ e.all = 1 => e.n = NumQualifying(T, len, json)
  /\ UNCHANGED <<tree, T, len, json, starts, last, cnt>>

Init ==
  /\ l = 1
  /\ tree = Null /\ T = <<>> /\ len = 0 /\ json = TRUE /\ starts = <<0>>
  /\ last = -1 /\ cnt = 0

Next == /\ l <= NRec
        /\ LET e == Rec[l] IN Build(e) \/ Loc(e) \/ End(e)
        /\ l' = l + 1

Spec == Init /\ [][Next]_vars
=============================================================================
