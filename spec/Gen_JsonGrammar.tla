-------------------------- MODULE Gen_JsonGrammar --------------------------
(* spec -> impl for C08: every byte string of length <= Lk over alphabet Ak   *)
(* with what JsonGrammar.tla predicts:                                       *)
(*   b    the bytes                                                          *)
(*   acc  1 iff the bytes are one RFC 8259 JSON text nested <= Cap           *)
(*   v    Viable(b): length of the longest prefix extendable to such a text  *)
(*   lc   lc[k+1] = LineColAny(b, k) for k = 0..Len(b) (line/column the      *)
(*        validator must report if it reports offset k)                      *)
(* The configuration is carried along incrementally (one Step per Next).     *)
EXTENDS JsonGrammar, TLC, Json

CONSTANTS A1, L1, A2, L2, A3, L3     \* three alphabets with their length bounds (one TLC run)

Alphabet(k) == IF k = 1 THEN A1 ELSE IF k = 2 THEN A2 ELSE A3
MaxLen(k) == IF k = 1 THEN L1 ELSE IF k = 2 THEN L2 ELSE L3

VARIABLES s, c, al
vars == <<s, c, al>>

Init == s = <<>> /\ c = CfgInit /\ al \in {1, 2, 3}
Next == /\ Len(s) < MaxLen(al)
        /\ \E b \in Alphabet(al) : s' = Append(s, b) /\ c' = StepRfc(c, b)
        /\ al' = al
Spec == Init /\ [][Next]_vars

Emit ==
  PrintT(<<"REPLAY", ToJson([b |-> s,
                             acc |-> IF Accepting(c) THEN 1 ELSE 0,
                             v |-> c[4],
                             lc |-> [k \in 1..(Len(s) + 1) |-> LineColAny(s, k - 1)]])>>)
=============================================================================
