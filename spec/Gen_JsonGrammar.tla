-------------------------- MODULE Gen_JsonGrammar --------------------------
(* spec -> impl for C08: every byte string of length <= MaxLen over Alphabet *)
(* with what JsonGrammar.tla predicts:                                       *)
(*   b    the bytes                                                          *)
(*   acc  1 iff the bytes are one RFC 8259 JSON text nested <= Cap           *)
(*   v    Viable(b): length of the longest prefix extendable to such a text  *)
(*   lc   lc[k+1] = LineColAny(b, k) for k = 0..Len(b) (line/column the      *)
(*        validator must report if it reports offset k)                      *)
(* The configuration is carried along incrementally (one Step per Next).     *)
EXTENDS JsonGrammar, TLC, Json

CONSTANTS Alphabet, MaxLen

VARIABLES s, c
vars == <<s, c>>

Init == s = <<>> /\ c = CfgInit
Next == /\ Len(s) < MaxLen
        /\ \E b \in Alphabet : s' = Append(s, b) /\ c' = StepRfc(c, b)
Spec == Init /\ [][Next]_vars

Emit ==
  PrintT(<<"REPLAY", ToJson([b |-> s,
                             acc |-> IF Accepting(c) THEN 1 ELSE 0,
                             v |-> c[4],
                             lc |-> [k \in 1..(Len(s) + 1) |-> LineColAny(s, k - 1)]])>>)
=============================================================================
