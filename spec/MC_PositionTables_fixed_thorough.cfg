CONSTANTS W = 4  R = 2  IBExtra = 1  MaxLen = 4
  TextLens = {4, 7, 8}  Indices = {0,1,2,3,4,5,8,9}  AllowF3 = FALSE
SPECIFICATION Spec
INVARIANTS CursorOk TabOk NoPanic ListFormOk VariantOk EndFormsOk
PROPERTY Refinement
CHECK_DEADLOCK FALSE
