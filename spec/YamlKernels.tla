---------------------------- MODULE YamlKernels ----------------------------
(* C16: each public scanning kernel of succinctly::yaml::simd as its        *)
(* one-line definition (from the doc comments of src/yaml/simd/mod.rs and    *)
(* simd/scalar.rs), independent of chunk width and dispatch level.           *)
(* A buffer is a sequence of bytes (ints); offset o addresses b[o + 1].      *)
(* "No answer" (None) is -1.                                                 *)
EXTENDS Integers, Sequences, FiniteSets

SP == 32  TAB == 9  LF == 10  CR == 13  DQ == 34  SQ == 39  BSL == 92  COLON == 58
WS == {SP, TAB, LF, CR}
FLOWIND == {91, 93, 123, 125, 44}     \* [ ] { } ,

At(b, o) == b[o + 1]
Min(x, y) == IF x < y THEN x ELSE y
\* least element of a non-empty set of naturals
Least(S) == CHOOSE x \in S : \A y \in S : x <= y

\* first offset in lo..hi-1 whose byte satisfies the class C, relative to lo; -1 if none
FirstIn(b, lo, hi, C) ==
  LET H == {o \in lo..(hi - 1) : At(b, o) \in C}
  IN IF H = {} THEN -1 ELSE Least(H) - lo

(* find_quote_or_escape(input, start, end): offset from start of the next `"` or `\` before end *)
FindQuoteOrEscape(b, s, e) ==
  IF s >= e \/ s >= Len(b) THEN -1 ELSE FirstIn(b, s, Min(e, Len(b)), {DQ, BSL})

(* find_single_quote(input, start, end) *)
FindSingleQuote(b, s, e) ==
  IF s >= e \/ s >= Len(b) THEN -1 ELSE FirstIn(b, s, Min(e, Len(b)), {SQ})

(* count_leading_spaces(input, start): number of consecutive spaces from start *)
CountLeadingSpaces(b, s) ==
  IF s >= Len(b) THEN 0
  ELSE LET N == {o \in s..(Len(b) - 1) : At(b, o) # SP}
       IN IF N = {} THEN Len(b) - s ELSE Least(N) - s

(* find_newline(input, start): offset from start of the next LF (LF only, per its doc) *)
FindNewline(b, s) == IF s >= Len(b) THEN -1 ELSE FirstIn(b, s, Len(b), {LF})

(* find_block_scalar_end(input, start, min_indent): start of the first line (a line is opened *)
(* by LF or CR at or after start) whose content sits at fewer than min_indent spaces; blank   *)
(* lines never end the block; input.len() if there is none                                    *)
IndentAt(b, p) == CountLeadingSpaces(b, p)
EndsBlock(b, p, m) ==                          \* p is a line start
  /\ p < Len(b)
  /\ LET i == IndentAt(b, p)
     IN p + i < Len(b) /\ At(b, p + i) \notin {LF, CR} /\ i < m
FindBlockScalarEnd(b, s, m) ==
  LET P == {p \in (s + 1)..Len(b) : At(b, p - 1) \in {LF, CR} /\ EndsBlock(b, p, m)}
  IN IF P = {} THEN Len(b) ELSE Least(P)

(* parse_anchor_name(input, start): position of the first terminator - whitespace, a flow     *)
(* indicator, or a `:` followed by whitespace (a bare `:` is part of the name) - or the end   *)
Terminates(b, o) ==
  \/ At(b, o) \in WS \cup FLOWIND
  \/ At(b, o) = COLON /\ o + 1 < Len(b) /\ At(b, o + 1) \in WS
ParseAnchorName(b, s) ==
  IF s >= Len(b) THEN s
  ELSE LET T == {o \in s..(Len(b) - 1) : Terminates(b, o)}
       IN IF T = {} THEN Len(b) ELSE Least(T)

(* find_json_escape(bytes, start): index of the first `"`, `\` or control byte (< 0x20) at or *)
(* after start, or bytes.len()                                                                *)
FindJsonEscape(b, s) ==
  LET J == {o \in s..(Len(b) - 1) : At(b, o) \in {DQ, BSL} \/ At(b, o) < 32}
  IN IF J = {} THEN Len(b) ELSE Least(J)

(* classify_yaml_chars: bit i of the mask for byte c <=> input[offset + i] = c, i < width;    *)
(* the mask is given as the set of positions                                                  *)
ClassMask(b, off, width, c) == {i \in 0..(width - 1) : At(b, off + i) = c}

\* ------------------------------------------------------------------------------------------
\* step-by-step transcriptions of the scalar kernels (src/yaml/simd/scalar.rs, mod.rs) used by
\* MC_YamlKernels to check that the one-line definitions above say what the code comments say
RECURSIVE ScanFirst(_, _, _, _)
ScanFirst(b, pos, hi, C) == IF pos >= hi THEN -1 ELSE IF At(b, pos) \in C THEN pos ELSE ScanFirst(b, pos + 1, hi, C)
StepFind(b, s, e, C) ==
  IF s >= e \/ s >= Len(b) THEN -1
  ELSE LET r == ScanFirst(b, s, Min(e, Len(b)), C) IN IF r = -1 THEN -1 ELSE r - s

RECURSIVE StepSpaces(_, _)
StepSpaces(b, pos) == IF pos < Len(b) /\ At(b, pos) = SP THEN 1 + StepSpaces(b, pos + 1) ELSE 0

RECURSIVE StepAnchor(_, _)
StepAnchor(b, pos) ==
  IF pos >= Len(b) THEN pos
  ELSE IF At(b, pos) \in WS \cup FLOWIND THEN pos
  ELSE IF At(b, pos) = COLON /\ pos + 1 < Len(b) /\ At(b, pos + 1) \in WS THEN pos
  ELSE StepAnchor(b, pos + 1)

RECURSIVE StepBlockEnd(_, _, _)
StepBlockEnd(b, pos, m) ==
  IF pos >= Len(b) THEN Len(b)
  ELSE IF At(b, pos) \in {LF, CR}
       THEN LET ls == pos + 1
                ind == StepSpaces(b, ls)
            IN IF ls >= Len(b) THEN Len(b)
               ELSE IF ls + ind < Len(b) /\ At(b, ls + ind) \notin {LF, CR} /\ ind < m THEN ls
               ELSE StepBlockEnd(b, pos + 1, m)
  ELSE StepBlockEnd(b, pos + 1, m)
=============================================================================
