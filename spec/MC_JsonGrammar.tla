--------------------------- MODULE MC_JsonGrammar ---------------------------
(* Model stage of C08: the PDA of JsonGrammar.tla explored as a state graph  *)
(* (Next = append one byte of a set of byte-class representatives), both in  *)
(* the RFC 8259 mode and in the surrogate-pairing mode, depth-bounded, with  *)
(* the nesting cap scaled down.                                              *)
(*   ViableInv  every non-stuck configuration is completed to acceptance by  *)
(*              Complete (so Viable = longest extendable prefix)             *)
(*   CapInv     opening a container gets stuck exactly at depth = Cap        *)
(*   PairInv    pairing mode accepts / stays viable only where RFC mode does *)
(*   CountInv   n = number of bytes consumed while not stuck                 *)
EXTENDS JsonGrammar, TLC

CONSTANTS Reps, MaxLen

VARIABLES cr, cp, len
vars == <<cr, cp, len>>

Init == cr = CfgInit /\ cp = CfgInit /\ len = 0

Next == /\ len < MaxLen
        /\ cr[1] # "X"
        /\ \E b \in Reps : cr' = StepRfc(cr, b) /\ cp' = StepPaired(cp, b)
        /\ len' = len + 1

Spec == Init /\ [][Next]_vars

ViableInv ==
  /\ cr[1] # "X" => Accepting(FoldLeft(StepRfc, cr, Complete(cr)))
  /\ cp[1] # "X" => Accepting(FoldLeft(StepPaired, cp, Complete(cp)))
  \* and the completion is itself RFC text when started in pairing mode
  /\ cp[1] # "X" => Accepting(FoldLeft(StepRfc, cr, Complete(cp)))

OpenStates == {"V0", "AV", "AC", "OV"}
CapInv ==
  /\ Len(cr[5]) <= Cap /\ Len(cp[5]) <= Cap
  /\ cr[1] \in OpenStates =>
       /\ (StepRfc(cr, 91)[1] = "X") <=> (Len(cr[5]) = Cap)
       /\ (StepRfc(cr, 123)[1] = "X") <=> (Len(cr[5]) = Cap)
       /\ Len(cr[5]) < Cap => Len(StepRfc(cr, 91)[5]) = Len(cr[5]) + 1

PairInv ==
  /\ cp[1] # "X" => cr[1] # "X" /\ cr[4] = cp[4] /\ cr[5] = cp[5]
  /\ cp[4] <= cr[4]
  /\ Accepting(cp) => Accepting(cr)

CountInv ==
  /\ cr[1] # "X" => cr[4] = len
  /\ cr[1] = "X" => cr[4] = len - 1 /\ cp[1] = "X"
  /\ cr[1] = "X" => \A b \in Reps : StepRfc(cr, b) = cr
=============================================================================
