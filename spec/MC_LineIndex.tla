----------------------------- MODULE MC_LineIndex -----------------------------
(* Bounded exhaustive check for C12: for every text over {other, LF, CR} up to *)
(* MaxLen bytes, the state graph <<text, cache>> closed under EVERY query      *)
(* offset (so every query history) -- each answer of the cache-carrying        *)
(* implementation equals the pure abstract answer, the cache invariant holds,  *)
(* and offsets/positions round-trip.                                           *)
EXTENDS LineIndexImpl, TLC

CONSTANTS MaxLen, MaxOff

VARIABLES text, phase, cache, last

vars == <<text, phase, cache, last>>

Init == text = <<>> /\ phase = "build" /\ cache = NoCache /\ last = <<0, 1, 1>>

AddByte == /\ phase = "build" /\ Len(text) < MaxLen
           /\ \E b \in 0..2 : text' = Append(text, b)
           /\ UNCHANGED <<phase, cache, last>>

Start == phase = "build" /\ phase' = "ops" /\ UNCHANGED <<text, cache, last>>

Query == /\ phase = "ops"
         /\ \E q \in 0..MaxOff :
               LET r == Step(Starts(text), cache, q)
               IN cache' = r[3] /\ last' = <<q, r[1], r[2]>>
         /\ UNCHANGED <<text, phase>>

Next == AddByte \/ Start \/ Query
Spec == Init /\ [][Next]_vars

\* every answer = the pure answer, whatever was asked before
AnswerExact == phase = "ops" => <<last[2], last[3]>> = ToLineCol(Starts(text), last[1])

CacheOk == phase = "ops" => CacheInv(Starts(text), cache)

\* definitional sanity of the abstract layer (once per text)
Static ==
  (phase = "ops" /\ cache = NoCache) =>
     LET s == Starts(text) IN
     /\ StartsOf(text) = s
     /\ \A o \in 0..(Len(text) - 1) :                      \* in-bounds round trip
           LET lc == ToLineCol(s, o) IN ToOffset(s, Len(text), lc[1], lc[2]) = o
     /\ \A o \in 0..MaxOff :                                \* line = 1 + breaks strictly before o with text after
           LET lc == ToLineCol(s, o) IN s[lc[1]] <= o /\ (lc[1] < Len(s) => o < s[lc[1] + 1])
     /\ \A i \in 1..Len(s) : i > 1 => s[i - 1] < s[i] /\ s[i] < Len(text)
=============================================================================
