CONSTANTS MaxLen = 4
SPECIFICATION Spec
INVARIANT Inv
CHECK_DEADLOCK FALSE
