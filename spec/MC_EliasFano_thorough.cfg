CONSTANTS W = 4  R = 2  T = 3  MaxLen = 6  MaxV = 13  MaxArg = 8
SPECIFICATION Spec
INVARIANT CursorRefines
INVARIANT StaticRefines
CHECK_DEADLOCK FALSE
