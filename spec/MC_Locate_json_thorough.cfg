SPECIFICATION Spec
CONSTANTS
  MaxNodes = 4
  MaxGap = 2
  KeyCps <- KeysAB
  Yaml = FALSE
  ImplMutant = "none"
  AllowDup = FALSE
INVARIANTS InvLayout InvUnique InvInnermost InvPath InvReach InvImpl
CHECK_DEADLOCK FALSE
