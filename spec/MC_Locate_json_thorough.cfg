SPECIFICATION Spec
CONSTANTS
  MaxNodes = 4
  MaxGap = 2
  KeyCps <- KeysAB
  Yaml = FALSE
  AllowDup = FALSE
INVARIANTS InvLayout InvUnique InvInnermost InvPath InvReach
CHECK_DEADLOCK FALSE
