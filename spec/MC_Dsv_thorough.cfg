CONSTANTS MaxLen = 8  MaxWalkLen = 7
SPECIFICATION Spec
INVARIANT SplitInv
INVARIANT CursorInv
CHECK_DEADLOCK FALSE
