CONSTANTS W = 3  B = 2  BLK = 2  PRO = 1  MaxWords = 4  Rates = {0, 1, 2, 3, 5}
SPECIFICATION Spec
INVARIANT Inv
CHECK_DEADLOCK FALSE
