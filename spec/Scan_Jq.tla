------------------------------- MODULE Scan_Jq -------------------------------
(* Development aid: list ALL events of a trace on which JqCore and the recorded *)
(* outcome differ (instead of stopping at the first one).                      *)
EXTENDS TraceBase, JqCore
VARIABLE l
Chk(e) == IF Has(e, "tier") /\ e.tier # "core" THEN TRUE
          ELSE LET r == Eval(e.ast, Norm(e.in), IF Has(e, "strict") THEN StrictEnv ELSE EmptyEnv)
               IN IF r.end.k = "skip" THEN PrintT(<<"JQSKIP", l>>)
                  ELSE IF r = e.oe THEN TRUE ELSE PrintT(<<"MIS", l>>)
Init == l = 1
Next == l <= NRec /\ Chk(Rec[l]) /\ l' = l + 1
Spec == Init /\ [][Next]_l
=============================================================================
