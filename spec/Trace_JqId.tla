----------------------------- MODULE Trace_JqId -----------------------------
(* Trace validation for C25: each event is one identity of the jq language run *)
(* through the generic evaluator or the CLI on a generated value v.            *)
(*   "reproduces its input": the single output is SameVal to the value that    *)
(*   the identity program `.` yields on the same route (idv) -- same shape,    *)
(*   same key order, same strings, numbers equal under jq's order (the route's *)
(*   canonical spelling of an extreme number is not the law's business).       *)
(*   sort / unique: ordered permutation / deduplication under JqCore!Cmp.      *)
(*   assign: the value at p becomes nv and every path not related to p keeps   *)
(*   its value (and no unrelated path appears or disappears).                  *)
EXTENDS TraceBase, JqCore

VARIABLE l

RECURSIVE SameVal(_, _)
SameVal(a, b) ==
  /\ a.t = b.t
  /\ CASE a.t = "num" -> a.n = b.n /\ a.fr = b.fr
       [] a.t = "str" -> a.cp = b.cp
       [] a.t = "bool" -> a.b = b.b
       [] a.t = "arr" -> Len(a.v) = Len(b.v) /\ \A i \in 1..Len(a.v) : SameVal(a.v[i], b.v[i])
       [] a.t = "obj" -> Len(a.kv) = Len(b.kv) /\ \A i \in 1..Len(a.kv) : a.kv[i][1] = b.kv[i][1] /\ SameVal(a.kv[i][2], b.kv[i][2])
       [] OTHER -> TRUE

One(e) == e.o.end.k = "ok" /\ Len(e.o.out) = 1
Ref(e) == IF e.idok = 1 THEN e.idv ELSE e.v

CountSame(s, x) == Cardinality({i \in 1..Len(s) : SameVal(s[i], x)})
IsPermSV(s, t) == Len(s) = Len(t) /\ \A i \in 1..Len(s) : CountSame(s, s[i]) = CountSame(t, s[i])
IsPre(p, q) == Len(p) <= Len(q) /\ \A i \in 1..Len(p) : p[i] = q[i]
Related(p, q) == IsPre(p, q) \/ IsPre(q, p)

Same(e) == One(e) /\ SameVal(e.o.out[1], Ref(e))

Law(e) ==
  CASE e.law \in {"ident", "tojson", "entries", "stream", "stream2", "b64", "uri", "setget"} -> Same(e)
    [] e.law = "paths" ->
         LET ps == PathsOf(e.v, <<>>) IN One(e) /\ e.o.out[1] = Arr([i \in 1..Len(ps) |-> Arr(ps[i])])
    [] e.law = "getpath" ->
         LET g == GetPathV(Ref(e), e.p, 1) IN One(e) /\ g.end.k = "ok" /\ SameVal(e.o.out[1], g.out[1])
    [] e.law = "sort" ->
         /\ One(e) /\ e.o.out[1].t = "arr"
         /\ LET s == e.o.out[1].v IN
              /\ \A i \in 1..Len(s) - 1 : Cmp(s[i], s[i + 1]) <= 0
              /\ IsPermSV(s, Ref(e).v)
    [] e.law = "unique" ->
         /\ One(e) /\ e.o.out[1].t = "arr"
         /\ LET u == e.o.out[1].v  src == Ref(e).v IN
              /\ \A i \in 1..Len(u) - 1 : Cmp(u[i], u[i + 1]) < 0
              /\ \A i \in 1..Len(src) : \E j \in 1..Len(u) : Eq(src[i], u[j])
              /\ \A j \in 1..Len(u) : \E i \in 1..Len(src) : SameVal(src[i], u[j])
    [] e.law = "assign" ->
         /\ One(e)
         /\ LET w == e.o.out[1]  v0 == Ref(e)
                qs == PathsOf(v0, <<>>) \o PathsOf(w, <<>>)
            IN /\ LET g == GetPathV(w, e.p, 1) IN g.end.k = "ok" /\ SameVal(g.out[1], e.nv)
               /\ \A i \in 1..Len(qs) :
                    Related(e.p, qs[i]) \/
                      LET a == GetPathV(v0, qs[i], 1)  b == GetPathV(w, qs[i], 1)
                      IN a.end.k = "ok" /\ b.end.k = "ok" /\ SameVal(a.out[1], b.out[1])
               /\ Len(PathsOf(w, <<>>)) - Len(PathsOf(v0, <<>>))
                    = Len(PathsOf(e.nv, <<>>)) + (IF GetPathV(v0, e.p, 1).out[1].t = "null" /\ ~\E i \in 1..Len(PathsOf(v0, <<>>)) : PathsOf(v0, <<>>)[i] = e.p THEN 1 ELSE 0)
                      - Len(PathsOf(GetPathV(v0, e.p, 1).out[1], <<>>))
    [] OTHER -> FALSE

Id(e) == e.e = "id" /\ e.r = Len(e.o.out) /\ Law(e)

Init == l = 1
Next == /\ l <= NRec
        /\ Id(Rec[l])
        /\ l' = l + 1
Spec == Init /\ [][Next]_l
=============================================================================
