------------------------------ MODULE Mutation ------------------------------
(* spec -> impl generator for C19: the INPUT SPACE "truncations and mutations  *)
(* of valid documents" as a TLA+ mutation machine.                             *)
(*                                                                             *)
(* A document is a PIECE LIST (pieces = tokens of a JSON / YAML / DSV document *)
(* or of a jq program; string literals are cut at escape boundaries so that a  *)
(* truncation can fall inside an escape).  Starting from a valid seed document *)
(* the machine applies at most MaxSteps of                                     *)
(*    Truncate(i)            keep the first i pieces                           *)
(*    DeletePiece(i)         drop piece i                                      *)
(*    DuplicatePiece(i)      repeat piece i                                    *)
(*    SwapPieces(i, j)       exchange two different pieces                     *)
(*    InsertIndicator(i, c)  insert an indicator / hostile byte c after i      *)
(*    FlipBreak(i)           replace a line break by another break / a space   *)
(* Every reachable document is printed as a REPLAY line (the harness           *)
(* concatenates the pieces; a piece "<hh..>" is raw bytes in hex).  TLC        *)
(* enumerates all mutation sequences of a small scope exhaustively and longer  *)
(* ones by -simulate with the driver's seed.                                   *)
EXTENDS Integers, Sequences, Json, TLC

CONSTANTS SeedNames,   \* which seed documents to start from
          MaxSteps,    \* maximal number of mutations
          SwapSpan     \* SwapPieces(i, j) only for j - i <= SwapSpan (0 = any distance)

(* ------------------------------ seed documents ------------------------------ *)

\* {"a":[1,-2.5e3,"x\né",true,null],"b":{"c":"😀"}}
SeedJson ==
  << "{", "\"a\"", ":", "[", "1", ",", "-2.5e3", ",", "\"", "x", "\\n", "\\u", "00", "e9", "\"",
     ",", "true", ",", "null", "]", ",", "\"b\"", ":", "{", "\"c\"", ":", "\"", "\\u", "d83d",
     "\\u", "de00", "\"", "}", "}", "\n" >>

\* block mapping with sequences, the three quoted styles, anchor/alias, flow, block scalars
SeedYamlBlock ==
  << "a", ":", " ", "1", "\n",
     "b", ":", "\n",
     "  ", "-", " ", "x", "\n",
     "  ", "-", " ", "\"", "q", "\\n", "\\u", "00e9", "\"", "\n",
     "  ", "-", " ", "'", "it", "''", "s", "'", "\n",
     "c", ":", " ", "&A", " ", "{", "k", ":", " ", "[", "1", ",", " ", "2", "]", "}", "\n",
     "d", ":", " ", "*A", "\n",
     "e", ":", " ", "|", "\n", "  ", "lit", "\n",
     "f", ":", " ", ">-", "\n", "  ", "fold", "\n" >>

\* directives, documents, tags, complex keys, comments, multi-line quoted, nested sequences
SeedYamlDocs ==
  << "%YAML 1.2", "\n", "---", " ", "!!map", "\n",
     "?", " ", "[", "a", ",", " ", "b", "]", "\n",
     ":", " ", "!!str", " ", "v", " ", "#", " c", "\n",
     "\"k\"", ":", " ", "'", "x", "\n", "  ", "y", "'", "\n",
     "---", "\n",
     "-", " ", "-", " ", "1", "\n", "  ", "-", " ", "~", "\n",
     "-", " ", "{", "?", " ", "z", ",", " ", "w", ":", " ", "}", "\n",
     "...", "\n" >>

\* merge keys and an alias chain
SeedYamlMerge ==
  << "x", ":", " ", "&x", " ", "{", "p", ":", " ", "1", "}", "\n",
     "y", ":", " ", "&y", " ", "*x", "\n",
     "z", ":", "\n", "  ", "<<", ":", " ", "*x", "\n", "  ", "q", ":", " ", "*y", "\n" >>

SeedYamlSmall == << "k", ":", " ", "\"", "v", "\"", "\n" >>

SeedYamlFlow == << "a", ":", " ", "[", "x", ",", " ", "\"y\"", "]", "\n" >>

SeedJsonSmall == << "[", "\"", "\\u", "00e9", "\"", ",", "-1", "]" >>

\* "é" as an escaped string: valid JSON and valid YAML
SeedTiny == << "\"", "\\u", "00e9", "\"" >>

\* a,b,c / 1,"x,y",3 / "q""r",,  (last record CRLF)
SeedDsv ==
  << "a", ",", "b", ",", "c", "\n",
     "1", ",", "\"", "x", ",", "y", "\"", ",", "3", "\n",
     "\"", "q", "\"\"", "r", "\"", ",", ",", "\r\n" >>

\* a jq program using most syntactic forms
SeedJq ==
  << "def", " ", "f", "(", "x", ")", ":", " ", "reduce", " ", ".[]", " ", "as", " ", "$i", " ",
     "(", "0", ";", " ", ".", " ", "+", " ", "$i", ")", " ", "|", " ", "x", ";", " ",
     "[", ".a", ",", " ", ".b", "[", "1", ":", "]", "?", ",", " ", "\"s", "\\(", "1", "+", "2", ")",
     "\"", ",", " ", "@base64", " ", "\"v\"", ",", " ",
     "if", " ", ".", " ", "then", " ", "1", " ", "elif", " ", "2", " ", "then", " ", "3", " ",
     "else", " ", "4", " ", "end", ",", " ",
     "try", " ", "error", " ", "catch", " ", ".", ",", " ",
     "label", " ", "$l", " ", "|", " ", "foreach", " ", ".[]", " ", "as", " ", "[", "$a", "]", " ",
     "(", "0", ";", " ", "1", ";", " ", "break", " ", "$l", ")", "]" >>

Seed(n) ==
  CASE n = "json" -> [fam |-> "json", doc |-> SeedJson]
    [] n = "jsonsmall" -> [fam |-> "json", doc |-> SeedJsonSmall]
    [] n = "tiny" -> [fam |-> "yaml", doc |-> SeedTiny]
    [] n = "yamlblock" -> [fam |-> "yaml", doc |-> SeedYamlBlock]
    [] n = "yamldocs" -> [fam |-> "yaml", doc |-> SeedYamlDocs]
    [] n = "yamlmerge" -> [fam |-> "yaml", doc |-> SeedYamlMerge]
    [] n = "yamlsmall" -> [fam |-> "yaml", doc |-> SeedYamlSmall]
    [] n = "yamlflow" -> [fam |-> "yaml", doc |-> SeedYamlFlow]
    [] n = "dsv" -> [fam |-> "dsv", doc |-> SeedDsv]
    [] n = "jq" -> [fam |-> "jq1", doc |-> SeedJq]

(* --------------------------- indicators and breaks --------------------------- *)

Indicators ==
  { "-", ":", "?", "[", "]", "{", "}", ",", "&", "*", "!", "|", ">", "'", "\"", "%", "#", "\n",
    " ", "a",
    "\\", "\t", "\r", "<00>", "<ff>", "<c3>", "<efbbbf>", "<c285>", "<<", "---" }

Breaks == { "\n", "\r\n", "\r" }

BreakReplacements == Breaks \cup { " ", "\n\n" }

(* --------------------------------- the machine -------------------------------- *)

VARIABLES fam, doc, steps

vars == <<fam, doc, steps>>

N == Len(doc)

Init == \E n \in SeedNames : /\ fam = Seed(n).fam /\ doc = Seed(n).doc /\ steps = 0

Truncate(i) == doc' = SubSeq(doc, 1, i)

DeletePiece(i) == doc' = SubSeq(doc, 1, i - 1) \o SubSeq(doc, i + 1, N)

DuplicatePiece(i) == doc' = SubSeq(doc, 1, i) \o SubSeq(doc, i, N)

SwapPieces(i, j) ==
  /\ doc[i] # doc[j]
  /\ doc' = [doc EXCEPT ![i] = doc[j], ![j] = doc[i]]

InsertIndicator(i, c) == doc' = SubSeq(doc, 1, i) \o <<c>> \o SubSeq(doc, i + 1, N)

FlipBreak(i, b) ==
  /\ doc[i] \in Breaks
  /\ b # doc[i]
  /\ doc' = [doc EXCEPT ![i] = b]

Mutate ==
  \/ \E i \in 0..(N - 1) : Truncate(i)
  \/ \E i \in 1..N : DeletePiece(i)
  \/ \E i \in 1..N : DuplicatePiece(i)
  \/ \E i \in 1..N : \E j \in (i + 1)..(IF SwapSpan = 0 THEN N ELSE IF i + SwapSpan < N THEN i + SwapSpan ELSE N) :
        SwapPieces(i, j)
  \/ \E i \in 0..N : \E c \in Indicators : InsertIndicator(i, c)
  \/ \E i \in 1..N : \E b \in BreakReplacements : FlipBreak(i, b)

Next == \/ /\ steps < MaxSteps
           /\ Mutate
           /\ steps' = steps + 1
           /\ UNCHANGED fam
        \/ /\ steps = MaxSteps          \* stutter: lets a -simulate walk reach its -depth
           /\ UNCHANGED vars

Spec == Init /\ [][Next]_vars

(* Random walk for `-simulate`: TLC's simulator evaluates the invariant (= prints) on EVERY  *)
(* successor before choosing one, so the walk draws ONE mutation per step itself            *)
(* (RandomElement is seeded by -seed); the successor relation is a subset of Mutate.        *)
RandomMutate ==
  \E k \in {RandomElement(1..6)} :
  \E c \in {RandomElement(Indicators)} :
  \E b \in {RandomElement(BreakReplacements)} :
    IF N = 0 THEN InsertIndicator(0, c)
    ELSE \E i \in {RandomElement(1..N)} : \E j \in {RandomElement(1..N)} :
      CASE k = 1 -> Truncate(i - 1)
        [] k = 2 -> DeletePiece(i)
        [] k = 3 -> DuplicatePiece(i)
        [] k = 4 -> IF i < j /\ doc[i] # doc[j] THEN SwapPieces(i, j)
                    ELSE IF j < i /\ doc[i] # doc[j] THEN SwapPieces(j, i)
                    ELSE DuplicatePiece(i)
        [] k = 5 -> InsertIndicator(i, c)
        [] k = 6 -> IF doc[i] \in Breaks /\ b # doc[i] THEN FlipBreak(i, b) ELSE InsertIndicator(i - 1, c)

SimNext == \/ /\ steps < MaxSteps
              /\ RandomMutate
              /\ steps' = steps + 1
              /\ UNCHANGED fam
           \/ /\ steps = MaxSteps
              /\ UNCHANGED vars

SimSpec == Init /\ [][SimNext]_vars

Emit == PrintT(<<"REPLAY", ToJson([fam |-> fam, p |-> doc, steps |-> steps])>>)
=============================================================================
