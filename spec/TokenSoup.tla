------------------------------ MODULE TokenSoup ------------------------------
(* spec -> impl generator for C19 / C30: the INPUT SPACE of "token soups".     *)
(* Every string of at most MaxLen symbols over one of three alphabets; one     *)
(* REPLAY line per string (the symbols as a piece list; the harness            *)
(* concatenates the pieces, a piece "<hh..>" being raw bytes in hex).          *)
(*   Which = "yaml" : the YAML indicator alphabet                              *)
(*   Which = "json" : the JSON structural alphabet                             *)
(*   Which = "jq"   : the token alphabet of jq programs (keywords, operators,  *)
(*                    brackets, literals incl. 1e19 / nan, string pieces with  *)
(*                    interpolation, non-ASCII); the harness runs each soup    *)
(*                    glued and space-separated                                *)
(* Exhaustive with the model checker (all strings <= MaxLen); longer strings   *)
(* by `-simulate` (random walks of the same machine, seeded by the driver).    *)
EXTENDS Integers, Sequences, Json, TLC

CONSTANTS Which, MaxLen

YamlAlphabet ==
  << "-", ":", "?", "[", "]", "{", "}", ",", "&", "*", "!", "|", ">", "'", "\"", "%", "#",
     "\n", " ", "a" >>

JsonAlphabet ==
  << "{", "}", "[", "]", ",", ":", "\"", "\\", "1", "-", ".", "e", "true", "null", "a",
     "\n", "u" >>

JqAlphabet ==
  << "def", "if", "then", "elif", "else", "end", "reduce", "foreach", "as", "label", "try",
     "catch", "|", ",", ".", "..", "[", "]", "{", "}", "(", ")", "?", "//", "and", "or", "not",
     "+", "-", "*", "/", "%", "==", "!=", "<", "<=", ">", ">=", "=", "|=", "+=", "$x",
     "@base64", "\"str\"", "\"a\\(", ")b\"", "1", "1e19", "nan", ":", ";", "f", ".a",
     "<c3a9>", "<f09f9880>", "\"", "\\", "#", "break", "$__loc__", "?//", "import" >>

Alphabet ==
  CASE Which = "yaml" -> YamlAlphabet
    [] Which = "json" -> JsonAlphabet
    [] Which = "jq" -> JqAlphabet

VARIABLE t

Init == t = <<>>

Next == \/ Len(t) < MaxLen /\ \E k \in 1..Len(Alphabet) : t' = Append(t, Alphabet[k])
        \/ Len(t) = MaxLen /\ UNCHANGED t      \* stutter: lets a -simulate walk reach its -depth

Spec == Init /\ [][Next]_t

(* Random walk for `-simulate` (one random symbol per step; see Mutation.tla). *)
SimNext == \/ Len(t) < MaxLen /\ \E k \in {RandomElement(1..Len(Alphabet))} : t' = Append(t, Alphabet[k])
           \/ Len(t) = MaxLen /\ UNCHANGED t

SimSpec == Init /\ [][SimNext]_t

Emit == PrintT(<<"REPLAY", ToJson([fam |-> Which, p |-> t])>>)
=============================================================================
