CONSTANTS W = 4  MaxLen = 8
SPECIFICATION Spec
INVARIANT Inv
CHECK_DEADLOCK FALSE
