CONSTANTS MaxRuns = 6  MaxRun = 3
INIT Init
NEXT Next
INVARIANT Agree
CHECK_DEADLOCK FALSE
