CONSTANTS MaxRuns = 6  MaxRun = 4
INIT Init
NEXT Next
INVARIANT Agree
CHECK_DEADLOCK FALSE
