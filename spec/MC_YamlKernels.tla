--------------------------- MODULE MC_YamlKernels ---------------------------
(* Every class string <= MaxLen over {space, LF, CR, ':', '"', '\', ''', '[', *)
(* 'a'}, every start (and end / min_indent): the one-line kernel definitions *)
(* are total and agree with the step-by-step scalar transcriptions.          *)
EXTENDS YamlKernels, TLC

CONSTANTS MaxLen

Alphabet == {SP, LF, CR, COLON, DQ, BSL, SQ, 91, 97}

VARIABLE b

Init == b = <<>>
Next == Len(b) < MaxLen /\ \E c \in Alphabet : b' = Append(b, c)
Spec == Init /\ [][Next]_b

Inv ==
  \A s \in 0..(Len(b) + 1) :
    /\ \A e \in 0..(Len(b) + 1) :
         /\ FindQuoteOrEscape(b, s, e) = StepFind(b, s, e, {DQ, BSL})
         /\ FindSingleQuote(b, s, e) = StepFind(b, s, e, {SQ})
    /\ CountLeadingSpaces(b, s) = (IF s >= Len(b) THEN 0 ELSE StepSpaces(b, s))
    /\ FindNewline(b, s) = StepFind(b, s, Len(b), {LF})
    /\ ParseAnchorName(b, s) = StepAnchor(b, s)
    /\ \A m \in 0..3 : FindBlockScalarEnd(b, s, m) = StepBlockEnd(b, s, m)
    /\ (s <= Len(b) => FindJsonEscape(b, s) \in s..Len(b))
=============================================================================
