CONSTANTS
  Alphabet = {0, 127, 128, 191, 192, 193, 194, 223, 224, 237, 239, 240, 244, 245}
  MaxLen = 5
SPECIFICATION Spec
INVARIANT Emit
CHECK_DEADLOCK FALSE
