CONSTANTS
  Alphabet = {0, 127, 128, 143, 144, 159, 160, 191, 193, 194, 223, 224, 237, 239, 240, 244, 245, 247, 248}
  MaxLen = 5
SPECIFICATION Spec
INVARIANT Emit
CHECK_DEADLOCK FALSE
