------------------------------- MODULE BitRuns -------------------------------
(***************************************************************************)
(* Rank / select / access evaluated on a RUN-LENGTH representation of a    *)
(* bit sequence.  This is the form in which recorded traces carry bit      *)
(* vectors (so TLC cost is proportional to the number of runs, not the     *)
(* number of bits).  MC_BitRuns checks, exhaustively for small run lists,  *)
(* that every operator here equals the definitional one in BitSeq applied  *)
(* to the expanded bits; the trace specifications then use these.          *)
(*                                                                         *)
(* A run list is a sequence of pairs <<bit, n>> with n >= 1; the logical   *)
(* length `len` may be smaller than the total (bits past `len` are the     *)
(* "stray bits" the properties say must not matter).                       *)
(***************************************************************************)
EXTENDS Naturals, Sequences, SequencesExt, BitSeq

\* Table: parallel sequences, one entry per run:
\*   b[j] bit value, s[j] start position, o[j] number of ones before the run,
\*   n[j] run length.  tot = total bits, ones = total ones.
Tab(rl) ==
  FoldLeft(LAMBDA acc, r :
             [b |-> Append(acc.b, r[1]),
              s |-> Append(acc.s, acc.tot),
              o |-> Append(acc.o, acc.ones),
              n |-> Append(acc.n, r[2]),
              tot |-> acc.tot + r[2],
              ones |-> acc.ones + (IF r[1] = 1 THEN r[2] ELSE 0)],
           [b |-> <<>>, s |-> <<>>, o |-> <<>>, n |-> <<>>, tot |-> 0, ones |-> 0],
           rl)

NRuns(t) == Len(t.b)

\* largest j in lo..hi with key[j] <= x; requires key non-decreasing and key[lo] <= x
RECURSIVE LastLE(_, _, _, _)
LastLE(key, x, lo, hi) ==
  IF lo >= hi THEN lo
  ELSE LET mid == (lo + hi + 1) \div 2
       IN IF key[mid] <= x THEN LastLE(key, x, mid, hi) ELSE LastLE(key, x, lo, mid - 1)

\* zeros before run j
ZB(t, j) == t.s[j] - t.o[j]
ZSeq(t) == [j \in 1..NRuns(t) |-> t.s[j] - t.o[j]]

\* ones in positions [0, m) for 0 <= m <= t.tot
OnesBefore(t, m) ==
  IF NRuns(t) = 0 \/ m = 0 THEN 0
  ELSE LET j == LastLE(t.s, m, 1, NRuns(t))
           within == IF m - t.s[j] < t.n[j] THEN m - t.s[j] ELSE t.n[j]
       IN t.o[j] + (IF t.b[j] = 1 THEN within ELSE 0)

RLen(t, len) == Min2(len, t.tot)

RCountOnes(t, len) == OnesBefore(t, RLen(t, len))
RCountZeros(t, len) == RLen(t, len) - RCountOnes(t, len)

\* rank with the "huge" convention: i = -1 stands for any integer >= 2^30 > len
RRank1(t, len, i) == IF i < 0 THEN RCountOnes(t, len) ELSE OnesBefore(t, Min2(i, RLen(t, len)))
RRank0(t, len, i) == IF i < 0 THEN RCountZeros(t, len) ELSE Min2(i, RLen(t, len)) - RRank1(t, len, i)

RGet(t, i) == LET j == LastLE(t.s, i, 1, NRuns(t)) IN t.b[j]

RSelect1(t, len, k) ==
  IF k < 0 \/ k >= RCountOnes(t, len) THEN None
  ELSE LET j == LastLE(t.o, k, 1, NRuns(t)) IN t.s[j] + (k - t.o[j])

RSelect0(t, len, k) ==
  IF k < 0 \/ k >= RCountZeros(t, len) THEN None
  ELSE LET z == ZSeq(t)
           j == LastLE(z, k, 1, NRuns(t))
       IN t.s[j] + (k - z[j])

\* expansion to explicit bits (for the equivalence check only)
RECURSIVE Rep(_, _)
Rep(v, n) == IF n = 0 THEN <<>> ELSE <<v>> \o Rep(v, n - 1)
Expand(rl) == FoldLeft(LAMBDA acc, r : acc \o Rep(r[1], r[2]), <<>>, rl)

=============================================================================
