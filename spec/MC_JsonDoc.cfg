CONSTANTS MaxNodes = 5  MaxSteps = 6
SPECIFICATION Spec
INVARIANT Inv
CHECK_DEADLOCK FALSE
