CONSTANTS W = 4  R = 2  IBExtra = 0  MaxLen = 4
  TextLens = {4, 7}  Indices = {0,1,2,3,4,5,8,9}  AllowF3 = TRUE
SPECIFICATION Spec
INVARIANTS CursorOk TabOk NoPanic ListFormOk VariantOk EndFormsOk
PROPERTY Refinement
CHECK_DEADLOCK FALSE
