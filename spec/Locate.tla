------------------------------- MODULE Locate -------------------------------
(***************************************************************************)
(* Abstract specification of "locate" (properties C28 / C29):              *)
(*   src/json/locate.rs, src/yaml/locate.rs, JsonCursor::cursor_at_offset, *)
(*   YamlCursor::cursor_at_offset, CLI jq-locate / yq-locate.              *)
(*                                                                         *)
(* A TREE is a JSON/YAML value in the tagged-record encoding of DESIGN.md  *)
(* section 3 in which every node additionally carries the byte span [s, e) *)
(* of its token in the document text:                                      *)
(*   [t |-> "obj", s, e, kv |-> << <<keytok, tree>>, ... >>]                *)
(*        keytok = [s, e, cp]  (cp = code points of the key string)        *)
(*   [t |-> "arr", s, e, v |-> << tree, ... >>]                             *)
(*   [t |-> "str", s, e, cp]   [t |-> "num", s, e, lit]                     *)
(*   [t |-> "bool", s, e, b]   [t |-> "null", s, e]                         *)
(* A container's span runs from its opening bracket to just after its      *)
(* closing bracket.  s = e = -1 marks a VIRTUAL node that has no token of   *)
(* its own: a YAML block collection, an implicit YAML null, and the array  *)
(* of documents that is the root of a YAML stream.                         *)
(* A VALUE is the same encoding without (or ignoring) the spans; the key   *)
(* of a value pair is any record with a cp field.                          *)
(*                                                                         *)
(* Offsets are 0-based byte offsets.  cq ("containers qualify") says       *)
(* whether a container's opening bracket is a located position (JSON: yes; *)
(* the YAML statement only speaks about scalars and keys: no).             *)
(***************************************************************************)
EXTENDS Integers, Sequences, FiniteSets

Null == [t |-> "null"]
Err  == [t |-> "err"]            \* "the path cannot be followed" (jq raises an error)

IsCont(n) == n.t \in {"obj", "arr"}
Virtual(n) == n.s < 0

\* ------------------------------------------------------------------------
\* structural equality of values, ignoring spans; objects are unordered maps
\* ------------------------------------------------------------------------
RECURSIVE VEq(_, _)
VEq(a, b) ==
  /\ a.t = b.t
  /\ CASE a.t = "obj" ->
            /\ Len(a.kv) = Len(b.kv)
            /\ \A j \in 1..Len(a.kv) :
                 \E k \in 1..Len(b.kv) : /\ a.kv[j][1].cp = b.kv[k][1].cp
                                         /\ VEq(a.kv[j][2], b.kv[k][2])
            /\ \A k \in 1..Len(b.kv) :
                 \E j \in 1..Len(a.kv) : a.kv[j][1].cp = b.kv[k][1].cp
       [] a.t = "arr" ->
            /\ Len(a.v) = Len(b.v)
            /\ \A j \in 1..Len(a.v) : VEq(a.v[j], b.v[j])
       [] a.t = "str" -> a.cp = b.cp
       [] a.t = "num" -> a.lit = b.lit
       [] a.t = "bool" -> a.b = b.b
       [] OTHER -> TRUE

\* a and b are the same node of the tree (same token, same value)
SameNode(a, b) == a.s = b.s /\ a.e = b.e /\ VEq(a, b)

\* ------------------------------------------------------------------------
\* paths: sequences of components  (object field by key / array element by
\* 0-based index); one record shape so that components can be compared
\* ------------------------------------------------------------------------
KeyC(cp) == [c |-> "k", cp |-> cp, i |-> -1]
IdxC(i)  == [c |-> "i", cp |-> <<>>, i |-> i]

\* ------------------------------------------------------------------------
\* the tokens of a tree, in document order, each with
\*   path  : PathOf(token) -- the keys / indices from the root down to it
\*           (a key token has the path of the value it names)
\*   role  : "val" | "key"
\*   s, e  : the token's span
\*   own   : the token's own value (for a key: the key STRING)
\*   named : the node the path designates (for a key: the value it names)
\* ------------------------------------------------------------------------
Tok(path, role, s, e, own, named) ==
  [path |-> path, role |-> role, s |-> s, e |-> e, own |-> own, named |-> named]

RECURSIVE Toks(_, _), ObjToks(_, _, _), ArrToks(_, _, _)
Toks(n, path) ==
  <<Tok(path, "val", n.s, n.e, n, n)>> \o
  (CASE n.t = "obj" -> ObjToks(n, path, 1)
     [] n.t = "arr" -> ArrToks(n, path, 1)
     [] OTHER -> <<>>)
ObjToks(n, path, j) ==
  IF j > Len(n.kv) THEN <<>>
  ELSE LET kt == n.kv[j][1]
           v  == n.kv[j][2]
           p  == Append(path, KeyC(kt.cp))
       IN <<Tok(p, "key", kt.s, kt.e, [t |-> "str", cp |-> kt.cp], v)>>
          \o Toks(v, p) \o ObjToks(n, path, j + 1)
ArrToks(n, path, j) ==
  IF j > Len(n.v) THEN <<>>
  ELSE Toks(n.v[j], Append(path, IdxC(j - 1))) \o ArrToks(n, path, j + 1)

Tokens(tree) == Toks(tree, <<>>)

\* offset `off` is a located position of token k: anywhere inside a key or scalar
\* token, the opening bracket of a container (virtual nodes have no position)
Hit(k, off, cq) ==
  IF k.role = "key" \/ ~IsCont(k.own)
  THEN k.s <= off /\ off < k.e
  ELSE cq /\ k.s = off

HitSet(T, off, cq) == {i \in 1..Len(T) : Hit(T[i], off, cq)}

Qualifies(T, off, cq) == HitSet(T, off, cq) # {}

\* NodeAt: THE token located at a qualifying offset (unique in a well-formed tree,
\* see MC_Locate!InvUnique)
NodeAt(T, off, cq) == T[CHOOSE i \in HitSet(T, off, cq) : TRUE]

NumQualifying(T, len, cq) == Cardinality({o \in 0..(len - 1) : Qualifies(T, o, cq)})

\* ------------------------------------------------------------------------
\* jq path semantics: .key on an object = the value of the LAST pair with that
\* key (null if none), on null = null; .[i] on an array = element i (null when
\* out of range), on null = null; anything else is an error
\* ------------------------------------------------------------------------
Field(n, cp) ==
  LET J == {j \in 1..Len(n.kv) : n.kv[j][1].cp = cp}
  IN IF J = {} THEN Null
     ELSE n.kv[CHOOSE j \in J : \A k \in J : k <= j][2]

RECURSIVE ValueAtPath(_, _)
ValueAtPath(n, path) ==
  IF path = <<>> THEN n
  ELSE LET c == Head(path)
           rest == Tail(path)
       IN IF n.t = "null" THEN ValueAtPath(Null, rest)
          ELSE IF c.c = "k"
          THEN (IF n.t = "obj" THEN ValueAtPath(Field(n, c.cp), rest) ELSE Err)
          ELSE (IF n.t = "arr"
                THEN (IF c.i < Len(n.v) THEN ValueAtPath(n.v[c.i + 1], rest)
                      ELSE ValueAtPath(Null, rest))
                ELSE Err)

\* what evaluating the located expression must produce / what at_offset must produce
LocatedValue(tree, k) == ValueAtPath(tree, k.path)
AtOffsetValue(k) == k.own

\* ------------------------------------------------------------------------
\* the innermost node, by descent from the root (an independent definition
\* used to justify NodeAt: MC_Locate!InvInnermost)
\* ------------------------------------------------------------------------
RECURSIVE Covers(_, _)
Covers(n, off) ==
  IF ~Virtual(n) THEN n.s <= off /\ off < n.e
  ELSE CASE n.t = "obj" -> \E j \in 1..Len(n.kv) :
                              \/ (n.kv[j][1].s <= off /\ off < n.kv[j][1].e)
                              \/ Covers(n.kv[j][2], off)
         [] n.t = "arr" -> \E j \in 1..Len(n.v) : Covers(n.v[j], off)
         [] OTHER -> FALSE

\* deepest token whose extent contains off, as <<path, role, s, e, is-container>>
RECURSIVE Deepest(_, _, _)
Deepest(n, path, off) ==
  CASE n.t = "obj" ->
         LET KJ == {j \in 1..Len(n.kv) : n.kv[j][1].s <= off /\ off < n.kv[j][1].e}
             VJ == {j \in 1..Len(n.kv) : Covers(n.kv[j][2], off)}
         IN IF KJ # {}
            THEN LET j == CHOOSE j \in KJ : TRUE
                 IN <<Append(path, KeyC(n.kv[j][1].cp)), "key", n.kv[j][1].s, n.kv[j][1].e, FALSE>>
            ELSE IF VJ # {}
            THEN LET j == CHOOSE j \in VJ : TRUE
                 IN Deepest(n.kv[j][2], Append(path, KeyC(n.kv[j][1].cp)), off)
            ELSE <<path, "val", n.s, n.e, TRUE>>
    [] n.t = "arr" ->
         LET VJ == {j \in 1..Len(n.v) : Covers(n.v[j], off)}
         IN IF VJ # {}
            THEN LET j == CHOOSE j \in VJ : TRUE
                 IN Deepest(n.v[j], Append(path, IdxC(j - 1)), off)
            ELSE <<path, "val", n.s, n.e, TRUE>>
    [] OTHER -> <<path, "val", n.s, n.e, FALSE>>

\* ------------------------------------------------------------------------
\* well-formed layout: real spans are non-empty, children lie inside a real
\* parent strictly after its opening bracket and before its closing bracket,
\* and the real tokens appear in document order without overlap
\* ------------------------------------------------------------------------
RECURSIVE RealSpans(_)
\* the real (non-virtual) leaf-level extents in document order: <<s, e>> pairs of keys,
\* scalars and of the two brackets of real containers
RealSpans(n) ==
  LET inner ==
        CASE n.t = "obj" ->
               LET F[j \in 0..Len(n.kv)] ==
                     IF j = 0 THEN <<>>
                     ELSE F[j - 1] \o <<<<n.kv[j][1].s, n.kv[j][1].e>>>> \o RealSpans(n.kv[j][2])
               IN F[Len(n.kv)]
          [] n.t = "arr" ->
               LET F[j \in 0..Len(n.v)] ==
                     IF j = 0 THEN <<>> ELSE F[j - 1] \o RealSpans(n.v[j])
               IN F[Len(n.v)]
          [] OTHER -> <<>>
  IN IF IsCont(n)
     THEN (IF Virtual(n) THEN inner
           ELSE <<<<n.s, n.s + 1>>>> \o inner \o <<<<n.e - 1, n.e>>>>)
     ELSE (IF Virtual(n) THEN <<>> ELSE <<<<n.s, n.e>>>>)

WellFormed(tree, len) ==
  LET R == RealSpans(tree)
  IN /\ \A i \in 1..Len(R) : 0 <= R[i][1] /\ R[i][1] < R[i][2] /\ R[i][2] <= len
     /\ \A i \in 1..(Len(R) - 1) : R[i][2] <= R[i + 1][1]

\* no object of the tree has two pairs with the same key
RECURSIVE NoDupKeys(_)
NoDupKeys(n) ==
  CASE n.t = "obj" ->
         /\ \A i, j \in 1..Len(n.kv) : i # j => n.kv[i][1].cp # n.kv[j][1].cp
         /\ \A j \in 1..Len(n.kv) : NoDupKeys(n.kv[j][2])
    [] n.t = "arr" -> \A j \in 1..Len(n.v) : NoDupKeys(n.v[j])
    [] OTHER -> TRUE
=============================================================================
