------------------------------ MODULE MC_JqCore ------------------------------
(* Bounded validation of the reference semantics JqCore.tla: the algebraic laws  *)
(* that C25 states for the implementation are THEOREMS of the specification on   *)
(* every value of the bounded universe (so the oracle is not a wish), and the    *)
(* total order that `sort`/`unique`/`group_by`/comparisons rest on is a strict   *)
(* weak order.  Values are picked through Next steps (x, then y, then z) so that *)
(* TLC's workers share the enumeration.                                          *)
(*   Scal  : null false true -1 0 1 2, the atoms 1.5 and 1.0, "" "a" "b"         *)
(*   U0    : Scal + containers of <= 1 scalar               (<= 2 nodes)         *)
(*   U1    : Scal + arrays/objects of <= 2 members from Scal (quick)             *)
(*           or from U0 (thorough)                          (<= 5 nodes)         *)
EXTENDS JqCore

CONSTANTS Deep,   \* FALSE: members of U1 are scalars; TRUE: members are drawn from U0
          Small   \* TRUE: 7 scalars instead of 12 (quick tier)

VARIABLES ph, x, y, z
vars == <<ph, x, y, z>>

Atom15 == [t |-> "num", n |-> 1, fr |-> 524289, a |-> <<49, 46, 53>>]
Atom10 == [t |-> "num", n |-> 1, fr |-> 0, a |-> <<49, 46, 48>>]
Scal == IF Small THEN {Null, Bool(FALSE), Bool(TRUE), NumI(0), Atom15, Str(<<>>), Str(<<97>>)}
        ELSE {Null, Bool(FALSE), Bool(TRUE), NumI(-1), NumI(0), NumI(1), NumI(2), Atom15, Atom10,
              Str(<<>>), Str(<<97>>), Str(<<98>>)}
Keys == {<<97>>, <<98>>}

Arrs(S) == {Arr(<<>>)} \cup {Arr(<<a>>) : a \in S} \cup {Arr(<<a, b>>) : a \in S, b \in S}
Objs(S) == {Obj(<<>>)} \cup {Obj(<< <<k, a>> >>) : k \in Keys, a \in S}
             \cup {Obj(<< <<kk[1], a>>, <<kk[2], b>> >>) : kk \in {q \in Keys \X Keys : q[1] # q[2]}, a \in S, b \in S}
Arrs1(S) == {Arr(<<>>)} \cup {Arr(<<a>>) : a \in S}
Objs1(S) == {Obj(<<>>)} \cup {Obj(<< <<k, a>> >>) : k \in Keys, a \in S}

U0 == Scal \cup Arrs1(Scal) \cup Objs1(Scal)
U1 == IF Deep THEN Scal \cup Arrs(U0) \cup Objs(U0) ELSE Scal \cup Arrs(Scal) \cup Objs(Scal)

\* documents with repeated keys (inputs only)
DupDocs == {Obj(<< <<k1, a>>, <<k2, b>>, <<k1, c>> >>) : k1 \in Keys, k2 \in Keys, a \in {NumI(1), Arr(<<>>)}, b \in {NumI(2)}, c \in {NumI(3), Null}}

Init == ph = "start" /\ x = Null /\ y = Null /\ z = Null
PickX == ph = "start" /\ \E a \in U1 : x' = a /\ ph' = "x" /\ UNCHANGED <<y, z>>
PickY == ph = "x" /\ \E b \in U1 : y' = b /\ ph' = "xy" /\ UNCHANGED <<x, z>>
PickZ == ph = "xy" /\ x \in U0 /\ y \in U0 /\ \E c \in U0 : z' = c /\ ph' = "xyz" /\ UNCHANGED <<x, y>>
PickD == ph = "start" /\ \E d \in DupDocs : x' = d /\ ph' = "doc" /\ UNCHANGED <<y, z>>
Next == PickX \/ PickY \/ PickZ \/ PickD
Spec == Init /\ [][Next]_vars

\* ------------------------------------------------------------------ helpers
Id == [op |-> "id"]
CallA(f) == [op |-> "call", f |-> f, a |-> <<>>]
Call1(f, a) == [op |-> "call", f |-> f, a |-> <<a>>]
PipeA(l, r) == [op |-> "pipe", l |-> l, r |-> r]
Run(ast, v) == Eval(ast, v, EmptyEnv)
Yields(ast, v, outs) == LET r == Run(ast, v) IN r.end.k = "ok" /\ r.out = outs
Count(s, e) == Cardinality({i \in 1..Len(s) : s[i] = e})
IsPerm(s, t) == Len(s) = Len(t) /\ \A i \in 1..Len(s) : Count(s, s[i]) = Count(t, s[i])
Ordered(s) == \A i \in 1..Len(s) - 1 : Cmp(s[i], s[i + 1]) <= 0
StrictlyOrdered(s) == \A i \in 1..Len(s) - 1 : Cmp(s[i], s[i + 1]) < 0
IsPrefixPath(p, q) == Len(p) <= Len(q) /\ SubSeq(q, 1, Len(p)) = p

\* ------------------------------------------------------- laws on one value
Law1(v) ==
  /\ Cmp(v, v) = 0
  /\ Norm(v) = v
  \* paths / getpath / setpath
  /\ LET ps == PathsOf(v, <<>>) IN
       /\ Len(ps) + 1 = Len(RecurseAll(v))
       /\ \A i \in 1..Len(ps) :
            LET g == GetPathV(v, ps[i], 1) IN
            /\ g.end.k = "ok"
            /\ g.out[1] = RecurseAll(v)[i + 1]                       \* paths and `..` enumerate in the same order
            /\ SetPathV(v, ps[i], 1, g.out[1]) = R1(v)               \* setpath(p; getpath(p)) = .
            /\ LET s == SetPathV(v, ps[i], 1, Str(<<122>>)) IN       \* assignment changes exactly that path
                 /\ s.end.k = "ok"
                 /\ GetPathV(s.out[1], ps[i], 1) = R1(Str(<<122>>))
                 /\ \A j \in 1..Len(ps) :
                      (~IsPrefixPath(ps[i], ps[j]) /\ ~IsPrefixPath(ps[j], ps[i]))
                        => GetPathV(s.out[1], ps[j], 1) = GetPathV(v, ps[j], 1)
            /\ LET d == DelPathsV(v, Arr(<<Arr(ps[i])>>)) IN         \* delpaths([p]) removes exactly one node
                 d.end.k = "ok" /\ Len(RecurseAll(d.out[1])) = Len(RecurseAll(v)) - Len(RecurseAll(g.out[1]))
       /\ Yields(Call1("paths", [op |-> "lit", v |-> Bool(TRUE)]), v, [i \in 1..Len(ps) |-> Arr(ps[i])])
       /\ Yields(Call1("getpath", [op |-> "arr0"]), v, <<v>>)
       /\ Yields(Call1("delpaths", [op |-> "arr0"]), v, <<v>>)
  \* tostream / fromstream
  /\ FromStreamR(StreamOf(v, <<>>), OK, 1, [x |-> Null, e |-> FALSE], <<>>) = R1(v)
  /\ Yields(PipeA([op |-> "arr", e |-> CallA("tostream")], Call1("fromstream", [op |-> "iter"])), v, <<v>>)
  \* to_entries / from_entries / with_entries
  /\ v.t = "obj" => /\ Yields(PipeA(CallA("to_entries"), CallA("from_entries")), v, <<v>>)
                    /\ Yields(Call1("with_entries", Id), v, <<v>>)
                    /\ Yields(CallA("keys"), v, <<Arr([i \in 1..Len(v.kv) |-> Str(SortCP(ObjKeys(v))[i])])>>)
  \* sort / unique / group_by / min / max
  /\ v.t = "arr" =>
       LET s == SortVals(v.v)
           u == Run(CallA("unique"), v).out[1].v
           g == Run(Call1("group_by", Id), v).out[1].v
       IN /\ Ordered(s) /\ IsPerm(s, v.v) /\ SortVals(s) = s
          /\ Yields(CallA("sort"), v, <<Arr(s)>>)
          /\ Yields(Call1("sort_by", Id), v, <<Arr(s)>>)
          /\ StrictlyOrdered(u)
          /\ \A i \in 1..Len(v.v) : \E j \in 1..Len(u) : Eq(v.v[i], u[j])
          /\ \A j \in 1..Len(u) : \E i \in 1..Len(v.v) : v.v[i] = u[j]
          /\ Yields(PipeA(CallA("unique"), CallA("unique")), v, <<Arr(u)>>)
          /\ FlattenSeq([i \in 1..Len(g) |-> g[i].v]) = s
          /\ Len(g) = Len(u)
          /\ (v.v # <<>> => /\ Yields(CallA("min"), v, <<s[1]>>)
                            /\ Eq(Run(CallA("max"), v).out[1], s[Len(s)]))
          /\ Yields(PipeA(CallA("reverse"), CallA("reverse")), v, <<v>>)
          /\ Yields(CallA("length"), v, <<NumI(Len(v.v))>>)
  \* tojson is injective enough: equal text => equal value (checked on pairs below); type/length total
  /\ Run(CallA("type"), v).end.k = "ok"
  /\ Run(CallA("tojson"), v).end.k = "ok"

\* ------------------------------------------------------ laws on two values
Law2(a, b) ==
  /\ Cmp(a, b) = -Cmp(b, a)
  /\ (a = b => Cmp(a, b) = 0)
  /\ (ToJsonCP(a) = ToJsonCP(b) => a = b)
  /\ Yields([op |-> "cmp", o |-> "==", l |-> [op |-> "lit", v |-> a], r |-> [op |-> "lit", v |-> b]], Null, <<Bool(Cmp(a, b) = 0)>>)
  /\ Yields([op |-> "cmp", o |-> "<", l |-> [op |-> "lit", v |-> a], r |-> [op |-> "lit", v |-> b]], Null, <<Bool(Cmp(a, b) < 0)>>)
  /\ LET pair == Arr(<<a, b>>) IN
       /\ Yields(CallA("add"), pair, Arith("+", a, b).out) \/ Arith("+", a, b).end.k # "ok"
       /\ Run(CallA("sort"), pair).out[1].v = (IF Cmp(a, b) <= 0 THEN <<a, b>> ELSE <<b, a>>)   \* stable
  /\ (a.t = "obj" /\ b.t = "obj") =>
       LET s == Arith("+", a, b).out[1] IN
         /\ \A i \in 1..Len(b.kv) : KvGet(s.kv, b.kv[i][1]) = b.kv[i][2]
         /\ \A i \in 1..Len(a.kv) : KvHas(b.kv, a.kv[i][1]) \/ KvGet(s.kv, a.kv[i][1]) = a.kv[i][2]
         /\ Norm(s) = s

\* --------------------------------------------------- laws on three values
Law3(a, b, c) ==
  /\ (Cmp(a, b) <= 0 /\ Cmp(b, c) <= 0) => Cmp(a, c) <= 0
  /\ (Cmp(a, b) < 0 /\ Cmp(b, c) <= 0) => Cmp(a, c) < 0
  /\ (Cmp(a, b) = 0 /\ Cmp(b, c) = 0) => Cmp(a, c) = 0
  /\ LET s == SortVals(<<a, b, c>>) IN Ordered(s) /\ IsPerm(s, <<a, b, c>>)

\* documents with repeated keys: jq's view keeps the first position and the last value
LawDoc(d) ==
  LET n == Norm(d) IN
  /\ Norm(n) = n
  /\ \A i \in 1..Len(n.kv) - 1 : \A j \in (i + 1)..Len(n.kv) : n.kv[i][1] # n.kv[j][1]
  /\ n.kv[1][1] = d.kv[1][1]
  /\ KvGet(n.kv, d.kv[3][1]) = d.kv[3][2]
  /\ Len(n.kv) = Cardinality({d.kv[i][1] : i \in 1..3})

Inv == /\ (ph = "x" => Law1(x))
       /\ (ph = "xy" => Law2(x, y))
       /\ (ph = "xyz" => Law3(x, y, z))
       /\ (ph = "doc" => LawDoc(x))
=============================================================================
