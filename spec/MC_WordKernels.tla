---------------------------- MODULE MC_WordKernels ----------------------------
(* Exhaustive check for C02 at a scaled word width: for EVERY word x of W bits  *)
(*  - the three select algorithms of the code (PDEP, CTZ loop, broadword with    *)
(*    the byte table) equal the definition SelectInWord for every k in 0..W+1,   *)
(*  - the SWAR popcount equals the cardinality,                                  *)
(*  - the byte table / select_in_byte equal SelectInByte on its whole domain,    *)
(*  - the linear-time evaluators used by Trace_WordKernels (Part 2 of            *)
(*    WordKernels) equal the set definitions (Part 1), for every argument.       *)
(* Words are reached through Next steps (x -> 2x, 2x+1), one state per word.     *)
EXTENDS WordKernelsImpl, TLC

CONSTANT Scope     \* "all": every word of W bits;  "edges": the structured families only (see InScope)

VARIABLE x

Init == x = 0
Next == \E y \in {2 * x, 2 * x + 1} : y <= Full /\ x' = y
Spec == Init /\ [][Next]_x

S == BitsOf(x)

\* ascending list of the set bits of x
SortedBits == LET RECURSIVE Lst(_)
                  Lst(i) == IF i = W THEN <<>> ELSE (IF Bit(x, i) = 1 THEN <<i>> ELSE <<>>) \o Lst(i + 1)
              IN Lst(0)

Ks == 0..(W + 1)

\* With Scope = "edges" (used at W = 16, B = 8: the real byte width, the real 256 x 8 table and
\* the real three-step SWAR) the invariants are evaluated on the families the trace stage also
\* uses: <= 2 or >= W-2 set bits, byte-periodic, single-byte-populated words.
InScope ==
  \/ Scope = "all"
  \/ Cardinality(S) <= 2 \/ Cardinality(S) >= W - 2
  \/ \A i \in 0..(W - B - 1) : Bit(x, i) = Bit(x, i + B)
  \/ \E j \in 0..(W \div B - 1) : \A i \in S : i \div B = j

SelectAlgorithmsExact ==
  InScope => \A k \in Ks :
    LET d == SelectInWord(S, k)
    IN /\ SelectPdep(x, k) = d
       /\ SelectCtz(x, k) = d
       /\ SelectBroadword(x, k) = d
       /\ IsSelect(S, k, d)
       /\ \A r \in 0..W : IsSelect(S, k, r) => r = d

PopcountExact ==
  /\ W % 8 = 0 => PopcountPortable(x) = Popcount(S)        \* the SWAR popcount folds 8-bit groups
  /\ CountOnes(x) = Popcount(S)

\* the byte table on its whole input space (checked at the states x < 2^B)
ByteTableExact ==
  x < Pow2(B) =>
     LET T == {i \in 0..(B - 1) : Bit(x, i) = 1}
     IN /\ \A k \in 0..(B - 1) : TableAt(x * B + k) = SelectInByte(T, k)
        /\ \A k \in 0..(B + 2) : SelectInByteImpl(x, k) = SelectInByte(T, k)
        /\ \A j \in 0..(W \div B - 1) : ByteOf({p + j * B : p \in T}, j) = T

\* Part 2 of WordKernels (used by the trace specification) = Part 1
EvaluatorsExact ==
  InScope =>
  LET b == SortedBits
      E == ExcPrefix(S)
  IN /\ IsSortedWord(b) /\ SetOf(b) = S
     /\ PopSorted(b) = Popcount(S)
     /\ \A k \in Ks : SelSorted(b, k) = SelectInWord(S, k)
     /\ UnmatchedFast(E) = FindUnmatchedClose(S)
     /\ \A p \in 0..(W + 1) : FindCloseFast(S, E, p) = FindCloseInWord(S, p)
     /\ \A st \in 0..W : \A v \in 0..W : \A e0 \in 1..3 :
           FindCloseFromFast(E, st, e0, v) = FindCloseFrom(S, st, e0, v)

\* sanity of the definitions themselves (non-vacuity helpers)
DefinitionsSane ==
  /\ \A k \in Ks : LET r == SelectInWord(S, k) IN (r < W) = (k < Popcount(S))
  /\ FindUnmatchedClose(S) \in 0..W
  /\ BlockPopcount(<<S, S, {}>>) = 2 * Popcount(S)
=============================================================================
