CONSTANTS MaxLen = 6  Reps = {123, 125, 58, 45, 34, 92, 9}  PadBytes = {32, 10, 13, 0, 255, 128, 47, 59, 64, 94, 96, 124, 126, 127}  MaxPad = 3
SPECIFICATION Spec
INVARIANT Inv
CHECK_DEADLOCK FALSE
