------------------------------- MODULE Binary -------------------------------
(***************************************************************************)
(* C31 -- the serialization format of succinctly::binary: raw little-      *)
(* endian u64 words, 8 bytes per word, no header.                          *)
(*                                                                         *)
(* A 64-bit word is the SET of its set-bit positions (0 = least            *)
(* significant), a byte is an integer 0..255, byte strings and word        *)
(* vectors are sequences.                                                  *)
(*                                                                         *)
(* There is NO alignment / address parameter anywhere in this module: the  *)
(* result of every operator is a function of the byte VALUES only.  That   *)
(* is the statement "conversion succeeds regardless of where the slice     *)
(* starts in memory".                                                      *)
(***************************************************************************)
EXTENDS Integers, Sequences, FiniteSets

None == -1

RECURSIVE Pow2(_)
Pow2(n) == IF n = 0 THEN 1 ELSE 2 * Pow2(n - 1)

RECURSIVE SumPow(_)
SumPow(S) == IF S = {} THEN 0 ELSE LET x == CHOOSE y \in S : TRUE IN Pow2(x) + SumPow(S \ {x})

\* byte j (0..7) of word w: bits 8j .. 8j+7, little-endian
ByteOf(w, j) == SumPow({b - 8 * j : b \in {c \in w : c \div 8 = j}})

BitsOfByte(v) == {i \in 0..7 : (v \div Pow2(i)) % 2 = 1}

WordBytes(w) == [j \in 1..8 |-> ByteOf(w, j - 1)]

\* words_to_bytes
WordsToBytes(ws) == [i \in 1..(8 * Len(ws)) |-> ByteOf(ws[(i - 1) \div 8 + 1], (i - 1) % 8)]

\* the word held by bytes[8k+1 .. 8k+8]
WordAt(bytes, k) == UNION {{8 * j + i : i \in BitsOfByte(bytes[8 * k + j + 1])} : j \in 0..7}

\* bytes_to_words / bytes_to_words_vec on a length that is a multiple of 8
BytesToWords(bytes) == [k \in 1..(Len(bytes) \div 8) |-> WordAt(bytes, k - 1)]

\* try_bytes_to_words: None exactly for a bad length (a record, because TLC cannot compare a
\* sequence with the integer None)
Try(bytes) == [none |-> Len(bytes) % 8 # 0,
               words |-> IF Len(bytes) % 8 # 0 THEN <<>> ELSE BytesToWords(bytes)]

IsWord(w) == w \subseteq 0..63
IsByte(v) == v \in 0..255
=============================================================================
