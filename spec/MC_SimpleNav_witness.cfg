CONSTANTS MaxLen = 6  Reps = {91, 125, 44, 34, 92, 32}
SPECIFICATION Spec
INVARIANT NoWitness
CHECK_DEADLOCK FALSE
