---------------------------- MODULE MC_QuoteMask ----------------------------
(* C20 model stage, part 1: the two quote-mask algorithms at scaled width W  *)
(* against the bit-serial definition, on EVERY W-bit quote mask, both        *)
(* incoming carries, and every pair of consecutive chunks (carry hand-over,  *)
(* including a quote at bit W-1).  Masks are drawn through Next steps.       *)
EXTENDS QuoteMaskImpl, TLC

VARIABLES carry, qm1, qm2, phase

vars == <<carry, qm1, qm2, phase>>

Init == carry = 0 /\ qm1 = Zero /\ qm2 = Zero /\ phase = 0

First == /\ phase = 0
         /\ \E c \in {0, 1}, w \in Word : carry' = c /\ qm1' = w
         /\ phase' = 1
         /\ UNCHANGED qm2

Second == /\ phase = 1
          /\ \E w \in Word : qm2' = w
          /\ phase' = 2
          /\ UNCHANGED <<carry, qm1>>

Next == First \/ Second

Spec == Init /\ [][Next]_vars

Inv == /\ phase = 1 => OneChunkOK(carry, qm1)
       /\ phase = 2 => TwoChunksOK(carry, qm1, qm2)
=============================================================================
