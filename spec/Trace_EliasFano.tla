-------------------------- MODULE Trace_EliasFano --------------------------
(***************************************************************************)
(* Trace validation for C03.  Every recorded call on the real EliasFano /  *)
(* EliasFanoCursor must be a step of the abstract EliasFano machine        *)
(* (cursor = one index), and -- through the verif-hooks accessor -- the    *)
(* concrete cursor (idx, high_pos, word_idx, remaining_bits) must satisfy  *)
(* the representation invariant stated in the field comments, evaluated on *)
(* the real high_bits (logged run-length at build) with the REAL constants *)
(* W = 64.  u32 keys are <<hi16, lo16>> pairs.                             *)
(***************************************************************************)
EXTENDS TraceBase, BitRuns

PairLeq(x, y) == x[1] < y[1] \/ (x[1] = y[1] /\ x[2] <= y[2])
NoPair == <<-1, -1>>

A == INSTANCE EliasFano WITH Leq <- PairLeq, NoKey <- NoPair

VARIABLES l, vals, high, cur, hooked

vars == <<l, vals, high, cur, hooked>>

W == 64

\* universe = last + 1 as a pair (may be <<65536, 0>>)
Succ(p) == IF p[2] = 65535 THEN <<p[1] + 1, 0>> ELSE <<p[1], p[2] + 1>>
UniverseOf(v) == IF Len(v) = 0 THEN <<0, 0>> ELSE Succ(v[Len(v)])

Build(e) ==
  /\ e.e = "build"
  /\ A!NonDecreasing(e.vals)                      \* harness sanity: the input is in the domain
  /\ e.n = Len(e.vals)
  /\ e.empty = (IF Len(e.vals) = 0 THEN 1 ELSE 0)
  /\ e.universe = UniverseOf(e.vals)
  /\ vals' = e.vals
  /\ high' = Tab(e.high)
  /\ hooked' = (e.lw >= 0)
  /\ (hooked' /\ Len(e.vals) > 0 => high'.ones = Len(e.vals))   \* one high bit per element
  /\ cur' = 0

GetEv(e) ==
  /\ e.e = "get"
  /\ e.r = (IF e.a < 0 THEN NoPair ELSE A!Get(vals, e.a))
  /\ UNCHANGED <<vals, high, cur, hooked>>

PredEv(e) ==
  /\ e.e = "pred"
  /\ e.ri = A!PredecessorIdx(vals, e.v)
  /\ e.r = (IF e.ri < 0 THEN NoPair ELSE vals[e.ri + 1])
  /\ UNCHANGED <<vals, high, cur, hooked>>

IterEv(e) ==
  /\ e.e = "iter"
  /\ e.cnt = Len(vals)
  /\ e.items = vals
  /\ UNCHANGED <<vals, high, cur, hooked>>

NextCur(e) ==
  CASE e.op = "cursor" -> A!CCursor(vals)
    [] e.op = "from" -> A!CCursorFrom(vals, e.a)
    [] e.op = "adv1" -> A!CAdvanceOne(vals, cur)
    [] e.op = "advby" -> A!CAdvanceBy(vals, cur, e.a)
    [] e.op = "seek" -> A!CSeek(vals, e.a)

\* set-bit positions (ascending) of word wi of the high bits, at or after bit `off`
OnesOfWordFrom(wi, off) ==
  LET lo == OnesBefore(high, Min2(wi * W + off, high.tot))
      hi == OnesBefore(high, Min2((wi + 1) * W, high.tot))
  IN [j \in 1..(hi - lo) |-> RSelect1(high, high.tot, lo + j - 1) - wi * W]

ConcreteInv(e, c) ==
  (hooked /\ c < Len(vals)) =>
     LET hp == RSelect1(high, high.tot, c)
     IN /\ e.st[1] = c
        /\ e.st[2] = hp
        /\ e.st[3] = hp \div W
        /\ e.rb = OnesOfWordFrom(hp \div W, hp % W)

CursorEv(e) ==
  /\ e.e = "c"
  /\ cur' = NextCur(e)
  /\ e.idx = cur'
  /\ e.r = A!Current(vals, cur')
  /\ e.cur = A!Current(vals, cur')
  /\ e.ex = (IF A!IsExhausted(vals, cur') THEN 1 ELSE 0)
  /\ ConcreteInv(e, cur')
  /\ UNCHANGED <<vals, high, hooked>>

Init == l = 1 /\ vals = <<>> /\ high = Tab(<<>>) /\ cur = 0 /\ hooked = FALSE

Next == /\ l <= NRec
        /\ LET e == Rec[l] IN Build(e) \/ GetEv(e) \/ PredEv(e) \/ IterEv(e) \/ CursorEv(e)
        /\ l' = l + 1

Spec == Init /\ [][Next]_vars
=============================================================================
