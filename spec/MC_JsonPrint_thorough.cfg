CONSTANTS
  MaxNodes = 4
  MaxArity = 3
  NKeys = 3
  MCLays = {0, 1, 2, 3, 4, 5, 6, 7, 8, 9, 10}
SPECIFICATION Spec
INVARIANT Algebra
INVARIANT PerOption
CHECK_DEADLOCK FALSE
