----------------------------- MODULE MC_Binary -----------------------------
(* Small model of Binary: word vectors of <= MaxWords words whose set bits   *)
(* are drawn from the byte-edge positions EdgeBits, and byte strings of      *)
(* <= MaxBytes bytes over EdgeBytes, both built one element per step.        *)
(*   round trip    BytesToWords(WordsToBytes(ws)) = ws                       *)
(*   inverse       WordsToBytes(BytesToWords(bs)) = bs   when Len % 8 = 0    *)
(*   Try(bs) = None  <=>  Len(bs) % 8 # 0                                    *)
(*   little-endian byte order, 8 bytes per word                              *)
EXTENDS Binary, TLC

CONSTANTS MaxWords, MaxBytes, EdgeBits, EdgeBytes

VARIABLES ws, bs

vars == <<ws, bs>>

Init == ws = <<>> /\ bs = <<>>

AddWord == /\ Len(ws) < MaxWords /\ bs = <<>>
           /\ \E w \in SUBSET EdgeBits : ws' = Append(ws, w)
           /\ UNCHANGED bs
AddByte == /\ Len(bs) < MaxBytes /\ ws = <<>>
           /\ \E v \in EdgeBytes : bs' = Append(bs, v)
           /\ UNCHANGED ws

Next == AddWord \/ AddByte
Spec == Init /\ [][Next]_vars

Inv ==
  /\ LET by == WordsToBytes(ws)
     IN /\ Len(by) = 8 * Len(ws)
        /\ \A i \in 1..Len(by) : IsByte(by[i])
        /\ BytesToWords(by) = ws
        /\ Try(by) = [none |-> FALSE, words |-> ws]
        \* little-endian: bit 0 of word k is bit 0 of byte 8k, bit 63 is bit 7 of byte 8k+7
        /\ \A k \in 1..Len(ws) : /\ (0 \in ws[k]) = (by[8 * (k - 1) + 1] % 2 = 1)
                                 /\ (63 \in ws[k]) = (by[8 * (k - 1) + 8] >= 128)
                                 /\ (8 \in ws[k]) = (by[8 * (k - 1) + 2] % 2 = 1)
  /\ Try(bs).none = (Len(bs) % 8 # 0)
  /\ (~Try(bs).none => Try(bs).words = BytesToWords(bs))
  /\ (Len(bs) % 8 = 0 => /\ Len(BytesToWords(bs)) * 8 = Len(bs)
                         /\ \A k \in 1..Len(BytesToWords(bs)) : IsWord(BytesToWords(bs)[k])
                         /\ WordsToBytes(BytesToWords(bs)) = bs)
=============================================================================
