------------------------------ MODULE JsonPrint ------------------------------
(* C11 -- what `succinctly jq .` must print for a JSON document, as a VALUE.   *)
(*                                                                            *)
(* A JSON value is a uniform tagged record (every node has all five fields so *)
(* that TLC can compare any two nodes):                                       *)
(*   [t |-> "null" | "true" | "false" | "num" | "str" | "arr" | "obj" | "leaf",*)
(*    a  |-> atom (numbers: hex of the f64 the literal denotes, computed by   *)
(*           the harness; "leaf": the leaf's identity in generated shapes),   *)
(*    cp |-> code points of a string,                                         *)
(*    ks |-> keys of an object (each a code-point list; duplicates kept, in   *)
(*           source order),                                                   *)
(*    ch |-> children (array elements / object values, parallel to ks)]       *)
(*                                                                            *)
(* jq's duplicate-key rule: a repeated key keeps its FIRST position and its   *)
(* LAST value (Collapse).  --sort-keys orders every object's keys by code     *)
(* point (SortKeys).  ExpectedValue is what a conforming parser must read     *)
(* back; Pre/Post are the framing bytes around each printed value.            *)
EXTENDS Integers, Sequences, FiniteSets, SequencesExt, TLC

Node(t, a, cp, ks, ch) == [t |-> t, a |-> a, cp |-> cp, ks |-> ks, ch |-> ch]

-----------------------------------------------------------------------------
(* code-point lexicographic order on keys *)
CpLess(x, y) ==
  LET n == IF Len(x) < Len(y) THEN Len(x) ELSE Len(y)
      d == {i \in 1..n : x[i] # y[i]}
  IN IF d = {} THEN Len(x) < Len(y)
     ELSE LET i == CHOOSE p \in d : \A q \in d : p <= q IN x[i] < y[i]

-----------------------------------------------------------------------------
(* Collapse, declaratively: the surviving keys are the first occurrences, in  *)
(* order; each carries the value of the key's last occurrence.                *)
FirstPos(ks) == {i \in 1..Len(ks) : \A j \in 1..(i - 1) : ks[j] # ks[i]}

LastOf(ks, i) == CHOOSE j \in i..Len(ks) : ks[j] = ks[i] /\ \A m \in (j + 1)..Len(ks) : ks[m] # ks[i]

Ascending(S) == SetToSortSeq(S, LAMBDA p, q : p < q)

RECURSIVE Collapse(_)
Collapse(n) ==
  IF n.t = "arr" THEN [n EXCEPT !.ch = [i \in 1..Len(n.ch) |-> Collapse(n.ch[i])]]
  ELSE IF n.t = "obj" THEN
    LET fp == Ascending(FirstPos(n.ks))
    IN [n EXCEPT !.ks = [i \in 1..Len(fp) |-> n.ks[fp[i]]],
                 !.ch = [i \in 1..Len(fp) |-> Collapse(n.ch[LastOf(n.ks, fp[i])])]]
  ELSE n

(* Collapse, implementation-shaped (jq_runner.rs collapse_duplicate_fields /  *)
(* IndexMap insertion): walk the fields once; a key seen before overwrites    *)
(* the slot it already owns, a new key appends a slot.                        *)
Slots(ks) ==
  LET step(chosen, i) ==
        IF \E p \in 1..Len(chosen) : ks[chosen[p]] = ks[i]
        THEN [p \in 1..Len(chosen) |-> IF ks[chosen[p]] = ks[i] THEN i ELSE chosen[p]]
        ELSE Append(chosen, i)
  IN FoldLeft(step, <<>>, [i \in 1..Len(ks) |-> i])

RECURSIVE CollapseImpl(_)
CollapseImpl(n) ==
  IF n.t = "arr" THEN [n EXCEPT !.ch = [i \in 1..Len(n.ch) |-> CollapseImpl(n.ch[i])]]
  ELSE IF n.t = "obj" THEN
    LET sl == Slots(n.ks)
    IN [n EXCEPT !.ks = [i \in 1..Len(sl) |-> n.ks[sl[i]]],
                 !.ch = [i \in 1..Len(sl) |-> CollapseImpl(n.ch[sl[i]])]]
  ELSE n

-----------------------------------------------------------------------------
(* SortKeys: every object's entries ordered by key (code points); equal keys  *)
(* (only before Collapse) keep their source order, so the sort is stable.     *)
EntryLess(ks, i, j) == CpLess(ks[i], ks[j]) \/ (ks[i] = ks[j] /\ i < j)

RECURSIVE SortKeys(_)
SortKeys(n) ==
  IF n.t = "arr" THEN [n EXCEPT !.ch = [i \in 1..Len(n.ch) |-> SortKeys(n.ch[i])]]
  ELSE IF n.t = "obj" THEN
    LET ord == SortSeq([i \in 1..Len(n.ks) |-> i], LAMBDA i, j : EntryLess(n.ks, i, j))
    IN [n EXCEPT !.ks = [i \in 1..Len(ord) |-> n.ks[ord[i]]],
                 !.ch = [i \in 1..Len(ord) |-> SortKeys(n.ch[ord[i]])]]
  ELSE n

RECURSIVE AllSorted(_)
AllSorted(n) ==
  /\ n.t = "obj" => \A i \in 1..(Len(n.ks) - 1) : CpLess(n.ks[i], n.ks[i + 1])
  /\ n.t \in {"arr", "obj"} => \A i \in 1..Len(n.ch) : AllSorted(n.ch[i])

RECURSIVE NoDup(_)
NoDup(n) ==
  /\ n.t = "obj" => \A i, j \in 1..Len(n.ks) : i # j => n.ks[i] # n.ks[j]
  /\ n.t \in {"arr", "obj"} => \A i \in 1..Len(n.ch) : NoDup(n.ch[i])

(* the set of (key path, leaf) pairs; array steps are indices, object steps keys *)
RECURSIVE Leaves(_, _)
Leaves(n, path) ==
  IF n.t = "arr" /\ Len(n.ch) > 0
  THEN UNION {Leaves(n.ch[i], Append(path, <<"i", i>>)) : i \in 1..Len(n.ch)}
  ELSE IF n.t = "obj" /\ Len(n.ch) > 0
  THEN UNION {Leaves(n.ch[i], Append(path, <<"k", n.ks[i]>>)) : i \in 1..Len(n.ch)}
  ELSE {<<path, n.t, n.a, n.cp>>}

(* key paths with array positions (sorting never moves array elements) *)
RECURSIVE Size(_)
Size(n) == IF n.t \in {"arr", "obj"}
           THEN FoldLeft(LAMBDA acc, c : acc + Size(c), 1, n.ch)
           ELSE 1

-----------------------------------------------------------------------------
(* Options.  lay: 0..7 --indent n, 8 --tab, 9 -c, 10 default (2 spaces).      *)
(* S / a / seq: 0/1.  raw: 0 none, 1 -r, 2 -j, 3 --raw-output0.               *)
(* route: 0 filter `.`, 1 filter `. # input` (runner's "input" gate).         *)
Lays == 0..10
OptSpace == [lay : Lays, S : {0, 1}, a : {0, 1}, raw : 0..3, seq : {0, 1}, route : {0, 1}]

ExpectedValue(tree, o) == IF o.S = 1 THEN SortKeys(Collapse(tree)) ELSE Collapse(tree)

RS == 30
LF == 10
NUL == 0
Pre(o) == IF o.seq = 1 THEN <<RS>> ELSE <<>>
Post(o) == IF o.raw = 3 THEN <<NUL>> ELSE IF o.raw = 2 THEN <<>> ELSE <<LF>>

(* raw output changes only how a top-level STRING is printed; the property    *)
(* covers raw output for non-strings.                                         *)
InScope(tree, o) == o.raw # 0 => tree.t # "str"

(* the runner's own gates (jq_runner.rs can_use_lazy_path) *)
RouteOf(o) == IF o.route = 0 /\ o.S = 0 /\ o.a = 0 /\ o.seq = 0 THEN "lazy"
              ELSE IF o.route = 1 THEN "materialized_inputq" ELSE "materialized"

-----------------------------------------------------------------------------
(* Trees from preorder token lists (used by MC_JsonPrint and Gen_JsonPrint).  *)
(* token: [k |-> "leaf" | "arr" | "obj", n |-> arity, ks |-> keys]            *)
(* a leaf's identity is its token index.                                      *)
Tok(k, n, ks) == [k |-> k, n |-> n, ks |-> ks]

RECURSIVE ParseAt(_, _), ParseKids(_, _, _)
ParseKids(toks, i, n) ==
  IF n = 0 THEN [ts |-> <<>>, nx |-> i]
  ELSE LET h == ParseAt(toks, i)
           r == ParseKids(toks, h.nx, n - 1)
       IN [ts |-> <<h.t>> \o r.ts, nx |-> r.nx]
ParseAt(toks, i) ==
  LET k == toks[i]
  IN IF k.k = "leaf" THEN [t |-> Node("leaf", ToString(i), <<>>, <<>>, <<>>), nx |-> i + 1]
     ELSE LET r == ParseKids(toks, i + 1, k.n)
          IN [t |-> Node(k.k, "", <<>>, k.ks, r.ts), nx |-> r.nx]

TreeOf(toks) == ParseAt(toks, 1).t
ForestOf(toks, n) == ParseKids(toks, 1, n).ts

(* Trees arrive in traces as flat preorder lists of [t, a, cp, ks, n] (n = number of      *)
(* children): the JSON reader of TLC refuses nesting deeper than 255.                     *)
RECURSIVE FParseAt(_, _), FParseKids(_, _, _)
FParseKids(toks, i, n) ==
  IF n = 0 THEN [ts |-> <<>>, nx |-> i]
  ELSE LET h == FParseAt(toks, i)
           r == FParseKids(toks, h.nx, n - 1)
       IN [ts |-> <<h.t>> \o r.ts, nx |-> r.nx]
FParseAt(toks, i) ==
  LET k == toks[i]
      r == FParseKids(toks, i + 1, k.n)
  IN [t |-> Node(k.t, k.a, k.cp, k.ks, r.ts), nx |-> r.nx]

WellFormedFlat(toks) == Len(toks) > 0 /\ FParseAt(toks, 1).nx = Len(toks) + 1
FTree(toks) == FParseAt(toks, 1).t

(* all key lists of length n over a key palette *)
KeyLists(K, n) == [1..n -> K]
=============================================================================
