------------------------ MODULE Gen_YamlPresentation ------------------------
(* Enumerates (model checking mode) or samples (-simulate) complete streams  *)
(* of the presentation grammar and prints each as one REPLAY line: the       *)
(* abstract presentation plus the value the denotation assigns to every      *)
(* document.  harness/src/bin/c14.rs renders it to bytes, loads it with the  *)
(* real YamlIndex and compares (C14), and runs the strict validator (C18).   *)
EXTENDS YamlPresentation, Json, TLC

Emit == phase = "done" => PrintT(<<"REPLAY", ToJson(StreamOut)>>)
Inv == GrammarInv
=============================================================================
