------------------------------ MODULE TraceBase ------------------------------
(* Common scaffolding of every trace specification: the recorded events are   *)
(* read from the NDJSON file named by the environment variable TRACE; `l` is  *)
(* the index of the next event to be matched.  The POSTCONDITION prints       *)
(*   <<"VERIF_TRACE", number of events matched, number of events>>            *)
(* (longest matched prefix, from the diameter of the explored graph: there is *)
(* exactly one state per consumed event plus the initial state).              *)
EXTENDS Integers, Sequences, Json, IOUtils, TLC

Rec == ndJsonDeserialize(IOEnv.TRACE)

NRec == Len(Rec)

Verdict ==
  LET d == TLCGet("stats").diameter
  IN PrintT(<<"VERIF_TRACE", d - 1, NRec>>)

Has(e, f) == f \in DOMAIN e
=============================================================================
