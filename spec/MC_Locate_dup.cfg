SPECIFICATION Spec
CONSTANTS
  MaxNodes = 3
  MaxGap = 0
  KeyCps <- KeysAB
  Yaml = FALSE
  ImplMutant = "none"
  AllowDup = TRUE
INVARIANTS InvLayout InvUnique InvPath
CHECK_DEADLOCK FALSE
