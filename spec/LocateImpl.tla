----------------------------- MODULE LocateImpl -----------------------------
(***************************************************************************)
(* Implementation-shaped transcription of src/json/locate.rs on the view   *)
(* the real code has of a JSON document: the semi-index.                   *)
(*   * BP: one node per structural element in document order (= preorder); *)
(*     in an object the key strings are leaves and siblings of the values  *)
(*     (k1 v1 k2 v2 ...), so a "node" here is a key token or a value;      *)
(*   * IB: the start offset of every node.                                 *)
(* The flat table F (1-based, document order) has per node: s, e, p (index *)
(* of the parent, 0 for the root), t (kind; "key" for a key token), cp.    *)
(*                                                                         *)
(*   ImplFind  = find_node_at_offset / cursor_at_offset: rank of the IB    *)
(*               bits before off; a bit exactly at off selects that node,  *)
(*               otherwise the node started at the previous bit            *)
(*   ImplPath  = path_to_bp: walk up with parent(); under an array         *)
(*               count_siblings_before, under an object find_key_for_value *)
(* MC_Locate!InvImpl checks that on every qualifying offset this is the    *)
(* abstract NodeAt / PathOf of Locate.tla (it says nothing, as the         *)
(* property, about other offsets: there ImplFind returns the preceding     *)
(* token).                                                                 *)
(***************************************************************************)
EXTENDS Locate

\* "none": the code as it is; "sib_le": the DESIGN.md Appendix A mutant `<` -> `<=` in
\* count_siblings_before (used by MC_Locate_implmut.cfg, which must violate InvImpl)
CONSTANT ImplMutant

RECURSIVE FlatOf(_, _, _), FlatObj(_, _, _, _), FlatArr(_, _, _, _)
\* table of the subtree n whose first entry gets index base + 1; p = index of n's parent
FlatOf(n, p, base) ==
  LET self == base + 1
      me == <<[s |-> n.s, e |-> n.e, p |-> p, t |-> n.t, cp |-> <<>>]>>
  IN CASE n.t = "obj" -> FlatObj(n, self, 1, me)
       [] n.t = "arr" -> FlatArr(n, self, 1, me)
       [] OTHER -> me
\* acc = entries so far of the subtree rooted at index self (self is the first of them)
FlatObj(n, self, j, acc) ==
  IF j > Len(n.kv) THEN acc
  ELSE LET kt == n.kv[j][1]
           withKey == Append(acc, [s |-> kt.s, e |-> kt.e, p |-> self, t |-> "key", cp |-> kt.cp])
           sub == FlatOf(n.kv[j][2], self, self - 1 + Len(withKey))
       IN FlatObj(n, self, j + 1, withKey \o sub)
FlatArr(n, self, j, acc) ==
  IF j > Len(n.v) THEN acc
  ELSE FlatArr(n, self, j + 1, acc \o FlatOf(n.v[j], self, self - 1 + Len(acc)))

Flat(tree) == FlatOf(tree, 0, 0)

\* ---- find_node_at_offset ------------------------------------------------
\* 0 = None; otherwise the 1-based index of the node
ImplFind(F, len, off) ==
  IF off >= len THEN 0
  ELSE LET rank == Cardinality({i \in 1..Len(F) : F[i].s < off})      \* ib_rank1(off)
           at == \E i \in 1..Len(F) : F[i].s = off                     \* ib_select1(rank) = off
       IN IF at THEN rank + 1 ELSE rank                                \* rank - 1, 0-based; 0 = None

\* ---- tree navigation on the table (BalancedParens first_child / next_sibling / parent) ----
ChildrenOf(F, i) ==
  LET C == {c \in 1..Len(F) : F[c].p = i}
      RECURSIVE Sorted(_)
      Sorted(S) == IF S = {} THEN <<>>
                   ELSE LET m == CHOOSE x \in S : \A y \in S : x <= y
                        IN <<m>> \o Sorted(S \ {m})
  IN Sorted(C)

RECURSIVE IsAnc(_, _, _)
IsAnc(F, a, d) == IF d = 0 \/ F[d].p = 0 THEN FALSE
                  ELSE F[d].p = a \/ IsAnc(F, a, F[d].p)

\* count_siblings_before: the loop `while child_bp < target_bp { count += 1; next_sibling }`
RECURSIVE CountLoop(_, _, _)
CountLoop(ch, j, target) ==
  IF j > Len(ch) THEN 0
  ELSE IF ch[j] < target \/ (ImplMutant = "sib_le" /\ ch[j] = target)
       THEN 1 + CountLoop(ch, j + 1, target) ELSE 0

\* find_key_for_value: pairs (k, v) in order; the first pair whose key is the target or
\* whose value is the target or an ancestor of it; 0 = None
RECURSIVE FindKey(_, _, _, _)
FindKey(F, ch, j, target) ==
  IF j + 1 > Len(ch) THEN 0
  ELSE LET k == ch[j]
           v == ch[j + 1]
       IN IF k = target \/ v = target \/ IsAnc(F, v, target) THEN k
          ELSE FindKey(F, ch, j + 2, target)

\* path_to_bp: components collected from the target up to the root, then reversed
RECURSIVE ImplPathUp(_, _)
ImplPathUp(F, cur) ==
  IF F[cur].p = 0 THEN <<>>
  ELSE LET par == F[cur].p
           ch == ChildrenOf(F, par)
       IN IF F[par].t = "arr"
          THEN Append(ImplPathUp(F, par), IdxC(CountLoop(ch, 1, cur)))
          ELSE LET k == FindKey(F, ch, 1, cur)
               IN IF k = 0 THEN <<[c |-> "none", cp |-> <<>>, i |-> -1]>>
                  ELSE Append(ImplPathUp(F, par), KeyC(F[k].cp))

ImplPath(F, i) == ImplPathUp(F, i)
=============================================================================
