------------------------------ MODULE BitWriter ------------------------------
(***************************************************************************)
(* succinctly::json::BitWriter (src/json/bit_writer.rs) -- the incremental *)
(* bit-vector builder underneath every JSON and DSV index builder.         *)
(*                                                                         *)
(* Abstract machine: `bits`, the sequence of bits written so far; every    *)
(* operation appends.  Implementation-shaped machine (scaled word width W, *)
(* code: 64): <<words, cur, pos>> = completed words, the partially filled  *)
(* word as a W-long bit sequence, and the bit position inside it; one      *)
(* operator per method, one IF-arm per code arm.                           *)
(***************************************************************************)
EXTENDS Integers, Sequences, SequencesExt

CONSTANT W

RECURSIVE Rep(_, _)
Rep(v, n) == IF n <= 0 THEN <<>> ELSE <<v>> \o Rep(v, n - 1)

ZeroWord == [i \in 1..W |-> 0]

\* ------------------------------------------------------------------ abstract
AWriteBit(bits, b) == Append(bits, b)
\* write_bits(v, count): the lowest `count` bits of v, LSB first; v is a W-long bit sequence
AWriteBits(bits, v, count) == bits \o SubSeq(v, 1, count)
AWriteZeros(bits, count) == bits \o Rep(0, count)
\* finish(): whole words, last one zero-padded
AFinish(bits) == bits \o Rep(0, (W - (Len(bits) % W)) % W)
ALen(bits) == Len(bits)

\* --------------------------------------------------------------- implementation
St(words, cur, pos) == [words |-> words, cur |-> cur, pos |-> pos]
New == St(<<>>, ZeroWord, 0)

\* cur | (v << pos), truncated to W bits
OrShifted(cur, v, pos) == [i \in 1..W |-> IF i > pos /\ v[i - pos] = 1 THEN 1 ELSE cur[i]]
\* v >> k
ShiftRight(v, k) == [i \in 1..W |-> IF i + k <= W THEN v[i + k] ELSE 0]
\* v & ((1 << count) - 1)
MaskLow(v, count) == [i \in 1..W |-> IF i <= count THEN v[i] ELSE 0]

IWriteBit(s, b) ==
  LET cur1 == IF b = 1 THEN [s.cur EXCEPT ![s.pos + 1] = 1] ELSE s.cur
  IN IF s.pos + 1 = W THEN St(Append(s.words, cur1), ZeroWord, 0)
     ELSE St(s.words, cur1, s.pos + 1)

IWriteBits(s, v, count) ==
  IF count = 0 THEN s
  ELSE LET space == W - s.pos
           m == MaskLow(v, count)
       IN IF count <= space
          THEN LET cur1 == OrShifted(s.cur, m, s.pos)
               IN IF s.pos + count = W THEN St(Append(s.words, cur1), ZeroWord, 0)
                  ELSE St(s.words, cur1, s.pos + count)
          ELSE St(Append(s.words, OrShifted(s.cur, m, s.pos)), ShiftRight(m, space), count - space)

IWriteZeros(s, count) ==
  IF count = 0 THEN s
  ELSE IF s.pos > 0 /\ count < W - s.pos THEN St(s.words, s.cur, s.pos + count)
  ELSE LET flushed == IF s.pos > 0 THEN Append(s.words, s.cur) ELSE s.words
           remaining == IF s.pos > 0 THEN count - (W - s.pos) ELSE count
           cur1 == IF s.pos > 0 THEN ZeroWord ELSE s.cur
       IN St(flushed \o Rep(ZeroWord, remaining \div W), cur1, remaining % W)

IFinish(s) == IF s.pos > 0 THEN Append(s.words, s.cur) ELSE s.words
ILen(s) == Len(s.words) * W + s.pos

\* ------------------------------------------------------------------ refinement
Flatten(ws) == FoldLeft(LAMBDA acc, w : acc \o w, <<>>, ws)
Abs(s) == Flatten(s.words) \o SubSeq(s.cur, 1, s.pos)
\* representation invariant: position in range, no stray bits at or above pos
RepInv(s) == s.pos >= 0 /\ s.pos < W /\ \A i \in (s.pos + 1)..W : s.cur[i] = 0
=============================================================================
