CONSTANTS W = 8
SPECIFICATION Spec
INVARIANT Inv
CHECK_DEADLOCK FALSE
