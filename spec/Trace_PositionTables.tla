------------------------ MODULE Trace_PositionTables ------------------------
(***************************************************************************)
(* Trace validation for C17: every recorded call of the real accessors     *)
(*   ts = YamlIndex::text_pos_by_open_idx      bs = YamlIndex::bp_to_text_pos      *)
(*   te = YamlIndex::text_end_pos_by_open_idx  be = YamlIndex::bp_to_text_end_pos  *)
(* must be a step of the abstract machine PositionTables: the answer is    *)
(* the function Start / an admissible End of the RECORDED tables and the   *)
(* lookup argument alone -- the events are validated in the order the real *)
(* code executed them (sequential, gapped, backward, repeated, the two     *)
(* tables interleaved), and nothing but (starts, ends) is carried from one *)
(* event to the next: that IS history independence.                        *)
(*                                                                         *)
(*   build: tl text length, s starts, en ends (0 = none), src parts|yaml,  *)
(*          n number of nodes (-2: the constructor panicked)               *)
(*   q:     op, a argument (-1 = any integer >= 2^30), r result (-1 None,  *)
(*          -2 panic); with hook H4 also co / ce = the SequentialCursor of *)
(*          the open / end table after the call as                         *)
(*          <<next_open_idx, adv_cumulative, ib_word_idx, ib_ones_before,  *)
(*            last_ib_arg (-1 = usize::MAX), last_ib_result>>, << >> for   *)
(*          the Dense variant.                                             *)
(* With the hook the concrete cursor invariants of the code comments are   *)
(* validated on the real object after every call (ListCursorInv, which the *)
(* model stage shows equal to the bitmap-level CursorInv), together with   *)
(* the documented Compact/Dense choice.                                    *)
(***************************************************************************)
EXTENDS TraceBase, SequencesExt

\* State: l (next event), b (index in Rec of the current table's build event, 0 = none yet),
\* k (how many build events so far), phase / out (the abstract machine's).  The abstract
\* machine's tables are the refinement mapping  starts <- Rec[b].s, ends <- Rec[b].en : the
\* recorded tables stay in the (constant) trace instead of being copied into every state.
VARIABLES l, b, k, phase, out

vars == <<l, b, k, phase, out>>

starts == IF b = 0 THEN <<>> ELSE Rec[b].s
ends == IF b = 0 THEN <<>> ELSE Rec[b].en

PT == INSTANCE PositionTables WITH MaxPos <- 0, MaxNodes <- 0, Indices <- {}
PI == INSTANCE PositionTablesImpl WITH W <- 64, R <- 256, IBExtra <- 0

None == -1

NonZeroMonotone(en) ==
  FoldLeft(LAMBDA acc, p : IF p = 0 THEN acc
                           ELSE [ok |-> acc.ok /\ acc.last <= p, last |-> p],
           [ok |-> TRUE, last |-> 0], en).ok

AllZero(en) == \A j \in 1..Len(en) : en[j] = 0

\* derived data for the hook clauses: which variant the documentation promises, the distinct
\* positions and the advance nodes of each table
Aux(s, en) ==
  LET om == PI!OpenMonotone(s)
      em == NonZeroMonotone(en)
      oai == IF om THEN PI!AdvIdx("open", s) ELSE <<>>
      eai == IF em THEN PI!AdvIdx("end", en) ELSE <<>>
  IN [ocompact |-> om,
      ecompact |-> em,
      oai |-> oai, ouniq |-> PI!UniqAt(s, oai),
      eai |-> eai, euniq |-> PI!UniqAt(en, eai),
      \* EndPositions::build: an all-zero table becomes the empty compact table
      en |-> IF em /\ ~AllZero(en) THEN Len(en) ELSE 0]

\* one entry per build event, evaluated once (constant of the trace)
AuxSeq ==
  FoldLeft(LAMBDA acc, e : IF e.e # "build" THEN acc
                           ELSE Append(acc, IF e.hook = 1 /\ \A j \in 1..Len(e.s) : e.s[j] >= 0
                                            THEN Aux(e.s, e.en) ELSE [ocompact |-> TRUE]),
           <<>>, Rec)

aux == AuxSeq[k]

Build(e) ==
  /\ e.e = "build"
  /\ e.n = (IF Len(e.s) > Len(e.en) THEN Len(e.s) ELSE Len(e.en))      \* no constructor panic
  /\ \A j \in 1..Len(e.s) : e.s[j] >= 0                                 \* every node has a start
  /\ b' = l /\ k' = k + 1
  /\ phase' = "look" /\ out' = PT!NoOut

Cur(c) == [noi |-> c[1], adv |-> c[2], wi |-> c[3], ob |-> c[4], la |-> c[5], lr |-> c[6]]

\* clauses about the concrete object (only when the harness was built with hook H4)
HookOk(e) ==
  Has(e, "co") =>
    \* Compact (Advance-Index) encoding only when it can represent the table (monotone);
    \* choosing Dense where Compact was possible answers correctly too and is NOT a violation
    \* (the property is about answers; coordinator's decision, DESIGN.md 11.5)
    /\ (Len(e.co) = 6) => aux.ocompact
    /\ (Len(e.ce) = 6) => aux.ecompact
    /\ Len(e.co) = 6 =>
          PI!ListCursorInv(aux.ouniq, aux.oai, Len(starts), 64, Cur(e.co))
    /\ Len(e.ce) = 6 =>
          PI!ListCursorInv(aux.euniq, aux.eai, aux.en, 64, Cur(e.ce))
    /\ Len(e.co) \in {0, 6} /\ Len(e.ce) \in {0, 6}

\* "huge" arguments (logged -1) are beyond every table
Arg(a) == IF a < 0 THEN 1073741824 ELSE a

Query(e) ==
  /\ e.e = "q"
  /\ phase = "look"
  /\ b' = b /\ k' = k
  /\ LET i == Arg(e.a)
     IN \/ /\ e.op \in {"ts", "bs"}
           /\ PT!LookupStart(i)                       \* out' = <<"start", i, Start(starts, i)>>
           /\ out'[3] = e.r
        \/ /\ e.op \in {"te", "be"}
           /\ PT!EndOk(starts, ends, i, e.r)
           /\ out' = <<"end", i, e.r>>
           /\ UNCHANGED <<starts, ends, phase>>
  /\ HookOk(e)

Init == l = 1 /\ b = 0 /\ k = 0 /\ phase = "record" /\ out = PT!NoOut

Next == /\ l <= NRec
        /\ LET e == Rec[l] IN Build(e) \/ Query(e)
        /\ l' = l + 1

Spec == Init /\ [][Next]_vars
=============================================================================
