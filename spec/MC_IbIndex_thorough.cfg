CONSTANTS W = 3  MaxWords = 5
SPECIFICATION Spec
INVARIANT Inv
CHECK_DEADLOCK FALSE
