"""Shared driver library for the /verif checks (see DESIGN.md §2.3).

Every check module `checks/cNN.py` exposes `run(ctx)`; the `check` script creates the
Ctx, calls run, writes evidence/<id>.json and maps the outcome to the exit-code contract:

  0  property held on everything explored (KNOWN-FINDING lines may be printed)
  1  VIOLATION property=<id> replay=<path>  printed on stdout
  2  tool error / timeout (never reported as violation or success)
"""
import hashlib
import json
import os
import random
import re
import shutil
import subprocess
import sys
import time

VERIF = os.path.dirname(os.path.dirname(os.path.abspath(__file__)))
REPO = os.environ.get("VERIF_REPO", "/repo")
SPEC = os.path.join(VERIF, "spec")
HARNESS = os.path.join(VERIF, "harness")
JAR = "/opt/veriftools/tla/tla2tools.jar:/opt/veriftools/tla/CommunityModules-deps.jar"


def build_root():
    """Build output root.  A non-default VERIF_REPO (development: scratch worktree with a
    seeded change) gets its own build tree so it never pollutes /repo's incremental state."""
    if REPO == "/repo":
        return os.path.join(VERIF, ".build")
    h = hashlib.sha1(REPO.encode()).hexdigest()[:10]
    return os.environ.get("VERIF_ALT_BUILD", "/tmp/verif-alt-build") + "-" + h


class ToolError(Exception):
    pass


class Violation(Exception):
    def __init__(self, msg, replay=None):
        super().__init__(msg)
        self.replay = replay


def log(*a):
    print(*a, file=sys.stderr, flush=True)


def sh(cmd, timeout=None, env=None, cwd=None, check=True, capture=True, input=None):
    t0 = time.time()
    e = dict(os.environ)
    if env:
        e.update(env)
    try:
        p = subprocess.run(cmd, cwd=cwd, env=e, timeout=timeout, input=input,
                           stdout=subprocess.PIPE if capture else None,
                           stderr=subprocess.STDOUT if capture else None)
    except subprocess.TimeoutExpired:
        raise ToolError("timeout after %ss: %s" % (timeout, " ".join(map(str, cmd))[:300]))
    out = p.stdout.decode("utf-8", "replace") if capture and p.stdout is not None else ""
    if check and p.returncode != 0:
        raise ToolError("command failed (%d): %s\n%s" % (p.returncode, " ".join(map(str, cmd))[:300], out[-4000:]))
    return p.returncode, out, time.time() - t0


# --------------------------------------------------------------------------------------
# building the harness / the CLI from /repo's current working tree
# --------------------------------------------------------------------------------------

def _harness_dir():
    """The harness crate has `path = "/repo"`; for an alternative repo make a rewritten copy."""
    if REPO == "/repo":
        return HARNESS
    d = os.path.join(build_root(), "harness")
    os.makedirs(d, exist_ok=True)
    for name in ("Cargo.toml", "Cargo.lock"):
        s = open(os.path.join(HARNESS, name)).read()
        if name == "Cargo.toml":
            s = s.replace('path = "/repo"', 'path = "%s"' % REPO)
        _write_if_changed(os.path.join(d, name), s)
    os.makedirs(os.path.join(d, ".cargo"), exist_ok=True)
    _write_if_changed(os.path.join(d, ".cargo", "config.toml"),
                      '[net]\noffline = true\n[build]\ntarget-dir = "../target"\n')
    src = os.path.join(d, "src")
    if os.path.islink(src) or os.path.exists(src):
        if os.path.islink(src):
            os.unlink(src)
        else:
            shutil.rmtree(src)
    os.symlink(os.path.join(HARNESS, "src"), src)
    return d


def _write_if_changed(path, s):
    if os.path.exists(path) and open(path).read() == s:
        return
    with open(path, "w") as f:
        f.write(s)


_built = {}


def cargo_env():
    return {"CARGO_NET_OFFLINE": "true", "CARGO_TERM_COLOR": "never"}


def harness_bin(name, features=(), timeout=1500):
    """Build harness binary `name` with the given cargo features; returns the path of a
    private copy (binaries of different feature sets share target/debug/<name>)."""
    feats = tuple(sorted(features))
    key = (name, feats)
    if key in _built:
        return _built[key]
    d = _harness_dir()
    if REPO == "/repo":
        target = os.path.join(VERIF, ".build", "target")
    else:
        target = os.path.join(build_root(), "target")
    cmd = ["cargo", "build", "--offline", "--bin", name]
    if feats:
        cmd += ["--features", ",".join(feats)]
    t0 = time.time()
    rc, out, _ = sh(cmd, cwd=d, env=cargo_env(), timeout=timeout, check=False)
    if rc != 0:
        raise ToolError("cargo build of harness bin %s failed:\n%s" % (name, out[-6000:]))
    src = os.path.join(target, "debug", name)
    bindir = os.path.join(build_root(), "bin")
    os.makedirs(bindir, exist_ok=True)
    dst = os.path.join(bindir, name + ("-" + "-".join(feats) if feats else ""))
    shutil.copy2(src, dst + ".tmp")
    os.replace(dst + ".tmp", dst)
    log("[build] %s features=%s %.1fs" % (name, ",".join(feats) or "-", time.time() - t0))
    _built[key] = dst
    return dst


def cli_bin(hooks=True, timeout=2400):
    """Build the `succinctly` CLI from the repo working tree (features cli[,verif-hooks])."""
    key = ("cli", hooks)
    if key in _built:
        return _built[key]
    target = os.path.join(build_root(), "cli-target")
    feats = "cli,verif-hooks" if hooks else "cli"
    cmd = ["cargo", "build", "--offline", "--manifest-path", os.path.join(REPO, "Cargo.toml"),
           "--features", feats, "--bin", "succinctly", "--target-dir", target]
    t0 = time.time()
    rc, out, _ = sh(cmd, env=cargo_env(), timeout=timeout, check=False)
    if rc != 0:
        raise ToolError("cargo build of CLI failed:\n%s" % out[-6000:])
    p = os.path.join(target, "debug", "succinctly")
    log("[build] cli features=%s %.1fs" % (feats, time.time() - t0))
    _built[key] = p
    return p


# --------------------------------------------------------------------------------------
# TLC
# --------------------------------------------------------------------------------------

class TlcResult:
    def __init__(self, rc, out, wall):
        self.rc = rc
        self.out = out
        self.wall = wall
        m = re.search(r"(\d+) states generated, (\d+) distinct states found", out)
        self.generated = int(m.group(1)) if m else 0
        self.distinct = int(m.group(2)) if m else 0
        ms = re.findall(r"(\d+) states generated, (\d+) distinct states found", out)
        if ms:
            self.generated, self.distinct = int(ms[-1][0]), int(ms[-1][1])
        self.violated = re.findall(r"Invariant (\S+) is violated", out) + \
            re.findall(r"Action property (\S+) is violated", out) + \
            (["<temporal>"] if "Temporal properties were violated" in out else [])
        self.completed = "Model checking completed. No error has been found." in out
        self.error = ("Error:" in out) and not self.completed
        m = re.search(r"The depth of the complete state graph search is (\d+)", out)
        self.depth = int(m.group(1)) if m else 0

    def printed(self, tag):
        """Values printed with PrintT(<<"tag", ...>>) — returns the raw lines."""
        return [ln for ln in self.out.splitlines() if ln.startswith('<<"%s"' % tag)]


_tlc_seq = [0]


def tlc(ctx, tla, cfg, workers=8, timeout=900, env=None, simulate=None, depth=None, xmx="4g",
        xss=None, deque=False, extra=(), seed=None, cwd=None):
    """Run TLC on SPEC/<tla> with config SPEC/<cfg>.  Returns TlcResult (rc is not checked)."""
    _tlc_seq[0] += 1
    meta = os.path.join(ctx.work, "tlc-meta-%d-%d" % (os.getpid(), _tlc_seq[0]))
    jopts = ["-XX:+UseParallelGC", "-Xmx" + xmx]
    if xss:
        jopts.append("-Xss" + xss)
    if deque:
        jopts.append("-Dtlc2.tool.queue.IStateQueue=StateDeque")
    cmd = ["java"] + jopts + ["-cp", JAR, "tlc2.TLC", "-workers", str(workers), "-metadir", meta,
                              "-cleanup", "-noGenerateSpecTE", "-config", cfg]
    if simulate:
        cmd += ["-simulate", simulate]
    if depth:
        cmd += ["-depth", str(depth)]
    if seed is not None:
        cmd += ["-seed", str(seed)]
    cmd += list(extra) + [tla]
    e = {}
    if env:
        e.update({k: str(v) for k, v in env.items()})
    t0 = time.time()
    try:
        rc, out, _ = sh(cmd, cwd=cwd or SPEC, env=e, timeout=timeout, check=False)
    finally:
        shutil.rmtree(meta, ignore_errors=True)
    res = TlcResult(rc, out, time.time() - t0)
    res.cmd = " ".join(cmd)
    ctx.tlc_cmds.append(res.cmd + ("   [env " + " ".join("%s=%s" % kv for kv in e.items()) + "]" if e else ""))
    if "Parsing or semantic analysis failed" in out or "java.lang.OutOfMemoryError" in out \
            or "StackOverflowError" in out or "Error: TLC threw an unexpected exception" in out:
        if not res.violated:
            raise ToolError("TLC failed on %s/%s:\n%s" % (tla, cfg, out[-5000:]))
    return res


def model_check(ctx, tla, cfg, workers=8, timeout=900, **kw):
    """Model-check a bounded instance; a violated invariant of the MODEL is a tool-level
    problem of the specification itself (the design is wrong or the spec is), reported as a
    tool error: the model stage never decides the property for the code."""
    r = tlc(ctx, tla, cfg, workers=workers, timeout=timeout, **kw)
    if not r.completed:
        raise ToolError("model check %s/%s did not complete cleanly (violated=%s):\n%s" %
                        (tla, cfg, r.violated, r.out[-5000:]))
    ctx.cov["states"] = ctx.cov.get("states", 0) + r.distinct
    ctx.cov["transitions"] = ctx.cov.get("transitions", 0) + r.generated
    ctx.stage("model %s/%s" % (tla, cfg), r.wall, states=r.distinct, transitions=r.generated, depth=r.depth)
    return r


def validate_trace(ctx, tla, cfg, trace_path, timeout=900, env=None, xmx="4g"):
    """Trace validation (impl -> spec).  The trace spec prints
       <<"VERIF_TRACE", matched, total>> from its POSTCONDITION.
    Returns (matched, total)."""
    e = {"TRACE": trace_path}
    if env:
        e.update(env)
    r = tlc(ctx, tla, cfg, workers=1, timeout=timeout, env=e, xss="1g", deque=True, xmx=xmx)
    lines = r.printed("VERIF_TRACE")
    if not lines:
        raise ToolError("trace validation %s produced no verdict:\n%s" % (tla, r.out[-5000:]))
    m = re.match(r'<<"VERIF_TRACE", (-?\d+), (-?\d+)>>', lines[-1])
    if not m:
        raise ToolError("unparsable verdict: " + lines[-1])
    matched, total = int(m.group(1)), int(m.group(2))
    ctx.stage("trace %s on %s" % (tla, os.path.basename(trace_path)), r.wall, matched=matched, total=total)
    return matched, total


def read_ndjson(path):
    out = []
    with open(path) as f:
        for ln in f:
            if ln.strip():
                out.append(json.loads(ln))
    return out


def write_ndjson(path, events):
    with open(path, "w") as f:
        for e in events:
            f.write(json.dumps(e, separators=(",", ":")) + "\n")


# --------------------------------------------------------------------------------------
# known findings
# --------------------------------------------------------------------------------------

def load_known():
    out = []
    paths = [os.path.join(VERIF, "known_findings.json")]
    extra = os.environ.get("VERIF_KNOWN_EXTRA")  # development only
    if extra:
        paths.append(extra if os.path.isabs(extra) else os.path.join(VERIF, extra))
    for p in paths:
        if os.path.exists(p):
            out += json.load(open(p)).get("findings", [])
    return out


def known_match(prop, sig):
    """sig: dict describing the failing case.  A finding matches when status == "known",
    same property, and every key of its signature equals the corresponding key of sig."""
    for f in load_known():
        if f.get("status") != "known" or f.get("property") != prop:
            continue
        fs = f.get("signature", {})
        if all(sig.get(k) == v for k, v in fs.items()):
            return f
    return None


# --------------------------------------------------------------------------------------
# context / evidence
# --------------------------------------------------------------------------------------

class Ctx:
    def __init__(self, prop, tier, seed, level):
        self.prop = prop
        self.tier = tier
        self.seed = seed
        self.level = level
        self.rng = random.Random(seed)
        self.work = os.path.join(VERIF, "work", prop)
        os.makedirs(self.work, exist_ok=True)
        self.cov = {"samples": []}
        self.stages = []
        self.tlc_cmds = []
        self.assumptions = []
        self.violations = []
        self.known_printed = set()
        self.t0 = time.time()
        self.distinct = set()

    @property
    def quick(self):
        return self.tier == "quick"

    def path(self, name):
        return os.path.join(self.work, name)

    def stage(self, name, wall, **kw):
        d = {"stage": name, "wall_s": round(wall, 2)}
        d.update(kw)
        self.stages.append(d)
        log("[%s] %s %s" % (self.prop, name, json.dumps({k: v for k, v in d.items() if k != "stage"})))

    def sample(self, s, limit=6):
        if len(self.cov["samples"]) < limit:
            self.cov["samples"].append(s)

    def add(self, key, n=1):
        self.cov[key] = self.cov.get(key, 0) + n

    def note_distinct(self, key):
        self.distinct.add(key if isinstance(key, (str, int, tuple)) else json.dumps(key, sort_keys=True))

    def report(self, sig, what, replay_events=None, replay_path=None):
        """Report a failing case: KNOWN-FINDING if listed, else a violation."""
        f = known_match(self.prop, sig)
        if f is not None:
            key = json.dumps(f.get("signature"), sort_keys=True)
            if key not in self.known_printed:
                self.known_printed.add(key)
                print("KNOWN-FINDING: property=%s %s" % (self.prop, f.get("what", "")), flush=True)
            self.add("known_finding_hits")
            return False
        if replay_path is None:
            replay_path = self.path("replay-%d.json" % (len(self.violations) + 1))
            with open(replay_path, "w") as fh:
                json.dump({"property": self.prop, "seed": self.seed, "tier": self.tier, "signature": sig,
                           "what": what, "events": replay_events}, fh, indent=1)
        with open(replay_path + ".meta.json", "w") as fh:
            json.dump({"property": self.prop, "seed": self.seed, "tier": self.tier, "signature": sig, "what": what}, fh)
        self.violations.append({"sig": sig, "what": what, "replay": replay_path})
        print("VIOLATION property=%s replay=%s" % (self.prop, replay_path), flush=True)
        log("[%s] VIOLATION: %s  sig=%s" % (self.prop, what, json.dumps(sig)[:500]))
        return True

    def write_evidence(self, status):
        cov = dict(self.cov)
        if "distinct_nontrivial" not in cov and self.distinct:
            cov["distinct_nontrivial"] = len(self.distinct)
        cov["stages"] = self.stages
        cov["tlc_cmds"] = self.tlc_cmds[:12]
        cov["status"] = status
        ev = {
            "property_id": self.prop,
            "tier": self.tier,
            "seed": self.seed,
            "level": self.level,
            "coverage": cov,
            "assumptions": self.assumptions,
            "wall_s": round(time.time() - self.t0, 2),
            "violations": len(self.violations),
        }
        os.makedirs(os.path.join(VERIF, "evidence"), exist_ok=True)
        p = os.path.join(VERIF, "evidence", self.prop + ".json")
        with open(p + ".tmp", "w") as f:
            json.dump(ev, f, indent=1)
        os.replace(p + ".tmp", p)


# --------------------------------------------------------------------------------------
# generic trace-validation loop with known-finding skipping and binding self-test
# --------------------------------------------------------------------------------------

def check_trace(ctx, tla, cfg, trace_path, sig_of, group_key=None, timeout=900, selftest=True,
                result_field="r", env=None, max_rounds=12, xmx="4g", selftest_filter=None):
    """Validate `trace_path` against the trace spec.  On rejection at event k:
       sig_of(event, events, k) gives the signature; if it is a known finding the offending
       event is dropped (together with every later event with the same signature) and the
       rest of the trace is validated; otherwise a VIOLATION is reported with the prefix.
    Returns number of events validated."""
    events = read_ndjson(trace_path)
    total_validated = 0
    cur = events
    cur_path = trace_path
    rounds = 0
    while True:
        rounds += 1
        matched, total = validate_trace(ctx, tla, cfg, cur_path, timeout=timeout, env=env, xmx=xmx)
        if total != len(cur):
            raise ToolError("trace length mismatch: TLC saw %d, file has %d" % (total, len(cur)))
        if matched >= total:
            total_validated = total
            break
        bad = cur[matched]
        sig = sig_of(bad, cur, matched)
        ctx_events = _context(cur, matched, group_key)
        if known_match(ctx.prop, sig) is not None and rounds < max_rounds:
            ctx.report(sig, "")
            same = json.dumps(sig, sort_keys=True)
            cur = [e for i, e in enumerate(cur)
                   if not (i >= matched and json.dumps(sig_of(e, cur, i), sort_keys=True) == same)]
            cur_path = ctx.path("trace-minus-known-%d.ndjson" % rounds)
            write_ndjson(cur_path, cur)
            continue
        rp = ctx.path("replay-%d.ndjson" % (len(ctx.violations) + 1))
        write_ndjson(rp, ctx_events)
        ctx.report(sig, "trace event %d rejected by %s: %s" % (matched + 1, tla, json.dumps(bad)[:600]),
                   replay_path=rp)
        total_validated = matched
        break
    ctx.add("traces_validated_against_impl", 1)
    ctx.add("trace_events_validated", total_validated)
    if selftest and not ctx.violations:
        binding_selftest(ctx, tla, cfg, cur, result_field, group_key, timeout, env, selftest_filter)
    return total_validated


def _context(events, k, group_key):
    """Prefix needed to replay event k: with a group_key (e.g. the 'build' event that opens a
    group) only the group's opening event up to k; otherwise everything up to k."""
    if group_key is None:
        return events[:k + 1]
    start = 0
    for i in range(k, -1, -1):
        if group_key(events[i]):
            start = i
            break
    return events[start:k + 1]


def binding_selftest(ctx, tla, cfg, events, result_field, group_key, timeout, env, selftest_filter=None):
    """Corrupt one recorded result and require the trace spec to reject exactly there.
    A spec that accepts the corrupted trace is vacuous for that field: tool error.
    selftest_filter(event) restricts the candidates to events in which `result_field` really
    is a RESULT (in some event kinds the same name is an argument)."""
    cands = [i for i, e in enumerate(events) if isinstance(e.get(result_field), int) and not isinstance(e.get(result_field), bool)
             and (selftest_filter is None or selftest_filter(e))]
    if not cands:
        ctx.cov["binding_selftest"] = "no integer result field to corrupt"
        return
    k = ctx.rng.choice(cands)
    pref = [dict(e) for e in _context(events, k, group_key)]
    pref[-1][result_field] = pref[-1][result_field] + 1
    p = ctx.path("selftest.ndjson")
    write_ndjson(p, pref)
    matched, total = validate_trace(ctx, tla, cfg, p, timeout=timeout, env=env)
    ok = (matched == total - 1)
    ctx.cov["binding_selftest"] = {"corrupted_event": pref[-1], "rejected_at": matched + 1, "expected": total, "ok": ok}
    if not ok:
        raise ToolError("binding self-test failed: corrupted result accepted or rejected elsewhere "
                        "(matched=%d total=%d) for %s" % (matched, total, json.dumps(pref[-1])[:400]))
