//! C21 — DSV rows and fields follow quote-aware splitting.
//!
//! usage: c21 record <out.ndjson> seed=N texts=N
//!        c21 replay <gen.ndjson> <mismatch.ndjson>
//!
//! record events (validated by spec/Trace_Dsv.tla):
//!   {"e":"text","fam":..,"via":"parse|ref","d":..,"q":..,"n":..,"b":[bytes]}      opens a group
//!   {"e":"rows","rows":[[field bytes..]..],"r":number of rows}                     Dsv::rows() x DsvRow::fields()
//!   {"e":"row","n":row (-1 huge),"some":0|1,"fields":[[bytes]..],"r":#fields|-1}   Dsv::row(n) then fields()
//!   {"e":"get","via":"row|iter","n":row,"i":col (-1 huge),"some":0|1,"f":[bytes],"r":len|-1}   DsvRow::get(i)
//!   {"e":"cur","op":"new|nf|nr|goto","a":arg,"ok":0|1,"end":0|1,"f":[current_field bytes],"r":position}
//! a panic of the code under test is r = -2.
//!
//! replay: every class string printed by spec/Gen_Dsv.tla under several configurations:
//! iteration, row(n) and get(i) for all indices incl. out of range, on the text and -- when
//! the append lemma applies -- on text + newline; prints one line per mismatch.
#[path = "dsv_common/mod.rs"]
mod common;
use common::*;
use succinctly::dsv::{build_index_scalar, Dsv, DsvCursor, DsvRow, DsvRows};
use verif_harness::*;

fn gen_text(r: &mut Rng, c: &Cfg, fam: u64) -> Vec<u8> {
    let mut t = vec![];
    match fam {
        0 => {
            let len = r.below(14) as usize;
            soup(r, c, len, 28, 14, 24, &mut t);
        }
        1 => {
            let len = r.range(10, 60) as usize;
            soup(r, c, len, 18, 6, 14, &mut t);
        }
        2 | 3 => {
            // CSV-like: rows of plain / quoted / empty fields
            let others = c.others();
            let rows = r.range(1, 6);
            for _ in 0..rows {
                let nf = r.range(1, 5);
                for f in 0..nf {
                    if f > 0 {
                        t.push(c.d);
                    }
                    match r.below(5) {
                        0 => {}
                        1 => {
                            t.push(c.q);
                            for _ in 0..r.below(10) {
                                match r.below(7) {
                                    0 => t.push(c.d),
                                    1 => t.push(c.n),
                                    2 => {
                                        t.push(c.q);
                                        t.push(c.q);
                                    }
                                    _ => t.push(*r.pick(&others)),
                                }
                            }
                            t.push(c.q);
                        }
                        _ => {
                            for _ in 0..r.range(1, 6) {
                                t.push(*r.pick(&others));
                            }
                        }
                    }
                }
                t.push(c.n);
            }
            match r.below(4) {
                0 => {
                    t.pop(); // no final separator
                }
                1 => {
                    t.pop();
                    t.push(c.d); // ends with a delimiter: trailing empty field, no final separator
                }
                _ => {}
            }
        }
        4 => {
            // long fields: whole 64-byte index words without any marker (issue #196 territory)
            let others = c.others();
            let o = *r.pick(&others);
            for _ in 0..r.range(1, 4) {
                for f in 0..r.range(1, 3) {
                    if f > 0 {
                        t.push(c.d);
                    }
                    let n = *r.pick(&[0usize, 1, 62, 63, 64, 65, 127, 128, 130, 200]);
                    t.extend(std::iter::repeat(o).take(n));
                }
                t.push(c.n);
            }
            if r.coin() {
                t.pop();
            }
        }
        5 => {
            // only separators / only delimiters / mixtures of empty rows and fields
            let len = r.range(1, 8) as usize;
            for _ in 0..len {
                t.push(if r.chance(2, 3) { c.n } else { c.d });
            }
        }
        _ => {
            // unbalanced quote somewhere
            let len = r.range(3, 30) as usize;
            soup(r, c, len, 25, 0, 25, &mut t);
            let p = r.below(len as u64) as usize;
            t[p] = c.q;
        }
    }
    t
}

fn collect_rows<'a>(rows: DsvRows<'a>) -> Vec<Vec<&'a [u8]>> {
    rows.map(|row| row.fields().collect()).collect()
}

fn rows_json(rows: &[Vec<&[u8]>]) -> Value {
    Value::Array(rows.iter().map(|fs| fields_json(fs)).collect())
}

fn b01(b: bool) -> i32 {
    i32::from(b)
}

fn exercise(tr: &mut Trace, r: &mut Rng, c: &Cfg, fam: u64, text: &[u8]) {
    let via_ref = r.chance(1, 4);
    tr.emit(json!({"e":"text","fam":fam,"via": if via_ref { "ref" } else { "parse" },
                   "d":c.d,"q":c.q,"n":c.n,"b":bytes_json(text)}));
    let cfg = c.dsv();
    // two ways to the same API: owned Dsv (dispatching index builder) or DsvRef over a scalar index
    let (owned, sidx) = match guarded(|| (Dsv::parse_with_config(text, &cfg), build_index_scalar(text, &cfg))) {
        Ok(x) => x,
        Err(_) => {
            tr.emit(json!({"e":"rows","rows":[],"r":-2}));
            return;
        }
    };
    let dref = succinctly::dsv::DsvRef::new(text, &sidx);
    let rows_iter = || if via_ref { dref.rows() } else { owned.rows() };
    let row_at = |n: usize| if via_ref { dref.row(n) } else { owned.row(n) };
    let cursor = || if via_ref { dref.cursor() } else { owned.cursor() };

    // iteration
    let rows = guarded(|| collect_rows(rows_iter()));
    let nrows = match &rows {
        Ok(rs) => {
            tr.emit(json!({"e":"rows","rows":rows_json(rs),"r":rs.len()}));
            rs.len()
        }
        Err(_) => {
            tr.emit(json!({"e":"rows","rows":[],"r":-2}));
            0
        }
    };
    let true_rows = nrows.max(text.iter().filter(|b| **b == c.n).count() + 1);
    // random access to rows, all indices incl. out of range
    let mut ns: Vec<u64> = (0..(true_rows as u64 + 2)).collect();
    ns.push(u64::MAX);
    ns.push(1 << 32);
    for &n in &ns {
        let res = guarded(|| row_at(n as usize).map(|row| row.fields().collect::<Vec<&[u8]>>()));
        match res {
            Ok(Some(fs)) => tr.emit(json!({"e":"row","n":clamp_i(n),"some":1,"fields":fields_json(&fs),"r":fs.len()})),
            Ok(None) => tr.emit(json!({"e":"row","n":clamp_i(n),"some":0,"fields":[],"r":-1})),
            Err(_) => tr.emit(json!({"e":"row","n":clamp_i(n),"some":0,"fields":[],"r":-2})),
        }
    }
    // column access on every row, reached both ways
    let maxcol = text.iter().filter(|b| **b == c.d).count() as u64 + 2;
    let emit_get = |tr: &mut Trace, via: &str, n: usize, row: &DsvRow| {
        let mut cols: Vec<u64> = (0..maxcol.min(12)).collect();
        cols.push(u64::MAX);
        for &i in &cols {
            match guarded(|| row.get(i as usize)) {
                Ok(Some(f)) => tr.emit(json!({"e":"get","via":via,"n":n,"i":clamp_i(i),"some":1,"f":bytes_json(f),"r":f.len()})),
                Ok(None) => tr.emit(json!({"e":"get","via":via,"n":n,"i":clamp_i(i),"some":0,"f":[],"r":-1})),
                Err(_) => tr.emit(json!({"e":"get","via":via,"n":n,"i":clamp_i(i),"some":0,"f":[],"r":-2})),
            }
        }
    };
    for n in 0..true_rows + 1 {
        if let Ok(Some(row)) = guarded(|| row_at(n)) {
            emit_get(tr, "row", n, &row);
        }
    }
    if let Ok(rs) = guarded(|| rows_iter().collect::<Vec<DsvRow>>()) {
        for (n, row) in rs.iter().enumerate() {
            emit_get(tr, "iter", n, row);
        }
    }
    // cursor walks
    for _ in 0..2 {
        let mut cur: DsvCursor = cursor();
        // (a panic inside at_end / current_field / position is data too: r = -2)
        let snap = |cur: &DsvCursor| {
            guarded(|| (b01(cur.at_end()), bytes_json(cur.current_field()), cur.position() as i64))
                .unwrap_or((0, json!([]), -2))
        };
        let (end, f, pos) = snap(&cur);
        tr.emit(json!({"e":"cur","op":"new","a":0,"ok":0,"end":end,"f":f,"r":pos}));
        if pos == -2 {
            continue;
        }
        for _ in 0..r.range(2, 9) {
            let (op, a, res) = match r.below(7) {
                0 | 1 | 2 => ("nf", 0u64, guarded(|| cur.next_field())),
                3 | 4 => ("nr", 0, guarded(|| cur.next_row())),
                _ => {
                    let n = if r.chance(1, 10) { u64::MAX } else { r.below(true_rows as u64 + 2) };
                    ("goto", n, guarded(|| cur.goto_row(n as usize)))
                }
            };
            match res {
                Ok(ok) => {
                    let (end, f, pos) = snap(&cur);
                    tr.emit(json!({"e":"cur","op":op,"a":clamp_i(a),"ok":b01(ok),"end":end,"f":f,"r":pos}));
                    if pos == -2 {
                        break;
                    }
                }
                Err(_) => {
                    tr.emit(json!({"e":"cur","op":op,"a":clamp_i(a),"ok":0,"end":0,"f":[],"r":-2}));
                    break;
                }
            }
        }
    }
}

fn record(args: &Args) {
    let mut r = Rng::new(args.seed());
    let texts = args.u64("texts", 200);
    let mut tr = Trace::create(&args.pos[1]);
    for i in 0..texts {
        let c = cfg_for(i % 24, &mut r);
        let fam = r.below(7);
        let text = gen_text(&mut r, &c, fam);
        exercise(&mut tr, &mut r, &c, fam, &text);
        // the same text with a record separator appended (with and without final newline)
        let mut t2 = text.clone();
        t2.push(c.n);
        exercise(&mut tr, &mut r, &c, fam + 100, &t2);
    }
    let n = tr.finish();
    println!("{{\"events\":{n}}}");
}

fn arr_u64(v: &Value) -> Vec<u64> {
    v.as_array().map(|a| a.iter().map(|x| x.as_u64().unwrap()).collect()).unwrap_or_default()
}

/// expected rows of a behaviour as byte vectors
fn expected_rows(b: &Value, text: &[u8]) -> Vec<Vec<Vec<u8>>> {
    b["rows"]
        .as_array()
        .unwrap()
        .iter()
        .map(|row| {
            row.as_array()
                .unwrap()
                .iter()
                .map(|sp| {
                    let s = sp[0].as_u64().unwrap() as usize;
                    let e = sp[1].as_u64().unwrap() as usize;
                    text[s..e].to_vec()
                })
                .collect()
        })
        .collect()
}

fn opt_json(f: &Option<Vec<u8>>) -> Value {
    match f {
        Some(b) => json!({"some":1,"f":bytes_json(b)}),
        None => json!({"some":0,"f":[]}),
    }
}

fn replay(args: &Args) {
    let beh = read_ndjson(&args.pos[1]);
    let mut out = Trace::create(&args.pos[2]);
    let mut r = Rng::new(args.seed());
    let cfgs: Vec<Cfg> = vec![STOCK[0], STOCK[1], STOCK[3], Cfg { d: 0x00, q: 0x80, n: 0xFF }, seeded_cfg(&mut r)];
    let mut cases = 0u64;
    let mut calls = 0u64;
    for b in &beh {
        let cls = arr_u64(&b["cls"]);
        let balanced = cls.iter().filter(|k| **k == 2).count() % 2 == 0;
        for (ci, c) in cfgs.iter().enumerate() {
            let others = c.others();
            let o = others[(ci * 5 + cls.len()) % others.len()];
            let base: Vec<u8> = cls.iter().map(|&k| c.class_byte(k, o)).collect();
            // the text itself, and (append lemma) text + newline with the SAME expected rows
            let mut variants: Vec<(Vec<u8>, &str)> = vec![(base.clone(), "text")];
            if !base.is_empty() && balanced && *cls.last().unwrap() != 3 {
                let mut t2 = base.clone();
                t2.push(c.n);
                variants.push((t2, "text+nl"));
            }
            for (text, vname) in &variants {
                cases += 1;
                let exp = expected_rows(b, text);
                let parsed = guarded(|| Dsv::parse_with_config(text, &c.dsv()));
                let mut bad = |api: &str, n: i64, i: i64, got: Value, want: Value| {
                    if out.n < 500_000 {
                        out.emit(json!({"api":api,"variant":vname,"d":c.d,"q":c.q,"nl":c.n,"cls":cls,"text":bytes_json(text),
                                        "n":n,"i":i,"got":got,"want":want}));
                    } else {
                        out.n += 1;
                    }
                };
                let exp_json = Value::Array(
                    exp.iter().map(|row| Value::Array(row.iter().map(|f| bytes_json(f)).collect())).collect());
                let dsv = match parsed {
                    Ok(d) => d,
                    Err(_) => {
                        bad("rows", -1, -1, json!("PANIC"), exp_json.clone());
                        continue;
                    }
                };
                // iteration
                calls += 1;
                match guarded(|| collect_rows(dsv.rows())) {
                    Ok(rs) => {
                        let got: Vec<Vec<Vec<u8>>> = rs.iter().map(|fs| fs.iter().map(|f| f.to_vec()).collect()).collect();
                        if got != exp {
                            bad("rows", -1, -1, rows_json(&rs), exp_json.clone());
                        }
                    }
                    Err(_) => bad("rows", -1, -1, json!("PANIC"), exp_json.clone()),
                }
                // random access
                for n in 0..exp.len() + 2 {
                    calls += 1;
                    let want_row: Option<&Vec<Vec<u8>>> = exp.get(n);
                    let got = guarded(|| dsv.row(n).map(|row| row.fields().map(|f| f.to_vec()).collect::<Vec<Vec<u8>>>()));
                    let want_json = match want_row {
                        Some(row) => json!({"some":1,"fields":Value::Array(row.iter().map(|f| bytes_json(f)).collect())}),
                        None => json!({"some":0,"fields":[]}),
                    };
                    match got {
                        Ok(g) => {
                            if g.as_ref() != want_row {
                                let gj = match &g {
                                    Some(row) => json!({"some":1,"fields":Value::Array(row.iter().map(|f| bytes_json(f)).collect())}),
                                    None => json!({"some":0,"fields":[]}),
                                };
                                bad("row", n as i64, -1, gj, want_json);
                            }
                        }
                        Err(_) => bad("row", n as i64, -1, json!("PANIC"), want_json),
                    }
                    if let (Some(want), Ok(Some(row))) = (want_row, guarded(|| dsv.row(n))) {
                        for i in 0..want.len() + 2 {
                            calls += 1;
                            let w: Option<Vec<u8>> = want.get(i).cloned();
                            match guarded(|| row.get(i).map(|f| f.to_vec())) {
                                Ok(g) => {
                                    if g != w {
                                        bad("get", n as i64, i as i64, opt_json(&g), opt_json(&w));
                                    }
                                }
                                Err(_) => bad("get", n as i64, i as i64, json!("PANIC"), opt_json(&w)),
                            }
                        }
                    }
                }
            }
        }
    }
    let n = out.finish();
    println!("{{\"behaviours\":{},\"cases\":{cases},\"calls\":{calls},\"mismatches\":{n}}}", beh.len());
}

fn main() {
    let args = Args::parse();
    silence_panics();
    match args.pos.first().map(|s| s.as_str()) {
        Some("record") if args.pos.len() >= 2 => record(&args),
        Some("replay") if args.pos.len() >= 3 => replay(&args),
        _ => die("usage: c21 record <out> seed=N texts=N | c21 replay <gen.ndjson> <mismatches.ndjson>"),
    }
}
